(** Property C10: a PBE solver returns the first enumerated program consistent
    with all examples.  Statements only; proofs are in Sem/SolverProofs.v.
    Generic in the DSL semantics [vapp]/[prim_value], the skip set, the
    equality [veq] comparing a result with the expected output, and stated for
    a clock that never fires ([timed_out k = false]: the wall clock is outside
    the property).  [kind] ranges over Naive and Cutoff (NaivePinned is the
    naive test before repair C10-1, kept only for the refutation below). *)
From Coq Require Import NArith List Bool Sorted.
From PS Require Import Base.Value Base.Prog Sem.Semantics Sem.Eval Sem.EvalProofs Sem.Solver Sem.SolverProofs.
Import ListNotations.

(** The events seen by the caller (yielded program index / StopIteration /
    escaping exception), one per next()/send(), under any answer sequence,
    are those of the protocol specification: the passing programs in order,
    cut after the first accepted one. *)
Theorem C10_yields : forall vapp prim_value skip veq timed_out,
  (forall k, timed_out k = false) ->
  forall kind exs progs s answers,
    fst (run_task vapp prim_value skip veq timed_out kind exs progs s answers) =
    spec_events vapp prim_value skip veq kind exs progs answers.
Proof. exact run_task_events. Qed.
Print Assumptions C10_yields.

(** The list of candidates used by the specification contains index i exactly
    when program i satisfies every example (never a failing one, never a
    passing one skipped), as long as no earlier program made the test raise. *)
Theorem C10_passing_exactly : forall vapp prim_value skip veq kind exs progs i,
  kind <> NaivePinned ->
  (In i (fst (scan vapp prim_value skip veq kind exs 0 progs)) <->
   exists p, nth_error progs i = Some p /\ passes vapp prim_value skip veq p exs = true /\
             no_exc_before vapp prim_value skip veq kind exs progs i).
Proof. exact scan_passing. Qed.
Print Assumptions C10_passing_exactly.

(** In enumeration order. *)
Theorem C10_order : forall vapp prim_value skip veq kind exs progs,
  StronglySorted lt (fst (scan vapp prim_value skip veq kind exs 0 progs)).
Proof. intros. apply scan_sorted. Qed.
Print Assumptions C10_order.

(** Answering True stops the search for good ... *)
Theorem C10_stop : forall i more final rs,
  protocol (i :: more) final (true :: rs) = Yield i :: repeat Stop (S (length rs)).
Proof. exact protocol_stop. Qed.
Print Assumptions C10_stop.

(** ... answering False (or plain next()) resumes it at the next passing program ... *)
Theorem C10_resume : forall i more final rs,
  protocol (i :: more) final (false :: rs) = Yield i :: protocol more final rs.
Proof. exact protocol_resume. Qed.
Print Assumptions C10_resume.

(** ... and when no candidate is left the generator ends (StopIteration, or
    the escaping exception) and stays ended. *)
Theorem C10_exhausted : forall final rs, protocol [] final rs = final :: repeat Stop (length rs).
Proof. exact protocol_end. Qed.
Print Assumptions C10_exhausted.

(** Rejecting every proposal walks through all the passing programs. *)
Theorem C10_reject_all : forall final passing n, length passing <= n ->
  protocol passing final (repeat false n) = map Yield passing ++ final :: repeat Stop (n - length passing).
Proof. exact protocol_reject_all. Qed.
Print Assumptions C10_reject_all.

(** Naive and cut-off tests agree: always on "true", on every verdict when no
    evaluation raises; when the naive test raises the cut-off test raises the
    same exception or has already rejected the program. *)
Theorem C10_naive_cutoff : forall vapp prim_value skip veq p exs,
  (forall b, test vapp prim_value skip veq Naive p exs = Ok b -> test vapp prim_value skip veq Cutoff p exs = Ok b) /\
  (forall e, test vapp prim_value skip veq Cutoff p exs = Exc e -> test vapp prim_value skip veq Naive p exs = Exc e) /\
  (forall e, test vapp prim_value skip veq Naive p exs = Exc e ->
             test vapp prim_value skip veq Cutoff p exs = Exc e \/ test vapp prim_value skip veq Cutoff p exs = Ok false) /\
  (test vapp prim_value skip veq Naive p exs = Ok true <-> test vapp prim_value skip veq Cutoff p exs = Ok true).
Proof. exact naive_cutoff_relation. Qed.
Print Assumptions C10_naive_cutoff.

Theorem C10_naive_cutoff_agree : forall vapp prim_value skip veq p exs,
  (forall ex, In ex exs -> raises vapp prim_value skip veq p ex = false) ->
  test vapp prim_value skip veq Naive p exs = test vapp prim_value skip veq Cutoff p exs.
Proof. exact naive_cutoff_agree. Qed.
Print Assumptions C10_naive_cutoff_agree.

(** Whole runs (several tasks on one solver object, any answers): identical
    events and statistics for the two solvers when no evaluation raises a
    non-skipped exception. *)
Theorem C10_naive_cutoff_runs : forall vapp prim_value skip veq timed_out,
  (forall k, timed_out k = false) ->
  forall ts s, never_raises vapp prim_value skip veq ts ->
    run_tasks vapp prim_value skip veq timed_out Naive s ts = run_tasks vapp prim_value skip veq timed_out Cutoff s ts.
Proof. exact naive_cutoff_runs. Qed.
Print Assumptions C10_naive_cutoff_runs.

(** No example at all: every program passes, for both solvers (repaired code). *)
Theorem C10_zero_examples : forall vapp prim_value skip veq p,
  test vapp prim_value skip veq Naive p [] = Ok true /\ test vapp prim_value skip veq Cutoff p [] = Ok true.
Proof. exact zero_examples. Qed.
Print Assumptions C10_zero_examples.

(** The naive test as it is before repair C10-1 divides by the number of
    examples: with none it raises ZeroDivisionError where the cut-off test accepts. *)
Theorem C10_naive_zero_examples_refuted : forall vapp prim_value skip veq p,
  test vapp prim_value skip veq NaivePinned p [] = Exc E_ZERODIV /\ test vapp prim_value skip veq Cutoff p [] = Ok true.
Proof. exact pinned_zero_examples_refuted. Qed.
Print Assumptions C10_naive_zero_examples_refuted.

(** ... and it is the repaired test on every task with at least one example. *)
Theorem C10_pinned_eq_naive : forall vapp prim_value skip veq p exs, exs <> [] ->
  test vapp prim_value skip veq NaivePinned p exs = test vapp prim_value skip veq Naive p exs.
Proof. exact pinned_eq_naive. Qed.
Print Assumptions C10_pinned_eq_naive.

(** Statistics: accepting the solution of index i (rank i+1 in the
    enumeration) adds i+1 to the number of programs; a task that ends
    otherwise adds nothing. *)
Theorem C10_stats : forall vapp prim_value skip veq timed_out,
  (forall k, timed_out k = false) ->
  forall kind exs progs s a0 replies i,
    accepted (fst (scan vapp prim_value skip veq kind exs 0 progs)) replies = Some i ->
    total (snd (run_task vapp prim_value skip veq timed_out kind exs progs s (a0 :: replies))) = total s + S i.
Proof. exact stats_accepted. Qed.
Print Assumptions C10_stats.

Theorem C10_stats_unaccepted : forall vapp prim_value skip veq timed_out,
  (forall k, timed_out k = false) ->
  forall kind exs progs s a0 replies,
    accepted (fst (scan vapp prim_value skip veq kind exs 0 progs)) replies = None ->
    total (snd (run_task vapp prim_value skip veq timed_out kind exs progs s (a0 :: replies))) = total s.
Proof. exact stats_not_accepted. Qed.
Print Assumptions C10_stats_unaccepted.

(** [accepted] is the first yield answered True. *)
Theorem C10_accepted_char : forall passing replies i,
  accepted passing replies = Some i <->
  exists j, nth_error passing j = Some i /\ nth_error replies j = Some true /\
            forall j', j' < j -> nth_error replies j' = Some false.
Proof. exact accepted_spec. Qed.
Print Assumptions C10_accepted_char.

(** Several tasks on one solver object: per task the specified events, the
    statistics accumulate. *)
Theorem C10_tasks : forall vapp prim_value skip veq timed_out,
  (forall k, timed_out k = false) ->
  forall kind ts s,
    run_tasks vapp prim_value skip veq timed_out kind s ts = spec_tasks vapp prim_value skip veq kind (total s) ts.
Proof. exact run_tasks_spec. Qed.
Print Assumptions C10_tasks.

(** A non-skippable exception escapes at exactly the first program whose test
    raises; otherwise the enumeration ends with StopIteration. *)
Theorem C10_raise : forall vapp prim_value skip veq kind exs progs,
  match snd (scan vapp prim_value skip veq kind exs 0 progs) with
  | Raise e => exists n p, nth_error progs n = Some p /\ test vapp prim_value skip veq kind p exs = Exc e /\
                           no_exc_before vapp prim_value skip veq kind exs progs n
  | Stop => no_exc_before vapp prim_value skip veq kind exs progs (length progs)
  | Yield _ => False
  end.
Proof. intros. apply scan_final. Qed.
Print Assumptions C10_raise.

(** The evaluator cache is irrelevant (by C11): a test run through the cached
    evaluator in any correct cache state gives the verdict of the reference
    semantics and leaves a correct cache. *)
Theorem C10_cache_irrelevant : forall vapp prim_value skip veq kind uc c p exs,
  cache_inv vapp prim_value skip c ->
  fst (test_cached vapp prim_value skip veq kind uc c p exs) = test vapp prim_value skip veq kind p exs /\
  cache_inv vapp prim_value skip (snd (test_cached vapp prim_value skip veq kind uc c p exs)).
Proof. exact test_cached_correct. Qed.
Print Assumptions C10_cache_irrelevant.

(** ======== RestartPBESolver (restart_pbe_solver.py) around a naive or cut-off
    sub-solver.  Model in Sem/SolverRestart.v, proofs in
    Sem/SolverRestartProofs.v.  Generic in the restart criterion [crit] (any
    function of the solver object) and in the scripted enumerations [streams]
    (stream 0: the enumerator given to solve(); stream i+1: the enumerator
    returned by the i-th clone()).  [rrun ... true] is the loop after the
    proposed repair C10b-1 (an exhausted enumeration ends the generator).
    The EFFECTIVE stream [effective_of] is the sequence of programs drawn from
    the successive enumerations when every proposal is rejected; it does not
    depend on the answers. ======== *)
From PS Require Import Sem.SolverRestart Sem.SolverRestartProofs.

(** The events seen by the caller are those of the protocol specification of
    the plain solvers over the effective stream: with C10_passing_exactly,
    C10_order, C10_stop, C10_resume, C10_exhausted, C10_reject_all and
    C10_raise (all stated for an arbitrary program list) the yielded programs
    are exactly, in order, the passing programs of the effective stream; True
    stops, False resumes at the next program. *)
Theorem C10_restart_yields : forall vapp prim_value skip veq crit timed_out,
  (forall k, timed_out k = false) ->
  forall kind exs streams s answers,
    fst (rrun vapp prim_value skip veq timed_out crit true kind exs streams s answers) =
    spec_events vapp prim_value skip veq kind exs
                (effective_of vapp prim_value skip veq crit kind exs streams s) answers.
Proof. exact restart_events. Qed.
Print Assumptions C10_restart_yields.

(** The restart solver is its sub-solver run on the effective stream. *)
Theorem C10_restart_equals_plain : forall vapp prim_value skip veq crit timed_out,
  (forall k, timed_out k = false) ->
  forall kind exs streams s sp answers,
    fst (rrun vapp prim_value skip veq timed_out crit true kind exs streams s answers) =
    fst (run_task vapp prim_value skip veq timed_out kind exs
                  (effective_of vapp prim_value skip veq crit kind exs streams s) sp answers).
Proof. exact restart_equals_plain. Qed.
Print Assumptions C10_restart_equals_plain.

(** The effective stream is the concatenation of the pieces [segments_of],
    which satisfy the declarative specification [Consumed]: piece i is a
    prefix of enumeration i made of programs at which the test does not raise
    and the criterion does not fire, closed by the first program at which the
    criterion fires (then piece i+1 is drawn from enumeration i+1, starting at
    its first program, in the solver state reached) or at which the test
    raises (then the search ends), or it is the whole enumeration. *)
Theorem C10_restart_effective : forall vapp prim_value skip veq crit kind exs streams s,
  Consumed vapp prim_value skip veq crit kind exs (hd [] streams :: tl streams) 0 (r_init s)
           (segments_of vapp prim_value skip veq crit kind exs streams s) /\
  effective_of vapp prim_value skip veq crit kind exs streams s =
  concat (segments_of vapp prim_value skip veq crit kind exs streams s).
Proof. exact effective_consumed. Qed.
Print Assumptions C10_restart_effective.

(** [Consumed] determines the pieces ... *)
Theorem C10_restart_effective_unique : forall vapp prim_value skip veq crit kind exs streams k s sg,
  Consumed vapp prim_value skip veq crit kind exs streams k s sg ->
  forall sg', Consumed vapp prim_value skip veq crit kind exs streams k s sg' -> sg = sg'.
Proof. exact consumed_unique. Qed.
Print Assumptions C10_restart_effective_unique.

(** ... and each piece is a prefix of its enumeration: nothing is skipped, in
    particular not the first program of a restarted enumeration. *)
Theorem C10_restart_pieces_are_prefixes : forall vapp prim_value skip veq crit kind exs streams k s sg,
  Consumed vapp prim_value skip veq crit kind exs streams k s sg ->
  forall i, exists rest, nth i streams [] = nth i sg [] ++ rest.
Proof. exact consumed_prefix. Qed.
Print Assumptions C10_restart_pieces_are_prefixes.

(** When the solution of index i of the effective stream is accepted: the
    'programs' statistic is its rank i+1; the 'restarts' statistic grows by
    the number of times the criterion fired on the programs before it, and
    the restarts happened right after those programs ([rcuts]); every program
    up to the solution has been drawn once and tested once, in order. *)
Theorem C10_restart_stats : forall vapp prim_value skip veq crit timed_out,
  (forall k, timed_out k = false) ->
  forall kind exs streams s a0 replies i,
    accepted (fst (scan vapp prim_value skip veq kind exs 0
                        (effective_of vapp prim_value skip veq crit kind exs streams s))) replies = Some i ->
    let s2 := snd (rrun vapp prim_value skip veq timed_out crit true kind exs streams s (a0 :: replies)) in
    let before := firstn i (effective_of vapp prim_value skip veq crit kind exs streams s) in
    rtotal s2 = S i /\
    rtotal_restarts s2 =
      rtotal_restarts s + length (fired_positions vapp prim_value skip veq crit kind exs before 0 (r_init s)) /\
    rrestarts s2 = length (fired_positions vapp prim_value skip veq crit kind exs before 0 (r_init s)) /\
    rcuts s2 = fired_positions vapp prim_value skip veq crit kind exs before 0 (r_init s) /\
    rdrawn s2 = firstn (S i) (effective_of vapp prim_value skip veq crit kind exs streams s) /\
    rtested s2 = firstn (S i) (effective_of vapp prim_value skip veq crit kind exs streams s).
Proof. exact restart_accept_stats. Qed.
Print Assumptions C10_restart_stats.

(** The whole solver object at that moment: the declarative fold over the
    programs before the solution, plus the draw and the test of the solution. *)
Theorem C10_restart_accept_state : forall vapp prim_value skip veq crit timed_out,
  (forall k, timed_out k = false) ->
  forall kind exs streams s a0 replies i,
    accepted (fst (scan vapp prim_value skip veq kind exs 0
                        (effective_of vapp prim_value skip veq crit kind exs streams s))) replies = Some i ->
    exists p, nth_error (effective_of vapp prim_value skip veq crit kind exs streams s) i = Some p /\
      snd (rrun vapp prim_value skip veq timed_out crit true kind exs streams s (a0 :: replies)) =
      r_close (r_test (r_draw (r_after_all vapp prim_value skip veq crit kind exs
                                 (firstn i (effective_of vapp prim_value skip veq crit kind exs streams s)) 0 (r_init s)) p) p).
Proof. exact restart_accept_state. Qed.
Print Assumptions C10_restart_accept_state.

(** No solution accepted: the statistics are untouched. *)
Theorem C10_restart_stats_unaccepted : forall vapp prim_value skip veq crit timed_out,
  (forall k, timed_out k = false) ->
  forall kind exs streams s a0 replies,
    accepted (fst (scan vapp prim_value skip veq kind exs 0
                        (effective_of vapp prim_value skip veq crit kind exs streams s))) replies = None ->
    rtotal (snd (rrun vapp prim_value skip veq timed_out crit true kind exs streams s (a0 :: replies))) = rtotal s /\
    rtotal_restarts (snd (rrun vapp prim_value skip veq timed_out crit true kind exs streams s (a0 :: replies))) =
    rtotal_restarts s.
Proof. exact restart_unaccepted. Qed.
Print Assumptions C10_restart_stats_unaccepted.

(** A search driven to its end (every proposal rejected): the whole effective
    stream has been drawn and tested, each program exactly once, in order; the
    number of restarts is the number of firings of the criterion. *)
Theorem C10_restart_complete : forall vapp prim_value skip veq crit timed_out,
  (forall k, timed_out k = false) ->
  forall kind exs streams s a0 replies,
    accepted (fst (scan vapp prim_value skip veq kind exs 0
                        (effective_of vapp prim_value skip veq crit kind exs streams s))) replies = None ->
    length (fst (scan vapp prim_value skip veq kind exs 0
                      (effective_of vapp prim_value skip veq crit kind exs streams s))) <= length replies ->
    let s2 := snd (rrun vapp prim_value skip veq timed_out crit true kind exs streams s (a0 :: replies)) in
    s2 = r_after_all vapp prim_value skip veq crit kind exs
                     (effective_of vapp prim_value skip veq crit kind exs streams s) 0 (r_init s) /\
    rdrawn s2 = effective_of vapp prim_value skip veq crit kind exs streams s /\
    rtested s2 = effective_of vapp prim_value skip veq crit kind exs streams s /\
    rcnt s2 = length (effective_of vapp prim_value skip veq crit kind exs streams s) /\
    rrestarts s2 = length (fired_positions vapp prim_value skip veq crit kind exs
                             (effective_of vapp prim_value skip veq crit kind exs streams s) 0 (r_init s)) /\
    rcuts s2 = fired_positions vapp prim_value skip veq crit kind exs
                 (effective_of vapp prim_value skip veq crit kind exs streams s) 0 (r_init s).
Proof. exact restart_complete. Qed.
Print Assumptions C10_restart_complete.

(** Whatever the answers and wherever the caller stops: every program drawn
    from an enumerator has been handed to the test (none is dropped). *)
Theorem C10_restart_drawn_tested : forall vapp prim_value skip veq crit timed_out,
  (forall k, timed_out k = false) ->
  forall kind exs streams s a0 replies,
    rdrawn (snd (rrun vapp prim_value skip veq timed_out crit true kind exs streams s (a0 :: replies))) =
    rtested (snd (rrun vapp prim_value skip veq timed_out crit true kind exs streams s (a0 :: replies))).
Proof. exact restart_drawn_tested. Qed.
Print Assumptions C10_restart_drawn_tested.

(** A criterion that never fires: the restart solver is its sub-solver on the
    enumerator it was given (same events, statistic = rank, no restart). *)
Theorem C10_restart_never_fires : forall vapp prim_value skip veq crit timed_out,
  (forall k, timed_out k = false) ->
  forall kind exs streams s sp answers,
    (forall s0, crit s0 = false) ->
    fst (rrun vapp prim_value skip veq timed_out crit true kind exs streams s answers) =
    fst (run_task vapp prim_value skip veq timed_out kind exs (hd [] streams) sp answers).
Proof. exact restart_never_fires. Qed.
Print Assumptions C10_restart_never_fires.

Theorem C10_restart_never_fires_stats : forall vapp prim_value skip veq crit timed_out,
  (forall k, timed_out k = false) ->
  forall kind exs streams s a0 replies i,
    (forall s0, crit s0 = false) ->
    accepted (fst (scan vapp prim_value skip veq kind exs 0 (hd [] streams))) replies = Some i ->
    rtotal (snd (rrun vapp prim_value skip veq timed_out crit true kind exs streams s (a0 :: replies))) = S i /\
    rtotal_restarts (snd (rrun vapp prim_value skip veq timed_out crit true kind exs streams s (a0 :: replies))) =
    rtotal_restarts s /\
    rrestarts (snd (rrun vapp prim_value skip veq timed_out crit true kind exs streams s (a0 :: replies))) = 0.
Proof. exact restart_never_fires_stats. Qed.
Print Assumptions C10_restart_never_fires_stats.

(** The scored tests used by the restart loop have the verdict of the tests of
    the plain solvers; the scores are what the code computes. *)
Theorem C10_restart_test : forall vapp prim_value skip veq kind p exs,
  test vapp prim_value skip veq kind p exs =
  match test_scored vapp prim_value skip veq kind p exs with Ok (b, _) => Ok b | Exc e => Exc e end.
Proof. exact test_scored_test. Qed.
Print Assumptions C10_restart_test.

Theorem C10_restart_naive_score : forall vapp prim_value skip veq p exs b sc,
  test_scored vapp prim_value skip veq Naive p exs = Ok (b, sc) ->
  b = passes vapp prim_value skip veq p exs /\
  sc = (if Nat.eqb (length exs) 0 then (1, 1)
        else (length (filter (satisfies vapp prim_value skip veq p) exs), length exs)).
Proof. exact naive_score_spec. Qed.
Print Assumptions C10_restart_naive_score.

Theorem C10_restart_cutoff_score : forall vapp prim_value skip veq p exs b sc,
  test_scored vapp prim_value skip veq Cutoff p exs = Ok (b, sc) ->
  b = passes vapp prim_value skip veq p exs /\
  sc = (if b then (1, 1) else (satisfied_prefix vapp prim_value skip veq p exs, length exs)).
Proof. exact cutoff_score_spec. Qed.
Print Assumptions C10_restart_cutoff_score.

(** The loop as it is before repair C10b-1: on an exhausted enumeration the
    generator raises RuntimeError where the plain solvers (and the repaired
    loop) end with StopIteration. *)
Theorem C10_restart_exhaustion_refuted : forall vapp prim_value skip veq crit timed_out kind exs s sp,
  fst (rrun vapp prim_value skip veq timed_out crit false kind exs [[]] s [false]) = [Raise E_RUNTIME] /\
  fst (rrun vapp prim_value skip veq timed_out crit true kind exs [[]] s [false]) = [Stop] /\
  fst (run_task vapp prim_value skip veq timed_out kind exs [] sp [false]) = [Stop].
Proof. exact pinned_exhaustion_refuted. Qed.
Print Assumptions C10_restart_exhaustion_refuted.
