(** Property C14: polymorphic primitives expand to exactly their admissible
    ground instances.  Statements only; model in Syn/Instantiate.v,
    specification in Syn/InstantiateSpec.v, proofs in Syn/InstantiateProofs.v.

    [instantiate bound syn] models DSL.instantiate_polymorphic_types(bound) on
    the syntax [syn] with the repair of proposed_fixes/C14-1.diff;
    [instantiate_pinned] models the code as pinned.  The four statements hold
    for every syntax satisfying [wf_syntax] and every bound:
      - the names are distinct (a syntax is a Mapping);
      - a type-variable name denotes one variable inside a declared type (a
        restricted variable is annotated identically at every occurrence);
      - restriction annotations list concrete types (no type variable inside,
        generics unary), possibly as sums;
      - every sum has at least two alternatives ([single_alternative_sum_kept]
        shows the hypothesis is needed: Sum(int) is left as it is);
      - every generic name is used at one arity, "list" at arity 1 (Python's
        Generic.__eq__ zips the argument lists).
    [admissible_instance syn bound p]: p = (name, drop_units u) where
    (name, t) is declared, u chooses one alternative of every sum of sigma(t),
    and sigma maps every type variable of t to a type of the universe (base
    types of the DSL, lists and lists of lists of them, one-argument functions
    between them) of size <= bound, a restricted variable to one of its
    allowed types. *)
From Coq Require Import NArith List Bool.
From PS Require Import Base.Ty Syn.Instantiate Syn.InstantiateSpec Syn.InstantiateProofs.
Import ListNotations.

(** No result is polymorphic or contains a sum. *)
Theorem C14_no_poly_no_sum : forall syn bound, wf_syntax syn ->
  forall p, In p (instantiate bound syn) -> is_polymorphic (snd p) = false /\ has_sum (snd p) = false.
Proof. exact instantiate_no_poly_no_sum. Qed.
Print Assumptions C14_no_poly_no_sum.

(** Every result is an admissible instance of the primitive of the same name. *)
Theorem C14_sound : forall syn bound, wf_syntax syn ->
  forall p, In p (instantiate bound syn) -> admissible_instance syn bound p.
Proof. exact instantiate_sound. Qed.
Print Assumptions C14_sound.

(** Every admissible instance is present, and nothing is present twice. *)
Theorem C14_complete_once : forall syn bound, wf_syntax syn ->
  (forall p, admissible_instance syn bound p -> In p (instantiate bound syn)) /\ NoDup (instantiate bound syn).
Proof. exact instantiate_complete_once. Qed.
Print Assumptions C14_complete_once.

(** Instantiating the result again changes nothing. *)
Theorem C14_idempotent : forall syn bound, wf_syntax syn ->
  instantiate bound (instantiate bound syn) = instantiate bound syn.
Proof. exact instantiate_idempotent. Qed.
Print Assumptions C14_idempotent.

(** The pinned code does not satisfy three of the statements (known findings
    c14_unit_argument_not_first, c14_duplicate_instances). *)
Theorem C14_sound_refuted : exists syn bound p, wf_syntax syn /\
  In p (instantiate_pinned bound syn) /\ ~ admissible_instance syn bound p.
Proof. exact pinned_sound_refuted. Qed.
Print Assumptions C14_sound_refuted.

Theorem C14_complete_once_refuted :
  (exists syn bound p, wf_syntax syn /\ admissible_instance syn bound p /\ ~ In p (instantiate_pinned bound syn)) /\
  (exists syn bound, wf_syntax syn /\ ~ NoDup (instantiate_pinned bound syn)).
Proof. exact pinned_complete_once_refuted. Qed.
Print Assumptions C14_complete_once_refuted.

Theorem C14_idempotent_refuted : exists syn bound, wf_syntax syn /\
  instantiate_pinned bound (instantiate_pinned bound syn) <> instantiate_pinned bound syn.
Proof. exact pinned_idempotent_refuted. Qed.
Print Assumptions C14_idempotent_refuted.
