(** Property C02 (exactly once and stops): statements only. *)
From Coq Require Import List Bool Permutation.
From PS Require Import Base.Prog Gram.Det Enum.Checker Enum.CheckerProofs.
Import ListNotations.

(** The checker applied to an enumerator's output decides "permutation of the
    language", for any duplicate-free list L of exactly the members. *)
Theorem C02_checker_sound_complete :
  forall (member : prog -> bool) (L : list prog),
    NoDup L -> (forall p, In p L <-> member p = true) ->
    forall out, check_enum member (length L) out = true <-> Permutation out L.
Proof. exact check_enum_spec. Qed.
Print Assumptions C02_checker_sound_complete.

Theorem C02_checker_exactly_once :
  forall (member : prog -> bool) (L : list prog),
    NoDup L -> (forall p, In p L <-> member p = true) ->
    forall out, check_enum member (length L) out = true <->
                NoDup out /\ (forall p, In p out <-> member p = true).
Proof. exact check_enum_exactly_once. Qed.
Print Assumptions C02_checker_exactly_once.
