(** Property C02 (exactly once and stops): statements only. *)
From Coq Require Import List Bool Permutation.
From PS Require Import Base.Prog Gram.Det Enum.Checker Enum.CheckerProofs.
Import ListNotations.

(** The checker applied to an enumerator's output decides "permutation of the
    language", for any duplicate-free list L of exactly the members. *)
Theorem C02_checker_sound_complete :
  forall (member : prog -> bool) (L : list prog),
    NoDup L -> (forall p, In p L <-> member p = true) ->
    forall out, check_enum member (length L) out = true <-> Permutation out L.
Proof. exact check_enum_spec. Qed.
Print Assumptions C02_checker_sound_complete.

Theorem C02_checker_exactly_once :
  forall (member : prog -> bool) (L : list prog),
    NoDup L -> (forall p, In p L <-> member p = true) ->
    forall out, check_enum member (length L) out = true <->
                NoDup out /\ (forall p, In p out <-> member p = true).
Proof. exact check_enum_exactly_once. Qed.
Print Assumptions C02_checker_exactly_once.

(** Algorithmic core shared by bee, beap and constant-delay search: the
    frontier expansion "increment index i, stop after the first index that
    exceeds 1".  Every non-zero index tuple has exactly one parent, a popped
    combination never pushes a successor twice, and breadth-first expansion
    from the all-zero tuple lists every tuple exactly once. *)
From PS Require Import Enum.Frontier Enum.FrontierProofs.

Theorem C02_frontier_unique_parent : forall c c', In c' (children c) <-> parent c' = Some c.
Proof. intros c c'; split; [apply children_parent|apply parent_children]. Qed.
Print Assumptions C02_frontier_unique_parent.

Theorem C02_frontier_no_duplicate_push : forall c, NoDup (children c).
Proof. exact children_nodup. Qed.
Print Assumptions C02_frontier_no_duplicate_push.

Theorem C02_frontier_generates_all : forall k n c, In c (level k n) <-> length c = k /\ tsum c = n.
Proof. exact level_complete. Qed.
Print Assumptions C02_frontier_generates_all.

Theorem C02_frontier_no_duplicates : forall k n, NoDup (level k n).
Proof. exact level_nodup. Qed.
Print Assumptions C02_frontier_no_duplicates.

(** Schedule independence (Enum/FrontierSched.v): the three enumerators pop
    the pushed combinations from a priority queue whose order depends on the
    rule weights.  Abstracting the queue to "pop ANY waiting combination, push
    its children", for every schedule of every length: no combination is ever
    pushed or popped twice, every combination has the rule's arity, no tuple
    is lost (it is waiting, popped, or below a waiting ancestor), and when the
    queue empties every tuple of the arity has been popped exactly once. *)
From PS Require Import Enum.FrontierSched.

Theorem C02_frontier_any_order_no_duplicates : forall k F P,
  wreach k (F, P) -> NoDup (F ++ P) /\ forall c, In c (F ++ P) -> length c = k.
Proof. intros k F P H; split; [exact (sched_no_duplicates k F P H)|intros c; exact (sched_arity k F P c H)]. Qed.
Print Assumptions C02_frontier_any_order_no_duplicates.

Theorem C02_frontier_any_order_nothing_lost : forall k F P, wreach k (F, P) ->
  forall c, length c = k -> In c (F ++ P) \/ exists a, anc a c /\ In a F.
Proof. exact sched_nothing_lost. Qed.
Print Assumptions C02_frontier_any_order_nothing_lost.

Theorem C02_frontier_any_order_exhaustive : forall k P, wreach k ([], P) ->
  NoDup P /\ forall c, In c P <-> length c = k.
Proof. exact sched_exhaustive. Qed.
Print Assumptions C02_frontier_any_order_exhaustive.

(** The list handed to the checker by the glue is the model's enumeration of the
    implementation's own rule table: it is duplicate-free and is exactly the set
    of members (built without empty applications, within the fuel), hence the
    verdict of a run is "the output is a permutation of that language". *)
From PS Require Import Gram.Det.
Theorem C02_language_list : forall tbl f x, table_ok tbl = true ->
  NoDup (language f tbl x) /\ forall p, In p (language f tbl x) <-> member_of f tbl x p = true.
Proof. exact language_list_ok. Qed.
Print Assumptions C02_language_list.

Theorem C02_enumeration_decided : forall tbl f x out, table_ok tbl = true ->
  check_enum (member_of f tbl x) (length (language f tbl x)) out = true <-> Permutation out (language f tbl x).
Proof. exact enumeration_decided. Qed.
Print Assumptions C02_enumeration_decided.
