(** Property C12 (filtering and merging during enumeration): statements only. *)
From Coq Require Import List Bool Permutation.
From PS Require Import Base.Prog Enum.Checker Enum.CheckerProofs.
Import ListNotations.

(** The filtered-enumeration checker decides the sandwich specification:
    nothing twice, nothing rejected or outside the language, and every program
    of the language all of whose sub-programs are accepted is there. *)
Theorem C12_checker_filter : forall member L rejected out,
  check_filtered member L rejected out = true <->
  NoDup out
  /\ (forall p, In p out -> member p = true /\ accepted rejected p = true)
  /\ (forall p, In p L -> hereditarily rejected p = true -> In p out).
Proof. exact check_filtered_spec. Qed.
Print Assumptions C12_checker_filter.

(** The same for an arbitrary deterministic filter [acc] (used for automaton
    filters, which reject every program containing a rejected sub-program). *)
Theorem C12_checker_filter_any : forall member L (acc : prog -> bool) out,
  check_filtered_gen member L acc out = true <->
  NoDup out
  /\ (forall p, In p out -> member p = true /\ acc p = true)
  /\ (forall p, In p L -> forallb acc (subterms p) = true -> In p out).
Proof. exact check_filtered_gen_spec. Qed.
Print Assumptions C12_checker_filter_any.

(** For a filter closed under sub-programs this is exactly the accepted part of the language. *)
Theorem C12_closed_filter : forall member L rejected out,
  NoDup L -> (forall p, In p L <-> member p = true) ->
  (forall p, In p L -> accepted rejected p = true -> hereditarily rejected p = true) ->
  check_filtered member L rejected out = true <-> Permutation out (filter (accepted rejected) L).
Proof. exact check_filtered_closed. Qed.
Print Assumptions C12_closed_filter.

(** Merge histories: the checker decides "duplicate-free, inside the language,
    no program containing a merged program is yielded after the merge was
    declared, and every program of the language is yielded or contains a merged program". *)
Theorem C12_checker_merge : forall member L merges out,
  check_merged member L merges out = true <->
  NoDup out
  /\ (forall p, In p out -> member p = true)
  /\ (forall i p, nth_error out i = Some p -> forall t o, In (t, o) merges -> (t <= i)%nat -> contains_sub p o = false)
  /\ (forall p, In p L -> In p out \/ exists t o, In (t, o) merges /\ contains_sub p o = true).
Proof. exact check_merged_spec. Qed.
Print Assumptions C12_checker_merge.
