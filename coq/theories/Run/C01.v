(** Glue for property C01.
    entry 1: case = [params; programs]  with
      params = [dsl; forbidden; request; max_depth; min_var; n_gram; const_types]
      dsl = list of [name; type], forbidden = list of [[name; index]; names]
    answer = [membership bits; programs(); rule triples [type; depth; symbol]; derivations]
      derivations = per program: [] for a non-member, else
        [derive_all positions ([type; depth], [] = end marker);
         reduce_derivations with the collecting operator ([type; depth; symbol; number of arguments]);
         number of pending arguments left]
    entry 2: the same case shape (max_depth and min_var are ignored), grammar
      compiled without depth bound (CFG.infinite + clean)
    answer = [language empty?; membership bits; programs() ([] = infinite, [n], [-2] = finite but not computed);
              rule triples; derivations; programs() as implemented today ([] = -1, [n])]
      or [-3] when the cleaning ran out of fuel *)
From Coq Require Import ZArith NArith List Bool.
From PS Require Import Base.ListX Base.Sexp Base.Ty Base.Value Base.Prog Gram.Cfg Gram.CfgInf.
Import ListNotations.
Local Open Scope Z_scope.

Definition dsl_entry (s : sexp) : option (N * ty) :=
  match s with L [n; t] => do n' <- asN n; do t' <- ty_of_sexp t; Some (n', t') | _ => None end.
Definition forb_entry (s : sexp) : option ((N * nat) * list N) :=
  match s with
  | L [L [n; i]; names] => do n' <- asN n; do i' <- asNat i; do l <- asListOf asN names; Some ((n', i'), l)
  | _ => None
  end.

Definition params_of_sexp (s : sexp) : option params :=
  match s with
  | L [d; f; r; md; mv; ng; ct] =>
    do d' <- asListOf dsl_entry d; do f' <- asListOf forb_entry f; do r' <- ty_of_sexp r;
    do md' <- asNat md; do mv' <- asNat mv; do ng' <- asNat ng; do ct' <- asListOf ty_of_sexp ct;
    Some {| dsl := d'; forbidden := f'; request := r'; max_depth := md'; min_var := mv'; n_gram := ng'; const_types := ct' |}
  | _ => None
  end.

Definition enc_pos (d : dpos) : sexp :=
  match d with DAt x => L [sexp_of_ty (nt_type x); ofNat (nt_depth x)] | DEnd => L [] end.

Definition red_collect (acc : list sexp) (x : cnt) (s : sym) (nts : list cnt) : list sexp :=
  acc ++ [L [sexp_of_ty (nt_type x); ofNat (nt_depth x); sexp_of_sym s; ofNat (length nts)]].

Definition deriv_obs (R : cnt -> list rule) (s : cnt) (p : prog) : sexp :=
  if contains_gen R s p then
    match derive_all R p [] (DAt s) [], reduce_derivations red_collect R s [] p with
    | Some (info, tr), Some l => L [L (map enc_pos tr); L l; ofNat (length info)]
    | _, _ => L [A (-2)]          (* impossible for a member: C01_derive_all, C01_reduce_derivations *)
    end
  else L [].

Definition enc_triples (l : list (ty * nat * sym)) : sexp :=
  L (map (fun x => L [sexp_of_ty (fst (fst x)); ofNat (snd (fst x)); sexp_of_sym (snd x)]) l).

Definition inf_fuel : nat := N.to_nat 2000.

Definition run_inf (s : sexp) : sexp :=
  match s with
  | L [ps; progs] =>
    match params_of_sexp ps, asListOf prog_of_sexp progs with
    | Some P, Some l =>
      match clean_inf P inf_fuel with
      | None => L [A (-3)]
      | Some c =>
        let R := crules_inf P c in
        L [ ofBool (match c_reach c with [] => true | _ => false end);
            L (map (fun p => ofBool (contains_gen R (start P) p)) l);
            match height_inf P c with
            | None => L []
            | Some h => if Nat.leb h 5 then L [ofN (programs (bounded P h))] else L [A (-2)]
            end;
            enc_triples (rule_triples_inf P c);
            L (map (deriv_obs R (start P)) l);
            match programs_inf_pinned P c with Some n => L [ofN n] | None => L [] end ]
      end
    | _, _ => bad_case
    end
  | _ => bad_case
  end.

Definition run_cfg (s : sexp) : sexp :=
  match s with
  | L [ps; progs] =>
    match params_of_sexp ps, asListOf prog_of_sexp progs with
    | Some P, Some l =>
      L [ L (map (fun p => ofBool (contains P p)) l);
          ofN (programs P);
          enc_triples (rule_triples P);
          L (map (deriv_obs (crules P) (start P)) l) ]
    | _, _ => bad_case
    end
  | _ => bad_case
  end.

Definition run_case (entry : Z) (s : sexp) : sexp :=
  match entry with
  | 1 => run_cfg s
  | 2 => run_inf s
  | _ => bad_case
  end.
