(** Glue for property C01.
    entry 1: case = [params; programs]  with
      params = [dsl; forbidden; request; max_depth; min_var; n_gram; const_types]
      dsl = list of [name; type], forbidden = list of [[name; index]; names]
    answer = [membership bits; programs(); rule triples [type; depth; symbol]] *)
From Coq Require Import ZArith NArith List Bool.
From PS Require Import Base.ListX Base.Sexp Base.Ty Base.Value Base.Prog Gram.Cfg.
Import ListNotations.
Local Open Scope Z_scope.

Definition dsl_entry (s : sexp) : option (N * ty) :=
  match s with L [n; t] => do n' <- asN n; do t' <- ty_of_sexp t; Some (n', t') | _ => None end.
Definition forb_entry (s : sexp) : option ((N * nat) * list N) :=
  match s with
  | L [L [n; i]; names] => do n' <- asN n; do i' <- asNat i; do l <- asListOf asN names; Some ((n', i'), l)
  | _ => None
  end.

Definition params_of_sexp (s : sexp) : option params :=
  match s with
  | L [d; f; r; md; mv; ng; ct] =>
    do d' <- asListOf dsl_entry d; do f' <- asListOf forb_entry f; do r' <- ty_of_sexp r;
    do md' <- asNat md; do mv' <- asNat mv; do ng' <- asNat ng; do ct' <- asListOf ty_of_sexp ct;
    Some {| dsl := d'; forbidden := f'; request := r'; max_depth := md'; min_var := mv'; n_gram := ng'; const_types := ct' |}
  | _ => None
  end.

Definition run_cfg (s : sexp) : sexp :=
  match s with
  | L [ps; progs] =>
    match params_of_sexp ps, asListOf prog_of_sexp progs with
    | Some P, Some l =>
      L [ L (map (fun p => ofBool (contains P p)) l);
          ofN (programs P);
          L (map (fun x => L [sexp_of_ty (fst (fst x)); ofNat (snd (fst x)); sexp_of_sym (snd x)]) (rule_triples P)) ]
    | _, _ => bad_case
    end
  | _ => bad_case
  end.

Definition run_case (entry : Z) (s : sexp) : sexp :=
  match entry with
  | 1 => run_cfg s
  | _ => bad_case
  end.
