(** Glue for property C09: decode a case, run the model, encode the answer.
    Rationals travel as [num; den] (den > 0).
    entry 1: weights                      -> repaired and pinned tables, draw distributions
    entry 2: [proba; alias; draws]        -> indices returned by the repaired and the pinned draw
    entry 3: [fuel; wf fuel; table; weights; start; scripts]   (scripts = list of [k; choices])
                                          -> flags + per script the k sampled programs
    entry 4: [fuel; rules; tags; start_tags; perms; scripts]  (unambiguous grammars)
                                          -> sampler weight vectors + per permutation of the
                                             start list the sampled programs
    entry 5: [fuel; table; weights; start] -> flags + exact distribution of sampled programs
    entry 6: value samplers               -> weight vectors / values
    entry 7: [fuel; rules; tags; start_tags; perms] -> exact distribution of usample_program per
                                             permutation of the start list *)
From Coq Require Import ZArith NArith QArith List Bool.
From PS Require Import Base.ListX Base.Sexp Base.Ty Base.Value Base.Prog Gram.Det Rand.Alias Rand.Sampling.
Import ListNotations.
Local Open Scope Z_scope.

Definition asQ (s : sexp) : option Q :=
  match s with
  | L [A n; A d] => if 0 <? d then Some (n # Z.to_pos d) else None
  | _ => None
  end.
Definition ofQ (q : Q) : sexp := let r := Qred q in L [A (Qnum r); A (Zpos (Qden r))].

Definition ofTable (t : Alias.table) : sexp := L [ofList ofQ (t_proba t); ofList ofNat (t_alias t)].
Definition dist_of (t : Alias.table) (f : Alias.table -> nat -> Q) : sexp :=
  ofList (fun i => ofQ (f t i)) (seq 0 (t_size t)).

Definition run_tables (s : sexp) : sexp :=
  match asListOf asQ s with
  | Some w =>
    L [ match build w with
        | Some t => L [ofTable t; dist_of t draw_dist; dist_of t draw_dist_pinned]
        | None => L []
        end;
        match build_raw w with
        | Some (t, wf) => L [ofTable t; ofList ofQ wf; dist_of t draw_dist; dist_of t draw_dist_pinned]
        | None => L []
        end ]
  | None => bad_case
  end.

Definition asPairQ (s : sexp) : option (Q * Q) :=
  match s with L [a; b] => do a' <- asQ a; do b' <- asQ b; Some (a', b') | _ => None end.

Definition run_draws (s : sexp) : sexp :=
  match s with
  | L [p; a; ds] =>
    match asListOf asQ p, asListOf asNat a, asListOf asPairQ ds with
    | Some p', Some a', Some ds' =>
      let t := {| t_proba := p'; t_alias := a' |} in
      L [ ofList (fun u => ofNat (sample_1 t (fst u) (snd u))) ds';
          ofList (fun u => ofNat (sample_1_pinned t (fst u) (snd u))) ds';
          dist_of t draw_dist ]
    | _, _, _ => bad_case
    end
  | _ => bad_case
  end.

(** ---- deterministic grammars ---- *)
Definition nt_of_sexp (s : sexp) : option nt :=
  match s with L [t; a; b] => do t' <- ty_of_sexp t; Some (t', a, b) | _ => None end.
Definition argnt_of_sexp (s : sexp) : option argnt :=
  match s with L [t; a] => do t' <- ty_of_sexp t; Some (t', a) | _ => None end.
Definition drule_of_sexp (s : sexp) : option drule :=
  match s with
  | L [sy; args; y] => do sy' <- sym_of_sexp sy; do args' <- asListOf argnt_of_sexp args; Some (sy', (args', y))
  | _ => None
  end.
Definition table_of_sexp (s : sexp) : option Det.table :=
  asListOf (fun e => match e with
                     | L [x; rs] => do x' <- nt_of_sexp x; do rs' <- asListOf drule_of_sexp rs; Some (x', rs')
                     | _ => None end) s.
Definition symq_of_sexp (s : sexp) : option (sym * Q) :=
  match s with L [sy; q] => do sy' <- sym_of_sexp sy; do q' <- asQ q; Some (sy', q') | _ => None end.
Definition wtable_of_sexp (s : sexp) : option wtable :=
  asListOf (fun e => match e with
                     | L [x; ws] => do x' <- nt_of_sexp x; do ws' <- asListOf symq_of_sexp ws; Some (x', ws')
                     | _ => None end) s.
Definition script_of_sexp (s : sexp) : option (nat * list nat) :=
  match s with L [k; cs] => do k' <- asNat k; do cs' <- asListOf asNat cs; Some (k', cs') | _ => None end.

Definition ofRes (r : sres prog) : sexp :=
  match r with SOk p => L [A 0; sexp_of_prog p] | SErr e => L [A 1; ofNat e] end.

Definition run_det (s : sexp) : sexp :=
  match s with
  | L [fu; wfu; tb; ws; st; scs] =>
    (* wfu: fuel for the well-formedness flag (0 = not evaluated: wf_at_lang enumerates the language) *)
    match asNat fu, asNat wfu, table_of_sexp tb, wtable_of_sexp ws, nt_of_sexp st, asListOf script_of_sexp scs with
    | Some fuel, Some wfuel, Some tbl, Some w, Some start, Some scripts =>
      L [ ofBool (wf_at_lang wfuel tbl w start); ofBool (keys_ok tbl w);
          ofList (fun sc => ofList ofRes (sample_many fuel tbl w start (fst sc) (snd sc))) scripts ]
    | _, _, _, _, _, _ => bad_case
    end
  | _ => bad_case
  end.

(** Weights the pinned fallback sampler really draws with (fair coin). *)
Definition pinned_vector (l : list Q) : list Q :=
  match build_raw l with
  | Some (t, _) => map (draw_dist_pinned t) (seq 0 (length l))
  | None => l
  end.
Definition pinned_weights (w : wtable) : wtable :=
  map (fun xw : nt * list (sym * Q) => (fst xw, combine (map fst (snd xw)) (pinned_vector (map snd (snd xw))))) w.

Definition run_det_dist (s : sexp) : sexp :=
  match s with
  | L [fu; tb; ws; st] =>
    match asNat fu, table_of_sexp tb, wtable_of_sexp ws, nt_of_sexp st with
    | Some fuel, Some tbl, Some w, Some start =>
      L [ ofBool (wf_at_lang fuel tbl w start); ofBool (keys_ok tbl w);
          ofList (fun e => L [ofList ofNat (e_script e); sexp_of_prog (e_prog e); ofQ (e_prob e);
                              ofQ (probability tbl w start (e_prog e))])
                 (sample_dist fuel tbl w start);
          ofList (fun e => L [sexp_of_prog (e_prog e); ofQ (e_prob e)])
                 (sample_dist fuel tbl (pinned_weights w) start) ]
    | _, _, _, _ => bad_case
    end
  | _ => bad_case
  end.

(** ---- unambiguous grammars ---- *)
Definition unt_of_sexp (s : sexp) : option unt :=
  match s with L [t; a] => do t' <- ty_of_sexp t; Some (t', a) | _ => None end.
Definition urules_of_sexp (s : sexp) : option urules :=
  asListOf (fun e =>
    match e with
    | L [x; rs] =>
      do x' <- unt_of_sexp x;
      do rs' <- asListOf (fun r => match r with
                                   | L [sy; alts] => do sy' <- sym_of_sexp sy;
                                                     do alts' <- asListOf (asListOf unt_of_sexp) alts; Some (sy', alts')
                                   | _ => None end) rs;
      Some (x', rs')
    | _ => None
    end) s.
Definition utags_of_sexp (s : sexp) : option utags :=
  asListOf (fun e =>
    match e with
    | L [x; ps] =>
      do x' <- unt_of_sexp x;
      do ps' <- asListOf (fun r => match r with
                                   | L [sy; qs] => do sy' <- sym_of_sexp sy; do qs' <- asListOf asQ qs; Some (sy', qs')
                                   | _ => None end) ps;
      Some (x', ps')
    | _ => None
    end) s.
Definition start_tags_of_sexp (s : sexp) : option (list (unt * Q)) :=
  asListOf (fun e => match e with L [x; q] => do x' <- unt_of_sexp x; do q' <- asQ q; Some (x', q') | _ => None end) s.

Definition permute {X} (l : list X) (perm : list nat) : list X :=
  flat_map (fun i => match nth_error l i with Some x => [x] | None => [] end) perm.

Definition run_u (s : sexp) : sexp :=
  match s with
  | L [fu; rs; tg; stg; perms; scs] =>
    match asNat fu, urules_of_sexp rs, utags_of_sexp tg, start_tags_of_sexp stg,
          asListOf (asListOf asNat) perms, asListOf script_of_sexp scs with
    | Some fuel, Some rules, Some tags, Some stags, Some perms', Some scripts =>
      L [ (* weight vectors: per non-terminal the symbol weights and per symbol the alternative weights *)
          ofList (fun xp : unt * list (sym * list Q) =>
                    L [ofList ofQ (u_symbol_weights (snd xp));
                       ofList (fun sq : sym * list Q => ofList ofQ (u_alt_weights (snd sq))) (snd xp)]) tags;
          ofList ofQ (map snd stags);
          ofList (fun perm =>
                    ofList (fun sc => ofList ofRes (usample_many fuel rules tags (permute (map fst stags) perm) (fst sc) (snd sc)))
                           scripts) perms';
          ofBool (uwf_start fuel rules tags stags) ]
    | _, _, _, _, _, _ => bad_case
    end
  | _ => bad_case
  end.

Definition run_u_dist (s : sexp) : sexp :=
  match s with
  | L [fu; rs; tg; stg; perms] =>
    match asNat fu, urules_of_sexp rs, utags_of_sexp tg, start_tags_of_sexp stg, asListOf (asListOf asNat) perms with
    | Some fuel, Some rules, Some tags, Some stags, Some perms' =>
      ofList (fun perm =>
                ofList (fun e : uentry => L [ofList ofNat (fst (fst e)); sexp_of_prog (snd (fst e)); ofQ (snd e)])
                       (ustart_dist fuel rules tags (combine (permute (map fst stags) perm) (map snd stags))))
             perms'
    | _, _, _, _, _ => bad_case
    end
  | _ => bad_case
  end.

(** ---- value samplers ---- *)
Fixpoint sexp_of_ltree (fuel : nat) (t : ltree Z) : sexp :=
  match fuel with
  | O => L []
  | S f => match t with LLeaf z => A z | LNode l => L (map (sexp_of_ltree f) l) end
  end.

Definition run_values (s : sexp) : sexp :=
  match s with
  | L [A 0; m; probs; idx] =>
    (* LexiconSampler: lexicon = 0..m-1 *)
    match asNat m, asListOf asQ probs, asListOf asNat idx with
    | Some m', Some probs', Some idx' =>
      L [ ofList ofQ (lexicon_weights m' (match probs' with [] => None | _ => Some probs' end));
          ofList (fun i => match nth_error (seq 0 m') i with Some v => L [ofNat v] | None => L [] end) idx' ]
    | _, _, _ => bad_case
    end
  | L [A 1; probs; pairs; depth; ls; es] =>
    (* ListSampler: probs or (length, probability) pairs; nesting depth; length indices; element values *)
    match asListOf asQ probs,
          asListOf (fun e => match e with L [n; q] => do n' <- asNat n; do q' <- asQ q; Some (n', q') | _ => None end) pairs,
          asNat depth, asListOf asNat ls, asListOf asZ es with
    | Some probs', Some pairs', Some d, Some ls', Some es' =>
      let lw := list_lengths probs' (match pairs' with [] => None | _ => Some pairs' end) in
      L [ ofList ofNat (fst lw); ofList ofQ (snd lw);
          match list_sample (fst lw) d ls' es' with
          | Some (t, ls2, es2) => L [sexp_of_ltree 50 t; ofNat (length ls2); ofNat (length es2)]
          | None => L []
          end ]
    | _, _, _, _, _ => bad_case
    end
  | L [A 2; keys; fallback; queries] =>
    (* UnionSampler: samplers identified by their position; answer = which sampler serves each type *)
    match asListOf ty_of_sexp keys, asBool fallback, asListOf ty_of_sexp queries with
    | Some keys', Some fb, Some qs =>
      let samplers := combine keys' (seq 0 (length keys')) in
      L (map (fun t => match union_pick samplers (if fb then Some (length keys') else None) t with
                       | Some i => L [ofNat i] | None => L [] end) qs)
    | _, _, _ => bad_case
    end
  | _ => bad_case
  end.

Definition run_case (entry : Z) (s : sexp) : sexp :=
  match entry with
  | 1 => run_tables s
  | 2 => run_draws s
  | 3 => run_det s
  | 4 => run_u s
  | 5 => run_det_dist s
  | 6 => run_values s
  | 7 => run_u_dist s
  | _ => bad_case
  end.
