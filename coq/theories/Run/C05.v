(** Glue for property C05.

    token  = [0] Anything | [1; syms] Allow | [2; syms; n] AtMost | [3; syms; n] AtLeast
           | [4; syms] ForceSubtree | [5; syms] ForbidSubtree | [6; syms; [args]] Function
    text   = list of code points
    table  = [[ [name text; symbol] ... ]; [ [number; symbol] ... ]]

    entry 1: [table; text]  ->  [pinned; fixed]   each [] (exception) or [token]
             (parse_specification as pinned / with proposed_fixes C05-1, C05-2)
    entry 2: [params (as Run/C01); names = [[primitive id; name text] ...];
              constraint texts; sketch = [] | [text]; programs]
      -> [ fixed; pinned; spec; base; relaxed; base automaton ]
         fixed / pinned = [status; accepted bits; has-a-run bits; constraint tokens; sketch [] | [token]]
            of the model's sharpened automaton built from the texts by the
            repaired / pinned parser (status 0 ok, 1 parse exception,
            2 unsupported topmost token, 3 model out of fuel: never)
         spec    = bits of: member of the base grammar, every constraint holds
                   at every occurrence of its head, the sketch holds at the root
                   (tokens of the repaired parser)
         base    = bits of membership in the base grammar
         relaxed = bits of membership in the grammar compiled with
                   min_variable_depth 0 and no forbidden pattern
         base automaton = accepted bits of __cfg2dfta__ alone *)
From Coq Require Import ZArith NArith List Bool.
From PS Require Import Base.ListX Base.Sexp Base.Ty Base.Value Base.Prog Gram.Cfg Auto.Dfta Auto.Sharpen Auto.SpecParser Run.C01.
Import ListNotations.
Local Open Scope Z_scope.

Definition enc_syms (l : list sym) : sexp := L (map sexp_of_sym l).
Fixpoint enc_token (t : token) : sexp :=
  match t with
  | TAny => L [A 0]
  | TAllow s => L [A 1; enc_syms s]
  | TAtMost s n => L [A 2; enc_syms s; ofNat n]
  | TAtLeast s n => L [A 3; enc_syms s; ofNat n]
  | TForce s => L [A 4; enc_syms s]
  | TForbid s => L [A 5; enc_syms s]
  | TFun f args => L [A 6; enc_syms f; L (map enc_token args)]
  end.

Definition prim_entry (s : sexp) : option (str * sym) :=
  match s with L [nm; sy] => do nm' <- asListOf asN nm; do sy' <- sym_of_sexp sy; Some (nm', sy') | _ => None end.
Definition var_entry (s : sexp) : option (nat * sym) :=
  match s with L [k; sy] => do k' <- asNat k; do sy' <- sym_of_sexp sy; Some (k', sy') | _ => None end.
Definition table_of_sexp (s : sexp) : option table :=
  match s with
  | L [ps; vs] => do ps' <- asListOf prim_entry ps; do vs' <- asListOf var_entry vs; Some (mkTable ps' vs')
  | _ => None
  end.

Definition run_parse (s : sexp) : sexp :=
  match s with
  | L [tb; tx] =>
    match table_of_sexp tb, asListOf asN tx with
    | Some T, Some text =>
      L [ofOption enc_token (parse_specification false T text);
         ofOption enc_token (parse_specification true T text)]
    | _, _ => bad_case
    end
  | _ => bad_case
  end.

Definition name_entry (s : sexp) : option (N * str) :=
  match s with L [n; nm] => do n' <- asN n; do nm' <- asListOf asN nm; Some (n', nm') | _ => None end.

Fixpoint token_eqb (a b : token) : bool :=
  match a, b with
  | TAny, TAny => true
  | TAllow s, TAllow s' => list_eqb sym_eqb s s'
  | TAtMost s n, TAtMost s' n' => list_eqb sym_eqb s s' && Nat.eqb n n'
  | TAtLeast s n, TAtLeast s' n' => list_eqb sym_eqb s s' && Nat.eqb n n'
  | TForce s, TForce s' => list_eqb sym_eqb s s'
  | TForbid s, TForbid s' => list_eqb sym_eqb s s'
  | TFun f l, TFun f' l' =>
    list_eqb sym_eqb f f' &&
    (fix go (l l' : list token) : bool :=
       match l, l' with
       | [], [] => true
       | x :: r, y :: r' => token_eqb x y && go r r'
       | _, _ => false
       end) l l'
  | _, _ => false
  end.

Definition enc_outcome (o : outcome * list token * option token) (ts : list (tree sym)) : sexp :=
  let '(oc, toks, sk) := o in
  let tail := [L (map enc_token toks); ofOption enc_token sk] in
  match oc with
  | Sharpened d =>
    L ([A 0; L (map (fun t => ofBool (accepts sym_eqb ust_eqb d t)) ts);
        L (map (fun t => ofBool (match run sym_eqb ust_eqb d t with Some _ => true | None => false end)) ts)] ++ tail)
  | ParseError => L ([A 1; L []; L []] ++ tail)
  | Unsupported => L ([A 2; L []; L []] ++ tail)
  | ModelError => L ([A 3; L []; L []] ++ tail)
  end.

Definition run_sharpen (s : sexp) : sexp :=
  match s with
  | L [ps; nms; cs; sk; progs] =>
    match params_of_sexp ps, asListOf name_entry nms, asListOf (asListOf asN) cs,
          asListOf (asListOf asN) sk, asListOf prog_of_sexp progs with
    | Some P, Some names, Some texts, Some sketch, Some l =>
      let sketch' := match sketch with [] => None | x :: _ => Some x end in
      let ts := map tree_of l in
      let fixed := sharpen_text true names P texts sketch' in
      let same :=
        let T := grammar_table names P in
        list_eqb (option_eqb token_eqb)
                 (map (parse_specification true T) texts ++ [match sketch' with Some x => parse_specification true T x | None => Some TAny end])
                 (map (parse_specification false T) texts ++ [match sketch' with Some x => parse_specification false T x | None => Some TAny end])
        && forallb (fun t => match parse_specification true T t with Some tok => negb (skipped_fx tok) || skipped tok | None => true end) texts in
      let pinned := if same then fixed else sharpen_text false names P texts sketch' in
      let '(_, toks, sk') := fixed in
      L [ enc_outcome fixed ts;
          enc_outcome pinned ts;
          L (map (fun p => ofBool (sharpen_spec P toks sk' p)) l);
          L (map (fun p => ofBool (contains P p)) l);
          L (map (fun p => ofBool (contains (relax P) p)) l);
          match cfg2dfta P with
          | Ok base => L (map (fun t => ofBool (accepts sym_eqb st_eqb base t)) ts)
          | _ => L [A (-3)]
          end ]
    | _, _, _, _, _ => bad_case
    end
  | _ => bad_case
  end.

Definition run_case (entry : Z) (s : sexp) : sexp :=
  match entry with
  | 1 => run_parse s
  | 2 => run_sharpen s
  | _ => bad_case
  end.
