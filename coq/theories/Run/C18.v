(** Glue for property C18: decode a case, run the model, encode the answer.
    entry 0: no-op (real-sampler cases are checked from the implementation's side)
    entry 1: generation from oracle streams:
             case = [settings; oracle; n; fuel]
             settings = [max_tries; uniques; eskip; gskip; count_guard; [lo; hi; maxlen; allow_none; allow_bool]]
             oracle = [reqs; ((ty progs) ...); counts; ((ty values) ...)]
             answer = [tasks; final], task = [ty; prog; ((inputs output) ...); tries; unique; drawn]
    entry 2: reference evaluation: case = [skip; prog; (inputs ...)] -> observed list *)
From Coq Require Import ZArith NArith List Bool.
From PS Require Import Base.ListX Base.Sexp Base.Ty Base.Value Base.Prog Sem.Semantics Sem.Eval Sem.TaskGen.
Import ListNotations.
Local Open Scope Z_scope.

Definition keyed_of_sexp {X} (f : sexp -> option X) (s : sexp) : option (ty * list X) :=
  match s with
  | L [t; l] => do t' <- ty_of_sexp t; do l' <- asListOf f l; Some (t', l')
  | _ => None
  end.

Definition oracle_of_sexp (s : sexp) : option gstate :=
  match s with
  | L [reqs; progs; counts; inputs] =>
    do r <- asListOf ty_of_sexp reqs;
    do p <- asListOf (keyed_of_sexp prog_of_sexp) progs;
    do c <- asListOf asNat counts;
    do i <- asListOf (keyed_of_sexp value_of_sexp) inputs;
    Some (mk_state r p c i [])
  | _ => None
  end.

Definition settings_of_sexp (s : sexp) : option (settings * (value -> bool)) :=
  match s with
  | L [mt; un; es; gs; gd; L [A lo; A hi; A ml; an; ab]] =>
    do mt' <- asNat mt; do un' <- asBool un;
    do es' <- asListOf asN es; do gs' <- asListOf asN gs; do gd' <- asBool gd;
    do an' <- asBool an; do ab' <- asBool ab;
    Some (mk_settings mt' un' es' gs' gd', basic_validator lo hi ml an' ab')
  | _ => None
  end.

Definition sexp_of_example (ex : list value * value) : sexp :=
  L [L (map sexp_of_value (fst ex)); sexp_of_value (snd ex)].

Definition sexp_of_task (td : task * nat) : sexp :=
  let t := fst td in
  L [sexp_of_ty (t_req t); sexp_of_prog (t_sol t); L (map sexp_of_example (t_examples t));
     ofNat (t_tries t); ofBool (t_unique t); ofNat (snd td)].

Definition sexp_of_stream (s : stream_id) : list sexp :=
  match s with
  | SReq => [A 0]
  | SProg t => [A 1; sexp_of_ty t]
  | SCount => [A 2]
  | SInput t => [A 3; sexp_of_ty t]
  end.

Definition sexp_of_final (e : option failure) : sexp :=
  match e with
  | None => L [A 0]
  | Some (FOutOfStream s) => L (A 1 :: sexp_of_stream s)
  | Some (FNoGrammar t) => L [A 2; sexp_of_ty t]
  | Some (FEvalRaised e) => L [A 3; ofN e]
  | Some FOutOfFuel => L [A 4]
  end.

Definition run_generate (s : sexp) : sexp :=
  match s with
  | L [cf; orc; n; fuel] =>
    match settings_of_sexp cf, oracle_of_sexp orc, asNat n, asNat fuel with
    | Some (cfg, valid), Some st, Some n', Some fuel' =>
      let '(l, e) := gen_tasks vapp prim_value valid cfg fuel' n' st in
      L [L (map sexp_of_task l); sexp_of_final e]
    | _, _, _, _ => bad_case
    end
  | _ => bad_case
  end.

Definition run_eval (s : sexp) : sexp :=
  match s with
  | L [sk; p; inps] =>
    match asListOf asN sk, prog_of_sexp p, asListOf (asListOf value_of_sexp) inps with
    | Some sk', Some p', Some inps' =>
      L (map (fun inp => sexp_of_observed (observe sk' (eval_ref vapp prim_value p' inp))) inps')
    | _, _, _ => bad_case
    end
  | _ => bad_case
  end.

Definition run_case (entry : Z) (s : sexp) : sexp :=
  match entry with
  | 0 => L []
  | 1 => run_generate s
  | 2 => run_eval s
  | _ => bad_case
  end.
