(** Glue for property C13.

    entry 1 (builder): case = [fuel; mode; params; flags; programs]
      mode   = [0; max_size] (size_constraint) | [1; primitive; k] (at_most_k)
      params = [dsl; forbidden; request; n_gram]   (dsl, forbidden as in Run/C01)
      flags  = [forbid; taken; varapp; confkey; count_fixed; treq_fixed; ord]  (0/1; ord 1 = reversed set order in clean)
      answer = [status; pipeline; function]  with status 1 = ok, 0 = out of fuel and
        pipeline = [membership bits; programs(); type request; dead ends; non-terminals; programs() of the repaired
                    counter with its memo; one entry per key]                             build + clean, as tables
        function = [membership bits; programs()]                                           the rules as a function of the non-terminal
    entry 2 (product of two tables): case = [fuel; ord; count_fixed; table1; start1; table2; start2; programs]
      answer = [status; bits1; bits2; bits of the product; programs() of the product; compatible; dead ends; one entry per key]
    entry 3 (clean of a table): case = [fuel; ord; count_fixed; table; start; programs]
      answer = [status; bits before; programs() before; dead ends before; one entry per key; bits after; programs() after; dead ends after]
               (dead ends = symbol sequences, most recent first, of the derivations that can be started and not completed)
               (status 2: clean failed -- out of fuel or a start symbol without rules -- and the last three are absent)
    table = list of [nt; list of [symbol; list of [type; S]; T]], nt = [type; S; T], S and T arbitrary s-expressions. *)
From Coq Require Import ZArith NArith List Bool.
From PS Require Import Base.ListX Base.Sexp Base.Ty Base.Value Base.Prog Gram.Ttcfg.
Import ListNotations.
Local Open Scope Z_scope.

Definition dsl_entry (s : sexp) : option (N * ty) :=
  match s with L [n; t] => do n' <- asN n; do t' <- ty_of_sexp t; Some (n', t') | _ => None end.
Definition forb_entry (s : sexp) : option ((N * nat) * list N) :=
  match s with
  | L [L [n; i]; names] => do n' <- asN n; do i' <- asNat i; do l <- asListOf asN names; Some ((n', i'), l)
  | _ => None
  end.
Definition bparams_of_sexp (s : sexp) : option bparams :=
  match s with
  | L [d; f; r; ng] =>
    do d' <- asListOf dsl_entry d; do f' <- asListOf forb_entry f; do r' <- ty_of_sexp r; do ng' <- asNat ng;
    Some {| b_dsl := d'; b_forb := f'; b_request := r'; b_ngram := ng' |}
  | _ => None
  end.

Record flags : Type := { fl_fx : fixes; fl_count : bool; fl_treq : bool; fl_ord : bool }.
Definition flags_of_sexp (s : sexp) : option flags :=
  match s with
  | L [a; b; c; d; e; f; g] =>
    do a' <- asBool a; do b' <- asBool b; do c' <- asBool c; do d' <- asBool d;
    do e' <- asBool e; do f' <- asBool f; do g' <- asBool g;
    Some {| fl_fx := {| fx_forbid := a'; fx_taken := b'; fx_varapp := c'; fx_confkey := d' |};
            fl_count := e'; fl_treq := f'; fl_ord := g' |}
  | _ => None
  end.
Definition ord_of (rev_order : bool) : list sym -> list sym := if rev_order then @rev sym else fun l => l.

Definition ofOptN (o : option N) : sexp := match o with Some n => ofN n | None => A (-1) end.

Definition out_of_fuel : sexp := L [A 0].
Definition ofDead (l : list (list sym)) : sexp := L (map (fun pre => L (map sexp_of_sym pre)) l).

Section BuilderRun.
  Variable Tst : Type.
  Variable teqb : Tst -> Tst -> bool.
  Definition answer_builder (fuel : nat) (fl : flags) (P : bparams)
             (raw : option (gtable ctx Tst)) (rules : gnt ctx Tst -> list (grule ctx Tst)) (start : gnt ctx Tst)
             (progs : list prog) : sexp :=
    match raw with
    | None => out_of_fuel
    | Some rawt =>
      match gclean ctx Tst ctx_eqb teqb fuel (ord_of (fl_ord fl)) rawt start with
      | None => out_of_fuel
      | Some tbl =>
        let R := of_table ctx Tst ctx_eqb teqb tbl in
        let F : oracle ctx Tst := fun x => Some (rules x) in
        L [ A 1;
            L [ L (map (fun p => ofBool (gcontains ctx Tst R start p)) progs);
                ofOptN (count_of ctx Tst ctx_eqb teqb (fl_count fl) fuel R start);
                sexp_of_ty (reported_request (fl_treq fl) P rawt);
                ofDead (gdead ctx Tst fuel R start);
                ofNat (length tbl);
                ofOptN (gprograms ctx Tst ctx_eqb teqb true fuel R start);
                ofBool (table_nodupb ctx Tst ctx_eqb teqb tbl) ];
            L [ L (map (fun p => ofBool (gcontains ctx Tst F start p)) progs);
                ofOptN (gcount ctx Tst teqb fuel F start) ] ]
      end
    end.
End BuilderRun.

Definition run_builder (s : sexp) : sexp :=
  match s with
  | L [fuel; mode; ps; fls; progs] =>
    match asNat fuel, bparams_of_sexp ps, flags_of_sexp fls, asListOf prog_of_sexp progs with
    | Some fuel, Some P, Some fl, Some l =>
      match mode with
      | L [A 0; m] =>
        match asNat m with
        | Some m =>
          answer_builder (nat * nat) nat2_eqb fuel fl P (size_raw (fl_fx fl) fuel P m)
                         (size_rules (fl_fx fl) P m) (size_start P) l
        | None => bad_case
        end
      | L [A 1; pr; k] =>
        match asN pr, asNat k with
        | Some pr, Some k =>
          answer_builder nat Nat.eqb fuel fl P (occ_raw (fl_fx fl) fuel P pr k)
                         (occ_rules (fl_fx fl) P pr) (occ_start P k) l
        | _, _ => bad_case
        end
      | _ => bad_case
      end
    | _, _, _, _ => bad_case
    end
  | _ => bad_case
  end.

(** tables with opaque states *)
Definition nt_of_sexp (s : sexp) : option (gnt sexp sexp) :=
  match s with L [t; a; b] => do t' <- ty_of_sexp t; Some (t', a, b) | _ => None end.
Definition arg_of_sexp (s : sexp) : option (garg sexp) :=
  match s with L [t; a] => do t' <- ty_of_sexp t; Some (t', a) | _ => None end.
Definition rule_of_sexp (s : sexp) : option (grule sexp sexp) :=
  match s with
  | L [sy; args; y] => do sy' <- sym_of_sexp sy; do args' <- asListOf arg_of_sexp args; Some (sy', (args', y))
  | _ => None
  end.
Definition table_of_sexp (s : sexp) : option (gtable sexp sexp) :=
  asListOf (fun e => match e with
                     | L [x; rs] => do x' <- nt_of_sexp x; do rs' <- asListOf rule_of_sexp rs; Some (x', rs')
                     | _ => None
                     end) s.

Definition ss_eqb : sexp * sexp -> sexp * sexp -> bool := pair_eqb sexp_eqb sexp_eqb.

Definition run_product (s : sexp) : sexp :=
  match s with
  | L [fuel; ord; cf; t1; s1; t2; s2; progs] =>
    match asNat fuel, asBool ord, asBool cf, table_of_sexp t1, nt_of_sexp s1, table_of_sexp t2, nt_of_sexp s2,
          asListOf prog_of_sexp progs with
    | Some fuel, Some ord, Some cf, Some g1, Some x1, Some g2, Some x2, Some l =>
      match gmul sexp sexp sexp sexp sexp_eqb sexp_eqb sexp_eqb sexp_eqb fuel (ord_of ord) g1 x1 g2 x2 with
      | None => out_of_fuel
      | Some g =>
        let R := of_table (sexp * sexp) (sexp * sexp) ss_eqb ss_eqb g in
        let x := mul_start sexp sexp sexp sexp x1 x2 in
        L [ A 1;
            L (map (fun p => ofBool (gcontains sexp sexp (of_table sexp sexp sexp_eqb sexp_eqb g1) x1 p)) l);
            L (map (fun p => ofBool (gcontains sexp sexp (of_table sexp sexp sexp_eqb sexp_eqb g2) x2 p)) l);
            L (map (fun p => ofBool (gcontains (sexp * sexp) (sexp * sexp) R x p)) l);
            ofOptN (count_of (sexp * sexp) (sexp * sexp) ss_eqb ss_eqb cf fuel R x);
            ofBool (compatb sexp sexp sexp sexp g1 g2);
            ofDead (gdead (sexp * sexp) (sexp * sexp) fuel R x);
            ofBool (table_nodupb sexp sexp sexp_eqb sexp_eqb g1 && table_nodupb sexp sexp sexp_eqb sexp_eqb g2) ]
      end
    | _, _, _, _, _, _, _, _ => bad_case
    end
  | _ => bad_case
  end.

Definition run_clean (s : sexp) : sexp :=
  match s with
  | L [fuel; ord; cf; t; st; progs] =>
    match asNat fuel, asBool ord, asBool cf, table_of_sexp t, nt_of_sexp st, asListOf prog_of_sexp progs with
    | Some fuel, Some ord, Some cf, Some g, Some x, Some l =>
      let R := of_table sexp sexp sexp_eqb sexp_eqb g in
      let before := [ L (map (fun p => ofBool (gcontains sexp sexp R x p)) l);
                      ofOptN (count_of sexp sexp sexp_eqb sexp_eqb cf fuel R x);
                      ofDead (gdead sexp sexp fuel R x);
                      ofBool (table_nodupb sexp sexp sexp_eqb sexp_eqb g) ] in
      match gclean sexp sexp sexp_eqb sexp_eqb fuel (ord_of ord) g x with
      | None => L (A 2 :: before)
      | Some g' =>
        let R' := of_table sexp sexp sexp_eqb sexp_eqb g' in
        L (A 1 :: before ++
           [ L (map (fun p => ofBool (gcontains sexp sexp R' x p)) l);
             ofOptN (count_of sexp sexp sexp_eqb sexp_eqb cf fuel R' x);
             ofDead (gdead sexp sexp fuel R' x) ])
      end
    | _, _, _, _, _, _ => bad_case
    end
  | _ => bad_case
  end.

Definition run_case (entry : Z) (s : sexp) : sexp :=
  match entry with
  | 1 => run_builder s
  | 2 => run_product s
  | 3 => run_clean s
  | _ => bad_case
  end.
