(** Glue for property C10: decode a case, run the model, encode the answer.
    entry 1: case = [kind (0 naive / 1 cut-off); skip list; list of tasks]
             task = [examples; programs; answers]
             example = [inputs; output]
             answer  = 0 next() | 1 send(True) | 2 send(False) | 3 send(None) | 4 send(1) | 5 send(0)
                       | 6 send([]) | 7 send("no")       (truthy: 1, 4, 7)
             result = [main; pinned] where each is a list, one item per task:
                      [events; programs statistic after the task],
                      event = (0 k) yielded program k | (1) StopIteration | (2 exc) raised;
                      [pinned] is the same run with the naive test as it is before
                      repair C10-1 (equal to [main] for the cut-off solver).
    The clock never fires (the harness passes a huge timeout). *)
From Coq Require Import ZArith NArith List Bool.
From PS Require Import Base.ListX Base.Sexp Base.Ty Base.Value Base.Prog Sem.Semantics Sem.Eval Sem.Solver.
Import ListNotations.
Local Open Scope Z_scope.

Definition example_of_sexp (s : sexp) : option example :=
  match s with
  | L [inp; out] => do inp' <- asListOf value_of_sexp inp; do out' <- value_of_sexp out; Some (inp', out')
  | _ => None
  end.

Definition answer_of_sexp (s : sexp) : option bool :=
  match s with
  | A 0 | A 2 | A 3 | A 5 | A 6 => Some false
  | A 1 | A 4 | A 7 => Some true
  | _ => None
  end.

Definition task_of_sexp (s : sexp) : option task :=
  match s with
  | L [exs; progs; answers] =>
    do exs' <- asListOf example_of_sexp exs;
    do progs' <- asListOf prog_of_sexp progs;
    do answers' <- asListOf answer_of_sexp answers;
    Some (exs', progs', answers')
  | _ => None
  end.

Definition never (k : nat) : bool := false.

Definition sexp_of_task_result (r : list event * nat) : sexp :=
  L [L (map sexp_of_event (fst r)); ofNat (snd r)].

Definition run_solver (s : sexp) : sexp :=
  match s with
  | L [kind; sk; ts] =>
    match asZ kind, asListOf asN sk, asListOf task_of_sexp ts with
    | Some k, Some sk', Some ts' =>
      let go (kd : solver_kind) :=
          L (map sexp_of_task_result
                 (run_tasks vapp prim_value sk' value_pyeq never kd {| cnt := 0; total := 0 |} ts')) in
      match k with
      | 0 => L [go Naive; go NaivePinned]
      | 1 => L [go Cutoff; go Cutoff]
      | _ => bad_case
      end
    | _, _, _ => bad_case
    end
  | _ => bad_case
  end.

(** entry 2 (RestartPBESolver around a naive or cut-off sub-solver):
             case = [kind (0 naive / 1 cut-off); skip list; criterion; list of tasks]
             criterion = [0; k]  len(self._data) - self._last_size > k
                       | [1; m]  self._programs % m == 0   (m >= 1)
                       | [2; m]  len(self._data) >= m
             task = [examples; streams; answers]   (stream 0: the enumerator given to solve,
                                                    stream i+1: the one returned by the i-th clone())
             result = [main; pinned], each a list with one item per task (one solver object):
                      [events; 'programs' statistic; 'restarts' statistic; programs drawn; programs tested;
                       numbers of programs tested when the restarts happened; data = list of (k num den)]
                      with event (0 k) = yield of the k-th drawn program;
                      [pinned] is the loop before repair C10b-1 (RuntimeError, code 100, on exhaustion). *)
From PS Require Import Sem.SolverRestart.

Definition rtask_of_sexp (s : sexp) : option rtask :=
  match s with
  | L [exs; streams; answers] =>
    do exs' <- asListOf example_of_sexp exs;
    do streams' <- asListOf (asListOf prog_of_sexp) streams;
    do answers' <- asListOf answer_of_sexp answers;
    Some (exs', streams', answers')
  | _ => None
  end.

Definition sexp_of_datum (d : nat * score) : sexp :=
  L [ofNat (fst d); ofNat (fst (snd d)); ofNat (snd (snd d))].

Definition sexp_of_rtask_result (r : list event * rsolver) : sexp :=
  let s := snd r in
  L [L (map sexp_of_event (fst r)); ofNat (rtotal s); ofNat (rtotal_restarts s);
     L (map sexp_of_prog (rdrawn s)); L (map sexp_of_prog (rtested s));
     L (map ofNat (rcuts s)); L (map sexp_of_datum (rdata s))].

Definition run_restart (s : sexp) : sexp :=
  match s with
  | L [kind; sk; L [c; n]; ts] =>
    match asZ kind, asListOf asN sk, asNat c, asNat n, asListOf rtask_of_sexp ts with
    | Some k, Some sk', Some c', Some n', Some ts' =>
      let go (kd : solver_kind) (fixed : bool) :=
          L (map sexp_of_rtask_result
                 (rrun_tasks vapp prim_value sk' value_pyeq never (crit_of c' n') fixed kd r_new ts')) in
      match k with
      | 0 => L [go Naive true; go Naive false]
      | 1 => L [go Cutoff true; go Cutoff false]
      | _ => bad_case
      end
    | _, _, _, _, _ => bad_case
    end
  | _ => bad_case
  end.

Definition run_case (entry : Z) (s : sexp) : sexp :=
  match entry with
  | 1 => run_solver s
  | 2 => run_restart s
  | _ => bad_case
  end.
