(** Glue for property C11: decode a case, run the model, encode the answer.
    entry 1: a history on one evaluator:
             case = [use_cache (0/1); skip list; list of ops]
             op   = (0 prog inputs)  evaluation  |  (1)  clear_cache
             answer = one item per op: (0 value) returned, (1 exc) raised, (2) cleared
    entry 2: the reference semantics alone: case = [prog; inputs],
             answer = (0 value) | (1 exc)
    entry 3: the specification of a history (same case as entry 1) *)
From Coq Require Import ZArith NArith List Bool.
From PS Require Import Base.ListX Base.Sexp Base.Ty Base.Value Base.Prog Sem.Semantics Sem.Eval.
Import ListNotations.
Local Open Scope Z_scope.

Definition op_of_sexp (s : sexp) : option op :=
  match s with
  | L [A 0; p; inp] =>
    do p' <- prog_of_sexp p; do inp' <- asListOf value_of_sexp inp; Some (OEval p' inp')
  | L [A 1] => Some OClear
  | _ => None
  end.

Definition sexp_of_item (x : option observed) : sexp :=
  match x with
  | Some o => sexp_of_observed o
  | None => L [A 2]
  end.

Definition run_hist (spec : bool) (s : sexp) : sexp :=
  match s with
  | L [uc; sk; ops] =>
    match asBool uc, asListOf asN sk, asListOf op_of_sexp ops with
    | Some uc', Some sk', Some ops' =>
      L (map sexp_of_item
             (if spec then spec_history vapp prim_value sk' ops'
              else run_history vapp prim_value sk' uc' [] ops'))
    | _, _, _ => bad_case
    end
  | _ => bad_case
  end.

Definition run_ref (s : sexp) : sexp :=
  match s with
  | L [p; inp] =>
    match prog_of_sexp p, asListOf value_of_sexp inp with
    | Some p', Some inp' => sexp_of_outcome sexp_of_value (eval_ref vapp prim_value p' inp')
    | _, _ => bad_case
    end
  | _ => bad_case
  end.

Definition run_case (entry : Z) (s : sexp) : sexp :=
  match entry with
  | 1 => run_hist false s
  | 2 => run_ref s
  | 3 => run_hist true s
  | _ => bad_case
  end.
