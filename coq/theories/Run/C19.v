(** Glue for property C19 (discrete part only: layout of the prediction layers
    and the encoder; the real-number theorems of NN/Predict.v are not extracted).
    entry 1: case = [grammars; abstraction id; programs]
      grammars = list of params as in Run/C01.v
                 [dsl; forbidden; request; max_depth; min_var; n_gram; const_types]
      abstraction id: 0 primitive_presence, 1 the bigram abstractions, 2 identity
      programs = one list of programs per grammar
    answer = [slices; output_size; start keys; u_output_size; per grammar]
      slices = list of [key; start; length; primitives]
      per grammar = [start nt; start key; start index (U layer); nts; programs]
        nts = list of [[type; state]; key; rules],  rules = list of [symbol; index or -1]
        programs = [] when the program is not in the grammar, else
                   [marked indices; derivation as list of [nt position; rule position]] *)
From Coq Require Import ZArith NArith List Bool.
From PS Require Import Base.ListX Base.Sexp Base.Ty Base.Value Base.Prog Gram.Det Gram.Cfg NN.Encode.
Import ListNotations.
Local Open Scope Z_scope.

Definition dsl_entry (s : sexp) : option (N * ty) :=
  match s with L [n; t] => do n' <- asN n; do t' <- ty_of_sexp t; Some (n', t') | _ => None end.
Definition forb_entry (s : sexp) : option ((N * nat) * list N) :=
  match s with
  | L [L [n; i]; names] => do n' <- asN n; do i' <- asNat i; do l <- asListOf asN names; Some ((n', i'), l)
  | _ => None
  end.

Definition params_of_sexp (s : sexp) : option params :=
  match s with
  | L [d; f; r; md; mv; ng; ct] =>
    do d' <- asListOf dsl_entry d; do f' <- asListOf forb_entry f; do r' <- ty_of_sexp r;
    do md' <- asNat md; do mv' <- asNat mv; do ng' <- asNat ng; do ct' <- asListOf ty_of_sexp ct;
    Some {| dsl := d'; forbidden := f'; request := r'; max_depth := md'; min_var := mv'; n_gram := ng'; const_types := ct' |}
  | _ => None
  end.

Definition sexp_of_nt (x : nt) : sexp := L [sexp_of_ty (fst (fst x)); snd (fst x)].
Definition ofOptNat (o : option nat) : sexp := match o with Some i => ofNat i | None => A (-1) end.

Definition sexp_of_slice (sl : akey * (nat * nat) * list sym) : sexp :=
  L [fst (fst sl); ofNat (fst (snd (fst sl))); ofNat (snd (snd (fst sl))); L (map sexp_of_sym (snd sl))].

Section Answer.
  Variable abs : nt -> akey.
  Variable gs : list table.
  Variable starts : list nt.

  Definition sexp_of_rules (x : nt) (rs : list drule) : sexp :=
    L (map (fun r : drule => L [sexp_of_sym (fst r); ofOptNat (index_in (layout abs gs) (abs x) (fst r))]) rs).

  Definition deriv_positions (tbl : table) (d : list (nt * sym)) : sexp :=
    L (map (fun xs : nt * sym =>
              L [ofOptNat (pos_of nt_eqb (fst xs) (map fst tbl));
                 ofOptNat (match rules_of tbl (fst xs) with
                           | Some rs => pos_of sym_eqb (snd xs) (map fst rs)
                           | None => None
                           end)]) d).

  Definition sexp_of_prog_answer (tbl : table) (start : nt) (p : prog) : sexp :=
    if Det.contains tbl start p then
      match encode abs gs tbl start p, derivation tbl start p with
      | Some m, Some d => L [L (map ofNat m); deriv_positions tbl d]
      | _, _ => L [A (-3)]
      end
    else L [].

  Definition sexp_of_grammar (ts : table * nt) (ps : list prog) : sexp :=
    let (tbl, start) := ts in
    L [sexp_of_nt start; abs start; ofOptNat (start_index abs gs starts start);
       L (map (fun xr : nt * list drule => L [sexp_of_nt (fst xr); abs (fst xr); sexp_of_rules (fst xr) (snd xr)]) tbl);
       L (map (sexp_of_prog_answer tbl start) ps)].
End Answer.

Definition run_layer (s : sexp) : sexp :=
  match s with
  | L [g; a; ps] =>
    match asListOf params_of_sexp g, asNat a, asListOf (asListOf prog_of_sexp) ps with
    | Some Ps, Some aid, Some progs =>
      if Nat.eqb (length Ps) (length progs) then
        let abs := abs_by_id aid in
        let ts := map (fun P => (table_of_cfg P, start_of_cfg P)) Ps in
        let gs := map fst ts in
        let starts := map snd ts in
        L [L (map sexp_of_slice (slices abs gs));
           ofNat (output_size abs gs);
           L (start_keys abs starts);
           ofNat (u_output_size abs gs starts);
           L (map (fun tp => sexp_of_grammar abs gs starts (fst tp) (snd tp)) (combine ts progs))]
      else bad_case
    | _, _, _ => bad_case
    end
  | _ => bad_case
  end.

Definition run_case (entry : Z) (s : sexp) : sexp :=
  match entry with
  | 1 => run_layer s
  | _ => bad_case
  end.
