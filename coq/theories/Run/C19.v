(** Glue for property C19 (discrete part only: layout of the prediction layers
    and the encoder; the real-number theorems of NN/Predict.v are not extracted).
    entry 1: case = [grammars; abstraction id; programs]
      grammars = list of params as in Run/C01.v
                 [dsl; forbidden; request; max_depth; min_var; n_gram; const_types]
      abstraction id: 0 primitive_presence, 1 the bigram abstractions, 2 identity
      programs = one list of programs per grammar
    answer = [slices; output_size; start keys; u_output_size; per grammar]
      slices = list of [key; start; length; primitives]
      per grammar = [start nt; start key; start index (U layer); nts; programs]
        nts = list of [[type; state]; key; rules],  rules = list of [symbol; index or -1]
        programs = [] when the program is not in the grammar, else
                   [marked indices; derivation as list of [nt position; rule position]]
    entry 2 (U layer on unambiguous rule tables, NN/EncodeU.v): case = [grammars; abstraction id; programs]
      grammars = list of [table; starts], table as in Run/C04.v entry 2:
                 list of [nt; rules], nt = [type; U], rules = list of [symbol; alternatives], alternative = list of nt
      abstraction id: 0 primitive_presence, 1 ucfg_bigram, 2 identity (on the wire form of the states)
    answer = [slices; slice size; start keys; output size; per grammar]
      per grammar = [starts; nts; programs]
        starts = list of [nt; key; start index]
        nts = list of [nt; key; entries], entries = one [symbol; index or -1; alternative] per (rule, alternative)
        programs = [] when no start symbol contains the program, else
                   [number of derivations over all start symbols; position of the first start symbol containing it;
                    marked indices; first derivation from that start as list of [nt position; entry position]]
    entry 0: no model call (answer []) *)
From Coq Require Import ZArith NArith List Bool.
From PS Require Import Base.ListX Base.Sexp Base.Ty Base.Value Base.Prog Gram.Det Gram.Cfg Gram.U NN.Encode NN.EncodeU.
Import ListNotations.
Local Open Scope Z_scope.

Definition dsl_entry (s : sexp) : option (N * ty) :=
  match s with L [n; t] => do n' <- asN n; do t' <- ty_of_sexp t; Some (n', t') | _ => None end.
Definition forb_entry (s : sexp) : option ((N * nat) * list N) :=
  match s with
  | L [L [n; i]; names] => do n' <- asN n; do i' <- asNat i; do l <- asListOf asN names; Some ((n', i'), l)
  | _ => None
  end.

Definition params_of_sexp (s : sexp) : option params :=
  match s with
  | L [d; f; r; md; mv; ng; ct] =>
    do d' <- asListOf dsl_entry d; do f' <- asListOf forb_entry f; do r' <- ty_of_sexp r;
    do md' <- asNat md; do mv' <- asNat mv; do ng' <- asNat ng; do ct' <- asListOf ty_of_sexp ct;
    Some {| dsl := d'; forbidden := f'; request := r'; max_depth := md'; min_var := mv'; n_gram := ng'; const_types := ct' |}
  | _ => None
  end.

Definition sexp_of_nt (x : nt) : sexp := L [sexp_of_ty (fst (fst x)); snd (fst x)].
Definition ofOptNat (o : option nat) : sexp := match o with Some i => ofNat i | None => A (-1) end.

Definition sexp_of_slice (sl : akey * (nat * nat) * list sym) : sexp :=
  L [fst (fst sl); ofNat (fst (snd (fst sl))); ofNat (snd (snd (fst sl))); L (map sexp_of_sym (snd sl))].

Section Answer.
  Variable abs : nt -> akey.
  Variable gs : list table.
  Variable starts : list nt.

  Definition sexp_of_rules (x : nt) (rs : list drule) : sexp :=
    L (map (fun r : drule => L [sexp_of_sym (fst r); ofOptNat (index_in (layout abs gs) (abs x) (fst r))]) rs).

  Definition deriv_positions (tbl : table) (d : list (nt * sym)) : sexp :=
    L (map (fun xs : nt * sym =>
              L [ofOptNat (pos_of nt_eqb (fst xs) (map fst tbl));
                 ofOptNat (match rules_of tbl (fst xs) with
                           | Some rs => pos_of sym_eqb (snd xs) (map fst rs)
                           | None => None
                           end)]) d).

  Definition sexp_of_prog_answer (tbl : table) (start : nt) (p : prog) : sexp :=
    if Det.contains tbl start p then
      match encode abs gs tbl start p, derivation tbl start p with
      | Some m, Some d => L [L (map ofNat m); deriv_positions tbl d]
      | _, _ => L [A (-3)]
      end
    else L [].

  Definition sexp_of_grammar (ts : table * nt) (ps : list prog) : sexp :=
    let (tbl, start) := ts in
    L [sexp_of_nt start; abs start; ofOptNat (start_index abs gs starts start);
       L (map (fun xr : nt * list drule => L [sexp_of_nt (fst xr); abs (fst xr); sexp_of_rules (fst xr) (snd xr)]) tbl);
       L (map (sexp_of_prog_answer tbl start) ps)].
End Answer.

Definition run_layer (s : sexp) : sexp :=
  match s with
  | L [g; a; ps] =>
    match asListOf params_of_sexp g, asNat a, asListOf (asListOf prog_of_sexp) ps with
    | Some Ps, Some aid, Some progs =>
      if Nat.eqb (length Ps) (length progs) then
        let abs := abs_by_id aid in
        let ts := map (fun P => (table_of_cfg P, start_of_cfg P)) Ps in
        let gs := map fst ts in
        let starts := map snd ts in
        L [L (map sexp_of_slice (slices abs gs));
           ofNat (output_size abs gs);
           L (start_keys abs starts);
           ofNat (u_output_size abs gs starts);
           L (map (fun tp => sexp_of_grammar abs gs starts (fst tp) (snd tp)) (combine ts progs))]
      else bad_case
    | _, _, _ => bad_case
    end
  | _ => bad_case
  end.

(** ---- entry 2: U layer on unambiguous rule tables ---- *)
Definition unt_of_sexp (s : sexp) : option unt :=
  match s with L [t; a] => do t' <- ty_of_sexp t; Some (t', a) | _ => None end.
Definition sexp_of_unt (x : unt) : sexp := L [sexp_of_ty (fst x); snd x].
Definition ualt_of_sexp : sexp -> option ualt := asListOf unt_of_sexp.
Definition utable_of_sexp : sexp -> option utable :=
  asListOf (fun e => match e with
                     | L [x; rs] =>
                       do x' <- unt_of_sexp x;
                       do rs' <- asListOf (fun r => match r with
                                                    | L [sy; alts] => do sy' <- sym_of_sexp sy; do alts' <- asListOf ualt_of_sexp alts; Some (sy', alts')
                                                    | _ => None
                                                    end) rs;
                       Some (x', rs')
                     | _ => None
                     end).
Definition ugrammar_of_sexp (s : sexp) : option (utable * list unt) :=
  match s with L [t; sts] => do t' <- utable_of_sexp t; do sts' <- asListOf unt_of_sexp sts; Some (t', sts') | _ => None end.

Section UAnswer.
  Variable abs : unt -> akey.
  Variable gs : list utable.
  Variable all_starts : list unt.

  (** one entry per (rule, alternative), rule by rule *)
  Definition uentries (rs : list urule) : list (sym * ualt) :=
    flat_map (fun r : urule => map (fun alt => (fst r, alt)) (snd r)) rs.
  Definition entry_eqb (a b : sym * ualt) : bool := sym_eqb (fst a) (fst b) && ualt_eqb (snd a) (snd b).
  Definition sexp_of_entries (x : unt) (rs : list urule) : sexp :=
    L (map (fun e : sym * ualt => L [sexp_of_sym (fst e); ofOptNat (uindex abs gs x (fst e)); L (map sexp_of_unt (snd e))])
           (uentries rs)).

  Definition ustep_positions (tbl : utable) (d : list ustep) : sexp :=
    L (map (fun st : ustep =>
              L [ofOptNat (pos_of unt_eqb (fst (fst st)) (map fst tbl));
                 ofOptNat (match urules_of tbl (fst (fst st)) with
                           | Some rs => pos_of entry_eqb (snd (fst st), snd st) (uentries rs)
                           | None => None
                           end)]) d).

  Definition first_start (tbl : utable) (starts : list unt) (p : prog) : option (nat * unt) :=
    (fix go (l : list unt) (i : nat) : option (nat * unt) :=
       match l with
       | [] => None
       | x :: r => if ucontains_at tbl x p then Some (i, x) else go r (S i)
       end) starts O.

  Definition sexp_of_uprog_answer (tbl : utable) (starts : list unt) (p : prog) : sexp :=
    match first_start tbl starts p with
    | None => L []
    | Some (i, x) =>
      L [ofNat (length (uderivations_all tbl starts p)); ofNat i;
         L (map ofNat (uencode abs gs tbl starts p));
         match uderivations_from tbl x p with d :: _ => ustep_positions tbl d | [] => A (-3) end]
    end.

  Definition sexp_of_ugrammar (g : utable * list unt) (ps : list prog) : sexp :=
    let (tbl, starts) := g in
    L [L (map (fun x => L [sexp_of_unt x; abs x; ofOptNat (ustart_index abs gs all_starts x)]) starts);
       L (map (fun xr : unt * list urule => L [sexp_of_unt (fst xr); abs (fst xr); sexp_of_entries (fst xr) (snd xr)]) tbl);
       L (map (sexp_of_uprog_answer tbl starts) ps)].
End UAnswer.

Definition run_ulayer (s : sexp) : sexp :=
  match s with
  | L [g; a; ps] =>
    match asListOf ugrammar_of_sexp g, asNat a, asListOf (asListOf prog_of_sexp) ps with
    | Some Gs, Some aid, Some progs =>
      if Nat.eqb (length Gs) (length progs) then
        let abs := uabs_by_id aid in
        let gs := map fst Gs in
        let all_starts := flat_map snd Gs in
        L [L (map sexp_of_slice (uslices abs gs));
           ofNat (uslice_size abs gs);
           L (ustart_keys abs all_starts);
           ofNat (uoutput_size abs gs all_starts);
           L (map (fun gp => sexp_of_ugrammar abs gs all_starts (fst gp) (snd gp)) (combine Gs progs))]
      else bad_case
    | _, _, _ => bad_case
    end
  | _ => bad_case
  end.

Definition run_case (entry : Z) (s : sexp) : sexp :=
  match entry with
  | 0 => L []
  | 1 => run_layer s
  | 2 => run_ulayer s
  | _ => bad_case
  end.
