(** Glue for property C17 (instantiating constants).
    entry 1 (deterministic grammar):
      case = [table; start; mode; weights; values; candidates; templates; fuel; want_sum]
        table / weights / mode as in Run/C04.v (mode 0 uniform, 1 normalise, 2 as given)
        values = list of [type; list of values]
      answer = [instantiated table; instantiated weights;
                [table_ok; wf_at before; wf_at after]; |language after|; [sum after] or [];
                list of [member; probability] (candidates, in the instantiated grammar);
                list of [[instantiations] or []; probability of the template; mass of its instantiations]]
    entry 2 (unambiguous grammar): case = [table; starts; mode; weights; start weights; values; candidates; templates; fuel; want_sum]
      answer = [instantiated table; instantiated weights; programs() after; |language after|; [sum after] or [];
                candidates; templates] *)
From Coq Require Import ZArith NArith QArith List Bool.
From PS Require Import Base.ListX Base.Sexp Base.Ty Base.Value Base.Prog Gram.Det Gram.U Gram.Consts Run.C04.
Import ListNotations.
Local Open Scope Z_scope.

Definition vtable_of_sexp : sexp -> option vtable :=
  asListOf (fun e => match e with
                     | L [t; vs] => do t' <- ty_of_sexp t; do vs' <- asListOf value_of_sexp vs; Some (t', vs')
                     | _ => None
                     end).

Definition sexp_of_table (tbl : table) : sexp :=
  L (map (fun xr : nt * list drule =>
            L [sexp_of_nt (fst xr);
               L (map (fun r : drule =>
                         L [sexp_of_sym (fst r);
                            L (map (fun a : argnt => L [sexp_of_ty (fst a); snd a]) (fst (snd r)));
                            snd (snd r)]) (snd xr))]) tbl).
Definition sexp_of_utable (tbl : utable) : sexp :=
  L (map (fun xr : unt * list urule =>
            L [sexp_of_unt (fst xr);
               L (map (fun r : urule => L [sexp_of_sym (fst r); L (map (fun alt : ualt => L (map sexp_of_unt alt)) (snd r))]) (snd xr))]) tbl).

Definition template_answer (ip : option (list prog)) (p0 : Q) (P' : prog -> Q) : sexp :=
  match ip with
  | None => L [L []; sexp_of_q_raw p0; sexp_of_q_raw 0%Q]
  | Some l => L [L [L (map sexp_of_prog l)]; sexp_of_q_raw p0; sexp_of_q_raw (qsum_red (map P' l))]
  end.

Definition run_det (s : sexp) : sexp :=
  match s with
  | L [tb; st; md; ws; vs; cs; ts; fu; wsum] =>
    match table_of_sexp tb, nt_of_sexp st, asNat md, wtable_of_sexp ws, vtable_of_sexp vs,
          asListOf prog_of_sexp cs, asListOf prog_of_sexp ts, asNat fu, asBool wsum with
    | Some tbl, Some start, Some mode, Some wraw, Some vt, Some cands, Some tpls, Some fuel, Some want =>
      let w := match mode with O => uniform tbl | S O => normalise wraw | _ => wraw end in
      let tbl' := inst_table vt tbl in
      let w' := inst_weights vt w in
      let wl := wlang_at fuel tbl' w' start in
      L [ sexp_of_table tbl';
          sexp_of_wtable w';
          L [ofBool (table_ok tbl'); ofBool (wf_at fuel tbl w start); ofBool (wf_at fuel tbl' w' start)];
          ofNat (length wl);
          (if want then L [sexp_of_q (qsum_red (map snd wl))] else L []);
          L (map (fun p => L [ofBool (contains tbl' start p); sexp_of_q_raw (probability tbl' w' start p)]) cands);
          L (map (fun p => template_answer (insts_py vt p) (probability tbl w start p) (probability tbl' w' start)) tpls) ]
    | _, _, _, _, _, _, _, _, _ => bad_case
    end
  | _ => bad_case
  end.

Definition run_u (s : sexp) : sexp :=
  match s with
  | L [tb; sts; md; ws; sws; vs; cs; ts; fu; wsum] =>
    match utable_of_sexp tb, asListOf unt_of_sexp sts, asNat md, uwtable_of_sexp ws, swtable_of_sexp sws, vtable_of_sexp vs,
          asListOf prog_of_sexp cs, asListOf prog_of_sexp ts, asNat fu, asBool wsum with
    | Some tbl, Some starts, Some mode, Some wraw, Some swraw, Some vt, Some cands, Some tpls, Some fuel, Some want =>
      let w := match mode with O => uuniform tbl | S O => unormalise wraw | _ => wraw end in
      let sw := match mode with O => uuniform_starts starts | S O => unormalise_starts swraw | _ => swraw end in
      let tbl' := inst_utable vt tbl in
      let w' := inst_uweights vt w in
      let lang := ulanguage fuel tbl' starts in
      L [ sexp_of_utable tbl';
          sexp_of_uwtable w';
          A (Z.of_N (ucount fuel tbl' starts));
          ofNat (length lang);
          (if want then L [sexp_of_q (qsum_red (map (uprobability tbl' w' sw starts) lang))] else L []);
          L (map (fun p => L [ofBool (ucontains tbl' starts p); sexp_of_q_raw (uprobability tbl' w' sw starts p)]) cands);
          L (map (fun p => template_answer (insts_py vt p) (uprobability tbl w sw starts p) (uprobability tbl' w' sw starts)) tpls) ]
    | _, _, _, _, _, _, _, _, _, _ => bad_case
    end
  | _ => bad_case
  end.

Definition run_case (entry : Z) (s : sexp) : sexp :=
  match entry with
  | 0 => L []
  | 1 => run_det s
  | 2 => run_u s
  | _ => bad_case
  end.
