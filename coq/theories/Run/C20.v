(** Glue for property C20: decode a case, run the model, encode the answer.
    entry 1: filter algebra:  case = [expr; list of env], env = list of bool
    entry 2: obs-equivalence: case = [skip list; inputs list; program list] *)
From Coq Require Import ZArith NArith List Bool.
From PS Require Import Base.ListX Base.Sexp Base.Ty Base.Value Base.Prog Sem.Semantics Sem.Eval Sem.Filters.
Import ListNotations.
Local Open Scope Z_scope.

Fixpoint fexp_of_sexp_fuel (fuel : nat) (s : sexp) : option fexp :=
  match fuel with
  | O => None
  | S f =>
    match s with
    | L [A 0; A i] => Some (EBase (Z.to_nat i))
    | L [A 1; e] => do a <- fexp_of_sexp_fuel f e; Some (ENeg a)
    | L [A 2; x; y] => do a <- fexp_of_sexp_fuel f x; do b <- fexp_of_sexp_fuel f y; Some (EAnd a b)
    | L [A 3; x; y] => do a <- fexp_of_sexp_fuel f x; do b <- fexp_of_sexp_fuel f y; Some (EOr a b)
    | L (A 4 :: l) => do l' <- omap (fexp_of_sexp_fuel f) l; Some (EInterN l')
    | L (A 5 :: l) => do l' <- omap (fexp_of_sexp_fuel f) l; Some (EUnionN l')
    | L [A 6; e] => do a <- fexp_of_sexp_fuel f e; Some (ENegRaw a)
    | _ => None
    end
  end.

Definition env_of (l : list bool) (i : nat) : bool := nth i l false.

Definition run_algebra (s : sexp) : sexp :=
  match s with
  | L [e; envs] =>
    match fexp_of_sexp_fuel 100 e, asListOf (asListOf asBool) envs with
    | Some e', Some envs' =>
      let o := build e' in
      L (map (fun env => L [ofBool (accept (env_of env) o); ofBool (reject (env_of env) o)]) envs')
    | _, _ => bad_case
    end
  | _ => bad_case
  end.

(** Present programs one after the other; a raised exception is reported and
    the cache is left as it was. *)
Fixpoint present (skip : list N) (inputs : list (list value)) (c : ocache) (l : list prog) : list sexp :=
  match l with
  | [] => []
  | p :: r =>
    let obs := map (fun inp => observe skip (eval_ref vapp prim_value p inp)) inputs in
    match signature obs with
    | Exc e => L [A 1; ofN e] :: present skip inputs c r
    | Ok sg =>
      let '(b, c') := obseq_step c {| pr_prog := p; pr_type := ptype p; pr_sig := sg |} in
      L [A 0; ofBool b] :: present skip inputs c' r
    end
  end.

Definition run_obseq (s : sexp) : sexp :=
  match s with
  | L [sk; inps; progs] =>
    match asListOf asN sk, asListOf (asListOf value_of_sexp) inps, asListOf prog_of_sexp progs with
    | Some sk', Some inps', Some progs' => L (present sk' inps' [] progs')
    | _, _, _ => bad_case
    end
  | _ => bad_case
  end.

Definition run_case (entry : Z) (s : sexp) : sexp :=
  match entry with
  | 1 => run_algebra s
  | 2 => run_obseq s
  | _ => bad_case
  end.
