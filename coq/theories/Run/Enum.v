(** Glue for the enumerator properties C02, C03, C12: the implementation's
    grammar table, weights and output sequence come in, the verdict of the
    verified checkers goes out.
    entry 1: [table; start; fuel; out]                      exactly-once check
    entry 2: [table; start; mode; tags; aux; out]           order check
             mode 1: rational weights, aux = relative tolerance [num; den]
             mode 2: integer costs, aux = slack
             mode 4: bucket index per rule, aux = number of buckets
    entry 3: [table; start; fuel; rejected; out]            filtered enumeration
    entry 4: [table; start; fuel; merges; out]              merge history, merge = [k; program]
    entry 5: [table; start; fuel]                           the model's language *)
From Coq Require Import ZArith NArith QArith List Bool.
From PS Require Import Base.ListX Base.Sexp Base.Ty Base.Value Base.Prog Gram.Det Gram.U Enum.Checker Run.C04.
From PS Require Enum.Frontier.
Import ListNotations.
Local Open Scope Z_scope.

Definition nt_of_sexp (s : sexp) : option nt :=
  match s with L [t; a; b] => do t' <- ty_of_sexp t; Some (t', a, b) | _ => None end.
Definition argnt_of_sexp (s : sexp) : option argnt :=
  match s with L [t; a] => do t' <- ty_of_sexp t; Some (t', a) | _ => None end.
Definition drule_of_sexp (s : sexp) : option drule :=
  match s with
  | L [sy; L [args; st]] => do sy' <- sym_of_sexp sy; do args' <- asListOf argnt_of_sexp args; Some (sy', (args', st))
  | _ => None
  end.
Definition table_of_sexp (s : sexp) : option table :=
  asListOf (fun e => match e with
                     | L [x; rs] => do x' <- nt_of_sexp x; do rs' <- asListOf drule_of_sexp rs; Some (x', rs')
                     | _ => None end) s.

Definition q_of_sexp (s : sexp) : option Q :=
  match s with
  | L [A n; A (Zpos d)] => Some (Qmake n d)
  | _ => None
  end.
Definition z_of_q_sexp (s : sexp) : option Z :=
  match s with L [A n; A 1] => Some n | A n => Some n | _ => None end.

Definition tags_of_sexp {X} (f : sexp -> option X) (s : sexp) : option (list (nt * list (sym * X))) :=
  asListOf (fun e => match e with
                     | L [x; ws] =>
                       do x' <- nt_of_sexp x;
                       do ws' <- asListOf (fun w => match w with
                                                    | L [sy; q] => do sy' <- sym_of_sexp sy; do q' <- f q; Some (sy', q')
                                                    | _ => None end) ws;
                       Some (x', ws')
                     | _ => None end) s.

Fixpoint first_false {X} (f : X -> bool) (l : list X) (i : Z) : Z :=
  match l with [] => -1 | x :: r => if f x then first_false f r (i + 1) else i end.

Fixpoint first_dup (l : list prog) (i : Z) : Z :=
  match l with [] => -1 | x :: r => if memb prog_eqb x r then i else first_dup r (i + 1) end.

Definition run_once (s : sexp) : sexp :=
  match s with
  | L [tb; st; fu; out] =>
    match table_of_sexp tb, nt_of_sexp st, asNat fu, asListOf prog_of_sexp out with
    | Some tbl, Some x, Some fuel, Some o =>
      let Lg := language fuel tbl x in
      let Lg' := language (S fuel) tbl x in
      L [ ofBool (table_ok tbl && check_enum (member_of fuel tbl x) (length Lg) o);
          ofBool (nodupb prog_eqb o); ofBool (forallb (member_of fuel tbl x) o);
          ofNat (length o); ofNat (length Lg); ofNat (length Lg');
          A (first_false (member_of fuel tbl x) o 0); A (first_dup o 0);
          ofList sexp_of_prog (filter (fun p => negb (memb prog_eqb p o)) (firstn 5 (filter (fun p => negb (memb prog_eqb p o)) Lg))) ]
    | _, _, _, _ => bad_case
    end
  | _ => bad_case
  end.

(** position of the first element of the chain that is not related to its successor *)
Fixpoint first_break {K} (r : K -> K -> bool) (l : list K) (i : Z) : Z :=
  match l with
  | [] => -1
  | a :: t => match t with [] => -1 | b :: _ => if r a b then first_break r t (i + 1) else i end
  end.

Fixpoint unit_vec (n : nat) (i : Z) : list Z :=
  match n with O => [] | S k => (if i =? 0 then 1 else 0) :: unit_vec k (i - 1) end.

Definition all_some {X} (l : list (option X)) : option (list X) := omap (fun x => x) l.

Definition run_order (s : sexp) : sexp :=
  match s with
  | L [tb; st; A mode; tags; aux; out] =>
    match table_of_sexp tb, nt_of_sexp st, asListOf prog_of_sexp out with
    | Some tbl, Some x, Some o =>
      match mode with
      | 1 =>
        match tags_of_sexp q_of_sexp tags, q_of_sexp aux with
        | Some w, Some eps =>
          match all_some (map (fold_prog Qmult tbl w x) o) with
          | Some keys =>
            let qmin := fold_right (fun q m => if Qle_bool q m then q else m) 1%Q keys in
            L [ofBool (chain (q_ge_tol eps) keys); A (first_break (q_ge_tol eps) keys 0);
               L [A (Qnum (Qred qmin)); A (Zpos (Qden (Qred qmin)))]]
          | None => L [A 0; A (-2)]
          end
        | _, _ => bad_case
        end
      | 2 =>
        match tags_of_sexp z_of_q_sexp tags, asZ aux with
        | Some w, Some slack =>
          match all_some (map (fold_prog Z.add tbl w x) o) with
          | Some keys => L [ofBool (slack_sorted slack None keys); ofList A keys]
          | None => L [A 0; A (-2)]
          end
        | _, _ => bad_case
        end
      | 4 =>
        match tags_of_sexp z_of_q_sexp tags, asNat aux with
        | Some w, Some size =>
          let wv := map (fun xw : nt * list (sym * Z) =>
                           (fst xw, map (fun sw : sym * Z => (fst sw, unit_vec size (snd sw))) (snd xw))) w in
          match all_some (map (fold_prog vec_add tbl wv x) o) with
          | Some keys => L [ofBool (chain lex_le keys); A (first_break lex_le keys 0)]
          | None => L [A 0; A (-2)]
          end
        | _, _ => bad_case
        end
      | _ => bad_case
      end
    | _, _, _ => bad_case
    end
  | _ => bad_case
  end.

Definition run_filtered (s : sexp) : sexp :=
  match s with
  | L [tb; st; fu; rej; out] =>
    match table_of_sexp tb, nt_of_sexp st, asNat fu, asListOf prog_of_sexp rej, asListOf prog_of_sexp out with
    | Some tbl, Some x, Some fuel, Some rj, Some o =>
      let Lg := language fuel tbl x in
      L [ ofBool (table_ok tbl && check_filtered (member_of fuel tbl x) Lg rj o);
          ofBool (nodupb prog_eqb o);
          A (first_false (fun p => member_of fuel tbl x p && accepted rj p) o 0);
          ofList sexp_of_prog (firstn 5 (filter (fun p => hereditarily rj p && negb (memb prog_eqb p o)) Lg));
          ofNat (length Lg); ofNat (length (filter (hereditarily rj) Lg)); ofNat (length (filter (accepted rj) Lg)) ]
    | _, _, _, _, _ => bad_case
    end
  | _ => bad_case
  end.

(** filters that reject every program containing one of the listed sub-programs
    (e.g. an automaton filter without a rule for them) *)
Definition run_filtered_sub (s : sexp) : sexp :=
  match s with
  | L [tb; st; fu; rej; out] =>
    match table_of_sexp tb, nt_of_sexp st, asNat fu, asListOf prog_of_sexp rej, asListOf prog_of_sexp out with
    | Some tbl, Some x, Some fuel, Some rj, Some o =>
      let Lg := language fuel tbl x in
      L [ ofBool (table_ok tbl && check_filtered_gen (member_of fuel tbl x) Lg (hereditarily rj) o);
          ofBool (nodupb prog_eqb o);
          A (first_false (fun p => member_of fuel tbl x p && hereditarily rj p) o 0);
          ofList sexp_of_prog (firstn 5 (filter (fun p => hereditarily rj p && negb (memb prog_eqb p o)) Lg));
          ofNat (length Lg); ofNat (length (filter (hereditarily rj) Lg)); ofNat (length (filter (hereditarily rj) Lg)) ]
    | _, _, _, _, _ => bad_case
    end
  | _ => bad_case
  end.

Definition merge_of_sexp (s : sexp) : option (nat * prog) :=
  match s with L [k; p] => do k' <- asNat k; do p' <- prog_of_sexp p; Some (k', p') | _ => None end.

Definition run_merged (s : sexp) : sexp :=
  match s with
  | L [tb; st; fu; ms; out] =>
    match table_of_sexp tb, nt_of_sexp st, asNat fu, asListOf merge_of_sexp ms, asListOf prog_of_sexp out with
    | Some tbl, Some x, Some fuel, Some m, Some o =>
      let Lg := language fuel tbl x in
      L [ ofBool (table_ok tbl && check_merged (member_of fuel tbl x) Lg m o);
          ofBool (nodupb prog_eqb o); ofBool (forallb (member_of fuel tbl x) o);
          ofBool (check_merged_prefix m 0 o);
          ofList sexp_of_prog (firstn 5 (filter (fun p => negb (memb prog_eqb p o) && negb (existsb (fun mm : nat * prog => contains_sub p (snd mm)) m)) Lg));
          ofNat (length Lg) ]
    | _, _, _, _, _ => bad_case
    end
  | _ => bad_case
  end.

Definition run_language (s : sexp) : sexp :=
  match s with
  | L [tb; st; fu] =>
    match table_of_sexp tb, nt_of_sexp st, asNat fu with
    | Some tbl, Some x, Some fuel => ofList sexp_of_prog (language fuel tbl x)
    | _, _, _ => bad_case
    end
  | _ => bad_case
  end.

(** ---- unambiguous grammars (u-heap-search, u-bucket-search) ----
    entry 11: [utable; starts; fuel; out]                       exactly-once
    entry 12: [utable; starts; uweights; start weights; eps; out] probability order (start weight included)
    entry 13: [utable; starts; fuel; rejected; out]              filtered
    entry 14: [utable; starts; fuel; merges; out]                merges *)
Definition umember (fuel : nat) (tbl : utable) (starts : list unt) (p : prog) : bool :=
  ucontains tbl starts p && normal p && Nat.leb (pdepth p) fuel.

Definition run_u_once (s : sexp) : sexp :=
  match s with
  | L [tb; st; fu; out] =>
    match utable_of_sexp tb, asListOf unt_of_sexp st, asNat fu, asListOf prog_of_sexp out with
    | Some tbl, Some sts, Some fuel, Some o =>
      let Lg := ulanguage fuel tbl sts in
      let Lg' := ulanguage (S fuel) tbl sts in
      L [ ofBool (nodupb prog_eqb Lg && check_enum (umember fuel tbl sts) (length Lg) o);
          ofBool (nodupb prog_eqb o); ofBool (forallb (umember fuel tbl sts) o);
          ofNat (length o); ofNat (length Lg); ofNat (length Lg');
          A (first_false (umember fuel tbl sts) o 0); A (first_dup o 0);
          ofList sexp_of_prog (firstn 5 (filter (fun p => negb (memb prog_eqb p o)) Lg)) ]
    | _, _, _, _ => bad_case
    end
  | _ => bad_case
  end.

Definition run_u_order (s : sexp) : sexp :=
  match s with
  | L [tb; st; ws; sws; eps; out] =>
    match utable_of_sexp tb, asListOf unt_of_sexp st, uwtable_of_sexp ws, swtable_of_sexp sws, q_of_sexp eps, asListOf prog_of_sexp out with
    | Some tbl, Some sts, Some w, Some sw, Some e, Some o =>
      let keys := map (uprobability tbl w sw sts) o in
      L [ofBool (chain (q_ge_tol e) keys && forallb (fun q => negb (Qeq_bool q 0)) keys); A (first_break (q_ge_tol e) keys 0)]
    | _, _, _, _, _, _ => bad_case
    end
  | _ => bad_case
  end.

Definition run_u_filtered (s : sexp) : sexp :=
  match s with
  | L [tb; st; fu; rej; out] =>
    match utable_of_sexp tb, asListOf unt_of_sexp st, asNat fu, asListOf prog_of_sexp rej, asListOf prog_of_sexp out with
    | Some tbl, Some sts, Some fuel, Some rj, Some o =>
      let Lg := ulanguage fuel tbl sts in
      L [ ofBool (check_filtered (umember fuel tbl sts) Lg rj o);
          ofBool (nodupb prog_eqb o);
          A (first_false (fun p => umember fuel tbl sts p && accepted rj p) o 0);
          ofList sexp_of_prog (firstn 5 (filter (fun p => hereditarily rj p && negb (memb prog_eqb p o)) Lg));
          ofNat (length Lg); ofNat (length (filter (hereditarily rj) Lg)); ofNat (length (filter (accepted rj) Lg)) ]
    | _, _, _, _, _ => bad_case
    end
  | _ => bad_case
  end.

Definition run_u_merged (s : sexp) : sexp :=
  match s with
  | L [tb; st; fu; ms; out] =>
    match utable_of_sexp tb, asListOf unt_of_sexp st, asNat fu, asListOf merge_of_sexp ms, asListOf prog_of_sexp out with
    | Some tbl, Some sts, Some fuel, Some m, Some o =>
      let Lg := ulanguage fuel tbl sts in
      L [ ofBool (check_merged (umember fuel tbl sts) Lg m o);
          ofBool (nodupb prog_eqb o); ofBool (forallb (umember fuel tbl sts) o);
          ofBool (check_merged_prefix m 0 o);
          ofList sexp_of_prog (firstn 5 (filter (fun p => negb (memb prog_eqb p o) && negb (existsb (fun mm : nat * prog => contains_sub p (snd mm)) m)) Lg));
          ofNat (length Lg) ]
    | _, _, _, _, _ => bad_case
    end
  | _ => bad_case
  end.

(** entry 21: the frontier expansion of Enum/Frontier.v on a list of popped combinations
    (compared with the combinations bee search pushes for each popped one) *)
Definition run_children (s : sexp) : sexp :=
  match asListOf (asListOf asNat) s with
  | Some cs => ofList (fun c => ofList (ofList ofNat) (PS.Enum.Frontier.children c)) cs
  | None => bad_case
  end.

Definition run_case (entry : Z) (s : sexp) : sexp :=
  match entry with
  | 1 => run_once s
  | 2 => run_order s
  | 3 => run_filtered s
  | 4 => run_merged s
  | 5 => run_language s
  | 6 => run_filtered_sub s
  | 11 => run_u_once s
  | 12 => run_u_order s
  | 13 => run_u_filtered s
  | 14 => run_u_merged s
  | 21 => run_children s
  | _ => bad_case
  end.
