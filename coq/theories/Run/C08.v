(** Glue for property C08 (grammar splitter).
    Encodings of tables, weights, start weights, programs: as Run/C04.v (entry 2).
      node   = [start non-terminal; list of [symbol; alternative]; [num; den]]
      prefix = [start non-terminal; list of [symbol; alternative]]
    entry 1: [table; weights; start weights; splits; [num; den] desired ratio; fuel; [six 0/1 flags: which repairs are applied, in the order of the record Splitter.fixes]]
      answer [status; list of [ [num; den] tracked mass; list of node ]; [num; den] ratio]
        status 0 = returned, 1 = out of fuel, 2 = IndexError, 3 = TypeError, 4 = division by a zero mass
    entry 2: [table; weights; start weights; group = list of prefix; programs]
      answer [all prefixes valid; [num; den] mass of the group; list of [member; [num; den] fragment probability; number of derivations; [num; den] probability in the original grammar]]
    entry 3: [table; weights; start weights; fuel]
      answer [wf_weights; wf_starts; all weights positive; number of derivations (fuel-bounded)] *)
From Coq Require Import ZArith NArith QArith List Bool.
From PS Require Import Base.ListX Base.Sexp Base.Ty Base.Value Base.Prog Gram.Det Gram.U Enum.Splitter.
From PS Require Run.C04.
Import ListNotations.
Local Open Scope Z_scope.

Definition q_of_sexp := Run.C04.q_of_sexp.
Definition sexp_of_q_raw := Run.C04.sexp_of_q_raw.
Definition sexp_of_q := Run.C04.sexp_of_q.
Definition unt_of_sexp := Run.C04.unt_of_sexp.
Definition sexp_of_unt := Run.C04.sexp_of_unt.
Definition ualt_of_sexp := Run.C04.ualt_of_sexp.

Definition choice_of_sexp (s : sexp) : option choice :=
  match s with
  | L [sy; alt] => do sy' <- sym_of_sexp sy; do alt' <- ualt_of_sexp alt; Some (sy', alt')
  | _ => None
  end.
Definition sexp_of_choice (c : choice) : sexp := L [sexp_of_sym (fst c); L (map sexp_of_unt (snd c))].
Definition prefix_of_sexp (s : sexp) : option deriv :=
  match s with
  | L [x; cs] => do x' <- unt_of_sexp x; do cs' <- asListOf choice_of_sexp cs; Some (x', cs')
  | _ => None
  end.
Definition sexp_of_node (n : node) : sexp :=
  L [sexp_of_unt (nstart n); L (map sexp_of_choice (nhist n)); sexp_of_q (nprob n)].
Definition sexp_of_group (g : group) : sexp := L [sexp_of_q (snd g); L (map sexp_of_node (fst g))].

Definition fixes_of_sexp (s : sexp) : option fixes :=
  match s with
  | L [a; b; c; d; e; f] =>
    do a' <- asBool a; do b' <- asBool b; do c' <- asBool c; do d' <- asBool d; do e' <- asBool e; do f' <- asBool f;
    Some (mkFixes a' b' c' d' e' f')
  | _ => None
  end.

Definition run_split (s : sexp) : sexp :=
  match s with
  | L [tb; ws; sws; sp; th; fu; fxs] =>
    match Run.C04.utable_of_sexp tb, Run.C04.uwtable_of_sexp ws, Run.C04.swtable_of_sexp sws,
          asNat sp, q_of_sexp th, asNat fu, fixes_of_sexp fxs with
    | Some tbl, Some w, Some sw, Some splits, Some threshold, Some fuel, Some fx =>
      match split_into_nodes fx tbl w sw fuel splits threshold with
      | Ok (pg, ratio) => L [A 0; L (map sexp_of_group pg); sexp_of_q ratio]
      | OutOfFuel => L [A 1; L []; L []]
      | IndexErr => L [A 2; L []; L []]
      | TypeErr => L [A 3; L []; L []]
      | DivZero => L [A 4; L []; L []]
      end
    | _, _, _, _, _, _, _ => bad_case
    end
  | _ => bad_case
  end.

Definition run_frag (s : sexp) : sexp :=
  match s with
  | L [tb; ws; sws; gr; ps] =>
    match Run.C04.utable_of_sexp tb, Run.C04.uwtable_of_sexp ws, Run.C04.swtable_of_sexp sws,
          asListOf prefix_of_sexp gr, asListOf prog_of_sexp ps with
    | Some tbl, Some w, Some sw, Some prefixes, Some progs =>
      let starts := map fst sw in
      let onodes := map (node_of_prefix tbl w sw) prefixes in
      let g := flat_map (fun o : option node => match o with Some n => [n] | None => [] end) onodes in
      let m := qr (mass_of g) in
      L [ ofBool (forallb (fun o : option node => match o with Some _ => true | None => false end) onodes);
          sexp_of_q m;
          L (map (fun p =>
                    let ds := pderivs tbl starts p in
                    L [ofBool (frag_member tbl starts g p);
                       sexp_of_q_raw (frag_prob_m m tbl w sw starts g p);
                       ofNat (length ds);
                       sexp_of_q_raw (match ds with d :: _ => deriv_prob tbl w sw d | [] => 0%Q end)]) progs) ]
    | _, _, _, _, _ => bad_case
    end
  | _ => bad_case
  end.

Definition run_wf (s : sexp) : sexp :=
  match s with
  | L [tb; ws; sws; fu] =>
    match Run.C04.utable_of_sexp tb, Run.C04.uwtable_of_sexp ws, Run.C04.swtable_of_sexp sws, asNat fu with
    | Some tbl, Some w, Some sw, Some fuel =>
      L [ ofBool (wf_weights tbl w); ofBool (wf_starts tbl sw fuel);
          ofBool (pos_weights tbl w && pos_starts sw);
          ofNat (length (all_derivs tbl fuel (map fst sw))) ]
    | _, _, _, _ => bad_case
    end
  | _ => bad_case
  end.

Definition run_case (entry : Z) (s : sexp) : sexp :=
  match entry with
  | 0 => L []
  | 1 => run_split s
  | 2 => run_frag s
  | 3 => run_wf s
  | _ => bad_case
  end.
