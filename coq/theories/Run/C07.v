(** Glue for property C07: decode a case, run the model of
    tree_automaton.py, encode the answer.  Letters are [N], states are
    arbitrary [sexp] compared structurally.

    automaton  = [rules; finals]   rules = list of [letter; args; dst]
    trees      = list of [letter; child indices]  (a DAG: an index refers to an
                 earlier entry of the list; every entry is one tree)
    status     = 0 Ok | 1 OutOfFuel | 2 KeyErr

    entry 1 reduce          [A; trees]       -> [status; bits A; bits R; |states R|; [status'; bits R'; |states R'|]]
    entry 2 read_product    [A; B; trees]    -> [bits A; bits B; bits P; runs A; runs B; runs P]
    entry 3 read_union      [A; B; trees]    -> [status; bits A; bits B; bits U; |states U|; [status'; bits U'; |states U'|]]
    entry 4 map_states      [A; table; trees]-> [bits A; bits M; runs A; runs M]
    entry 5 minimise        [A; trees]       -> [status; bits A; bits M; |states M|]
    entry 6 reduce;minimise [A; trees]       -> [status; bits A; bits M; |states M|; [status'; bits M'; |states M'|]]
    (primed = with the pinned __remove_unproductive__). *)
From Coq Require Import ZArith NArith List Bool.
From PS Require Import Base.ListX Base.Sexp Auto.Dfta.
Import ListNotations.
Local Open Scope Z_scope.

Fixpoint sexp_eqb (a b : sexp) : bool :=
  match a, b with
  | A x, A y => Z.eqb x y
  | L l, L l' =>
    (fix go (l l' : list sexp) : bool :=
       match l, l' with
       | [], [] => true
       | x :: r, y :: r' => sexp_eqb x y && go r r'
       | _, _ => false
       end) l l'
  | _, _ => false
  end.

Definition aut : Type := dfta N sexp.

Definition rule_of_sexp (s : sexp) : option ((N * list sexp) * sexp) :=
  match s with
  | L [l; L args; dst] => do l' <- asN l; Some ((l', args), dst)
  | _ => None
  end.
Definition aut_of_sexp (s : sexp) : option aut :=
  match s with
  | L [rs; L fs] => do rs' <- asListOf rule_of_sexp rs; Some (mkDfta rs' fs)
  | _ => None
  end.

Fixpoint build_trees (nodes : list sexp) (acc : list (tree N)) : option (list (tree N)) :=
  match nodes with
  | [] => Some acc
  | L [l; cs] :: r =>
    do l' <- asN l;
    do idx <- asListOf asNat cs;
    do ts <- omap (fun i => nth_error acc i) idx;
    build_trees r (acc ++ [Node l' ts])
  | _ => None
  end.
Definition trees_of_sexp (s : sexp) : option (list (tree N)) :=
  match s with L nodes => build_trees nodes [] | _ => None end.

Definition status {X} (r : res X) : sexp :=
  match r with Ok _ => A 0 | OutOfFuel => A 1 | KeyErr => A 2 end.

Section Obs.
  Context {Q : Type} (qeqb : Q -> Q -> bool) (enc : Q -> sexp).
  Definition bits (X : dfta N Q) (ts : list (tree N)) : sexp :=
    L (map (fun t => ofBool (accepts N.eqb qeqb X t)) ts).
  Definition runs (X : dfta N Q) (ts : list (tree N)) : sexp :=
    L (map (fun t => ofOption enc (run N.eqb qeqb X t)) ts).
  Definition nstates (X : dfta N Q) : sexp :=
    match states qeqb X with Ok l => ofNat (length l) | _ => A (-1) end.
  (** [status; bits; |states|] of a result, or [status] alone *)
  Definition result_obs (r : res (dfta N Q)) (ts : list (tree N)) : list sexp :=
    match r with
    | Ok X => [A 0; bits X ts; nstates X]
    | _ => [status r]
    end.
End Obs.

Definition id_enc (s : sexp) : sexp := s.
Definition pair_enc (p : sexp * sexp) : sexp := L [fst p; snd p].
Definition u_enc (p : option sexp * option sexp) : sexp := L [ofOption id_enc (fst p); ofOption id_enc (snd p)].
Definition tuple_enc (l : list sexp) : sexp := L l.

Definition run_reduce (s : sexp) : sexp :=
  match s with
  | L [a; ts] =>
    match aut_of_sexp a, trees_of_sexp ts with
    | Some X, Some ts' =>
      match result_obs sexp_eqb (reduce sexp_eqb X) ts' with
      | [st; b; n] => L [st; bits sexp_eqb X ts'; b; n; L (result_obs sexp_eqb (reduce_pinned sexp_eqb X) ts')]
      | other => L other
      end
    | _, _ => bad_case
    end
  | _ => bad_case
  end.

Definition run_product (s : sexp) : sexp :=
  match s with
  | L [a; b; ts] =>
    match aut_of_sexp a, aut_of_sexp b, trees_of_sexp ts with
    | Some X, Some Y, Some ts' =>
      let P := read_product N.eqb sexp_eqb sexp_eqb X Y in
      let pe := pair_eqb sexp_eqb sexp_eqb in
      L [bits sexp_eqb X ts'; bits sexp_eqb Y ts'; bits pe P ts';
         runs sexp_eqb id_enc X ts'; runs sexp_eqb id_enc Y ts'; runs pe pair_enc P ts']
    | _, _, _ => bad_case
    end
  | _ => bad_case
  end.

Definition run_union (s : sexp) : sexp :=
  match s with
  | L [a; b; ts] =>
    match aut_of_sexp a, aut_of_sexp b, trees_of_sexp ts with
    | Some X, Some Y, Some ts' =>
      let ue := ueqb sexp_eqb sexp_eqb in
      match result_obs ue (read_union N.eqb sexp_eqb sexp_eqb X Y) ts' with
      | [st; bu; n] =>
        L [st; bits sexp_eqb X ts'; bits sexp_eqb Y ts'; bu; n;
           L (result_obs ue (read_union_pinned N.eqb sexp_eqb sexp_eqb X Y) ts')]
      | other => L other
      end
    | _, _, _ => bad_case
    end
  | _ => bad_case
  end.

Definition pair_of_sexp (s : sexp) : option (sexp * sexp) :=
  match s with L [x; y] => Some (x, y) | _ => None end.
Definition table_fun (tbl : list (sexp * sexp)) (q : sexp) : sexp :=
  match alookup sexp_eqb q tbl with Some x => x | None => L [A (-7); q] end.

Definition run_map_states (s : sexp) : sexp :=
  match s with
  | L [a; tbl; ts] =>
    match aut_of_sexp a, asListOf pair_of_sexp tbl, trees_of_sexp ts with
    | Some X, Some tbl', Some ts' =>
      let M := map_states N.eqb sexp_eqb (table_fun tbl') X in
      L [bits sexp_eqb X ts'; bits sexp_eqb M ts'; runs sexp_eqb id_enc X ts'; runs sexp_eqb id_enc M ts']
    | _, _, _ => bad_case
    end
  | _ => bad_case
  end.

Definition run_minimise (s : sexp) : sexp :=
  match s with
  | L [a; ts] =>
    match aut_of_sexp a, trees_of_sexp ts with
    | Some X, Some ts' =>
      match result_obs (list_eqb sexp_eqb) (minimise N.eqb sexp_eqb X) ts' with
      | [st; b; n] => L [st; bits sexp_eqb X ts'; b; n]
      | other => L other
      end
    | _, _ => bad_case
    end
  | _ => bad_case
  end.

Definition run_reduce_minimise (s : sexp) : sexp :=
  match s with
  | L [a; ts] =>
    match aut_of_sexp a, trees_of_sexp ts with
    | Some X, Some ts' =>
      let le := list_eqb sexp_eqb in
      match result_obs le (rbind (reduce sexp_eqb X) (minimise N.eqb sexp_eqb)) ts' with
      | [st; b; n] =>
        L [st; bits sexp_eqb X ts'; b; n;
           L (result_obs le (rbind (reduce_pinned sexp_eqb X) (minimise N.eqb sexp_eqb)) ts')]
      | other => L other
      end
    | _, _ => bad_case
    end
  | _ => bad_case
  end.

Definition run_case (entry : Z) (s : sexp) : sexp :=
  match entry with
  | 1 => run_reduce s
  | 2 => run_product s
  | 3 => run_union s
  | 4 => run_map_states s
  | 5 => run_minimise s
  | 6 => run_reduce_minimise s
  | _ => bad_case
  end.
