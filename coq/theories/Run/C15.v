(** Glue for property C15 (parsers).
    entry 1: [texpr; k1; k2]            -> [wf; text; denote; parse text; parse_pinned text]
    entry 2: [style; ty]                -> [documented; show_type; parse (show_type); parse_pinned]
    entry 0: anything                   -> ()   (cases whose model input is only known after the implementation ran)
    entry 3: [dsl; request; consts; [p...]] -> [[text; parse text; resolved p]...]
    entry 4: text (code points)         -> [parse text; parse_pinned text]
    entry 5: [dsl; request; consts; text] -> parse text
    parse results: (0 x) value, (1) failure (the implementation raises), (2) out of fuel. *)
From Coq Require Import ZArith NArith List Bool.
From PS Require Import Base.ListX Base.Sexp Base.Ty Base.Value Base.Prog Syn.TypeParser Syn.ProgParser Syn.ProgResolve.
Import ListNotations.
Local Open Scope Z_scope.

Definition str_of_sexp (s : sexp) : option str := asListOf asN s.
Definition sexp_of_str (s : str) : sexp := L (map ofN s).

Definition sexp_of_res {X} (f : X -> sexp) (r : res X) : sexp :=
  match r with
  | Ok x => L [A 0; f x]
  | Err => L [A 1]
  | OutOfFuel => L [A 2]
  end.

Fixpoint texpr_of_sexp_fuel (fuel : nat) (s : sexp) : option texpr :=
  match fuel with
  | O => None
  | S f =>
    match s with
    | L [A 0; n] => do n' <- str_of_sexp n; Some (EName n')
    | L [A 1; n] => do n' <- str_of_sexp n; Some (EVar n')
    | L [A 2; n; A s1; A s2; A s3; r] =>
      do n' <- str_of_sexp n; do r' <- texpr_of_sexp_fuel f r;
      Some (EVarR n' (Z.to_nat s1) (Z.to_nat s2) (Z.to_nat s3) r')
    | L [A 3; A s1; A s2; e] => do e' <- texpr_of_sexp_fuel f e; Some (EParen (Z.to_nat s1) (Z.to_nat s2) e')
    | L [A 4; e; A s1; g] => do e' <- texpr_of_sexp_fuel f e; do g' <- str_of_sexp g; Some (EPost e' (Z.to_nat s1) g')
    | L [A 5; a; A s1; A s2; b] =>
      do a' <- texpr_of_sexp_fuel f a; do b' <- texpr_of_sexp_fuel f b; Some (EUnion a' (Z.to_nat s1) (Z.to_nat s2) b')
    | L [A 6; a; A s1; A s2; b] =>
      do a' <- texpr_of_sexp_fuel f a; do b' <- texpr_of_sexp_fuel f b; Some (EArrow a' (Z.to_nat s1) (Z.to_nat s2) b')
    | _ => None
    end
  end.

Definition run_expr (s : sexp) : sexp :=
  match s with
  | L [e; A k1; A k2] =>
    match texpr_of_sexp_fuel 200 e with
    | Some e' =>
      let text := spaces (Z.to_nat k1) ++ render e' ++ spaces (Z.to_nat k2) in
      L [ofBool (wf e'); sexp_of_str text; sexp_of_ty (denote e');
         sexp_of_res sexp_of_ty (auto_type text); sexp_of_res sexp_of_ty (auto_type_pinned text)]
    | None => bad_case
    end
  | _ => bad_case
  end.

Definition style_of_sexp (s : sexp) : option style :=
  match s with
  | L [A a1; A a2; A b1; A b2; A p; A q1; A q2; A r1; A r2; A r3; red] =>
    do red' <- asBool red;
    Some (Style (Z.to_nat a1, Z.to_nat a2) (Z.to_nat b1, Z.to_nat b2) (Z.to_nat p)
                (Z.to_nat q1, Z.to_nat q2) (Z.to_nat r1, (Z.to_nat r2, Z.to_nat r3)) red')
  | _ => None
  end.

Definition run_show (s : sexp) : sexp :=
  match s with
  | L [sy; t] =>
    match style_of_sexp sy, ty_of_sexp t with
    | Some sy', Some t' =>
      let text := show_type sy' t' in
      L [ofBool (documented t'); sexp_of_str text; sexp_of_res sexp_of_ty (auto_type text);
         sexp_of_res sexp_of_ty (auto_type_pinned text)]
    | _, _ => bad_case
    end
  | _ => bad_case
  end.

Definition dsl_of_sexp (s : sexp) : option dsl :=
  asListOf (fun x => match x with
                     | L [n; t] => do n' <- str_of_sexp n; do t' <- ty_of_sexp t; Some (n', t')
                     | _ => None
                     end) s.
Definition consts_of_sexp (s : sexp) : option consts :=
  asListOf (fun x => match x with
                     | L [k; t; v] => do k' <- str_of_sexp k; do t' <- ty_of_sexp t; do v' <- value_of_sexp v;
                                      Some (k', (t', v'))
                     | _ => None
                     end) s.

Definition run_prog (s : sexp) : sexp :=
  match s with
  | L [d; rq; cs; ps] =>
    match dsl_of_sexp d, ty_of_sexp rq, consts_of_sexp cs, asListOf prog_of_sexp ps with
    | Some d', Some rq', Some cs', Some ps' =>
      L (map (fun p' =>
                let text := show_prog py_str_value p' in
                L [sexp_of_str text;
                   sexp_of_res sexp_of_prog (parse_program py_str_value d' rq' cs' true text);
                   sexp_of_prog (resolve d' p')]) ps')
    | _, _, _, _ => bad_case
    end
  | _ => bad_case
  end.

Definition run_text (s : sexp) : sexp :=
  match str_of_sexp s with
  | Some text => L [sexp_of_res sexp_of_ty (auto_type text); sexp_of_res sexp_of_ty (auto_type_pinned text)]
  | None => bad_case
  end.

Definition run_progtext (s : sexp) : sexp :=
  match s with
  | L [d; rq; cs; t] =>
    match dsl_of_sexp d, ty_of_sexp rq, consts_of_sexp cs, str_of_sexp t with
    | Some d', Some rq', Some cs', Some text =>
      sexp_of_res sexp_of_prog (parse_program py_str_value d' rq' cs' true text)
    | _, _, _, _ => bad_case
    end
  | _ => bad_case
  end.

Definition run_case (entry : Z) (s : sexp) : sexp :=
  match entry with
  | 0 => L []
  | 1 => run_expr s
  | 2 => run_show s
  | 3 => run_prog s
  | 4 => run_text s
  | 5 => run_progtext s
  | _ => bad_case
  end.
