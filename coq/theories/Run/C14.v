(** Glue for property C14: case = [bound; [[name; type] ...]].
    Answer: whether the syntax is well formed (hypothesis of the theorems, with
    the generator's arities: generic 8 binary, all others unary), then for each
    of the four variants (repaired; pinned; unit repair only;
    duplicate repair only) the list of (name, type) after one call and after
    two calls of instantiate_polymorphic_types; last, the pinned behaviour up
    to set iteration order (Instantiate.pinned_groups). *)
From Coq Require Import ZArith NArith List Bool.
From PS Require Import Base.ListX Base.Sexp Base.Ty Syn.Instantiate Syn.InstantiateSpec.
Import ListNotations.
Local Open Scope Z_scope.

Definition prim_of_sexp (s : sexp) : option prim :=
  match s with
  | L [n; t] => do n' <- asN n; do t' <- ty_of_sexp t; Some (n', t')
  | _ => None
  end.

Definition sexp_of_prims (l : list prim) : sexp :=
  L (map (fun p => L [ofN (fst p); sexp_of_ty (snd p)]) l).

Definition run_variant (fu fd : bool) (bound : nat) (syn : list prim) : sexp :=
  let once := instantiate_gen fu fd bound syn in
  let twice := instantiate_gen fu fd bound once in
  L [sexp_of_prims once; sexp_of_prims twice].

Definition ar_std (n : N) : nat := if N.eqb n 8 then 2%nat else 1%nat.

Definition wf_flag (syn : list prim) : bool :=
  nodupb N.eqb (map fst syn) &&
  forallb (fun p => proper_sums (snd p) && arity_ok ar_std (snd p) && ann_ok (snd p) && consistent_varsb (snd p)) syn.

Definition run_case (entry : Z) (s : sexp) : sexp :=
  match entry, s with
  | 1, L [b; syn] =>
    match asNat b, asListOf prim_of_sexp syn with
    | Some bound, Some syn' =>
      L [ofBool (wf_flag syn'); run_variant true true bound syn'; run_variant false false bound syn';
         run_variant true false bound syn'; run_variant false true bound syn';
         L (map (fun g => L (map (fun a => L [sexp_of_prims (fst a); sexp_of_prims (snd a)]) g)) (pinned_groups bound syn'))]
    | _, _ => bad_case
    end
  | _, _ => bad_case
  end.
