(** Glue for property C16: decode a case, run the models, encode the answer.

    wire formats
      type   : (0 n) prim | (1 a b) arrow | (2 n infix t...) generic | (3 n) poly
               | (4 n t...) fixed poly | (5 t...) sum | (6) unknown
      string : (0 n) literal | (1 z) decimal of z | (2 z) "z.0" | (3) "True" | (4) "False" | (5) "None"
      value  : (0) None | (1 z) int | (2 z) float z.0 | (3 b) bool | (4 string)
      program: (0 n type) primitive | (1 i type) variable
               | (2 type value hv) constant, hv = 0 None / 1 True / 2 False (constructor argument)
               | (3 f arg...) function | (4 body type) lambda
      object : (0 type) | (1 program)

    entry 1: case = list of 2 or 3 objects of one kind.  Answer: 33 blocks, the
             abstract repaired model first, then the literal model under each
             of the 32 sets of repairs (bit 0 variable, 1 sum, 2 generic,
             3 constant, 4 fixed poly).  A block lists [o_i == o_j] for every
             ordered pair i <> j (lexicographic), then key equality for every
             i < j.  0/1 = False/True, 2 = out of fuel.
    entry 2: case = ((object...) s1 s2): build under the toy hasher of seed s1,
             pickle, rebuild under seed s2.  Answer per object: (object read
             back, list of 0/1 per sub-object: cached hash = hash of a fresh
             construction under s2).  Sub-objects are listed children first;
             for a Function: head, arguments, the computed type, itself. *)
From Coq Require Import ZArith NArith List Bool.
From PS Require Import Base.ListX Base.Sexp Syn.EqHash Syn.Pickle.
Import ListNotations.
Local Open Scope Z_scope.

Fixpoint oty_of_sexp_fuel (fuel : nat) (s : sexp) : option oty :=
  match fuel with
  | O => None
  | S f =>
    match s with
    | L [A 0; A n] => if n <? 0 then None else Some (OPrim (Z.to_N n))
    | L [A 1; a; b] => do a' <- oty_of_sexp_fuel f a; do b' <- oty_of_sexp_fuel f b; Some (OArrow a' b')
    | L (A 2 :: A n :: i :: args) =>
      do i' <- asBool i; do l <- omap (oty_of_sexp_fuel f) args; Some (OGeneric (Z.to_N n) l i')
    | L [A 3; A n] => Some (OPoly (Z.to_N n))
    | L (A 4 :: A n :: args) => do l <- omap (oty_of_sexp_fuel f) args; Some (OFixed (Z.to_N n) l)
    | L (A 5 :: args) => do l <- omap (oty_of_sexp_fuel f) args; Some (OSum l)
    | L [A 6] => Some OUnknown
    | _ => None
    end
  end.
Definition oty_of_sexp : sexp -> option oty := oty_of_sexp_fuel 100.

Definition pystr_of_sexp (s : sexp) : option pystr :=
  match s with
  | L [A 0; A n] => Some (SLit (Z.to_N n))
  | L [A 1; A z] => Some (SDec z)
  | L [A 2; A z] => Some (SDecDot0 z)
  | L [A 3] => Some STrue
  | L [A 4] => Some SFalse
  | L [A 5] => Some SNoneS
  | _ => None
  end.
Definition cval_of_sexp (s : sexp) : option cval :=
  match s with
  | L [A 0] => Some CNone
  | L [A 1; A z] => Some (CInt z)
  | L [A 2; A z] => Some (CFloat z)
  | L [A 3; b] => do b' <- asBool b; Some (CBool b')
  | L [A 4; str] => do s' <- pystr_of_sexp str; Some (CStr s')
  | _ => None
  end.
Definition hv_of_sexp (s : sexp) : option (option bool) :=
  match s with
  | A 0 => Some None
  | A 1 => Some (Some true)
  | A 2 => Some (Some false)
  | _ => None
  end.

Fixpoint oprog_of_sexp_fuel (fuel : nat) (s : sexp) : option oprog :=
  match fuel with
  | O => None
  | S f =>
    match s with
    | L [A 0; A n; t] => do t' <- oty_of_sexp t; Some (OPrimitive (Z.to_N n) t')
    | L [A 1; A i; t] => if i <? 0 then None else do t' <- oty_of_sexp t; Some (OVariable (Z.to_N i) t')
    | L [A 2; t; v; hv] =>
      do t' <- oty_of_sexp t; do v' <- cval_of_sexp v; do hv' <- hv_of_sexp hv;
      Some (OConstant t' (mk_cstate v' hv'))
    | L (A 3 :: g :: args) =>
      do g' <- oprog_of_sexp_fuel f g; do l <- omap (oprog_of_sexp_fuel f) args; Some (OFunction g' l)
    | L [A 4; b; t] => do b' <- oprog_of_sexp_fuel f b; do t' <- oty_of_sexp t; Some (OLambda b' t')
    | _ => None
    end
  end.
Definition oprog_of_sexp : sexp -> option oprog := oprog_of_sexp_fuel 100.

Definition obj_of_sexp (s : sexp) : option obj :=
  match s with
  | L [A 0; t] => do t' <- oty_of_sexp t; Some (OT t')
  | L [A 1; p] => do p' <- oprog_of_sexp p; Some (OP p')
  | _ => None
  end.

Fixpoint sexp_of_oty (t : oty) : sexp :=
  match t with
  | OPrim n => L [A 0; ofN n]
  | OArrow a b => L [A 1; sexp_of_oty a; sexp_of_oty b]
  | OGeneric n l i => L (A 2 :: ofN n :: ofBool i :: map sexp_of_oty l)
  | OPoly n => L [A 3; ofN n]
  | OFixed n l => L (A 4 :: ofN n :: map sexp_of_oty l)
  | OSum l => L (A 5 :: map sexp_of_oty l)
  | OUnknown => L [A 6]
  end.
Definition sexp_of_pystr (s : pystr) : sexp :=
  match s with
  | SLit n => L [A 0; ofN n]
  | SDec z => L [A 1; A z]
  | SDecDot0 z => L [A 2; A z]
  | STrue => L [A 3]
  | SFalse => L [A 4]
  | SNoneS => L [A 5]
  end.
Definition sexp_of_cval (v : cval) : sexp :=
  match v with
  | CNone => L [A 0]
  | CInt z => L [A 1; A z]
  | CFloat z => L [A 2; A z]
  | CBool b => L [A 3; ofBool b]
  | CStr s => L [A 4; sexp_of_pystr s]
  end.
Fixpoint sexp_of_oprog (p : oprog) : sexp :=
  match p with
  | OPrimitive n t => L [A 0; ofN n; sexp_of_oty t]
  | OVariable i t => L [A 1; ofN i; sexp_of_oty t]
  | OConstant t c => L [A 2; sexp_of_oty t; sexp_of_cval (cs_value c); ofBool (cs_flag c)]
  | OFunction f l => L (A 3 :: sexp_of_oprog f :: map sexp_of_oprog l)
  | OLambda b t => L [A 4; sexp_of_oprog b; sexp_of_oty t]
  end.

(** ** entry 1 *)

Definition ob (o : option bool) : sexp :=
  match o with Some true => A 1 | Some false => A 0 | None => A 2 end.

Definition fixes_of_mask (m : nat) : fixes :=
  {| fx_var := Nat.testbit m 0; fx_sum := Nat.testbit m 1; fx_generic := Nat.testbit m 2;
     fx_const := Nat.testbit m 3; fx_fixed := Nat.testbit m 4 |}.

Definition obj_size (o : obj) : nat := match o with OT t => ty_size t | OP p => prog_size p end.

Definition lit_eq (fx : fixes) (fuel : nat) (a b : obj) : option bool :=
  match a, b with
  | OT t, OT u => lit_ty_eq fx fuel t u
  | OP p, OP q => lit_prog_eq fx fuel p q
  | _, _ => Some false
  end.
Definition lit_key (fx : fixes) (fuel : nat) (a : obj) : option key :=
  match a with OT t => lit_ty_key fx fuel t | OP p => lit_prog_key fx fuel p end.
Definition lit_key_eq (fx : fixes) (fuel : nat) (a b : obj) : option bool :=
  match lit_key fx fuel a, lit_key fx fuel b with
  | Some k, Some k' => Some (key_eqv k k')
  | _, _ => None
  end.

(** ordered pairs (i, j), i <> j, and pairs i < j *)
Fixpoint with_others {X} (pre : list X) (l : list X) : list (X * list X) :=
  match l with
  | [] => []
  | x :: r => (x, pre ++ r) :: with_others (pre ++ [x]) r
  end.
Definition ordered_pairs {X} (l : list X) : list (X * X) :=
  flat_map (fun xo => map (fun y => (fst xo, y)) (snd xo)) (with_others [] l).
Fixpoint upper_pairs {X} (l : list X) : list (X * X) :=
  match l with
  | [] => []
  | x :: r => map (fun y => (x, y)) r ++ upper_pairs r
  end.

Definition block (eqf keyf : obj -> obj -> option bool) (l : list obj) : sexp :=
  L (map (fun ab => ob (eqf (fst ab) (snd ab))) (ordered_pairs l)
     ++ map (fun ab => ob (keyf (fst ab) (snd ab))) (upper_pairs l)).

Definition run_pairs (s : sexp) : sexp :=
  match asListOf obj_of_sexp s with
  | Some l =>
    let fuel := (2 * fold_right (fun o acc => obj_size o + acc) 0 l + 10)%nat in
    L (block (fun a b => Some (py_eq a b)) (fun a b => Some (key_eqv (hash_key a) (hash_key b))) l
       :: map (fun m => let fx := fixes_of_mask m in block (lit_eq fx fuel) (lit_key_eq fx fuel) l) (seq 0 32))
  | None => bad_case
  end.

(** ** entry 2 *)

Definition seeded (seed : Z) : hashers :=
  {| h_str := fun s =>
       (match s with
        | SLit n => 1000 + 7 * Z.of_N n
        | SDec z => 2000 + 14 * z
        | SDecDot0 z => 2001 + 14 * z
        | STrue => 11 | SFalse => 12 | SNoneS => 13
        end) * (2 * seed + 3) + seed;
     h_int := fun z => z;
     h_tup := fix tup (l : list Z) : Z :=
       match l with [] => 7 + seed | x :: r => (x + 1) * 1000003 + 31 * tup r end;
     h_set := fun l => fold_right Z.add 5 (map (fun x => x * x + 17) l) |}.

Definition ty_hashes (t : hty) : list Z := map th (sub_tys t).
Fixpoint prog_hashes (p : hprog) : list Z :=
  match p with
  | HPrimitive _ t h => ty_hashes t ++ [h]
  | HVariable _ t h => ty_hashes t ++ [h]
  | HConstant t _ h => ty_hashes t ++ [h]
  | HFunction f l ty h => prog_hashes f ++ flat_map prog_hashes l ++ ty_hashes ty ++ [h]
  | HLambda b t h => prog_hashes b ++ ty_hashes t ++ [h]
  end.

Fixpoint flags (l l' : list Z) : list sexp :=
  match l, l' with
  | x :: r, y :: r' => ofBool (Z.eqb x y) :: flags r r'
  | [], [] => []
  | _, _ => [A 0]
  end.

Definition pickle_one (s1 s2 : Z) (o : obj) : sexp :=
  match o with
  | OT t =>
    let y := rebuild_ty (seeded s2) (reduce_ty all_registered (build_ty (seeded s1) t)) in
    L [L [A 0; sexp_of_oty (erase_ty y)]; L (flags (ty_hashes y) (ty_hashes (build_ty (seeded s2) (erase_ty y))))]
  | OP p =>
    let y := rebuild_prog (seeded s2) (reduce_prog all_registered (build_prog (seeded s1) p)) in
    L [L [A 1; sexp_of_oprog (erase_prog y)]; L (flags (prog_hashes y) (prog_hashes (build_prog (seeded s2) (erase_prog y))))]
  end.

Definition run_pickle (s : sexp) : sexp :=
  match s with
  | L [os; A s1; A s2] =>
    match asListOf obj_of_sexp os with
    | Some l => L (map (pickle_one s1 s2) l)
    | None => bad_case
    end
  | _ => bad_case
  end.

Definition run_case (entry : Z) (s : sexp) : sexp :=
  match entry with
  | 1 => run_pairs s
  | 2 => run_pickle s
  | _ => bad_case
  end.
