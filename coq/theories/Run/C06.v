(** Glue for property C06.
    state (pst) = integer atom | [0; type] | [1; items...]   (a Type object, a tuple)
    automaton   = [rules; finals], rules = list of [letter (sym); [argument states]; destination state]
    entry 1: case = [automaton; widths; programs]
      answer = [accept bits of the automaton;
                conversions with the repaired __d2state__; conversions with the pinned __d2state__]
      conversions = [from_DFTA clean=False; from_DFTA clean=True;
                     for every width n: from_DFTA_with_ngrams n clean=False, then clean=True]
      one conversion = [0; number of start symbols; number of non-terminals; programs() (-2: the grammar has a
                        cycle, the code's recursion does not end); per program [member; number of derivations summed
                        over the start symbols]]
                       | [1] (out of fuel) | [2] (the code raises) | [3] (clean=True on a grammar with a cycle:
                        the exploration of clean() does not terminate, not run)
    entry 2: case = [CFG params as in Run/C01.v; programs]
      answer = [membership bits of the CFG; CFG.programs(); from_CFG clean=False; from_CFG clean=True] *)
From Coq Require Import ZArith NArith List Bool.
From PS Require Import Base.ListX Base.Sexp Base.Ty Base.Value Base.Prog Gram.Det Gram.U Auto.Dfta Gram.Ucfg.
From PS Require Gram.Cfg Run.C01.
Import ListNotations.
Local Open Scope Z_scope.

Fixpoint pst_of_sexp_fuel (fuel : nat) (s : sexp) : option pst :=
  match fuel with
  | O => None
  | S f =>
    match s with
    | A z => Some (PI z)
    | L [A 0; t] => do t' <- ty_of_sexp t; Some (PT t')
    | L (A 1 :: items) => do l <- omap (pst_of_sexp_fuel f) items; Some (PTup l)
    | _ => None
    end
  end.
Definition pst_of_sexp : sexp -> option pst := pst_of_sexp_fuel 60.

Definition rule_of_sexp (s : sexp) : option ((sym * list pst) * pst) :=
  match s with
  | L [l; L args; dst] =>
    do l' <- sym_of_sexp l; do a <- omap pst_of_sexp args; do d <- pst_of_sexp dst; Some ((l', a), d)
  | _ => None
  end.
Definition aut_of_sexp (s : sexp) : option (dfta sym pst) :=
  match s with
  | L [rs; fs] => do rs' <- asListOf rule_of_sexp rs; do fs' <- asListOf pst_of_sexp fs; Some (mkDfta rs' fs')
  | _ => None
  end.

Definition clean_fuel : nat := N.to_nat 60000.

Definition gbind {X Y} (g : gres X) (f : X -> gres Y) : gres Y :=
  match g with GOk x => f x | GFuel => GFuel | GErr => GErr end.

(** a rule table has a cycle iff peeling off, round after round, the
    non-terminals none of whose alternatives mentions a remaining non-terminal
    leaves something (glue: decides which observables exist, no theorem) *)
Definition nt_succs (rs : list urule) : list unt := flat_map (fun r : urule => flat_map (fun alt : ualt => alt) (snd r)) rs.
Fixpoint peel (fuel : nat) (tbl : utable) : utable :=
  match fuel with
  | O => tbl
  | S f => peel f (filter (fun e : unt * list urule =>
                             existsb (fun y => memb unt_eqb y (map fst tbl)) (nt_succs (snd e))) tbl)
  end.
Definition cyclic (tbl : utable) : bool :=
  match peel (S (length tbl)) tbl with [] => false | _ => true end.

Definition obs_gram (g : gres ugram) (ps : list prog) : sexp :=
  match g with
  | GOk (starts, tbl) =>
    L [A 0; ofNat (length starts); ofNat (length tbl);
       if cyclic tbl then A (-2) else ofN (programs (starts, tbl));
       L (map (fun p => L [ofBool (ucontains tbl starts p);
                           ofNat (sumnat (map (fun x => uderivations tbl x p) starts))]) ps)]
  | GFuel => L [A 1]
  | GErr => L [A 2]
  end.

Definition both (g : gres ugram) (ps : list prog) : list sexp :=
  [obs_gram g ps;
   match g with
   | GOk (_, tbl) => if cyclic tbl then L [A 3] else obs_gram (gbind g (clean clean_fuel)) ps
   | _ => obs_gram g ps
   end].

Definition conversions (d2o : pst -> option unt) (X : dfta sym pst) (widths : list nat) (ps : list prog) : sexp :=
  L (both (from_DFTA_with d2o X) ps
     ++ flat_map (fun n => both (from_DFTA_ngrams_with d2o n (ngram_fuel X) X) ps) widths).

Definition run_dfta (s : sexp) : sexp :=
  match s with
  | L [a; ws; progs] =>
    match aut_of_sexp a, asListOf asNat ws, asListOf prog_of_sexp progs with
    | Some X, Some widths, Some ps =>
      L [ L (map (fun p => ofBool (accepts sym_eqb pst_eqb X (tree_of p))) ps);
          conversions d2state X widths ps;
          conversions d2state_pinned X widths ps ]
    | _, _, _ => bad_case
    end
  | _ => bad_case
  end.

Definition run_cfg (s : sexp) : sexp :=
  match s with
  | L [ps; progs] =>
    match C01.params_of_sexp ps, asListOf prog_of_sexp progs with
    | Some P, Some l =>
      L (L (map (fun p => ofBool (Cfg.contains P p)) l) :: ofN (Cfg.programs P) :: both (GOk (from_CFG P)) l)
    | _, _ => bad_case
    end
  | _ => bad_case
  end.

Definition run_case (entry : Z) (s : sexp) : sexp :=
  match entry with
  | 1 => run_dfta s
  | 2 => run_cfg s
  | _ => bad_case
  end.
