(** Glue for property C04 (probabilistic grammars).
    entry 1 (deterministic / tree-traversing grammar):
      case = [table; start; mode; weights; samples; programs; fuel; want_sum]
        table   = list of [nt; rules], nt = [type; S; T], rules = list of [symbol; args; T], args = list of [type; S]
        weights = list of [nt; list of [symbol; [num; den]]]
        mode 0 = uniform(), 1 = normalise() of the given weights, 2 = the given weights, 3 = pcfg_from_samples(samples)
      answer = [[table_ok; wf_at with uniform weights (no reachable non-terminal without rules, finite)]; wf_at; |language|; [sum of probabilities] or []; weights; list of [member; probability]]
               ([] in place of everything after table_ok when from_samples raises)
    entry 2 (unambiguous grammar):
      case = [table; starts; mode; weights; start weights; programs; fuel; want_sum]
        table   = list of [nt; rules], nt = [type; U], rules = list of [symbol; alternatives], alternative = list of nt
        weights = list of [nt; list of [symbol; list of [alternative; [num; den]]]]
      answer = [programs(); |language|; [sum] or []; weights; start weights; list of [member; derivations; probability]] *)
From Coq Require Import ZArith NArith QArith List Bool.
From PS Require Import Base.ListX Base.Sexp Base.Ty Base.Value Base.Prog Gram.Det Gram.U.
Import ListNotations.
Local Open Scope Z_scope.

Definition q_of_sexp (s : sexp) : option Q :=
  match s with
  | L [A n; A d] => if 0 <? d then Some (Qmake n (Z.to_pos d)) else None
  | _ => None
  end.
Definition sexp_of_q (q : Q) : sexp := let r := Qred q in L [A (Qnum r); A (Zpos (Qden r))].
Definition sexp_of_q_raw (q : Q) : sexp := L [A (Qnum q); A (Zpos (Qden q))].     (* unreduced: the harness reduces *)
(** qsum with the fraction reduced after every addition (equal to qsum up to Qeq:
    Qred_correct); keeps the numbers small when the weights are 53-bit floats. *)
Definition qsum_red (l : list Q) : Q := fold_right (fun a acc => Qred (Qplus a acc)) (0#1)%Q l.

Definition nt_of_sexp (s : sexp) : option nt :=
  match s with L [t; a; b] => do t' <- ty_of_sexp t; Some (t', a, b) | _ => None end.
Definition sexp_of_nt (x : nt) : sexp := L [sexp_of_ty (fst (fst x)); snd (fst x); snd x].
Definition argnt_of_sexp (s : sexp) : option argnt :=
  match s with L [t; a] => do t' <- ty_of_sexp t; Some (t', a) | _ => None end.
Definition drule_of_sexp (s : sexp) : option drule :=
  match s with
  | L [sy; args; y] => do sy' <- sym_of_sexp sy; do args' <- asListOf argnt_of_sexp args; Some (sy', (args', y))
  | _ => None
  end.
Definition table_of_sexp : sexp -> option table :=
  asListOf (fun e => match e with
                     | L [x; rs] => do x' <- nt_of_sexp x; do rs' <- asListOf drule_of_sexp rs; Some (x', rs')
                     | _ => None
                     end).
Definition wtable_of_sexp : sexp -> option wtable :=
  asListOf (fun e => match e with
                     | L [x; ws] =>
                       do x' <- nt_of_sexp x;
                       do ws' <- asListOf (fun sw => match sw with
                                                     | L [sy; q] => do sy' <- sym_of_sexp sy; do q' <- q_of_sexp q; Some (sy', q')
                                                     | _ => None
                                                     end) ws;
                       Some (x', ws')
                     | _ => None
                     end).
Definition sexp_of_wtable (w : wtable) : sexp :=
  L (map (fun xw : nt * list (sym * Q) =>
            L [sexp_of_nt (fst xw); L (map (fun sq : sym * Q => L [sexp_of_sym (fst sq); sexp_of_q (snd sq)]) (snd xw))]) w).

Definition run_det (s : sexp) : sexp :=
  match s with
  | L [tb; st; md; ws; sm; ps; fu; wsum] =>
    match table_of_sexp tb, nt_of_sexp st, asNat md, wtable_of_sexp ws,
          asListOf prog_of_sexp sm, asListOf prog_of_sexp ps, asNat fu, asBool wsum with
    | Some tbl, Some start, Some mode, Some wraw, Some samples, Some progs, Some fuel, Some want =>
      let ow := match mode with
                | O => Some (uniform tbl)
                | S O => Some (normalise wraw)
                | S (S O) => Some wraw
                | _ => from_samples tbl start samples
                end in
      match ow with
      | None => L [L [ofBool (table_ok tbl); ofBool (wf_at fuel tbl (uniform tbl) start)]; L []]
      | Some w =>
        let wl := wlang_at fuel tbl w start in
        L [ L [ofBool (table_ok tbl); ofBool (wf_at fuel tbl (uniform tbl) start)];
            ofBool (wf_at fuel tbl w start);
            ofNat (length wl);
            (if want then L [sexp_of_q (qsum_red (map snd wl))] else L []);
            sexp_of_wtable w;
            L (map (fun p => L [ofBool (contains tbl start p); sexp_of_q_raw (probability tbl w start p)]) progs) ]
      end
    | _, _, _, _, _, _, _, _ => bad_case
    end
  | _ => bad_case
  end.

(** unambiguous grammars *)
Definition unt_of_sexp (s : sexp) : option unt :=
  match s with L [t; a] => do t' <- ty_of_sexp t; Some (t', a) | _ => None end.
Definition sexp_of_unt (x : unt) : sexp := L [sexp_of_ty (fst x); snd x].
Definition ualt_of_sexp : sexp -> option ualt := asListOf unt_of_sexp.
Definition utable_of_sexp : sexp -> option utable :=
  asListOf (fun e => match e with
                     | L [x; rs] =>
                       do x' <- unt_of_sexp x;
                       do rs' <- asListOf (fun r => match r with
                                                    | L [sy; alts] => do sy' <- sym_of_sexp sy; do alts' <- asListOf ualt_of_sexp alts; Some (sy', alts')
                                                    | _ => None
                                                    end) rs;
                       Some (x', rs')
                     | _ => None
                     end).
Definition uwtable_of_sexp : sexp -> option uwtable :=
  asListOf (fun e => match e with
                     | L [x; ws] =>
                       do x' <- unt_of_sexp x;
                       do ws' <- asListOf (fun sw => match sw with
                                                     | L [sy; aqs] =>
                                                       do sy' <- sym_of_sexp sy;
                                                       do aqs' <- asListOf (fun aq => match aq with
                                                                                      | L [a; q] => do a' <- ualt_of_sexp a; do q' <- q_of_sexp q; Some (a', q')
                                                                                      | _ => None
                                                                                      end) aqs;
                                                       Some (sy', aqs')
                                                     | _ => None
                                                     end) ws;
                       Some (x', ws')
                     | _ => None
                     end).
Definition swtable_of_sexp : sexp -> option swtable :=
  asListOf (fun e => match e with L [x; q] => do x' <- unt_of_sexp x; do q' <- q_of_sexp q; Some (x', q') | _ => None end).
Definition sexp_of_uwtable (w : uwtable) : sexp :=
  L (map (fun xw : unt * list (sym * list (ualt * Q)) =>
            L [sexp_of_unt (fst xw);
               L (map (fun sa : sym * list (ualt * Q) =>
                         L [sexp_of_sym (fst sa);
                            L (map (fun aq : ualt * Q => L [L (map sexp_of_unt (fst aq)); sexp_of_q (snd aq)]) (snd sa))]) (snd xw))]) w).
Definition sexp_of_swtable (sw : swtable) : sexp :=
  L (map (fun xq : unt * Q => L [sexp_of_unt (fst xq); sexp_of_q (snd xq)]) sw).

Definition run_u (s : sexp) : sexp :=
  match s with
  | L [tb; sts; md; ws; sws; ps; fu; wsum] =>
    match utable_of_sexp tb, asListOf unt_of_sexp sts, asNat md, uwtable_of_sexp ws, swtable_of_sexp sws,
          asListOf prog_of_sexp ps, asNat fu, asBool wsum with
    | Some tbl, Some starts, Some mode, Some wraw, Some swraw, Some progs, Some fuel, Some want =>
      let w := match mode with O => uuniform tbl | S O => unormalise wraw | _ => wraw end in
      let sw := match mode with O => uuniform_starts starts | S O => unormalise_starts swraw | _ => swraw end in
      let lang := ulanguage fuel tbl starts in
      L [ A (Z.of_N (ucount fuel tbl starts));
          ofNat (length lang);
          (if want then L [sexp_of_q (qsum_red (map (uprobability tbl w sw starts) lang))] else L []);
          sexp_of_uwtable w;
          sexp_of_swtable sw;
          L (map (fun p => L [ofBool (ucontains tbl starts p);
                              ofNat (fold_right Nat.add O (map (fun x => uderivations tbl x p) starts));
                              sexp_of_q_raw (uprobability tbl w sw starts p)]) progs) ]
    | _, _, _, _, _, _, _, _ => bad_case
    end
  | _ => bad_case
  end.

Definition run_case (entry : Z) (s : sexp) : sexp :=
  match entry with
  | 0 => L []
  | 1 => run_det s
  | 2 => run_u s
  | _ => bad_case
  end.
