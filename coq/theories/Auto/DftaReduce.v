(** [states], [reduce] (repaired and pinned): termination within the computed
    fuel, language preservation, and: the result of the repaired [reduce] is
    trim (every state is reached by a tree and reaches a final state). *)
From Coq Require Import List Bool Arith Lia.
From PS Require Import Base.ListX Auto.Dfta Auto.DftaBase.
Import ListNotations.

Lemma filter_length_le {X} (p p' : X -> bool) l :
  (forall x, In x l -> p' x = true -> p x = true) -> length (filter p' l) <= length (filter p l).
Proof.
  induction l as [|x r IH]; cbn; intros H; [lia|].
  assert (IH' := IH (fun y Hy => H y (or_intror Hy))).
  destruct (p' x) eqn:E'.
  - rewrite (H x (or_introl eq_refl) E'). cbn; lia.
  - destruct (p x); cbn; lia.
Qed.

Lemma filter_length_lt {X} (p p' : X -> bool) l x :
  (forall x, In x l -> p' x = true -> p x = true) -> In x l -> p x = true -> p' x = false ->
  length (filter p' l) < length (filter p l).
Proof.
  induction l as [|y r IH]; cbn; intros H Hin Hp Hp'; [tauto|].
  assert (Hle := filter_length_le p p' r (fun y Hy => H y (or_intror Hy))).
  destruct Hin as [->|Hin].
  - rewrite Hp, Hp'. cbn; lia.
  - assert (IH' := IH (fun y Hy => H y (or_intror Hy)) Hin Hp Hp').
    destruct (p' y) eqn:E'.
    + rewrite (H y (or_introl eq_refl) E'). cbn; lia.
    + destruct (p y); cbn; lia.
Qed.

Lemma filter_all {X} (p : X -> bool) l : length (filter p l) = length l -> filter p l = l.
Proof.
  induction l as [|x r IH]; cbn; [reflexivity|]. destruct (p x); cbn; intros E.
  - f_equal. apply IH. lia.
  - pose proof (filter_length_le (fun _ => true) p r (fun _ _ _ => eq_refl)) as H.
    assert (length (filter (fun _ => true) r) <= length r).
    { clear. induction r; cbn; lia. } lia.
Qed.

Lemma filter_length {X} (p : X -> bool) l : length (filter p l) <= length l.
Proof. induction l as [|x r IH]; cbn; [lia|]. destruct (p x); cbn; lia. Qed.

Lemma Forall_exists_Forall2 {X Y} (R : X -> Y -> Prop) l :
  Forall (fun x => exists y, R x y) l -> exists ys, Forall2 R l ys.
Proof.
  induction 1 as [|x r [y Hy] _ [ys IH]]; [exists []; constructor|].
  exists (y :: ys); constructor; auto.
Qed.

Section Reduce.
  Context {L Q : Type}.
  Variable leqb : L -> L -> bool.
  Variable qeqb : Q -> Q -> bool.
  Hypothesis leqb_spec : forall a b, leqb a b = true <-> a = b.
  Hypothesis qeqb_spec : forall a b, qeqb a b = true <-> a = b.

  Notation run := (run leqb qeqb).
  Notation read := (read leqb qeqb).
  Notation accepts := (accepts leqb qeqb).
  Notation mem := (mem qeqb).
  Notation deterministic := (@deterministic L Q).
  Notation rule := ((L * list Q) * Q)%type.
  Let kspec := key_eqb_spec leqb qeqb leqb_spec qeqb_spec.
  Let mspec := mem_spec qeqb qeqb_spec.

  (** * removing rules *)
  Lemma read_filter (A : dfta L Q) P fin l args :
    deterministic A ->
    read (mkDfta (filter P (rules A)) fin) l args =
    match read A l args with Some d => if P ((l, args), d) then Some d else None | None => None end.
  Proof. intros Hd. unfold Dfta.read; cbn. apply alookup_filter; auto. Qed.

  Lemma run_sub (A : dfta L Q) P fin :
    deterministic A -> forall t q, run (mkDfta (filter P (rules A)) fin) t = Some q -> run A t = Some q.
  Proof.
    intros Hd t. induction t as [l ts IH] using tree_ind'. intros q.
    rewrite !run_eq. destruct (omapo (run (mkDfta _ fin)) ts) as [args|] eqn:E; [|discriminate].
    assert (E' : omapo (run A) ts = Some args).
    { apply omapo_some in E. apply omapo_some. clear -E IH.
      induction E; inversion IH; subst; constructor; auto. }
    rewrite E', read_filter by auto. destruct (read A l args); [|discriminate].
    destruct (P _); [auto|discriminate].
  Qed.

  Lemma run_keep (A : dfta L Q) P fin (K : Q -> Prop) :
    deterministic A ->
    (forall l args d, In ((l, args), d) (rules A) -> K d -> P ((l, args), d) = true /\ Forall K args) ->
    forall t q, run A t = Some q -> K q -> run (mkDfta (filter P (rules A)) fin) t = Some q.
  Proof.
    intros Hd HK t. induction t as [l ts IH] using tree_ind'. intros q.
    rewrite !run_eq. destruct (omapo (run A) ts) as [args|] eqn:E; [|discriminate].
    intros Er Kq. pose proof (read_in leqb qeqb leqb_spec qeqb_spec _ _ _ _ Er) as Hin.
    destruct (HK _ _ _ Hin Kq) as [HP Hargs].
    assert (E' : omapo (run (mkDfta (filter P (rules A)) fin)) ts = Some args).
    { apply omapo_some in E. apply omapo_some. clear -E IH Hargs.
      revert Hargs; induction E; intros Hargs; inversion IH; inversion Hargs; subst; constructor; auto. }
    rewrite E', read_filter, Er, HP by auto. reflexivity.
  Qed.

  Lemma run_filter_same (A : dfta L Q) P fin :
    deterministic A ->
    (forall t q, run A t = Some q -> run (mkDfta (filter P (rules A)) fin) t = Some q) ->
    forall t, run (mkDfta (filter P (rules A)) fin) t = run A t.
  Proof.
    intros Hd H t. destruct (run A t) as [q|] eqn:E; [auto|].
    destruct (run (mkDfta _ fin) t) as [q|] eqn:E'; [|reflexivity].
    apply run_sub in E'; auto. congruence.
  Qed.

  (** * states *)
  Definition closed (A : dfta L Q) (R : list Q) : Prop :=
    forall l args d, In ((l, args), d) (rules A) -> Forall (fun a => In a R) args -> In d R.
  Definition reachable (A : dfta L Q) (q : Q) : Prop := exists t, run A t = Some q.

  Lemma closed_complete A R : closed A R -> forall t q, run A t = Some q -> In q R.
  Proof.
    intros Hc t. induction t as [l ts IH] using tree_ind'. intros q. rewrite run_eq.
    destruct (omapo (run A) ts) as [args|] eqn:E; [|discriminate]. intros Er.
    apply (read_in leqb qeqb leqb_spec qeqb_spec) in Er. eapply Hc; eauto.
    apply omapo_some in E. clear -E IH. induction E; inversion IH; subst; constructor; eauto.
  Qed.

  Lemma group_add_old d args g d' alts args' :
    In (d', alts) g -> In args' alts -> exists alts', In (d', alts') (group_add qeqb d args g) /\ In args' alts'.
  Proof.
    induction g as [|[d0 a0] r IH]; cbn; [tauto|]. intros [H|H] Hin.
    - inversion H; subst. destruct (qeqb d d').
      + exists (alts ++ [args]). split; [left; reflexivity|apply in_app_iff; auto].
      + exists alts; split; [left; reflexivity|auto].
    - destruct (qeqb d d0).
      + exists alts; split; [right|]; auto.
      + destruct (IH H Hin) as [alts' [H1 H2]]. exists alts'; split; [right|]; auto.
  Qed.

  Lemma group_add_new d args g : exists alts', In (d, alts') (group_add qeqb d args g) /\ In args alts'.
  Proof.
    induction g as [|[d0 a0] r IH]; cbn.
    - exists [args]; cbn; auto.
    - destruct (qeqb d d0) eqn:E.
      + apply qeqb_spec in E; subst. exists (a0 ++ [args]); split; [left; reflexivity|apply in_app_iff; cbn; auto].
      + destruct IH as [alts' [H1 H2]]. exists alts'; split; [right|]; auto.
  Qed.

  Lemma group_add_inv d args g d' alts' args' :
    In (d', alts') (group_add qeqb d args g) -> In args' alts' ->
    (d' = d /\ args' = args) \/ exists alts, In (d', alts) g /\ In args' alts.
  Proof.
    induction g as [|[d0 a0] r IH]; cbn.
    - intros [H|[]] Hin. inversion H; subst. destruct Hin as [<-|[]]. auto.
    - destruct (qeqb d d0) eqn:E.
      + apply qeqb_spec in E; subst. intros [H|H] Hin.
        * inversion H; subst. apply in_app_iff in Hin. destruct Hin as [Hin|[<-|[]]]; auto.
          right. exists a0; auto.
        * right. exists alts'; auto.
      + intros [H|H] Hin.
        * inversion H; subst. right. exists alts'; auto.
        * destruct (IH H Hin) as [?|[alts [H1 H2]]]; auto. right. exists alts; auto.
  Qed.

  Definition gcomplete (A : dfta L Q) (g : list (Q * list (list Q))) (reach : list Q) : Prop :=
    forall l args d, In ((l, args), d) (rules A) -> In d reach \/ exists alts, In (d, alts) g /\ In args alts.
  Definition gsound (A : dfta L Q) (g : list (Q * list (list Q))) : Prop :=
    forall d alts args, In (d, alts) g -> In args alts -> exists l, In ((l, args), d) (rules A).

  Lemma groups_spec A : gcomplete A (groups qeqb A) [] /\ gsound A (groups qeqb A).
  Proof.
    unfold groups.
    assert (H : forall rs g,
      (forall l args d, In ((l, args), d) rs \/ (exists alts, In (d, alts) g /\ In args alts) ->
         exists alts, In (d, alts) (fold_left (fun g (r : rule) => group_add qeqb (snd r) (snd (fst r)) g) rs g) /\ In args alts)
      /\ (forall d alts args, In (d, alts) (fold_left (fun g (r : rule) => group_add qeqb (snd r) (snd (fst r)) g) rs g) ->
           In args alts -> (exists l, In ((l, args), d) rs) \/ exists alts', In (d, alts') g /\ In args alts')).
    { induction rs as [|[[l0 a0] d0] r IH]; intros g; cbn.
      - split.
        + intros l args d [[]|H]; auto.
        + intros d alts args H1 H2. right. exists alts; auto.
      - destruct (IH (group_add qeqb d0 a0 g)) as [IH1 IH2]. split.
        + intros l args d [[H|H]|[alts [H1 H2]]].
          * inversion H; subst. apply (IH1 l). right. apply group_add_new.
          * apply (IH1 l). left; auto.
          * apply (IH1 l). right. eapply group_add_old; eauto.
        + intros d alts args H1 H2. destruct (IH2 _ _ _ H1 H2) as [[l Hl]|[alts' [H3 H4]]].
          * left. exists l; auto.
          * destruct (group_add_inv _ _ _ _ _ _ H3 H4) as [[-> ->]|?]; auto.
            left. exists l0; auto. }
    destruct (H (rules A) []) as [H1 H2]. split.
    - intros l args d Hin. right. apply (H1 l). auto.
    - intros d alts args Hd Ha. destruct (H2 _ _ _ Hd Ha) as [?|[alts' [[] _]]]; auto.
  Qed.

  Definition hit (reach : list Q) (alts : list (list Q)) : bool :=
    existsb (fun args => forallb (fun s => mem s reach) args) alts.

  Lemma states_pass_spec g : forall reach reach' g' added,
    states_pass qeqb g reach = (reach', g', added) ->
    (forall q, In q reach -> In q reach') /\
    (forall d alts, In (d, alts) g -> In d reach' \/ In (d, alts) g') /\
    (forall x, In x g' -> In x g) /\
    length g' <= length g /\
    (added = true -> length g' < length g) /\
    (added = false -> reach' = reach /\ g' = g /\ forall d alts, In (d, alts) g -> hit reach alts = false).
  Proof.
    induction g as [|[d alts] r IH]; intros reach reach' g' added; cbn.
    - intros E; inversion E; subst.
      split; [auto|]. split; [intros ? ? []|]. split; [auto|]. split; [cbn; lia|]. split; [discriminate|].
      intros _. split; [auto|]. split; [auto|]. intros ? ? [].
    - fold (hit reach alts). destruct (hit reach alts) eqn:Eh.
      + destruct (states_pass qeqb r (d :: reach)) as [[r1 g1] b1] eqn:Ep. intros E; inversion E; subst.
        destruct (IH _ _ _ _ Ep) as (I1 & I2 & I3 & I4 & I5 & I6).
        split; [intros q Hq; apply I1; right; auto|].
        split; [intros d0 a0 [H|H]; [inversion H; subst; left; apply I1; left; auto|apply I2; auto]|].
        split; [intros x Hx; right; auto|].
        split; [lia|]. split; [intros _; lia|discriminate].
      + destruct (states_pass qeqb r reach) as [[r1 g1] b1] eqn:Ep. intros E; inversion E; subst.
        destruct (IH _ _ _ _ Ep) as (I1 & I2 & I3 & I4 & I5 & I6).
        split; [auto|].
        split. { intros d0 a0 [H|H]; [inversion H; subst; right; left; auto|].
                 destruct (I2 _ _ H); auto. right; right; auto. }
        split; [intros x [Hx|Hx]; [left|right]; auto|].
        split; [cbn; lia|]. split; [intros Hb; cbn; apply I5 in Hb; lia|].
        intros Hb. destruct (I6 Hb) as (-> & -> & I7).
        split; [auto|]. split; [auto|].
        intros d0 a0 [H|H]; [inversion H; subst; auto|eauto].
  Qed.

  Definition treach (A : dfta L Q) (reach : list Q) : Prop := forall q, In q reach -> reachable A q.

  Lemma hit_true reach alts : hit reach alts = true -> exists args, In args alts /\ Forall (fun a => In a reach) args.
  Proof.
    unfold hit. rewrite existsb_exists. intros [args [H1 H2]]. exists args; split; auto.
    apply Forall_forall. rewrite forallb_forall in H2. intros a Ha. apply mspec. auto.
  Qed.

  Lemma hit_false reach alts args : hit reach alts = false -> In args alts -> ~ Forall (fun a => In a reach) args.
  Proof.
    intros Hh Hin Hf. assert (hit reach alts = true); [|congruence].
    unfold hit. apply existsb_exists. exists args; split; auto. apply forallb_forall.
    rewrite Forall_forall in Hf. intros a Ha. apply mspec. auto.
  Qed.

  Lemma trees_for A args : Forall (reachable A) args -> exists ts, omapo (run A) ts = Some args.
  Proof.
    induction 1 as [|a r [t Ht] _ [ts IH]]; [exists []; reflexivity|].
    exists (t :: ts). cbn. rewrite Ht, IH. reflexivity.
  Qed.

  Lemma rule_reachable A l args d :
    deterministic A -> In ((l, args), d) (rules A) -> Forall (reachable A) args -> reachable A d.
  Proof.
    intros Hd Hin Hf. destruct (trees_for _ _ Hf) as [ts Hts]. exists (Node l ts).
    rewrite run_eq, Hts. apply in_read; auto.
  Qed.

  Lemma states_pass_sound A : deterministic A -> forall g reach reach' g' added,
    gsound A g -> treach A reach -> states_pass qeqb g reach = (reach', g', added) -> treach A reach'.
  Proof.
    intros Hd. induction g as [|[d alts] r IH]; intros reach reach' g' added Hg Ht; cbn.
    - intros E; inversion E; subst; auto.
    - fold (hit reach alts). destruct (hit reach alts) eqn:Eh.
      + destruct (states_pass qeqb r (d :: reach)) as [[r1 g1] b1] eqn:Ep. intros E; inversion E; subst.
        eapply IH; [| |exact Ep].
        * intros d0 a0 args H1 H2. eapply Hg; [right; exact H1|exact H2].
        * intros q [<-|Hq]; [|auto]. apply hit_true in Eh. destruct Eh as [args [H1 H2]].
          destruct (Hg d alts args (or_introl eq_refl) H1) as [l Hl].
          eapply rule_reachable; eauto. rewrite Forall_forall in *. auto.
      + destruct (states_pass qeqb r reach) as [[r1 g1] b1] eqn:Ep. intros E; inversion E; subst.
        eapply IH; [| |exact Ep]; auto.
        intros d0 a0 args H1 H2. eapply Hg; [right; exact H1|exact H2].
  Qed.

  Lemma states_loop_spec A : deterministic A -> forall fuel g reach,
    length g < fuel -> gcomplete A g reach -> gsound A g ->
    exists R, states_loop qeqb fuel g reach = Ok R /\ closed A R /\ (treach A reach -> treach A R).
  Proof.
    intros Hd. induction fuel as [|fuel IH]; intros g reach Hlen Hc Hs; [lia|]. cbn.
    destruct (states_pass qeqb g reach) as [[reach' g'] added] eqn:Ep.
    destruct (states_pass_spec _ _ _ _ _ Ep) as (I1 & I2 & I3 & I4 & I5 & I6).
    destruct added.
    - destruct (IH g' reach') as [R (E & HR & HT)].
      + specialize (I5 eq_refl). lia.
      + intros l args d Hin. destruct (Hc l args d Hin) as [H|[alts [H1 H2]]]; [left; auto|].
        destruct (I2 _ _ H1); [left; auto|right; exists alts; auto].
      + intros d alts args H1 H2. eapply Hs; eauto.
      + exists R. split; [exact E|]. split; [exact HR|]. intros Ht. apply HT.
        eapply states_pass_sound; eauto.
    - destruct (I6 eq_refl) as (-> & -> & I7). exists reach. split; [reflexivity|]. split; [|auto].
      intros l args d Hin Hf. destruct (Hc l args d Hin) as [H|[alts [H1 H2]]]; [auto|].
      exfalso. eapply hit_false; eauto.
  Qed.

  Lemma states_ok A : deterministic A -> exists R, states qeqb A = Ok R /\ closed A R /\ treach A R.
  Proof.
    intros Hd. destruct (groups_spec A) as [Hc Hs].
    destruct (states_loop_spec A Hd (S (length (groups qeqb A))) (groups qeqb A) []) as [R (E & H1 & H2)]; auto.
    exists R. split; [exact E|]. split; [exact H1|]. apply H2. intros q [].
  Qed.

  Lemma states_complete A R t q : deterministic A -> states qeqb A = Ok R -> run A t = Some q -> In q R.
  Proof.
    intros Hd E. destruct (states_ok A Hd) as [R' (E' & Hc & _)]. rewrite E in E'; inversion E'; subst.
    eapply closed_complete; eauto.
  Qed.

  Lemma states_sound A R q : deterministic A -> states qeqb A = Ok R -> In q R -> reachable A q.
  Proof.
    intros Hd E. destruct (states_ok A Hd) as [R' (E' & _ & Ht)]. rewrite E in E'; inversion E'; subst. apply Ht.
  Qed.

  (** the list returned by [states] has no duplicates *)
  Lemma group_add_keys d args g :
    map fst (group_add qeqb d args g) = if memb qeqb d (map fst g) then map fst g else map fst g ++ [d].
  Proof.
    induction g as [|[d0 a0] r IH]; cbn; [reflexivity|].
    destruct (qeqb d d0) eqn:E; cbn; [reflexivity|]. rewrite IH.
    destruct (memb qeqb d (map fst r)); reflexivity.
  Qed.

  Lemma groups_nodup (A : dfta L Q) : NoDup (map fst (groups qeqb A)).
  Proof.
    unfold groups.
    assert (H : forall (rs : list rule) g, NoDup (map fst g) ->
                NoDup (map fst (fold_left (fun g (r : rule) => group_add qeqb (snd r) (snd (fst r)) g) rs g))).
    { induction rs as [|r rs IH]; intros g Hg; cbn; [auto|]. apply IH. rewrite group_add_keys.
      destruct (memb qeqb (snd r) (map fst g)) eqn:E; [auto|]. apply NoDup_snoc; auto.
      intros Hin. apply (memb_spec qeqb qeqb_spec) in Hin. congruence. }
    apply H. constructor.
  Qed.

  Definition gdisj (g : list (Q * list (list Q))) (reach : list Q) : Prop :=
    NoDup (map fst g) /\ NoDup reach /\ forall d, In d (map fst g) -> ~ In d reach.

  Lemma states_pass_nodup g : forall reach reach' g' added,
    states_pass qeqb g reach = (reach', g', added) -> gdisj g reach ->
    gdisj g' reach' /\ (forall q, In q reach' -> In q reach \/ In q (map fst g)).
  Proof.
    induction g as [|[d alts] r IH]; intros reach reach' g' added; cbn.
    - intros E; inversion E; subst. auto.
    - fold (hit reach alts). destruct (hit reach alts) eqn:Eh.
      + destruct (states_pass qeqb r (d :: reach)) as [[r1 g1] b1] eqn:Ep. intros E; inversion E; subst.
        intros (H1 & H2 & H3). inversion H1 as [|? ? Hd Hr]; subst.
        destruct (IH _ _ _ _ Ep) as [I1 I2].
        * split; [auto|]. split; [constructor; auto; apply H3; left; auto|].
          intros d' Hd' [<-|Hin]; [auto|]. apply (H3 d'); [right; auto|auto].
        * split; [auto|]. intros q Hq. destruct (I2 q Hq) as [[<-|?]|?]; auto.
      + destruct (states_pass qeqb r reach) as [[r1 g1] b1] eqn:Ep. intros E; inversion E; subst.
        intros (H1 & H2 & H3). inversion H1 as [|? ? Hd Hr]; subst.
        destruct (states_pass_spec _ _ _ _ _ Ep) as (_ & _ & J3 & _).
        destruct (IH _ _ _ _ Ep) as [(I1 & I2 & I3) I4].
        * split; [auto|]. split; [auto|]. intros d' Hd'. apply H3. right; auto.
        * assert (Hk : forall x, In x (map fst g1) -> In x (map fst r)).
          { intros x Hx. apply in_map_iff in Hx. destruct Hx as [[x1 x2] [<- Hx]]. apply J3 in Hx.
            apply (in_map fst) in Hx. exact Hx. }
          split.
          -- split; [cbn; constructor; auto|]. split; [auto|].
             intros d' [Ed|Hd'] Hin; [subst d'|apply (I3 d'); auto].
             destruct (I4 _ Hin) as [?|?]; [apply (H3 d); [left; auto|auto]|tauto].
          -- intros q Hq. destruct (I4 q Hq); auto.
  Qed.

  Lemma states_loop_nodup : forall fuel g reach R,
    states_loop qeqb fuel g reach = Ok R -> gdisj g reach -> NoDup R.
  Proof.
    induction fuel as [|fuel IH]; intros g reach R; cbn; [discriminate|].
    destruct (states_pass qeqb g reach) as [[reach' g'] added] eqn:Ep. intros E Hg.
    destruct (states_pass_nodup _ _ _ _ _ Ep Hg) as [(H1 & H2 & H3) _].
    destruct added; [eapply IH; eauto; repeat split; auto|]. inversion E; subst. auto.
  Qed.

  Lemma states_nodup (A : dfta L Q) R : states qeqb A = Ok R -> NoDup R.
  Proof.
    intros E. eapply states_loop_nodup; [exact E|]. split; [apply groups_nodup|]. split; [constructor|auto].
  Qed.

  (** * __remove_unreachable__ *)
  Lemma keep_reachable_det R A : deterministic A -> deterministic (keep_reachable qeqb R A).
  Proof. intros Hd. unfold DftaBase.deterministic, keep_reachable; cbn. apply filter_keys_nodup; auto. Qed.

  Lemma keep_reachable_run R A : deterministic A -> closed A R ->
    forall t, run (keep_reachable qeqb R A) t = run A t.
  Proof.
    intros Hd Hc. unfold keep_reachable.
    match goal with |- forall t, run (mkDfta (filter ?P _) ?f) t = _ => set (P0 := P); set (fin := f) end.
    apply run_filter_same; auto.
    intros t. induction t as [l ts IH] using tree_ind'. intros q. rewrite !run_eq.
    destruct (omapo (run A) ts) as [args|] eqn:E; [|discriminate]. intros Er.
    assert (Hargs : Forall (fun a => In a R) args).
    { apply omapo_some in E. clear -E Hc leqb_spec qeqb_spec. induction E; constructor; auto.
      eapply closed_complete; eauto. }
    match goal with |- match ?x with _ => _ end = _ => assert (E' : x = Some args) end.
    { apply omapo_some in E. apply omapo_some. clear -E IH. induction E; inversion IH; subst; constructor; auto. }
    rewrite E', read_filter, Er by auto. unfold P0; cbn.
    pose proof (read_in leqb qeqb leqb_spec qeqb_spec _ _ _ _ Er) as Hin.
    assert (Hq : mem q R = true) by (apply mspec; eapply Hc; eauto).
    rewrite Hq. cbn. replace (forallb (fun s => mem s R) args) with true; [reflexivity|].
    symmetry. apply forallb_forall. rewrite Forall_forall in Hargs. intros a Ha. apply mspec; auto.
  Qed.

  Lemma keep_reachable_accepts R A : deterministic A -> closed A R ->
    forall t, accepts (keep_reachable qeqb R A) t = accepts A t.
  Proof.
    intros Hd Hc t. unfold Dfta.accepts. rewrite keep_reachable_run by auto.
    destruct (run A t) as [q|] eqn:E; [|reflexivity]. cbn.
    assert (Hq : In q R) by (eapply closed_complete; eauto).
    destruct (mem q (finals A)) eqn:Ef.
    - apply mspec. apply filter_In. split; [apply mspec; auto|apply mspec; auto].
    - match goal with |- ?x = false => destruct x eqn:Ef'; [|reflexivity] end.
      apply mspec in Ef'. apply filter_In in Ef'. destruct Ef' as [Hf _]. apply mspec in Hf. congruence.
  Qed.

  (** * removing rules whose destination is outside a backward-closed set *)
  Lemma filter_backward_accepts (A : dfta L Q) P (K : Q -> Prop) :
    deterministic A ->
    (forall l args d, In ((l, args), d) (rules A) -> K d -> P ((l, args), d) = true /\ Forall K args) ->
    (forall q, In q (finals A) -> K q) ->
    forall t, accepts (mkDfta (filter P (rules A)) (finals A)) t = accepts A t.
  Proof.
    intros Hd HK Hf t. unfold Dfta.accepts.
    destruct (run A t) as [q|] eqn:E.
    - destruct (mem q (finals A)) eqn:Ef.
      + assert (Kq : K q) by (apply Hf; apply mspec; auto).
        rewrite (run_keep A P (finals A) K Hd HK t q E Kq). cbn. exact Ef.
      + destruct (run (mkDfta _ _) t) as [q'|] eqn:E'; [|reflexivity].
        apply run_sub in E'; auto. rewrite E in E'; inversion E'; subst. cbn. exact Ef.
    - destruct (run (mkDfta _ _) t) as [q'|] eqn:E'; [|reflexivity].
      apply run_sub in E'; auto. congruence.
  Qed.

  (** * the pinned __remove_unproductive__ *)
  Lemma in_all_args (A : dfta L Q) l args d a : In ((l, args), d) (rules A) -> In a args -> In a (all_args A).
  Proof. intros H Ha. unfold all_args. apply in_flat_map. exists ((l, args), d). auto. Qed.

  Lemma unprod_pass_pinned_spec A : deterministic A ->
    deterministic (unprod_pass_pinned qeqb A) /\
    (forall t, accepts (unprod_pass_pinned qeqb A) t = accepts A t).
  Proof.
    intros Hd. split.
    - unfold DftaBase.deterministic, unprod_pass_pinned; cbn. apply filter_keys_nodup; auto.
    - unfold unprod_pass_pinned. apply (filter_backward_accepts A _ (fun q => In q (consumed A))); auto.
      + intros l args d Hin Hk. cbn. split; [apply mspec; auto|].
        apply Forall_forall. intros a Ha. unfold consumed. apply in_app_iff. right.
        eapply in_all_args; eauto.
      + intros q Hq. unfold consumed. apply in_app_iff; auto.
  Qed.

  Lemma unprod_loop_pinned_spec : forall fuel A, deterministic A -> length (rules A) < fuel ->
    exists A', unprod_loop_pinned qeqb fuel A = Ok A' /\ deterministic A' /\
               forall t, accepts A' t = accepts A t.
  Proof.
    induction fuel as [|fuel IH]; intros A Hd Hlen; [lia|]. cbn [unprod_loop_pinned].
    destruct (unprod_pass_pinned_spec A Hd) as [Hd' Hacc].
    destruct (length (rules (unprod_pass_pinned qeqb A)) =? length (rules A)) eqn:E.
    - exists (unprod_pass_pinned qeqb A). auto.
    - apply Nat.eqb_neq in E.
      assert (length (rules (unprod_pass_pinned qeqb A)) <= length (rules A)) by (cbn; apply filter_length).
      destruct (IH (unprod_pass_pinned qeqb A) Hd') as [A' (E' & H1 & H2)]; [lia|].
      exists A'. split; [exact E'|]. split; [exact H1|]. intros t. rewrite H2. apply Hacc.
  Qed.

  (** * the repaired __remove_unproductive__ *)
  Inductive coreach (A : dfta L Q) : Q -> Prop :=
  | cr_final q : In q (finals A) -> coreach A q
  | cr_step l pre q post d : In ((l, pre ++ q :: post), d) (rules A) -> coreach A d -> coreach A q.

  Lemma prod_arg_fold args : forall P b P' b',
    fold_left (prod_arg qeqb) args (P, b) = (P', b') ->
    (forall x, In x P -> In x P') /\
    (forall x, In x P' -> In x P \/ In x args) /\
    (forall a, In a args -> In a P') /\
    (b = true -> b' = true) /\
    (b' = false -> P' = P) /\
    (b' = true -> b = true \/ exists x, In x args /\ ~ In x P /\ In x P').
  Proof.
    induction args as [|a r IH]; intros P b P' b'; cbn.
    - intros E; inversion E; subst. repeat split; auto. intros x [].
    - unfold prod_arg at 2; cbn. change (memb qeqb a P) with (mem a P). destruct (mem a P) eqn:Ea.
      + intros E. destruct (IH _ _ _ _ E) as (I1 & I2 & I3 & I4 & I5 & I6).
        split; [auto|]. split; [intros x Hx; destruct (I2 x Hx); auto|].
        split; [intros x [<-|Hx]; [apply I1; apply mspec; auto|auto]|].
        split; [auto|]. split; [auto|].
        intros Hb. destruct (I6 Hb) as [?|[x (H1 & H2 & H3)]]; auto. right. exists x; auto.
      + intros E. destruct (IH _ _ _ _ E) as (I1 & I2 & I3 & I4 & I5 & I6).
        assert (Hna : ~ In a P) by (intros H; apply mspec in H; congruence).
        split; [intros x Hx; apply I1; right; auto|].
        split; [intros x Hx; destruct (I2 x Hx) as [[<-|?]|?]; auto|].
        split; [intros x [<-|Hx]; [apply I1; left; auto|auto]|].
        split; [intros _; auto|].
        split; [intros Hb; rewrite (I4 eq_refl) in Hb; discriminate|].
        intros _. right. exists a. split; [left; auto|]. split; [auto|]. apply I1; left; auto.
  Qed.

  Lemma prod_pass_fold A (rs : list rule) : forall P b P' b',
    fold_left (prod_step qeqb) rs (P, b) = (P', b') ->
    (forall x, In x P -> In x P') /\
    (b = true -> b' = true) /\
    (b' = false -> P' = P /\ forall r, In r rs -> In (snd r) P -> Forall (fun a => In a P) (snd (fst r))) /\
    (b' = true -> b = true \/ exists x, In x (flat_map (fun r : rule => snd (fst r)) rs) /\ ~ In x P /\ In x P') /\
    ((forall r, In r rs -> In r (rules A)) -> (forall q, In q P -> coreach A q) -> forall q, In q P' -> coreach A q).
  Proof.
    induction rs as [|r rs IH]; intros P b P' b'; cbn.
    - intros E; inversion E; subst. split; [auto|]. split; [auto|]. split; [intros _; split; [auto|intros ? []]|].
      split; auto.
    - unfold prod_step at 2. cbn [fst]. destruct (mem (snd r) P) eqn:Ed.
      + destruct (fold_left (prod_arg qeqb) (snd (fst r)) (P, b)) as [P1 b1] eqn:E1.
        destruct (prod_arg_fold _ _ _ _ _ E1) as (A1 & A2 & A3 & A4 & A5 & A6).
        intros E. destruct (IH _ _ _ _ E) as (I1 & I2 & I3 & I4 & I5).
        split; [auto|]. split; [auto|].
        split.
        { intros Hb. destruct (I3 Hb) as [-> I3'].
          assert (b1 = false) by (destruct b1; auto; rewrite (I2 eq_refl) in Hb; discriminate). subst b1.
          rewrite (A5 eq_refl) in *. split; [auto|].
          intros r0 [<-|Hr] Hd; [|auto]. apply Forall_forall. auto. }
        split.
        { intros Hb. destruct (I4 Hb) as [Hb1|[x (H1 & H2 & H3)]].
          - destruct (A6 Hb1) as [?|[x (H1 & H2 & H3)]]; auto.
            right. exists x. split; [apply in_app_iff; auto|auto].
          - right. exists x. split; [apply in_app_iff; auto|]. split; auto. }
        intros Hrs Hco. apply I5; [intros r0 Hr0; apply Hrs; right; auto|].
        intros q Hq. destruct (A2 q Hq) as [?|Hin]; [auto|].
        apply in_split in Hin. destruct Hin as [pre [post Eargs]].
        destruct r as [[l args] d]; cbn in *. subst args.
        eapply cr_step; [apply Hrs; left; reflexivity|]. apply Hco. apply mspec; auto.
      + intros E. destruct (IH _ _ _ _ E) as (I1 & I2 & I3 & I4 & I5).
        split; [auto|]. split; [auto|].
        split.
        { intros Hb. destruct (I3 Hb) as [-> I3']. split; [auto|].
          intros r0 [<-|Hr] Hd; [|auto]. apply mspec in Hd. congruence. }
        split.
        { intros Hb. destruct (I4 Hb) as [?|[x (H1 & H2 & H3)]]; auto.
          right. exists x. split; [apply in_app_iff; auto|auto]. }
        intros Hrs Hco. apply I5; auto.
  Qed.

  Definition bclosed (A : dfta L Q) (P : list Q) : Prop :=
    forall l args d, In ((l, args), d) (rules A) -> In d P -> Forall (fun a => In a P) args.

  Lemma prod_loop_spec A : forall fuel P,
    length (filter (fun a => negb (mem a P)) (all_args A)) < fuel ->
    exists P', prod_loop qeqb fuel (rules A) P = Ok P' /\
               (forall q, In q P -> In q P') /\ bclosed A P' /\
               ((forall q, In q P -> coreach A q) -> forall q, In q P' -> coreach A q).
  Proof.
    induction fuel as [|fuel IH]; intros P Hm; [lia|]. cbn. unfold prod_pass.
    destruct (fold_left (prod_step qeqb) (rules A) (P, false)) as [P1 b1] eqn:E.
    destruct (prod_pass_fold A _ _ _ _ _ E) as (I1 & I2 & I3 & I4 & I5).
    destruct b1.
    - destruct (I4 eq_refl) as [?|[x (H1 & H2 & H3)]]; [discriminate|].
      destruct (IH P1) as [P' (E' & J1 & J2 & J3)].
      + assert (length (filter (fun a => negb (mem a P1)) (all_args A)) <
                length (filter (fun a => negb (mem a P)) (all_args A))); [|lia].
        apply (filter_length_lt _ _ _ x).
        * intros y _ Hy. apply negb_true_iff in Hy. apply negb_true_iff.
          destruct (mem y P) eqn:Ey; auto. apply mspec in Ey. apply I1 in Ey. apply mspec in Ey. congruence.
        * exact H1.
        * apply negb_true_iff. destruct (mem x P) eqn:Ex; auto. apply mspec in Ex. tauto.
        * apply negb_false_iff. apply mspec; auto.
      + exists P'. split; [exact E'|]. split; [auto|]. split; [auto|].
        intros Hco. apply J3. apply I5; auto.
    - destruct (I3 eq_refl) as [-> I3']. exists P. split; [reflexivity|]. split; [auto|]. split; [|auto].
      intros l args d Hin Hd. apply (I3' ((l, args), d)); auto.
  Qed.

  Lemma productive_ok A : exists P, productive qeqb A = Ok P /\
    (forall q, In q (finals A) -> In q P) /\ bclosed A P /\ (forall q, In q P -> coreach A q).
  Proof.
    unfold productive. destruct (prod_loop_spec A (S (length (all_args A))) (finals A)) as [P (E & H1 & H2 & H3)].
    - pose proof (filter_length (fun a => negb (mem a (finals A))) (all_args A)). lia.
    - exists P. split; [exact E|]. split; [auto|]. split; [auto|]. apply H3. intros q Hq. apply cr_final; auto.
  Qed.

  Lemma coreach_in_bclosed A P : (forall q, In q (finals A) -> In q P) -> bclosed A P ->
    forall q, coreach A q -> In q P.
  Proof.
    intros Hf Hb q Hc. induction Hc as [q Hq|l pre q post d Hin _ IH]; [auto|].
    specialize (Hb _ _ _ Hin IH). rewrite Forall_forall in Hb. apply Hb. apply in_app_iff; cbn; auto.
  Qed.

  Lemma keep_productive_spec A P : deterministic A ->
    (forall q, In q (finals A) -> In q P) -> bclosed A P ->
    deterministic (keep_productive qeqb P A) /\
    (forall t, accepts (keep_productive qeqb P A) t = accepts A t) /\
    (forall t q, run A t = Some q -> In q P -> run (keep_productive qeqb P A) t = Some q).
  Proof.
    intros Hd Hf Hb.
    assert (HK : forall l args d, In ((l, args), d) (rules A) -> In d P ->
                 (fun r : rule => mem (snd r) P) ((l, args), d) = true /\ Forall (fun a => In a P) args).
    { intros l args d Hin Hd'. split; [cbn; apply mspec; auto|eapply Hb; eauto]. }
    split; [|split].
    - unfold DftaBase.deterministic, keep_productive; cbn. apply filter_keys_nodup; auto.
    - unfold keep_productive. apply (filter_backward_accepts A _ (fun q => In q P)); auto.
    - intros t q Hr Hq. unfold keep_productive. apply (run_keep A _ (finals A) (fun q => In q P)); auto.
  Qed.

  (** * reduce *)
  Definition occurs (A : dfta L Q) (q : Q) : Prop :=
    In q (map snd (rules A)) \/ In q (all_args A) \/ In q (finals A).
  (** every state is reached by some tree and reaches a final state *)
  Definition trim (A : dfta L Q) : Prop := forall q, occurs A q -> reachable A q /\ coreach A q.

  Lemma in_all_args_inv (A : dfta L Q) a : In a (all_args A) -> exists l args d, In ((l, args), d) (rules A) /\ In a args.
  Proof.
    unfold all_args. rewrite in_flat_map. intros [[[l args] d] [H1 H2]]. exists l, args, d. auto.
  Qed.

  Theorem reduce_spec A : deterministic A ->
    exists A', reduce qeqb A = Ok A' /\ deterministic A' /\ (forall t, accepts A' t = accepts A t) /\ trim A'.
  Proof.
    intros Hd. unfold reduce, remove_unreachable.
    destruct (states_ok A Hd) as [R (ER & HcR & HtR)]. rewrite ER. cbn.
    set (A1 := keep_reachable qeqb R A).
    assert (Hd1 : deterministic A1) by (apply keep_reachable_det; auto).
    assert (Hacc1 := keep_reachable_accepts R A Hd HcR).
    assert (Hrun1 := keep_reachable_run R A Hd HcR).
    unfold remove_unproductive. destruct (productive_ok A1) as [P (EP & HfP & HbP & HcoP)]. rewrite EP. cbn.
    destruct (keep_productive_spec A1 P Hd1 HfP HbP) as (Hd2 & Hacc2 & Hrun2).
    exists (keep_productive qeqb P A1). split; [reflexivity|]. split; [exact Hd2|].
    split; [intros t; rewrite Hacc2; apply Hacc1|].
    (* trim *)
    assert (Hocc1 : forall q, occurs A1 q -> In q R).
    { intros q [H|[H|H]].
      - apply in_map_iff in H. destruct H as [[[l args] d] [<- H]]. cbn in H. apply filter_In in H.
        destruct H as [_ H]. cbn in H. apply andb_true_iff in H. apply mspec. tauto.
      - apply in_all_args_inv in H. destruct H as (l & args & d & H & Ha). cbn in H. apply filter_In in H.
        destruct H as [_ H]. cbn in H. apply andb_true_iff in H. destruct H as [_ H].
        rewrite forallb_forall in H. apply mspec. auto.
      - cbn in H. apply filter_In in H. apply mspec. tauto. }
    assert (Hocc2 : forall q, occurs (keep_productive qeqb P A1) q -> occurs A1 q /\ In q P).
    { intros q [H|[H|H]].
      - apply in_map_iff in H. destruct H as [[[l args] d] [<- H]]. cbn in H. apply filter_In in H.
        destruct H as [H H']. cbn in H'. apply mspec in H'. split; [left; apply in_map_iff; exists ((l, args), d); auto|auto].
      - apply in_all_args_inv in H. destruct H as (l & args & d & H & Ha). cbn in H. apply filter_In in H.
        destruct H as [H H']. cbn in H'. apply mspec in H'. split.
        + right; left. eapply in_all_args; eauto.
        + specialize (HbP _ _ _ H H'). rewrite Forall_forall in HbP. auto.
      - cbn in H. split; [right; right; auto|auto]. }
    intros q Hq. destruct (Hocc2 q Hq) as [Hq1 HqP]. split.
    - destruct (HtR q (Hocc1 q Hq1)) as [t Ht]. exists t. apply Hrun2; auto. unfold A1. rewrite Hrun1. exact Ht.
    - specialize (HcoP q HqP). clear -HcoP HfP HbP mspec.
      induction HcoP as [q Hq|l pre q post d Hin Hco IH]; [apply cr_final; auto|].
      eapply cr_step; [|exact IH]. cbn. apply filter_In. split; [exact Hin|]. cbn. apply mspec.
      eapply coreach_in_bclosed; eauto.
  Qed.

  Theorem reduce_pinned_spec A : deterministic A ->
    exists A', reduce_pinned qeqb A = Ok A' /\ deterministic A' /\ (forall t, accepts A' t = accepts A t).
  Proof.
    intros Hd. unfold reduce_pinned, remove_unreachable.
    destruct (states_ok A Hd) as [R (ER & HcR & HtR)]. rewrite ER. cbn.
    set (A1 := keep_reachable qeqb R A).
    assert (Hd1 : deterministic A1) by (apply keep_reachable_det; auto).
    assert (Hacc1 := keep_reachable_accepts R A Hd HcR).
    unfold remove_unproductive_pinned.
    destruct (unprod_loop_pinned_spec (S (length (rules A1))) A1 Hd1) as [A' (E & H1 & H2)]; [lia|].
    exists A'. split; [exact E|]. split; [exact H1|]. intros t. rewrite H2. apply Hacc1.
  Qed.
End Reduce.
