(** C05_sharpen on grammars and on constraint texts: composition of
    SharpenCfg.v (the base automaton), SharpenTop.v (the loop) and the parser
    model. *)
From Coq Require Import List Bool Arith Lia NArith.
From PS Require Import Base.ListX Base.Ty Base.Value Base.Prog Auto.Dfta Auto.DftaBase Gram.Cfg Gram.CfgSpec Gram.CfgProofs
  Auto.Sharpen Auto.SharpenBase Auto.SharpenOps Auto.SharpenProofs Auto.SharpenTop Auto.SharpenCfg Auto.SpecParser.
Import ListNotations.

Definition all_sat (toks : list token) (sk : option token) (p : prog) : bool :=
  forallb (fun c => sat_everywhere_p c p) toks && sat_root_p sk p.

(** the sharpened automaton accepts exactly: accepted by the base automaton,
    every constraint at every occurrence of its head, the sketch at the root *)
Theorem sharpen_grammar P toks sk : forallb supported toks = true ->
  exists base D, cfg2dfta P = Ok base /\ add_constraints base toks sk = SOk D /\ deterministic D /\
    forall p, uaccepts D (tree_of p) = saccepts base (tree_of p) && all_sat toks sk p.
Proof.
  intros Hs. destruct (cfg2dfta_ok P) as [base [E [Db _]]].
  destruct (add_constraints_ok base toks sk Db Hs) as [D [Ed [Dd L]]].
  exists base, D. split; [exact E|]. split; [exact Ed|]. split; [exact Dd|].
  intros p. rewrite (L (tree_of p)). unfold all_sat, sat_everywhere_p, sat_root_p. rewrite andb_assoc. reflexivity.
Qed.

(** full statement when the grammar has no minimum variable depth and no
    forbidden pattern *)
Theorem sharpen_exact P toks sk :
  min_var P = 0 -> forbidden P = [] -> 2 <= n_gram P -> forallb supported toks = true ->
  exists base D, cfg2dfta P = Ok base /\ add_constraints base toks sk = SOk D /\
    forall p, uaccepts D (tree_of p) = sharpen_spec P toks sk p.
Proof.
  intros H1 H2 Hn Hs. destruct (cfg2dfta_exact P H1 H2 Hn) as [base [E [Db Lb]]].
  destruct (add_constraints_ok base toks sk Db Hs) as [D [Ed [_ L]]].
  exists base, D. split; [exact E|]. split; [exact Ed|].
  intros p. rewrite (L (tree_of p)), Lb. reflexivity.
Qed.

(** in general: nothing that satisfies the specification is removed, and what
    is added is a program of the relaxed grammar that satisfies every rule *)
Theorem sharpen_sandwich P toks sk : 2 <= n_gram P -> forallb supported toks = true ->
  exists base D, cfg2dfta P = Ok base /\ add_constraints base toks sk = SOk D /\
    forall p, (sharpen_spec P toks sk p = true -> uaccepts D (tree_of p) = true) /\
              (uaccepts D (tree_of p) = true -> sharpen_spec (relax P) toks sk p = true).
Proof.
  intros Hn Hs. destruct (cfg2dfta_sandwich P Hn) as [base [E [Db Lb]]].
  destruct (add_constraints_ok base toks sk Db Hs) as [D [Ed [_ L]]].
  exists base, D. split; [exact E|]. split; [exact Ed|].
  intros p. rewrite (L (tree_of p)). unfold sharpen_spec, sat_everywhere_p, sat_root_p.
  destruct (Lb p) as [La Lr]. split; intros H; rewrite !andb_true_iff in *; destruct H as [[H1 H2] H3]; auto.
Qed.

(** a local constraint that is neither a function pattern nor Anything stops
    the construction (AssertionError in the code) *)
Theorem unsupported_stops base toks sk : deterministic base -> forallb supported toks = false ->
  add_constraints base toks sk = SUnsupported.
Proof.
  intros Hb. unfold add_constraints.
  assert (G : forall toks cur, cur_inv2 base cur -> forallb supported toks = false ->
              constraints_loop base toks cur = SUnsupported).
  { induction toks0 as [|tok r IH]; intros cur Hc Hs; cbn [forallb] in Hs; [discriminate|].
    cbn [constraints_loop]. destruct (skipped tok) eqn:Esk.
    - apply IH; [exact Hc|]. destruct tok as [| | | | | |f args]; cbn [skipped supported] in *; try discriminate; exact Hs.
    - destruct tok as [| | | | | |f args]; cbn [skipped supported] in *; try discriminate; try reflexivity.
      destruct (process_top_local base f args Hb) as [a [Ea [Da La]]]. rewrite Ea.
      assert (Hci : cur_inv cur) by (destruct cur; [apply Hc|exact I]).
      destruct (combine_step_ok cur a Hci Da) as [d [Ed [Dd Ld]]]. rewrite Ed. cbn [sbind].
      apply IH; [|exact Hs]. split; [exact Dd|]. intros t Ht. rewrite Ld, La in Ht.
      rewrite !andb_true_iff in Ht. tauto. }
  intros Hs. rewrite (G toks None I Hs). reflexivity.
Qed.

(** * texts *)
Lemma skipped_fx_supported tok : skipped_fx tok = true -> supported tok = true.
Proof.
  unfold skipped_fx. destruct tok; cbn [skipped supported orb]; try discriminate; auto.
Qed.

Lemma sat_args_any args us : forallb is_any args = true -> sat_args args us = true.
Proof.
  revert us; induction args as [|a r IH]; intros [|u us]; cbn [sat_args forallb]; try reflexivity.
  intros H. apply andb_true_iff in H. destruct H as [Ha Hr]. destruct a; try discriminate. cbn [sat]. apply IH; exact Hr.
Qed.

Lemma all_sub_forall p t : (forall u, p u = true) -> all_sub p t = true.
Proof.
  intros H. induction t as [l ts IH] using tree_ind'. cbn [all_sub]. rewrite H. cbn [andb].
  induction IH as [|u us Hu _ IHu]; cbn [forallb]; [reflexivity|]. rewrite Hu, IHu. reflexivity.
Qed.

Lemma skipped_fx_sat tok t : skipped_fx tok = true -> sat_everywhere tok t = true.
Proof.
  unfold skipped_fx. intros H. apply orb_true_iff in H. destruct H as [H|H]; [apply skipped_sat_everywhere; exact H|].
  destruct tok as [| | | | | |f args]; try discriminate. cbn [sat_everywhere].
  apply all_sub_forall. intros u. rewrite sat_fun, (sat_args_any args _ H), andb_true_r.
  destruct (inb (root u) f); reflexivity.
Qed.

Lemma filter_skipped_sat toks t :
  forallb (fun c => sat_everywhere c t) (filter (fun c => negb (skipped_fx c)) toks) =
  forallb (fun c => sat_everywhere c t) toks.
Proof.
  induction toks as [|c r IH]; cbn [filter forallb]; [reflexivity|].
  destruct (skipped_fx c) eqn:E; cbn [negb forallb]; rewrite IH; [|reflexivity].
  rewrite (skipped_fx_sat c t E). reflexivity.
Qed.

Lemma filter_skipped_supported toks :
  forallb supported (filter (fun c => negb (skipped_fx c)) toks) = forallb supported toks.
Proof.
  induction toks as [|c r IH]; cbn [filter forallb]; [reflexivity|].
  destruct (skipped_fx c) eqn:E; cbn [negb forallb]; rewrite IH; [|reflexivity].
  rewrite (skipped_fx_supported c E). reflexivity.
Qed.

(** what add_dfta_constraints(cfg, constraints, sketch) returns, for either
    parser: when every text parses and every constraint is a function pattern
    (or vacuous), the automaton accepts the programs accepted by the base
    automaton that satisfy the parsed patterns; the automaton model never
    fails *)
Theorem sharpen_text_ok fx names P cs sketch :
  match sharpen_text fx names P cs sketch with
  | (Sharpened D, toks, sk) =>
    forallb supported toks = true /\
    exists base, cfg2dfta P = Ok base /\ deterministic D /\
      forall p, uaccepts D (tree_of p) = saccepts base (tree_of p) && all_sat toks sk p
  | (Unsupported, toks, _) => forallb supported toks = false
  | (ModelError, _, _) => False
  | (ParseError, _, _) => True
  end.
Proof.
  unfold sharpen_text.
  destruct (omap_tok _ _) as [toks|]; [|exact I].
  destruct (match sketch with None => Some None | Some s => option_map Some (parse_specification fx (grammar_table names P) s) end)
    as [sk|]; [|exact I].
  set (toks' := if fx then filter (fun t => negb (skipped_fx t)) toks else toks).
  assert (Hsup : forallb supported toks' = forallb supported toks)
    by (unfold toks'; destruct fx; [apply filter_skipped_supported|reflexivity]).
  assert (Hsat : forall t, forallb (fun c => sat_everywhere c t) toks' = forallb (fun c => sat_everywhere c t) toks)
    by (intros t; unfold toks'; destruct fx; [apply filter_skipped_sat|reflexivity]).
  destruct (cfg2dfta_ok P) as [base [E [Db _]]]. rewrite E.
  destruct (forallb supported toks) eqn:Es.
  - destruct (add_constraints_ok base toks' sk Db Hsup) as [D [Ed [Dd L]]]. rewrite Ed.
    split; [reflexivity|]. exists base. split; [reflexivity|]. split; [exact Dd|].
    intros p. rewrite (L (tree_of p)), Hsat. unfold all_sat, sat_everywhere_p, sat_root_p. rewrite andb_assoc. reflexivity.
  - rewrite (unsupported_stops base toks' sk Db Hsup). reflexivity.
Qed.

(** non-vacuity of [sharpen_exact]: DSL {one : int, add : int -> int -> int},
    request int -> int, depth 3, minimum variable depth 0, constraint
    "(add one _)" and sketch "(add _ >(var0))": evaluated in the kernel *)
Definition exQ : params :=
  {| dsl := dsl exP; forbidden := []; request := request exP; max_depth := 3; min_var := 0; n_gram := 2; const_types := [] |}.
Definition ex_add : sym := SPrim 0%N (TArrow tINT (TArrow tINT tINT)).
Definition ex_one : sym := SPrim 6%N tINT.
Definition ex_v0 : sym := SVar 0 tINT.
Definition ex_toks : list token := [TFun [ex_add] [TAllow [ex_one]; TAny]].
Definition ex_sketch : option token := Some (TFun [ex_add] [TAny; TForce [ex_v0]]).

Example sharpen_instance :
  min_var exQ = 0 /\ forbidden exQ = [] /\ 2 <= n_gram exQ /\ forallb supported ex_toks = true /\
  match cfg2dfta exQ with
  | Ok base =>
    match add_constraints base ex_toks ex_sketch with
    | SOk D =>
      (* (add one var0) kept; (add var0 one): first argument is not one; (add one one): no var0 below the
         second argument; (add one (add var0 one)): the inner add violates the constraint *)
      uaccepts D (tree_of (PFun ex_add [PLeaf ex_one; PLeaf ex_v0])) = true /\
      uaccepts D (tree_of (PFun ex_add [PLeaf ex_v0; PLeaf ex_one])) = false /\
      uaccepts D (tree_of (PFun ex_add [PLeaf ex_one; PLeaf ex_one])) = false /\
      uaccepts D (tree_of (PFun ex_add [PLeaf ex_one; PFun ex_add [PLeaf ex_v0; PLeaf ex_one]])) = false /\
      uaccepts D (tree_of (PFun ex_add [PLeaf ex_one; PFun ex_add [PLeaf ex_one; PLeaf ex_v0]])) = true
    | _ => False
    end
  | _ => False
  end.
Proof. vm_compute. repeat split; lia. Qed.
