(** Basic facts about the DFTA model: tree induction, the unfolded form of
    [run], association lists as dicts. *)
From Coq Require Import List Bool Arith Lia.
From PS Require Import Base.ListX Auto.Dfta.
Import ListNotations.

Section TreeInd.
  Context {L : Type}.
  Variable P : tree L -> Prop.
  Hypothesis H : forall l ts, Forall P ts -> P (Node l ts).
  Fixpoint tree_ind' (t : tree L) : P t :=
    match t with
    | Node l ts =>
      H l ts ((fix go (ts : list (tree L)) : Forall P ts :=
                 match ts with
                 | [] => Forall_nil P
                 | t :: r => Forall_cons t (tree_ind' t) (go r)
                 end) ts)
    end.
End TreeInd.

Fixpoint omapo {X Y} (f : X -> option Y) (l : list X) : option (list Y) :=
  match l with
  | [] => Some []
  | x :: r =>
    match f x with
    | None => None
    | Some y => match omapo f r with None => None | Some ys => Some (y :: ys) end
    end
  end.

Lemma omapo_ext {X Y} (f g : X -> option Y) l :
  Forall (fun x => f x = g x) l -> omapo f l = omapo g l.
Proof.
  induction 1 as [|x r E _ IH]; cbn; [reflexivity|]. rewrite E, IH. reflexivity.
Qed.

Lemma omapo_some {X Y} (f : X -> option Y) l ys :
  omapo f l = Some ys <-> Forall2 (fun x y => f x = Some y) l ys.
Proof.
  revert ys; induction l as [|x r IH]; intros ys; cbn.
  - split; [intros E; inversion E; constructor | intros E; inversion E; reflexivity].
  - destruct (f x) as [y|] eqn:Ex.
    + destruct (omapo f r) as [ys'|] eqn:Er.
      * split.
        -- intros E; inversion E; subst. constructor; auto. apply IH; reflexivity.
        -- intros E; inversion E as [|? ? ? ? E1 E2]; subst. apply IH in E2. congruence.
      * split; [discriminate|]. intros E; inversion E as [|? ? ? ? E1 E2]; subst.
        apply IH in E2. discriminate.
    + split; [discriminate|]. intros E; inversion E; congruence.
Qed.

Lemma omapo_map {X Y Z} (f : X -> option Y) (g : Y -> Z) (h : X -> option Z) l :
  Forall (fun x => h x = option_map g (f x)) l ->
  omapo h l = option_map (map g) (omapo f l).
Proof.
  induction 1 as [|x r E _ IH]; cbn; [reflexivity|]. rewrite E, IH.
  destruct (f x); cbn; [|reflexivity]. destruct (omapo f r); reflexivity.
Qed.

Lemma omapo_length {X Y} (f : X -> option Y) l ys : omapo f l = Some ys -> length ys = length l.
Proof. intros E; apply omapo_some in E. induction E; cbn; auto. Qed.

Lemma NoDup_snoc {X} (l : list X) x : NoDup l -> ~ In x l -> NoDup (l ++ [x]).
Proof.
  induction l as [|y r IH]; cbn; intros Hn Hx.
  - constructor; [tauto|constructor].
  - inversion Hn; subst. constructor.
    + rewrite in_app_iff; cbn. intros [H|[H|[]]]; subst; tauto.
    + apply IH; tauto.
Qed.

(** * association lists *)
Section AL.
  Context {K V : Type} (keqb : K -> K -> bool).
  Hypothesis keqb_spec : forall a b, keqb a b = true <-> a = b.

  Lemma alookup_in k (v : V) l : alookup keqb k l = Some v -> In (k, v) l.
  Proof.
    induction l as [|[k' v'] r IH]; cbn; [discriminate|].
    destruct (keqb k k') eqn:E.
    - apply keqb_spec in E; subst. intros H; inversion H; auto.
    - auto.
  Qed.

  Lemma alookup_none k (l : list (K * V)) : alookup keqb k l = None <-> ~ In k (map fst l).
  Proof.
    induction l as [|[k' v'] r IH]; cbn; [tauto|].
    destruct (keqb k k') eqn:E.
    - apply keqb_spec in E; subst. split; [discriminate|tauto].
    - rewrite IH. split; [intros H [H1|H1]; auto|tauto].
      subst. rewrite (keqb_refl keqb keqb_spec) in E. discriminate.
  Qed.

  Lemma alookup_nodup k (v : V) l : NoDup (map fst l) -> In (k, v) l -> alookup keqb k l = Some v.
  Proof.
    induction l as [|[k' v'] r IH]; cbn; [tauto|]. intros Hn [H|H].
    - inversion H; subst. rewrite (keqb_refl keqb keqb_spec). reflexivity.
    - inversion Hn as [|? ? Hni Hnr]; subst. destruct (keqb k k') eqn:E.
      + apply keqb_spec in E; subst. exfalso; apply Hni. apply (in_map fst) in H. exact H.
      + auto.
  Qed.

  Lemma alookup_some_key k (v : V) l : alookup keqb k l = Some v -> In k (map fst l).
  Proof. intros H; apply alookup_in in H. apply (in_map fst) in H; exact H. Qed.

  Lemma alookup_app k (l1 l2 : list (K * V)) :
    alookup keqb k (l1 ++ l2) = match alookup keqb k l1 with Some v => Some v | None => alookup keqb k l2 end.
  Proof.
    induction l1 as [|[k' v'] r IH]; cbn; [reflexivity|]. destruct (keqb k k'); auto.
  Qed.

  Lemma alookup_filter k (P : K * V -> bool) l :
    NoDup (map fst l) ->
    alookup keqb k (filter P l) =
    match alookup keqb k l with Some v => if P (k, v) then Some v else None | None => None end.
  Proof.
    induction l as [|[k' v'] r IH]; cbn; [reflexivity|]. intros Hn.
    inversion Hn as [|? ? Hni Hnr]; subst.
    destruct (keqb k k') eqn:E.
    - apply keqb_spec in E; subst k'. destruct (P (k, v')) eqn:EP; cbn.
      + rewrite (keqb_refl keqb keqb_spec). reflexivity.
      + apply alookup_none. intros Hin. apply Hni.
        apply in_map_iff in Hin. destruct Hin as [[k2 v2] [E2 Hin]]. cbn in E2; subst.
        apply filter_In in Hin. destruct Hin as [Hin _]. apply (in_map fst) in Hin. tauto.
    - destruct (P (k', v')); cbn; [rewrite E|]; auto.
  Qed.

  Lemma filter_keys_nodup (P : K * V -> bool) l : NoDup (map fst l) -> NoDup (map fst (filter P l)).
  Proof.
    induction l as [|[k v] r IH]; cbn; [auto|]. intros Hn. inversion Hn as [|? ? Hni Hnr]; subst.
    destruct (P (k, v)); cbn; auto. constructor; auto.
    intros Hin. apply Hni. apply in_map_iff in Hin. destruct Hin as [[k2 v2] [E2 Hin]]. cbn in E2; subst.
    apply filter_In in Hin. destruct Hin as [Hin _]. apply (in_map fst) in Hin. tauto.
  Qed.

  (** keys after an insertion *)
  Lemma ainsert_keys k (v : V) l :
    map fst (ainsert keqb k v l) = if memb keqb k (map fst l) then map fst l else map fst l ++ [k].
  Proof.
    induction l as [|[k' v'] r IH]; cbn; [reflexivity|].
    destruct (keqb k k') eqn:E; cbn.
    - apply keqb_spec in E; subst. reflexivity.
    - rewrite IH. destruct (memb keqb k (map fst r)); reflexivity.
  Qed.

  Lemma ainsert_nodup k (v : V) l : NoDup (map fst l) -> NoDup (map fst (ainsert keqb k v l)).
  Proof.
    intros Hn. rewrite ainsert_keys. destruct (memb keqb k (map fst l)) eqn:E; auto.
    apply NoDup_snoc; auto.
    intros Hin. apply (memb_spec keqb keqb_spec) in Hin. congruence.
  Qed.

  Lemma dict_add_all_nodup (l d : list (K * V)) : NoDup (map fst d) -> NoDup (map fst (dict_add_all keqb l d)).
  Proof.
    revert d; induction l as [|[k v] r IH]; intros d Hn; cbn; auto.
    apply IH. apply ainsert_nodup; auto.
  Qed.

  Lemma dict_of_list_nodup (l : list (K * V)) : NoDup (map fst (dict_of_list keqb l)).
  Proof. apply dict_add_all_nodup. constructor. Qed.

  (** lookup in a dict built by successive insertions = last binding *)
  Lemma dict_add_all_lookup k (l d : list (K * V)) :
    alookup keqb k (dict_add_all keqb l d) =
    match alookup keqb k (rev l) with Some v => Some v | None => alookup keqb k d end.
  Proof.
    revert d; induction l as [|[k1 v1] r IH]; intros d; cbn; [reflexivity|].
    unfold dict_add_all in IH. rewrite IH. rewrite alookup_app. cbn.
    destruct (alookup keqb k (rev r)); [reflexivity|].
    destruct (keqb k k1) eqn:E.
    - apply keqb_spec in E; subst. apply alookup_ainsert_same; auto.
    - apply alookup_ainsert_other; auto. intros ->. rewrite (keqb_refl keqb keqb_spec) in E. discriminate.
  Qed.

  Lemma dict_of_list_lookup k (l : list (K * V)) :
    alookup keqb k (dict_of_list keqb l) = alookup keqb k (rev l).
  Proof. unfold dict_of_list. rewrite dict_add_all_lookup. destruct (alookup keqb k (rev l)); reflexivity. Qed.

  Lemma dict_of_list_app k (l1 l2 : list (K * V)) :
    alookup keqb k (dict_of_list keqb (l1 ++ l2)) =
    match alookup keqb k (dict_of_list keqb l2) with Some v => Some v | None => alookup keqb k (dict_of_list keqb l1) end.
  Proof. rewrite !dict_of_list_lookup, rev_app_distr, alookup_app. reflexivity. Qed.

  (** all bindings of [k] in [l] carry the same value *)
  Lemma dict_lookup_functional k (v : V) l :
    In (k, v) l -> (forall v', In (k, v') l -> v' = v) -> alookup keqb k (dict_of_list keqb l) = Some v.
  Proof.
    intros Hin Hf. rewrite dict_of_list_lookup.
    destruct (alookup keqb k (rev l)) as [v'|] eqn:E.
    - apply alookup_in in E. apply in_rev in E. rewrite (Hf v' E). reflexivity.
    - apply alookup_none in E. exfalso; apply E. apply in_map_iff. exists (k, v). split; auto.
      apply in_rev in Hin. exact Hin.
  Qed.

  Lemma dict_lookup_none k (l : list (K * V)) :
    (forall v, ~ In (k, v) l) -> alookup keqb k (dict_of_list keqb l) = None.
  Proof.
    intros Hn. rewrite dict_of_list_lookup. apply alookup_none. intros Hin.
    apply in_map_iff in Hin. destruct Hin as [[k2 v2] [E Hin]]. cbn in E; subst.
    apply in_rev in Hin. eapply Hn; eauto.
  Qed.

  Lemma dict_lookup_in k (v : V) l : alookup keqb k (dict_of_list keqb l) = Some v -> In (k, v) l.
  Proof. rewrite dict_of_list_lookup. intros E. apply alookup_in in E. apply in_rev in E. exact E. Qed.
End AL.

(** * the unfolded run *)
Section Run.
  Context {L Q : Type}.
  Variable leqb : L -> L -> bool.
  Variable qeqb : Q -> Q -> bool.
  Hypothesis leqb_spec : forall a b, leqb a b = true <-> a = b.
  Hypothesis qeqb_spec : forall a b, qeqb a b = true <-> a = b.

  Lemma key_eqb_spec (k k' : L * list Q) : key_eqb leqb qeqb k k' = true <-> k = k'.
  Proof.
    destruct k as [l a], k' as [l' a']; unfold key_eqb; cbn.
    rewrite andb_true_iff, leqb_spec, (list_eqb_spec qeqb qeqb_spec).
    split; [intros [-> ->]; reflexivity | intros E; inversion E; auto].
  Qed.

  Lemma mem_spec q l : mem qeqb q l = true <-> In q l.
  Proof. apply memb_spec; auto. Qed.

  Lemma run_eq (A : dfta L Q) l ts :
    run leqb qeqb A (Node l ts) =
    match omapo (run leqb qeqb A) ts with None => None | Some args => read leqb qeqb A l args end.
  Proof.
    cbn [run].
    match goal with |- match ?f ts with _ => _ end = _ =>
      assert (E : forall ts', f ts' = omapo (run leqb qeqb A) ts') end.
    { induction ts' as [|t r IH]; [reflexivity|]. cbn [omapo].
      destruct (run leqb qeqb A t); [|reflexivity]. rewrite IH. reflexivity. }
    rewrite E. reflexivity.
  Qed.

  Definition deterministic (A : dfta L Q) : Prop := NoDup (map fst (rules A)).

  Lemma read_in A l args d : read leqb qeqb A l args = Some d -> In ((l, args), d) (rules A).
  Proof. apply alookup_in. apply key_eqb_spec. Qed.

  Lemma in_read A l args d : deterministic A -> In ((l, args), d) (rules A) -> read leqb qeqb A l args = Some d.
  Proof. intros Hd. apply alookup_nodup; auto. apply key_eqb_spec. Qed.

  (** a state that is the run of a tree is the destination of a rule *)
  Lemma run_is_dst A t q : run leqb qeqb A t = Some q -> In q (map snd (rules A)).
  Proof.
    destruct t as [l ts]. rewrite run_eq. destruct (omapo _ ts); [|discriminate].
    intros E. apply read_in in E. apply (in_map snd) in E. exact E.
  Qed.
End Run.
