(** Basic facts for the sharpening model (Auto/Sharpen.v): equalities decide
    [=], component arithmetic on states, generic lemmas on grouped rule lists. *)
From Coq Require Import List Bool Arith Lia Permutation.
From PS Require Import Base.ListX Base.Ty Base.Value Base.Prog Auto.Dfta Auto.DftaBase Gram.Cfg Gram.CfgProofs Auto.Sharpen.
Import ListNotations.

Lemma nat_list_eqb_spec (a b : list nat) : list_eqb Nat.eqb a b = true <-> a = b.
Proof. apply list_eqb_spec. intros x y; apply Nat.eqb_eq. Qed.

Lemma st_eqb_spec (a b : st) : st_eqb a b = true <-> a = b.
Proof.
  destruct a as [t [h c]], b as [t' [h' c']]; unfold st_eqb, st_type, st_height, comps; cbn.
  rewrite !andb_true_iff, ty_eqb_spec, Nat.eqb_eq, nat_list_eqb_spec.
  split; [intros [[-> ->] ->]; reflexivity | intros E; inversion E; auto].
Qed.

Lemma st_eqb_refl q : st_eqb q q = true.
Proof. apply st_eqb_spec; reflexivity. Qed.

Section UstInd.
  Variable P : ust -> Prop.
  Hypothesis HB : forall q, P (UBase q).
  Hypothesis HP : forall a b, P a -> P b -> P (UPair a b).
  Hypothesis HC : forall l, Forall P l -> P (UCls l).
  Fixpoint ust_ind' (u : ust) : P u :=
    match u with
    | UBase q => HB q
    | UPair a b => HP a b (ust_ind' a) (ust_ind' b)
    | UCls l => HC l ((fix go (l : list ust) : Forall P l :=
                         match l with [] => Forall_nil _ | x :: r => Forall_cons _ (ust_ind' x) (go r) end) l)
    end.
End UstInd.

Lemma ust_eqb_spec : forall a b, ust_eqb a b = true <-> a = b.
Proof.
  induction a as [q|a1 a2 IH1 IH2|l IH] using ust_ind'; intros [q'|b1 b2|l']; cbn; try (split; congruence).
  - rewrite st_eqb_spec. split; congruence.
  - rewrite andb_true_iff, IH1, IH2. split; [intros [-> ->]; reflexivity|intros E; inversion E; auto].
  - transitivity (l = l'); [|split; congruence].
    revert l'; induction IH as [|x r Hx _ IHr]; intros [|y r']; try (split; congruence).
    rewrite andb_true_iff, Hx, IHr. split; [intros [-> ->]; reflexivity|intros E; inversion E; auto].
Qed.

(** * components *)
Definition pushes (cs : list nat) (q : st) : st := (st_type q, (st_height q, cs ++ comps q)).
Definition pop (q : st) : st := (st_type q, (st_height q, tl (comps q))).
Definition popn (k : nat) (q : st) : st := (st_type q, (st_height q, skipn k (comps q))).

Lemma push_pushes c q : push c q = pushes [c] q.
Proof. reflexivity. Qed.
Lemma pushes_nil q : pushes [] q = q.
Proof. destruct q as [t [h c]]; reflexivity. Qed.
Lemma pushes_app a b q : pushes a (pushes b q) = pushes (a ++ b) q.
Proof. unfold pushes; cbn. rewrite app_assoc. reflexivity. Qed.
Lemma pushes_cons c a q : pushes (c :: a) q = push c (pushes a q).
Proof. reflexivity. Qed.
Lemma pop_push c q : pop (push c q) = q.
Proof. destruct q as [t [h cs]]; reflexivity. Qed.
Lemma set_top_push c c' q : set_top c (push c' q) = push c q.
Proof. reflexivity. Qed.
Lemma pop_set_top c q : pop (set_top c q) = pop q.
Proof. reflexivity. Qed.
Lemma top_push c q : top (push c q) = c.
Proof. reflexivity. Qed.
Lemma top_set_top c q : top (set_top c q) = c.
Proof. reflexivity. Qed.
Lemma comps_pushes cs q : comps (pushes cs q) = cs ++ comps q.
Proof. reflexivity. Qed.
Lemma comps_push c q : comps (push c q) = c :: comps q.
Proof. reflexivity. Qed.
Lemma push_inj c c' q q' : push c q = push c' q' -> c = c' /\ q = q'.
Proof.
  destruct q as [t [h cs]], q' as [t' [h' cs']]; unfold push; cbn. intros E; inversion E; auto.
Qed.
Lemma popn_pushes cs q : popn (length cs) (pushes cs q) = q.
Proof.
  destruct q as [t [h c]]; unfold popn, pushes; cbn.
  rewrite skipn_app, skipn_all, Nat.sub_diag; reflexivity.
Qed.
Lemma set_top_set_top c c' q : set_top c (set_top c' q) = set_top c q.
Proof. reflexivity. Qed.
Lemma set_top_inj_push c q c' q' : set_top c (push 0 q) = push c' q' -> c = c' /\ q = q'.
Proof. rewrite set_top_push. apply push_inj. Qed.

Lemma map_pop_push c l : map pop (map (push c) l) = l.
Proof. rewrite map_map. induction l as [|x r IH]; cbn; [reflexivity|]. rewrite pop_push, IH; reflexivity. Qed.

Lemma map_push_inj c l l' : map (push c) l = map (push c) l' -> l = l'.
Proof.
  intros E. rewrite <- (map_pop_push c l), <- (map_pop_push c l'), E. reflexivity.
Qed.

(** * grouped rule lists: [firsts G ++ rests G] is a rearrangement of [concat G] *)
Lemma firstn_skipn_1 {X} (g : list X) : firstn 1 g ++ skipn 1 g = g.
Proof. apply firstn_skipn. Qed.

Lemma firsts_rests_perm {X} (G : list (list X)) : Permutation (firsts G ++ rests G) (concat G).
Proof.
  induction G as [|g G IH]; cbn; [constructor|].
  unfold firsts, rests in *; cbn [flat_map].
  rewrite <- (firstn_skipn_1 g) at 3.
  rewrite <- !app_assoc. apply Permutation_app_head.
  rewrite app_assoc. rewrite (Permutation_app_comm (flat_map (firstn 1) G) (skipn 1 g)).
  rewrite <- app_assoc. apply Permutation_app_head. exact IH.
Qed.

Lemma In_groups {X} (G : list (list X)) x : In x (firsts G ++ rests G) <-> exists g, In g G /\ In x g.
Proof.
  split.
  - intros H. apply (Permutation_in _ (firsts_rests_perm G)) in H.
    apply in_concat in H. destruct H as [g [Hg Hx]]. eauto.
  - intros [g [Hg Hx]]. apply (Permutation_in _ (Permutation_sym (firsts_rests_perm G))).
    apply in_concat. eauto.
Qed.

Lemma NoDup_groups {X Y} (f : X -> Y) (G : list (list X)) :
  NoDup (map f (concat G)) -> NoDup (map f (firsts G ++ rests G)).
Proof.
  intros H. eapply Permutation_NoDup; [|exact H].
  apply Permutation_map, Permutation_sym, firsts_rests_perm.
Qed.

Lemma concat_map_flat_map {X Y} (f : X -> list Y) l : concat (map f l) = flat_map f l.
Proof. induction l as [|x r IH]; cbn; [reflexivity|]. rewrite IH; reflexivity. Qed.

(** distinct sources give distinct images when a projection recovers the source *)
Lemma NoDup_flat_map_proj {X K K0} (f : X -> list K) (g : K -> K0) (kx : X -> K0) l :
  NoDup (map kx l) -> (forall x, In x l -> NoDup (f x)) ->
  (forall x k, In x l -> In k (f x) -> g k = kx x) -> NoDup (flat_map f l).
Proof.
  induction l as [|x r IH]; cbn; intros Hn Hf Hg; [constructor|].
  inversion Hn as [|? ? Hx Hr]; subst.
  apply NoDup_app_intro.
  - apply Hf; auto.
  - apply IH; auto.
  - intros a Ha Ha'. apply in_flat_map in Ha'. destruct Ha' as [y [Hy Hay]].
    apply Hx. rewrite <- (Hg x a) by auto. rewrite (Hg y a) by auto. apply in_map; exact Hy.
Qed.

Lemma list_product_prod {X} (ls : list (list X)) : list_product ls = list_prod ls.
Proof. induction ls as [|l r IH]; cbn; [reflexivity|]. rewrite IH. reflexivity. Qed.

Lemma In_list_product {X} (ls : list (list X)) l :
  In l (list_product ls) <-> Forall2 (fun a la => In a la) l ls.
Proof. rewrite list_product_prod. apply In_list_prod. Qed.

Lemma NoDup_list_product {X} (ls : list (list X)) : Forall (@NoDup X) ls -> NoDup (list_product ls).
Proof. rewrite list_product_prod. apply NoDup_list_prod. Qed.

Lemma list_product_head {X} (ls : list (list X)) (d : X) :
  Forall (fun l => l <> []) ls -> firstn 1 (list_product ls) = [map (hd d) ls].
Proof.
  induction 1 as [|l r Hl Hr IH]; cbn; [reflexivity|].
  destruct l as [|x l']; [congruence|]. cbn.
  destruct (list_product r) as [|p ps] eqn:E; [discriminate|]. cbn in *. inversion IH; subst. reflexivity.
Qed.

(** * sdfta shorthands *)
Definition srun : sdfta -> tree sym -> option st := run sym_eqb st_eqb.
Definition sread : sdfta -> sym -> list st -> option st := read sym_eqb st_eqb.
Definition saccepts : sdfta -> tree sym -> bool := accepts sym_eqb st_eqb.
Definition smem : st -> list st -> bool := mem st_eqb.

Lemma smem_spec q l : smem q l = true <-> In q l.
Proof. apply memb_spec, st_eqb_spec. Qed.

Lemma srun_eq A l ts :
  srun A (Node l ts) = match omapo (srun A) ts with None => None | Some args => sread A l args end.
Proof. apply run_eq. Qed.

Lemma sread_in A l args d : sread A l args = Some d -> In ((l, args), d) (rules A).
Proof. apply read_in; [apply sym_eqb_spec|apply st_eqb_spec]. Qed.

Lemma in_sread A l args d : deterministic A -> In ((l, args), d) (rules A) -> sread A l args = Some d.
Proof. apply in_read; [apply sym_eqb_spec|apply st_eqb_spec]. Qed.

Lemma inb_spec s ss : inb s ss = true <-> In s ss.
Proof. apply memb_spec, sym_eqb_spec. Qed.

(** induction on tokens *)
Section TokenInd.
  Variable P : token -> Prop.
  Hypothesis HAny : P TAny.
  Hypothesis HAllow : forall s, P (TAllow s).
  Hypothesis HMost : forall s n, P (TAtMost s n).
  Hypothesis HLeast : forall s n, P (TAtLeast s n).
  Hypothesis HForce : forall s, P (TForce s).
  Hypothesis HForbid : forall s, P (TForbid s).
  Hypothesis HFun : forall f args, Forall P args -> P (TFun f args).
  Fixpoint token_ind' (t : token) : P t :=
    match t with
    | TAny => HAny
    | TAllow s => HAllow s
    | TAtMost s n => HMost s n
    | TAtLeast s n => HLeast s n
    | TForce s => HForce s
    | TForbid s => HForbid s
    | TFun f args =>
      HFun f args ((fix go (l : list token) : Forall P l :=
                      match l with [] => Forall_nil _ | x :: r => Forall_cons _ (token_ind' x) (go r) end) args)
    end.
End TokenInd.
