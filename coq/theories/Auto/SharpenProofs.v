(** C05_process_state: what __process__ attaches to the states.

    [vals tok t] is the list of components (newest first) that processing the
    pattern [tok] appends to the state reached on the tree [t]; its head is
    [sat tok t].  [extends A' A k v] says that [A'] is [A] with [k] more
    components given by [v]: same runs, same acceptance. *)
From Coq Require Import List Bool Arith Lia Permutation.
From PS Require Import Base.ListX Base.Ty Base.Value Base.Prog Auto.Dfta Auto.DftaBase Gram.Cfg Gram.CfgProofs
  Auto.Sharpen Auto.SharpenBase Auto.SharpenOps.
Import ListNotations.

(** * the components attached by a pattern *)
Definition count_vals (ss : list sym) (n : nat) (at_most : bool) (t : tree sym) : list nat :=
  let c := Nat.min (occ ss t) (n + (if at_most then 1 else 0)) in
  [b2n (if at_most then Nat.leb c n else Nat.eqb c n); c].

Fixpoint vals (tok : token) (t : tree sym) : list nat :=
  match tok with
  | TAny => []
  | TAllow ss => [b2n (inb (root t) ss)]
  | TAtMost ss n => count_vals ss n true t
  | TAtLeast ss n => count_vals ss n false t
  | TForbid ss => count_vals ss 0 true t
  | TForce ss => count_vals ss 1 false t
  | TFun f args =>
    b2n (inb (root t) f &&
         (fix go (l : list token) (us : list (tree sym)) : bool :=
            match l, us with
            | a :: r, u :: us' => (if Nat.ltb 0 (added a) then Nat.eqb (hd 0 (vals a u)) 1 else true) && go r us'
            | _, _ => true
            end) args (children t))
    :: (fix va (l : list token) : list nat := match l with [] => [] | a :: r => va r ++ vals a t end) args
    ++ [b2n (inb (root t) f)]
  end.

Fixpoint vals_args (args : list token) (t : tree sym) : list nat :=
  match args with [] => [] | a :: r => vals_args r t ++ vals a t end.
Fixpoint match_spec (args : list token) (us : list (tree sym)) : bool :=
  match args, us with
  | a :: r, u :: us' => (if Nat.ltb 0 (added a) then Nat.eqb (hd 0 (vals a u)) 1 else true) && match_spec r us'
  | _, _ => true
  end.
Fixpoint sat_args (args : list token) (us : list (tree sym)) : bool :=
  match args, us with
  | a :: r, u :: us' => sat a u && sat_args r us'
  | _, _ => true
  end.
Fixpoint added_sum (args : list token) : nat :=
  match args with [] => 0 | a :: r => added a + added_sum r end.

Lemma vals_fun f args t :
  vals (TFun f args) t =
  b2n (inb (root t) f && match_spec args (children t)) :: vals_args args t ++ [b2n (inb (root t) f)].
Proof.
  cbn [vals].
  match goal with |- b2n (_ && ?g args (children t)) :: ?va args ++ _ = _ =>
    assert (E1 : forall us, g args us = match_spec args us);
      [|assert (E2 : va args = vals_args args t)] end.
  - induction args as [|a r IH]; intros [|u us]; reflexivity.
  - clear E1. induction args as [|a r IH]; [reflexivity|]. cbn [vals_args]. rewrite <- IH. reflexivity.
  - rewrite E1, E2. reflexivity.
Qed.

Lemma sat_fun f args t : sat (TFun f args) t = inb (root t) f && sat_args args (children t).
Proof.
  cbn [sat].
  match goal with |- _ && ?g args (children t) = _ => assert (E1 : forall us, g args us = sat_args args us) end.
  - induction args as [|a r IH]; intros [|u us]; reflexivity.
  - rewrite E1. reflexivity.
Qed.

Lemma added_fun f args : added (TFun f args) = 2 + added_sum args.
Proof.
  cbn [added].
  match goal with |- 2 + ?g args = _ => assert (E1 : g args = added_sum args) end.
  - induction args as [|a r IH]; reflexivity.
  - rewrite E1. reflexivity.
Qed.

Lemma added_sum_map args : sumnat (map added args) = added_sum args.
Proof. induction args as [|a r IH]; cbn; [reflexivity|]. rewrite IH; reflexivity. Qed.

Lemma vals_length : forall tok t, length (vals tok t) = added tok.
Proof.
  induction tok as [|s|s n|s n|s|s|f args IH] using token_ind'; intros t; try reflexivity.
  rewrite vals_fun, added_fun. cbn [length]. rewrite app_length. cbn [length].
  assert (E : length (vals_args args t) = added_sum args).
  { induction IH as [|a r Ha _ IHr]; cbn [vals_args added_sum]; [reflexivity|].
    rewrite app_length, Ha, IHr. lia. }
  rewrite E. lia.
Qed.

Lemma vals_args_length args t : length (vals_args args t) = added_sum args.
Proof.
  induction args as [|a r IH]; cbn [vals_args added_sum]; [reflexivity|].
  rewrite app_length, vals_length, IH. lia.
Qed.

Lemma added_zero tok : added tok = 0 -> tok = TAny.
Proof. destruct tok; cbn [added]; try discriminate; auto. Qed.

Lemma atmost_bit c n : Nat.leb (Nat.min c (n + 1)) n = Nat.leb c n.
Proof.
  destruct (Nat.leb_spec (Nat.min c (n + 1)) n), (Nat.leb_spec c n); try reflexivity; lia.
Qed.
Lemma atleast_bit c n : Nat.eqb (Nat.min c n) n = Nat.leb n c.
Proof.
  destruct (Nat.eqb_spec (Nat.min c n) n), (Nat.leb_spec n c); try reflexivity; lia.
Qed.
Lemma forbid_bit c : Nat.leb (Nat.min c (0 + 1)) 0 = Nat.eqb c 0.
Proof.
  destruct (Nat.leb_spec (Nat.min c (0 + 1)) 0), (Nat.eqb_spec c 0); try reflexivity; lia.
Qed.

(** the newest component is the truth value of the pattern *)
Theorem vals_head : forall tok t, 0 < added tok -> hd 0 (vals tok t) = b2n (sat tok t).
Proof.
  induction tok as [|s|s n|s n|s|s|f args IH] using token_ind'; intros t Hpos; cbn [added] in Hpos.
  - lia.
  - reflexivity.
  - cbn [vals sat count_vals hd]. rewrite atmost_bit. reflexivity.
  - cbn [vals sat count_vals hd]. rewrite Nat.add_0_r, atleast_bit. reflexivity.
  - cbn [vals sat count_vals hd]. rewrite Nat.add_0_r, atleast_bit. reflexivity.
  - cbn [vals sat count_vals hd]. rewrite forbid_bit. reflexivity.
  - rewrite vals_fun, sat_fun. cbn [hd]. f_equal. f_equal. clear Hpos.
    generalize (children t). induction IH as [|a r Ha _ IHr]; intros [|u us]; cbn [match_spec sat_args]; try reflexivity.
    rewrite IHr. f_equal.
    destruct (Nat.ltb 0 (added a)) eqn:E.
    + apply Nat.ltb_lt in E. rewrite (Ha u E). destruct (sat a u); reflexivity.
    + apply Nat.ltb_ge in E. assert (E0 : added a = 0) by lia. rewrite (added_zero a E0). reflexivity.
Qed.

(** * [A'] is [A] with [k] more components *)
Definition extends (A' A : sdfta) (k : nat) (v : tree sym -> list nat) : Prop :=
  deterministic A' /\
  (forall t q, srun A t = Some q -> srun A' t = Some (pushes (v t) q)) /\
  (forall t, srun A t = None -> srun A' t = None) /\
  (forall t q', srun A' t = Some q' -> smem q' (finals A') = smem (popn k q') (finals A)) /\
  (forall t, length (v t) = k).

Lemma popn_1 q : popn 1 q = pop q.
Proof. destruct q as [t [h [|c cs]]]; reflexivity. Qed.

Lemma popn_popn a b q : popn a (popn b q) = popn (b + a) q.
Proof.
  destruct q as [t [h cs]]; unfold popn; cbn. f_equal. f_equal.
  revert cs; induction b as [|b IH]; intros cs; cbn [skipn plus]; [reflexivity|].
  destruct cs as [|c cs]; [destruct a; reflexivity|]. apply IH.
Qed.

Lemma extends_refl A : deterministic A -> extends A A 0 (fun _ => []).
Proof.
  intros Hd. split; [exact Hd|]. split; [|split; [|split]]; auto.
  - intros t q H. rewrite pushes_nil. exact H.
  - intros t q' _. destruct q' as [ty [h cs]]; reflexivity.
Qed.

Lemma extends_run A' A k v t :
  extends A' A k v -> srun A' t = option_map (pushes (v t)) (srun A t).
Proof.
  intros [_ [H2 [H3 _]]]. destruct (srun A t) as [q|] eqn:E; cbn [option_map]; auto.
Qed.

Lemma extends_trans A2 A1 A k2 k1 v2 v1 :
  extends A1 A k1 v1 -> extends A2 A1 k2 v2 -> extends A2 A (k2 + k1) (fun t => v2 t ++ v1 t).
Proof.
  intros [D1 [R1 [N1 [F1 L1]]]] [D2 [R2 [N2 [F2 L2]]]]. split; [exact D2|]. split; [|split; [|split]].
  - intros t q H. rewrite (R2 t _ (R1 t q H)). rewrite pushes_app. reflexivity.
  - intros t H. apply N2, N1, H.
  - intros t q' H. rewrite (F2 t q' H).
    destruct (srun A1 t) as [q1|] eqn:E1; [|rewrite (N2 t E1) in H; discriminate].
    rewrite (R2 t q1 E1) in H. injection H as <-.
    rewrite <- (L2 t), popn_pushes. rewrite (F1 t q1 E1).
    rewrite <- popn_popn, popn_pushes. reflexivity.
  - intros t. rewrite app_length, L2, L1. reflexivity.
Qed.

Lemma extends_ext A' A k v v' :
  (forall t q, srun A t = Some q -> v' t = v t) -> (forall t, length (v' t) = k) ->
  extends A' A k v -> extends A' A k v'.
Proof.
  intros Hv Hl [D [R [N [F L]]]]. split; [exact D|]. split; [|split; [|split]]; auto.
  intros t q H. rewrite (Hv t q H). apply R; exact H.
Qed.

Lemma extends_tag A chk : deterministic A -> extends (tag A chk) A 1 (fun t => [tag_bit A chk t]).
Proof.
  intros Hd. split; [apply tag_det; exact Hd|]. split; [|split; [|split]].
  - intros t q H. rewrite tag_run, H by exact Hd. reflexivity.
  - intros t H. rewrite tag_run, H by exact Hd. reflexivity.
  - intros t q' H. rewrite popn_1. apply (tag_finals A Hd chk t q' H).
  - reflexivity.
Qed.

Lemma extends_count A n ss am : deterministic A -> extends (count A n ss am) A 1 (fun t => [sat_occ n ss am t]).
Proof.
  intros Hd. split; [apply count_det; exact Hd|]. split; [|split; [|split]].
  - intros t q H. rewrite count_run, H by exact Hd. reflexivity.
  - intros t H. rewrite count_run, H by exact Hd. reflexivity.
  - intros t q' H. rewrite popn_1. apply (count_finals A Hd n ss am t q' H).
  - reflexivity.
Qed.

(** runs of the children *)
Lemma children_runs A' A k v ts qs :
  extends A' A k v -> omapo (srun A) ts = Some qs ->
  omapo (srun A') ts = Some (map (fun p => pushes (v (fst p)) (snd p)) (combine ts qs)).
Proof.
  intros [_ [R _]]. revert qs; induction ts as [|t ts IH]; intros qs E; cbn [omapo] in *.
  - inversion E; reflexivity.
  - destruct (srun A t) as [q|] eqn:Eq; [|discriminate].
    destruct (omapo (srun A) ts) as [qs'|] eqn:Eqs; [|discriminate]. inversion E; subst.
    rewrite (R t q Eq), (IH qs' eq_refl). reflexivity.
Qed.

Lemma run_children A l ts q : srun A (Node l ts) = Some q -> exists qs, omapo (srun A) ts = Some qs /\ sread A l qs = Some q.
Proof. rewrite srun_eq. destruct (omapo (srun A) ts) as [qs|]; [|discriminate]. eauto. Qed.

(** the tag bit of a check that only reads the letter *)
Lemma tag_bit_letter A ss t q : srun A t = Some q -> tag_bit A (fun P _ _ => inb P ss) t = b2n (inb (root t) ss).
Proof.
  destruct t as [l ts]. intros H. cbn [tag_bit root]. rewrite H.
  destruct (run_children A l ts q H) as [qs [E _]]. rewrite E. reflexivity.
Qed.

(** * counting patterns *)
Lemma extends_process_count A ss n am :
  deterministic A -> extends (process_count A ss n am) A 2 (count_vals ss n am).
Proof.
  intros Hd. unfold process_count.
  assert (H1 := extends_count A n ss am Hd).
  assert (H2 := extends_tag (count A n ss am) (fun _ _ q => count_tag_check am n q) (count_det A Hd n ss am)).
  assert (H := extends_trans _ _ _ _ _ _ _ H1 H2). cbn [plus] in H.
  revert H. apply extends_ext; [|reflexivity].
  intros [l ts] q Hq. cbn [app]. unfold count_vals. f_equal.
  cbn [tag_bit].
  destruct (run_children A l ts q Hq) as [qs [E _]].
  rewrite (children_runs _ _ _ _ ts qs H1 E).
  rewrite (extends_run _ _ _ _ (Node l ts) H1), Hq. cbn [option_map].
  unfold count_tag_check. rewrite comps_push, comps_pushes. cbn [app nth]. reflexivity.
Qed.

Lemma Forall2_imp {X Y} (P Q : X -> Y -> Prop) l l' :
  (forall x y, P x y -> Q x y) -> Forall2 P l l' -> Forall2 Q l l'.
Proof. intros H; induction 1; constructor; auto. Qed.

(** * the final tag of a function pattern *)
Lemma match_args_spec args : forall (us : list (tree sym)) (sts : list st),
  Forall2 (fun u s => exists tail, comps s = 0 :: vals_args args u ++ tail) us sts ->
  match_args sts (suffix_sums (map added args)) (map (fun a => Nat.ltb 0 a) (map added args)) = match_spec args us.
Proof.
  induction args as [|a r IH]; intros us sts H.
  - destruct sts; destruct us; reflexivity.
  - destruct H as [|u s us sts [tail Hs] Hr]; [reflexivity|].
    cbn [map suffix_sums match_args match_spec]. f_equal.
    + destruct (Nat.ltb 0 (added a)) eqn:E; [|reflexivity]. f_equal.
      rewrite Hs. cbn [nth vals_args]. rewrite <- app_assoc, added_sum_map, <- (vals_args_length r u).
      rewrite app_nth2 by lia. rewrite Nat.sub_diag.
      apply Nat.ltb_lt in E. rewrite <- (vals_length a u) in E.
      destruct (vals a u); [cbn in E; lia|reflexivity].
    + apply IH. revert Hr. apply Forall2_imp. intros u' s' [tail' Hs']. exists (vals a u' ++ tail').
      rewrite Hs'. cbn [vals_args]. rewrite <- app_assoc. reflexivity.
Qed.

Definition fun_vals (f : list sym) (args : list token) (t : tree sym) : list nat :=
  vals_args args t ++ [b2n (inb (root t) f)].

Lemma extends_fun_tag A2 A f args :
  deterministic A -> extends A2 A (added_sum args + 1) (fun_vals f args) ->
  extends (tag A2 (fun _ rargs dst =>
                     match_check (sumnat (map added args)) (suffix_sums (map added args))
                                 (map (fun a => Nat.ltb 0 a) (map added args)) rargs dst))
          A (added (TFun f args)) (vals (TFun f args)).
Proof.
  intros Hd H2. assert (D2 : deterministic A2) by apply H2.
  assert (H3 := extends_tag A2 (fun _ rargs dst =>
                     match_check (sumnat (map added args)) (suffix_sums (map added args))
                                 (map (fun a => Nat.ltb 0 a) (map added args)) rargs dst) D2).
  assert (H := extends_trans _ _ _ _ _ _ _ H2 H3).
  rewrite added_fun. replace (2 + added_sum args) with (1 + (added_sum args + 1)) by lia.
  revert H. apply extends_ext.
  - intros [l ts] q Hq. rewrite vals_fun. cbn [app]. f_equal.
    cbn [tag_bit].
    destruct (run_children A l ts q Hq) as [qs [E _]].
    rewrite (children_runs _ _ _ _ ts qs H2 E).
    rewrite (extends_run _ _ _ _ (Node l ts) H2), Hq. cbn [option_map].
    f_equal. unfold match_check. f_equal.
    + rewrite comps_push, comps_pushes. cbn [nth]. unfold fun_vals. rewrite <- app_assoc.
      rewrite added_sum_map, <- (vals_args_length args (Node l ts)).
      rewrite app_nth2 by lia. rewrite Nat.sub_diag. cbn [app nth root].
      destruct (inb l f); reflexivity.
    + cbn [children]. symmetry. apply match_args_spec.
      assert (Hlen : length qs = length ts) by (eapply omapo_length; eauto).
      clear -Hlen. revert qs Hlen; induction ts as [|t ts IH]; intros [|q1 qs] Hlen; try discriminate; cbn [combine map]; constructor.
      * exists (b2n (inb (root t) f) :: comps q1). cbn [fst snd]. rewrite comps_push, comps_pushes. unfold fun_vals.
        rewrite <- app_assoc. reflexivity.
      * apply IH. cbn in Hlen; lia.
  - intros t. rewrite vals_length, added_fun. lia.
Qed.

(** the loop over the argument patterns *)
Fixpoint process_args (args : list token) (A : sdfta) : sdfta :=
  match args with [] => A | a :: r => process_args r (process a A) end.

Lemma process_fun f args A :
  process (TFun f args) A =
  tag (process_args args (tag A (fun P _ _ => inb P f)))
      (fun _ rargs dst => match_check (sumnat (map added args)) (suffix_sums (map added args))
                                      (map (fun a => Nat.ltb 0 a) (map added args)) rargs dst).
Proof.
  cbn [process]. f_equal.
Qed.

(** * C05_process_state *)
Theorem process_extends : forall tok A, deterministic A -> extends (process tok A) A (added tok) (vals tok).
Proof.
  induction tok as [|s|s n|s n|s|s|f args IH] using token_ind'; intros A Hd.
  - apply extends_refl; exact Hd.
  - cbn [process added]. generalize (extends_tag A (fun P _ _ => inb P s) Hd). apply extends_ext; [|reflexivity].
    intros t q Hq. cbn [vals]. f_equal. symmetry. eapply tag_bit_letter; eauto.
  - apply extends_process_count; exact Hd.
  - apply extends_process_count; exact Hd.
  - apply (extends_process_count A s 1 false); exact Hd.
  - apply (extends_process_count A s 0 true); exact Hd.
  - rewrite process_fun. apply extends_fun_tag; [exact Hd|].
    (* head tag *)
    assert (H1 : extends (tag A (fun P _ _ => inb P f)) A 1 (fun t => [b2n (inb (root t) f)])).
    { generalize (extends_tag A (fun P _ _ => inb P f) Hd). apply extends_ext; [|reflexivity].
      intros t q Hq. f_equal. symmetry. eapply tag_bit_letter; eauto. }
    revert H1. generalize (tag A (fun P _ _ => inb P f)). intros B H1.
    (* arguments, generalised over what was appended before *)
    assert (G : forall (pre : tree sym -> list nat) kp B,
               extends B A kp pre ->
               extends (process_args args B) A (added_sum args + kp) (fun t => vals_args args t ++ pre t)).
    { clear B H1. induction IH as [|a r Ha _ IHr]; intros pre kp B HB.
      - cbn [process_args added_sum vals_args plus app]. exact HB.
      - cbn [process_args added_sum vals_args].
        assert (DB : deterministic B) by apply HB.
        assert (Hstep := extends_trans _ _ _ _ _ _ _ HB (Ha B DB)).
        specialize (IHr _ _ _ Hstep).
        replace (added a + added_sum r + kp) with (added_sum r + (added a + kp)) by lia.
        revert IHr. apply extends_ext.
        + intros t q _. rewrite <- app_assoc. reflexivity.
        + intros t. rewrite !app_length, vals_args_length, vals_length. destruct HB as [_ [_ [_ [_ L]]]]. rewrite L. lia. }
    apply (G _ _ _ H1).
Qed.

(** the statement in the words of the property: after [process], the run is
    the run of the input automaton with [added tok] more components whose
    newest one is 1 iff the sub-term read so far satisfies the pattern *)
Theorem process_state tok A : deterministic A ->
  deterministic (process tok A) /\
  (forall t, srun (process tok A) t = option_map (pushes (vals tok t)) (srun A t)) /\
  (forall t, length (vals tok t) = added tok) /\
  (forall t, 0 < added tok -> hd 0 (vals tok t) = if sat tok t then 1 else 0) /\
  (forall t, saccepts (process tok A) t = saccepts A t).
Proof.
  intros Hd. assert (H := process_extends tok A Hd). split; [apply H|]. split; [|split; [|split]].
  - intros t. apply extends_run with (k := added tok). exact H.
  - apply vals_length.
  - intros t Hp. rewrite vals_head by exact Hp. destruct (sat tok t); reflexivity.
  - intros t. unfold saccepts, accepts. fold (srun (process tok A) t). fold (srun A t).
    rewrite (extends_run _ _ _ _ t H).
    destruct (srun A t) as [q|] eqn:E; cbn [option_map]; [|reflexivity].
    destruct H as [_ [R [_ [F L]]]]. fold (smem (pushes (vals tok t) q) (finals (process tok A))).
    rewrite (F t _ (R t q E)). rewrite <- (L t), popn_pushes. reflexivity.
Qed.
