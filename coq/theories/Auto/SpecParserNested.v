(** parse (show pattern) for patterns of any nesting depth (repaired parser).

    The shown form of a function pattern is "(" head " " arg ... ")".
    parse_specification strips every leading and trailing parenthesis of the
    string it is given, so the last argument reaches the word loop without its
    closing parentheses ([ropen]); a parenthesised argument in the middle is cut
    out by counting levels ([take_paren]). *)
From Coq Require Import List Bool Arith NArith Lia.
From PS Require Import Base.ListX Base.Sexp Base.Ty Base.Value Base.Prog Auto.Dfta Gram.Cfg Auto.Sharpen Auto.SharpenBase
  Auto.SharpenTop Auto.SpecParser Auto.SpecParserProofs.
Import ListNotations.
Local Open Scope N_scope.

Inductive pat : Type :=
| PArg (a : farg)
| PFunc (h : list str) (args : list pat).

Section PatInd.
  Variable P : pat -> Prop.
  Hypothesis HA : forall a, P (PArg a).
  Hypothesis HF : forall h args, Forall P args -> P (PFunc h args).
  Fixpoint pat_ind' (p : pat) : P p :=
    match p with
    | PArg a => HA a
    | PFunc h args =>
      HF h args ((fix go (l : list pat) : Forall P l :=
                    match l with [] => Forall_nil _ | x :: r => Forall_cons _ (pat_ind' x) (go r) end) args)
    end.
End PatInd.

Fixpoint show (p : pat) : str :=
  match p with
  | PArg a => show_arg a
  | PFunc h args =>
    cLP :: join h ++ (fix go (l : list pat) : str := match l with [] => [] | x :: r => cSP :: show x ++ go r end) args ++ [cRP]
  end.
Fixpoint show_args (l : list pat) : str := match l with [] => [] | x :: r => cSP :: show x ++ show_args r end.

Fixpoint denote (T : table) (p : pat) : token :=
  match p with
  | PArg a => denote_arg T a
  | PFunc h args => TFun (names_syms T h) (map (denote T) args)
  end.

Fixpoint wf_pat (p : pat) : Prop :=
  match p with
  | PArg a => wf_nset (arg_set a)
  | PFunc h args => wf_names h /\ (fix go (l : list pat) : Prop := match l with [] => True | x :: r => wf_pat x /\ go r end) args
  end.
Fixpoint wf_pats (l : list pat) : Prop := match l with [] => True | x :: r => wf_pat x /\ wf_pats r end.

Fixpoint pdepth (p : pat) : nat :=
  match p with
  | PArg _ => 0%nat
  | PFunc _ args => S ((fix go (l : list pat) : nat := match l with [] => 0%nat | x :: r => Nat.max (pdepth x) (go r) end) args)
  end.
Fixpoint pdepths (l : list pat) : nat := match l with [] => 0%nat | x :: r => Nat.max (pdepth x) (pdepths r) end.

Lemma show_func h args : show (PFunc h args) = cLP :: join h ++ show_args args ++ [cRP].
Proof.
  cbn [show]. f_equal.
Qed.
Lemma wf_func h args : wf_pat (PFunc h args) <-> wf_names h /\ wf_pats args.
Proof.
  cbn [wf_pat]. assert (E : forall l, (fix go (l : list pat) : Prop := match l with [] => True | x :: r => wf_pat x /\ go r end) l <-> wf_pats l).
  { induction l as [|x r IH]; cbn [wf_pats]; [tauto|]. rewrite IH. tauto. }
  rewrite E. tauto.
Qed.
Lemma pdepth_func h args : pdepth (PFunc h args) = S (pdepths args).
Proof.
  cbn [pdepth]. f_equal.
Qed.

(** * levels *)
(** the level after reading [s] from level [l]; [None] when a ")" brings it to 0 *)
Fixpoint lvl_after (s : str) (l : nat) : option nat :=
  match s with
  | [] => Some l
  | c :: r =>
    if N.eqb c cLP then lvl_after r (S l)
    else if N.eqb c cRP then match l with
                             | O => None
                             | 1%nat => None
                             | S l' => lvl_after r l'
                             end
         else lvl_after r l
  end.

Lemma lvl_after_app a b l :
  lvl_after (a ++ b) l = match lvl_after a l with Some l' => lvl_after b l' | None => None end.
Proof.
  revert l; induction a as [|c r IH]; intros l; cbn [app lvl_after]; [reflexivity|].
  destruct (N.eqb c cLP); [apply IH|]. destruct (N.eqb c cRP); [|apply IH].
  destruct l as [|[|l']]; try reflexivity. apply IH.
Qed.

Lemma take_paren_app : forall a l l' rest, (1 <= l)%nat -> lvl_after a l = Some l' ->
  take_paren (a ++ rest) l = (a ++ fst (take_paren rest l'), snd (take_paren rest l')).
Proof.
  induction a as [|c r IH]; intros l l' rest Hl H; cbn [app lvl_after take_paren] in *.
  - inversion H; subst. destruct (take_paren rest l'); reflexivity.
  - destruct (N.eqb c cLP).
    + rewrite (IH (S l) l' rest) by (auto; lia). reflexivity.
    + destruct (N.eqb c cRP).
      * destruct l as [|[|l'']]; try discriminate. cbn [Nat.pred].
        rewrite (IH (S l'') l' rest) by (auto; lia). reflexivity.
      * rewrite (IH l l' rest) by auto. reflexivity.
Qed.

Lemma take_paren_all a l l' : (1 <= l)%nat -> lvl_after a l = Some l' -> take_paren a l = (a, []).
Proof.
  intros Hl H. rewrite <- (app_nil_r a) at 1. rewrite (take_paren_app a l l' [] Hl H). cbn. rewrite app_nil_r. reflexivity.
Qed.

(** a parenthesised word followed by anything *)
Lemma next_word_closed inner rest : lvl_after inner 1 = Some 1%nat ->
  next_word (cLP :: inner ++ cRP :: rest) = (cLP :: inner ++ [cRP], tl rest).
Proof.
  intros H. unfold next_word. rewrite N.eqb_refl. cbn [take_paren]. rewrite N.eqb_refl.
  rewrite (take_paren_app inner 1 1 (cRP :: rest) (le_n 1) H). cbn [take_paren].
  replace (N.eqb cRP cLP) with false by reflexivity. rewrite N.eqb_refl. cbn [fst snd]. reflexivity.
Qed.

(** a parenthesised word that never closes *)
Lemma next_word_open inner l' : lvl_after inner 1 = Some l' -> next_word (cLP :: inner) = (cLP :: inner, []).
Proof.
  intros H. unfold next_word. rewrite N.eqb_refl. cbn [take_paren]. rewrite N.eqb_refl.
  rewrite (take_paren_all inner 1 l' (le_n 1) H). reflexivity.
Qed.

(** characters other than parentheses leave the level unchanged *)
Definition noparen (c : N) : bool := negb (N.eqb c cLP) && negb (N.eqb c cRP).

Lemma lvl_noparen s l : forallb noparen s = true -> lvl_after s l = Some l.
Proof.
  induction s as [|c r IH]; cbn [forallb lvl_after]; [reflexivity|]. intros H. apply andb_true_iff in H.
  destruct H as [Hc Hr]. unfold noparen in Hc. apply andb_true_iff in Hc. destruct Hc as [H1 H2]. apply negb_true_iff in H1, H2.
  rewrite H1, H2. apply IH; exact Hr.
Qed.

Lemma nlc_noparen c : nlc c = true -> noparen c = true.
Proof.
  unfold nlc, noparen. intros H. apply orb_true_iff in H. destruct H as [H|H].
  - rewrite (nmc_neq c cLP H) by special. rewrite (nmc_neq c cRP H) by special. reflexivity.
  - apply N.eqb_eq in H. subst. reflexivity.
Qed.

Lemma nset_noparen s : wf_nset s -> forallb noparen (show_nset s) = true.
Proof.
  destruct s as [|ns|ns]; cbn [show_nset wf_nset]; intros Hw; [reflexivity| |].
  - apply (forallb_imp nlc noparen _ nlc_noparen), join_chars, Hw.
  - cbn [forallb]. rewrite (forallb_imp nlc noparen _ nlc_noparen (join_chars ns (proj2 Hw))). reflexivity.
Qed.

Lemma digits_noparen n : forallb noparen (show_nat n) = true.
Proof.
  generalize (show_nat_digits n). apply forallb_imp. intros x Hx. unfold is_digit in Hx.
  apply andb_true_iff in Hx. destruct Hx as [H1 H2]. apply N.leb_le in H1, H2. unfold noparen.
  assert (E1 : N.eqb x cLP = false) by (apply N.eqb_neq; unfold cLP; lia).
  assert (E2 : N.eqb x cRP = false) by (apply N.eqb_neq; unfold cRP; lia). rewrite E1, E2. reflexivity.
Qed.

(** an argument rule is neutral at any level >= 1; without its closing parenthesis it only goes up *)
Lemma lvl_lp l : lvl_after [cLP] l = Some (S l).
Proof. reflexivity. Qed.
Lemma lvl_rp l : lvl_after [cRP] (S (S l)) = Some (S l).
Proof. reflexivity. Qed.

Lemma arg_neutral a l : wf_nset (arg_set a) -> (1 <= l)%nat -> lvl_after (show_arg a) l = Some l.
Proof.
  intros Hw Hl. destruct l as [|l0]; [lia|].
  assert (Hs := nset_noparen _ Hw).
  destruct a as [s|s am n br|s fb]; unfold show_arg; cbn [arg_set show_arg_gen] in *.
  - apply lvl_noparen; exact Hs.
  - destruct br.
    + apply lvl_noparen. cbn [forallb]. rewrite forallb_app. cbn [forallb]. rewrite Hs, (digits_noparen n).
      destruct am; reflexivity.
    + change (cHASH :: cLP :: show_nset s ++ cRP :: (if am then cLT else cGT) :: cEQ :: show_nat n)
        with ([cHASH] ++ [cLP] ++ show_nset s ++ [cRP] ++ ((if am then cLT else cGT) :: cEQ :: show_nat n)).
      rewrite lvl_after_app, (lvl_noparen [cHASH]) by reflexivity.
      rewrite lvl_after_app, lvl_lp. rewrite lvl_after_app, (lvl_noparen _ _ Hs). rewrite lvl_after_app, lvl_rp.
      apply lvl_noparen. cbn [forallb]. rewrite (digits_noparen n). destruct am; reflexivity.
  - change (cGT :: (if fb then [cCARET] else []) ++ cLP :: show_nset s ++ [cRP])
      with ((cGT :: (if fb then [cCARET] else [])) ++ [cLP] ++ show_nset s ++ [cRP]).
    rewrite lvl_after_app, (lvl_noparen (cGT :: (if fb then [cCARET] else []))) by (destruct fb; reflexivity).
    rewrite lvl_after_app, lvl_lp. rewrite lvl_after_app, (lvl_noparen _ _ Hs). apply lvl_rp.
Qed.

Lemma arg_open_level a l : wf_nset (arg_set a) -> (1 <= l)%nat -> exists l', lvl_after (show_arg_gen false a) l = Some l'.
Proof.
  intros Hw Hl. destruct a as [s|s am n br|s fb].
  - exists l. apply (arg_neutral (FSet s) l Hw Hl).
  - exists l. apply (arg_neutral (FCount s am n br) l Hw Hl).
  - exists (S l). cbn [arg_set show_arg_gen] in *. rewrite app_nil_r.
    change (cGT :: (if fb then [cCARET] else []) ++ cLP :: show_nset s)
      with ((cGT :: (if fb then [cCARET] else [])) ++ [cLP] ++ show_nset s).
    rewrite lvl_after_app, (lvl_noparen (cGT :: (if fb then [cCARET] else []))) by (destruct fb; reflexivity).
    rewrite lvl_after_app, lvl_lp. apply lvl_noparen, nset_noparen, Hw.
Qed.

Lemma join_noparen h : wf_names h -> forallb noparen (join h) = true.
Proof. intros Hw. apply (nset_noparen (NPos h) Hw). Qed.

(** every shown pattern is neutral *)
Theorem show_neutral : forall p l, wf_pat p -> (1 <= l)%nat -> lvl_after (show p) l = Some l.
Proof.
  induction p as [a|h args IH] using pat_ind'; intros l Hw Hl.
  - apply arg_neutral; assumption.
  - apply wf_func in Hw. destruct Hw as [Hh Ha]. rewrite show_func.
    change (cLP :: join h ++ show_args args ++ [cRP]) with ([cLP] ++ join h ++ show_args args ++ [cRP]).
    rewrite lvl_after_app, lvl_lp. rewrite lvl_after_app, (lvl_noparen _ (S l) (join_noparen h Hh)).
    assert (G : lvl_after (show_args args) (S l) = Some (S l)).
    { clear Hh. induction IH as [|x r Hx _ IHr]; cbn [show_args]; [reflexivity|]. cbn [wf_pats] in Ha. destruct Ha as [Hwx Hwr].
      change (cSP :: show x ++ show_args r) with ([cSP] ++ show x ++ show_args r).
      rewrite lvl_after_app, (lvl_noparen [cSP]) by reflexivity.
      rewrite lvl_after_app, (Hx (S l) Hwx) by lia. apply IHr; exact Hwr. }
    rewrite lvl_after_app, G. destruct l as [|l0]; [lia|]. apply lvl_rp.
Qed.

(** * the shown form without its trailing parentheses *)
Definition parens : list N := [cRP; cLP].

Fixpoint ropen (p : pat) : str :=
  match p with
  | PArg a => show_arg_gen false a
  | PFunc h args =>
    cLP :: join h ++ (fix go (l : list pat) : str :=
                        match l with
                        | [] => []
                        | x :: r => match r with [] => cSP :: ropen x | _ => cSP :: show x ++ go r end
                        end) args
  end.
Fixpoint ropen_args (l : list pat) : str :=
  match l with
  | [] => []
  | x :: r => match r with [] => cSP :: ropen x | _ => cSP :: show x ++ ropen_args r end
  end.
Fixpoint ropen_words (l : list pat) : list str :=
  match l with
  | [] => []
  | x :: r => match r with [] => [ropen x] | _ => show x :: ropen_words r end
  end.

Lemma ropen_func h args : ropen (PFunc h args) = cLP :: join h ++ ropen_args args.
Proof. cbn [ropen]. f_equal. Qed.

Lemma all_in_app cs a b : all_in cs (a ++ b) = all_in cs a && all_in cs b.
Proof. unfold all_in. apply forallb_app. Qed.

Lemma closed_open_last a : wf_nset (arg_set a) ->
  exists extra, all_in parens extra = true /\ show_arg a = show_arg_gen false a ++ extra /\ last_ok parens (show_arg_gen false a).
Proof.
  intros Hw. destruct (closed_open a) as [extra [He Ee]]. exists extra. split; [exact He|]. split; [exact Ee|].
  apply open_last_ok; auto using sub_parens.
Qed.

Theorem show_ropen : forall p, wf_pat p ->
  exists cl, all_in parens cl = true /\ show p = ropen p ++ cl /\ last_ok parens (ropen p).
Proof.
  induction p as [a|h args IH] using pat_ind'; intros Hw.
  - apply closed_open_last; exact Hw.
  - apply wf_func in Hw. destruct Hw as [Hh Ha]. rewrite show_func, ropen_func.
    assert (G : exists cl, all_in parens cl = true /\ show_args args = ropen_args args ++ cl /\
                           (args <> [] -> last_ok parens (ropen_args args))).
    { clear Hh. induction IH as [|x r Hx _ IHr]; [exists []; repeat split; auto; congruence|].
      cbn [wf_pats] in Ha. destruct Ha as [Hwx Hwr]. destruct r as [|y r'].
      - destruct (Hx Hwx) as [cl [Hc [Es Hl]]]. exists cl. cbn [show_args ropen_args]. rewrite app_nil_r.
        split; [exact Hc|]. split; [rewrite Es; reflexivity|]. intros _.
        change (cSP :: ropen x) with ([cSP] ++ ropen x). apply last_ok_app, Hl.
      - destruct (IHr Hwr) as [cl [Hc [Es Hl]]]. exists cl. split; [exact Hc|].
        change (show_args (x :: y :: r')) with (cSP :: show x ++ show_args (y :: r')).
        change (ropen_args (x :: y :: r')) with (cSP :: show x ++ ropen_args (y :: r')).
        split; [rewrite Es; cbn [app]; rewrite <- app_assoc; reflexivity|]. intros _.
        change (cSP :: show x ++ ropen_args (y :: r')) with ((cSP :: show x) ++ ropen_args (y :: r')).
        apply last_ok_app, Hl. discriminate. }
    destruct G as [cl [Hc [Es Hl]]]. exists (cl ++ [cRP]). split; [rewrite all_in_app, Hc; reflexivity|].
    split; [rewrite Es; cbn [app]; rewrite <- !app_assoc; reflexivity|].
    destruct args as [|x r].
    + cbn [ropen_args]. rewrite app_nil_r. change (cLP :: join h) with ([cLP] ++ join h).
      apply last_ok_app, join_last; auto using sub_parens.
    + change (cLP :: join h ++ ropen_args (x :: r)) with ((cLP :: join h) ++ ropen_args (x :: r)).
      apply last_ok_app, Hl. discriminate.
Qed.

(** levels of the open form *)
Theorem ropen_level : forall p l, wf_pat p -> (1 <= l)%nat -> exists l', lvl_after (ropen p) l = Some l'.
Proof.
  induction p as [a|h args IH] using pat_ind'; intros l Hw Hl.
  - apply arg_open_level; assumption.
  - apply wf_func in Hw. destruct Hw as [Hh Ha]. rewrite ropen_func.
    change (cLP :: join h ++ ropen_args args) with ([cLP] ++ join h ++ ropen_args args).
    rewrite lvl_after_app, lvl_lp. rewrite lvl_after_app, (lvl_noparen _ (S l) (join_noparen h Hh)).
    clear Hh. induction IH as [|x r Hx _ IHr]; [exists (S l); reflexivity|].
    cbn [wf_pats] in Ha. destruct Ha as [Hwx Hwr]. destruct r as [|y r'].
    + cbn [ropen_args]. change (cSP :: ropen x) with ([cSP] ++ ropen x).
      rewrite lvl_after_app, (lvl_noparen [cSP]) by reflexivity. apply Hx; [exact Hwx|lia].
    + change (ropen_args (x :: y :: r')) with ([cSP] ++ show x ++ ropen_args (y :: r')).
      rewrite lvl_after_app, (lvl_noparen [cSP]) by reflexivity.
      rewrite lvl_after_app, (show_neutral x (S l) Hwx) by lia. apply IHr; exact Hwr.
Qed.

Lemma inner_neutral h args l : wf_names h -> wf_pats args ->
  lvl_after (join h ++ show_args args) (S l) = Some (S l).
Proof.
  intros Hh Ha. rewrite lvl_after_app, (lvl_noparen _ (S l) (join_noparen h Hh)).
  induction args as [|x r IHr]; cbn [show_args]; [reflexivity|]. cbn [wf_pats] in Ha. destruct Ha as [Hwx Hwr].
  change (cSP :: show x ++ show_args r) with ([cSP] ++ show x ++ show_args r).
  rewrite lvl_after_app, (lvl_noparen [cSP]) by reflexivity.
  rewrite lvl_after_app, (show_neutral x (S l) Hwx) by lia. apply IHr; exact Hwr.
Qed.

(** * prepare *)
Lemma strip_app_all cs s t : all_in cs t = true -> strip cs (s ++ t) = strip cs s.
Proof.
  intros Ht. unfold strip. destruct (lstrip cs s) as [|c r] eqn:E.
  - (* everything of s is stripped *)
    assert (Hs : all_in cs s = true).
    { clear -E. induction s as [|x s IH]; [reflexivity|]. cbn [lstrip] in E. unfold all_in in *. cbn [forallb].
      destruct (memb N.eqb x cs); [apply IH; exact E|discriminate]. }
    unfold all_in in *. rewrite (lstrip_all cs s t Hs).
    assert (Hall : forall u, forallb (fun c => memb N.eqb c cs) u = true -> lstrip cs u = []).
    { induction u as [|x u IHu]; cbn [forallb lstrip]; [reflexivity|]. intros H. apply andb_true_iff in H.
      destruct H as [H1 H2]. rewrite H1. apply IHu; exact H2. }
    rewrite (Hall t Ht). reflexivity.
  - assert (El : lstrip cs (s ++ t) = lstrip cs s ++ t).
    { clear -E. revert c r E. induction s as [|x s IH]; intros c r E; [discriminate|]. cbn [lstrip app] in *.
      destruct (memb N.eqb x cs); [eapply IH; eauto|reflexivity]. }
    rewrite El, E. rewrite rev_app_distr. unfold all_in in Ht. rewrite lstrip_all; [reflexivity|].
    rewrite forallb_rev. exact Ht.
Qed.

Definition nonl (c : N) : bool := negb (N.eqb c cNL).

Lemma prepare_app_parens s cl : all_in parens cl = true -> prepare (s ++ cl) = prepare s.
Proof.
  intros Hc. unfold prepare. rewrite filter_app.
  assert (Hf : filter (fun c => negb (N.eqb c cNL)) cl = cl).
  { apply filter_id. revert Hc. unfold all_in. apply forallb_imp. intros x Hx. unfold parens in Hx. cbn [memb] in Hx.
    destruct (N.eqb x cRP) eqn:E1; [apply N.eqb_eq in E1; subst; reflexivity|].
    destruct (N.eqb x cLP) eqn:E2; [apply N.eqb_eq in E2; subst; reflexivity|discriminate]. }
  rewrite Hf. apply (strip_app_all parens); exact Hc.
Qed.

(** no new-line in a shown pattern *)
Lemma calm_nonl_f s : forallb calm s = true -> forallb nonl s = true.
Proof. apply forallb_imp. intros x Hx. unfold calm in Hx. apply andb_true_iff in Hx. unfold nonl. tauto. Qed.

Theorem show_nonl : forall p, wf_pat p -> forallb nonl (show p) = true.
Proof.
  induction p as [a|h args IH] using pat_ind'; intros Hw.
  - apply calm_nonl_f, arg_calm; exact Hw.
  - apply wf_func in Hw. destruct Hw as [Hh Ha]. rewrite show_func. cbn [forallb]. rewrite forallb_app, forallb_app.
    rewrite (calm_nonl_f _ (join_calm h Hh)). cbn [forallb]. rewrite andb_true_r.
    replace (nonl cLP) with true by reflexivity. cbn [andb].
    clear Hh. induction IH as [|x r Hx _ IHr]; [reflexivity|]. cbn [wf_pats] in Ha. destruct Ha as [Hwx Hwr].
    cbn [show_args forallb]. rewrite forallb_app, (Hx Hwx), (IHr Hwr). reflexivity.
Qed.

Lemma ropen_nonl p : wf_pat p -> forallb nonl (ropen p) = true.
Proof.
  intros Hw. destruct (show_ropen p Hw) as [cl [_ [Es _]]]. assert (H := show_nonl p Hw). rewrite Es, forallb_app in H.
  apply andb_true_iff in H. tauto.
Qed.

Lemma strip_pre cs pre core :
  forallb (fun c => memb N.eqb c cs) pre = true -> first_ok cs core -> last_ok cs core -> strip cs (pre ++ core) = core.
Proof.
  intros Hp Hf Hl. assert (H := strip_core cs pre core [] Hp eq_refl Hf Hl). rewrite app_nil_r in H. exact H.
Qed.

Lemma prepare_func h args : wf_names h -> wf_pats args ->
  prepare (show (PFunc h args)) = join h ++ ropen_args args.
Proof.
  intros Hh Ha. assert (Hw : wf_pat (PFunc h args)) by (apply wf_func; auto).
  destruct (show_ropen _ Hw) as [cl [Hc [Es Hl]]]. rewrite Es, (prepare_app_parens _ cl Hc).
  unfold prepare. change (fun c : N => negb (N.eqb c cNL)) with nonl. rewrite (filter_id _ _ (ropen_nonl _ Hw)). rewrite ropen_func in *.
  change (cLP :: join h ++ ropen_args args) with ([cLP] ++ (join h ++ ropen_args args)).
  apply strip_pre; [reflexivity| |].
  - apply first_ok_app, join_first; auto using sub_parens.
  - unfold last_ok in *. change (cLP :: join h ++ ropen_args args) with ([cLP] ++ (join h ++ ropen_args args)) in Hl.
    rewrite rev_app_distr in Hl. destruct (rev (join h ++ ropen_args args)) as [|c r] eqn:E.
    + apply (f_equal (@rev N)) in E. rewrite rev_involutive in E. cbn in E.
      destruct (join h) eqn:Ej; [|discriminate]. exfalso.
      destruct Hh as [Hne H]. destruct H as [|n rest [[Hn _] _] _]; [congruence|]. cbn [join] in Ej.
      destruct rest; destruct n; try congruence; discriminate.
    + exact Hl.
Qed.

Lemma prepare_ropen p : wf_pat p -> prepare (ropen p) = prepare (show p).
Proof.
  intros Hw. destruct (show_ropen p Hw) as [cl [Hc [Es _]]]. rewrite Es, prepare_app_parens by exact Hc. reflexivity.
Qed.

(** * the word loop *)
Section Loop.
  Variable pf : str -> option token.
  Variable T : table.

  Definition tok_of (w : str) : option token := if starts [cLP] w then pf w else interpret_word true T w.
  Definition takes_mid (w : str) (t : token) : Prop :=
    w <> [] /\ (forall rest, next_word (w ++ cSP :: rest) = (w, rest)) /\ tok_of w = Some t.
  Definition takes_last (w : str) (t : token) : Prop :=
    w <> [] /\ next_word w = (w, []) /\ tok_of w = Some t.

  Lemma loop_step w t rest k ts : takes_mid w t -> rest <> [] ->
    words_loop pf true T k rest = Some ts ->
    words_loop pf true T (S k) (w ++ cSP :: rest) = Some (t :: ts).
  Proof.
    intros [Hne [Hn Ht]] Hr Hrest. destruct (w ++ cSP :: rest) as [|c0 s0] eqn:E; [destruct w; discriminate|].
    rewrite <- E. cbn [words_loop]. rewrite E. rewrite <- E. rewrite Hn. unfold tok_of in Ht. rewrite Ht, Hrest. reflexivity.
  Qed.

  Lemma loop_last w t k : takes_last w t -> words_loop pf true T (S k) w = Some [t].
  Proof.
    intros [Hne [Hn Ht]]. destruct w as [|c0 s0]; [congruence|]. cbn [words_loop]. rewrite Hn. unfold tok_of in Ht.
    rewrite Ht. destruct k; reflexivity.
  Qed.

  Lemma loop_words : forall mids toks lastw lastt k,
    Forall2 takes_mid mids toks -> takes_last lastw lastt -> (length mids < k)%nat ->
    words_loop pf true T k (join_sp (mids ++ [lastw])) = Some (toks ++ [lastt]).
  Proof.
    induction mids as [|w r IH]; intros toks lastw lastt k H Hl Hk; inversion H as [|? t ? ts Hw Hr]; subst.
    - cbn [app join_sp]. destruct k as [|k]; [lia|]. apply loop_last; exact Hl.
    - destruct k as [|k]; [cbn in Hk; lia|]. cbn [app].
      rewrite join_sp_cons by (destruct r; discriminate).
      apply loop_step; [exact Hw| |apply IH; auto; cbn [length] in Hk; lia].
      destruct r as [|w' r'']; cbn [app]; [cbn [join_sp]; apply Hl|].
      inversion Hr as [|? ? ? ? [Hne' _] _]; subst. intros E.
      destruct (r'' ++ [lastw]) as [|z zs] eqn:Ez; [destruct r''; discriminate|].
      rewrite join_sp_cons in E by discriminate. destruct w'; [congruence|discriminate].
  Qed.
End Loop.

Lemma next_word_plain w rest : word_ok w -> next_word (w ++ cSP :: rest) = (w, rest).
Proof.
  intros [Hne [Hsp Hlp]]. unfold next_word. destruct w as [|c w']; [congruence|]. cbn [app].
  assert (Ec : N.eqb c cLP = false).
  { cbn [starts] in Hlp. rewrite N.eqb_sym in Hlp. destruct (N.eqb c cLP); [discriminate|reflexivity]. }
  rewrite Ec. change (c :: w' ++ cSP :: rest) with ((c :: w') ++ cSP :: rest).
  rewrite (take_plain_word _ _ Hsp). reflexivity.
Qed.

Lemma plain_takes_mid pf T w t : word_ok w -> interpret_word true T w = Some t -> takes_mid pf T w t.
Proof.
  intros Hw Ht. split; [apply Hw|]. split; [intros rest; apply next_word_plain; exact Hw|].
  unfold tok_of. destruct Hw as [_ [_ Hlp]]. rewrite Hlp. exact Ht.
Qed.

Lemma plain_takes_last pf T w t : word_ok w -> interpret_word true T w = Some t -> takes_last pf T w t.
Proof.
  intros Hw Ht. split; [apply Hw|]. split; [apply next_word_last; exact Hw|].
  unfold tok_of. destruct Hw as [_ [_ Hlp]]. rewrite Hlp. exact Ht.
Qed.

Lemma join_ropen_words w0 args : w0 ++ ropen_args args = join_sp (w0 :: ropen_words args).
Proof.
  revert w0; induction args as [|x r IH]; intros w0; cbn [ropen_args ropen_words].
  - cbn [join_sp]. apply app_nil_r.
  - destruct r as [|y r'].
    + reflexivity.
    + rewrite join_sp_cons by discriminate. f_equal. f_equal. apply IH.
Qed.

Lemma ropen_words_split args : args <> [] ->
  exists init lastp, args = init ++ [lastp] /\ ropen_words args = map show init ++ [ropen lastp].
Proof.
  induction args as [|x r IH]; intros Hne; [congruence|]. destruct r as [|y r'].
  - exists [], x. split; reflexivity.
  - destruct (IH ltac:(discriminate)) as [init [lastp [E1 E2]]]. exists (x :: init), lastp. split.
    + rewrite E1. reflexivity.
    + change (ropen_words (x :: y :: r')) with (show x :: ropen_words (y :: r')). rewrite E2. reflexivity.
Qed.

Lemma args_cases args : args = [] \/
  exists init lastp, args = init ++ [lastp] /\ ropen_words args = map show init ++ [ropen lastp].
Proof. destruct args as [|x r]; [left; reflexivity|right; apply ropen_words_split; discriminate]. Qed.

Lemma wf_pats_app a b : wf_pats (a ++ b) <-> wf_pats a /\ wf_pats b.
Proof. induction a as [|x r IH]; cbn [app wf_pats]; [tauto|]. rewrite IH. tauto. Qed.

Lemma pdepths_app a b : pdepths (a ++ b) = Nat.max (pdepths a) (pdepths b).
Proof. induction a as [|x r IH]; cbn [app pdepths]; [reflexivity|]. rewrite IH. lia. Qed.

Lemma length_join_sp_ge wds : Forall (fun w => w <> []) wds -> (length wds <= length (join_sp wds))%nat.
Proof. apply join_sp_length. Qed.

(** * the theorem *)
Section Main.
  Variable T : table.

  Theorem parse_nested : forall f p, wf_pat p -> (pdepth p <= f)%nat -> (exists h args, p = PFunc h args) ->
    forall s, prepare s = prepare (show p) -> parse_spec f true T s = Some (denote T p).
  Proof.
    induction f as [|f IHf]; intros p Hw Hd [h [args ->]] s Hs.
    - rewrite pdepth_func in Hd. lia.
    - rewrite parse_spec_S, Hs. apply wf_func in Hw. destruct Hw as [Hh Ha].
      rewrite pdepth_func in Hd. rewrite (prepare_func h args Hh Ha).
      rewrite (join_ropen_words (join h) args).
      set (pf := parse_spec f true T).
      assert (Hhead_mid : takes_mid pf T (join h) (TAllow (names_syms T h)))
        by (apply plain_takes_mid; [apply head_word_ok; exact Hh|apply (interp_set T (NPos h) Hh)]).
      assert (Hhead_last : takes_last pf T (join h) (TAllow (names_syms T h)))
        by (apply plain_takes_last; [apply head_word_ok; exact Hh|apply (interp_set T (NPos h) Hh)]).
      (* every argument in the middle *)
      assert (Hmid : forall x, wf_pat x -> (pdepth x <= f)%nat -> takes_mid pf T (show x) (denote T x)).
      { intros x Hwx Hdx. destruct x as [a|h' args'].
        - apply plain_takes_mid; [apply arg_word_ok; exact Hwx|apply interp_arg; exact Hwx].
        - assert (Hwx' := Hwx). apply wf_func in Hwx'. destruct Hwx' as [Hh' Ha'].
          rewrite show_func. split; [discriminate|]. split.
          + intros rest.
            assert (E : (cLP :: join h' ++ show_args args' ++ [cRP]) ++ cSP :: rest =
                        cLP :: (join h' ++ show_args args') ++ cRP :: cSP :: rest)
              by (cbn [app]; rewrite <- !app_assoc; reflexivity).
            rewrite E, (next_word_closed _ _ (inner_neutral h' args' 0 Hh' Ha')). cbn [tl].
            rewrite <- app_assoc. reflexivity.
          + unfold tok_of. cbn [starts]. rewrite N.eqb_refl. cbn [andb]. rewrite <- show_func.
            apply IHf; [exact Hwx|exact Hdx|eauto|reflexivity]. }
      assert (Hlast : forall x, wf_pat x -> (pdepth x <= f)%nat -> takes_last pf T (ropen x) (denote T x)).
      { intros x Hwx Hdx. destruct x as [a|h' args'].
        - apply plain_takes_last; [apply arg_word_ok; exact Hwx|apply interp_arg; exact Hwx].
        - assert (Hwx' := Hwx). apply wf_func in Hwx'. destruct Hwx' as [Hh' Ha'].
          rewrite ropen_func. split; [discriminate|]. split.
          + destruct (ropen_level (PFunc h' args') 1 Hwx (le_n 1)) as [l' Hl'].
            rewrite ropen_func in Hl'. change (cLP :: join h' ++ ropen_args args') with ([cLP] ++ join h' ++ ropen_args args') in Hl'.
            rewrite lvl_after_app, lvl_lp in Hl'.
            (* from level 1 the inner part reaches a level; the loop starts it at level 1 *)
            assert (Hin : exists l2, lvl_after (join h' ++ ropen_args args') 1 = Some l2).
            { destruct (ropen_level (PFunc h' args') 1 Hwx (le_n 1)) as [l2 H2]. rewrite ropen_func in H2.
              change (cLP :: join h' ++ ropen_args args') with ([cLP] ++ join h' ++ ropen_args args') in H2.
              rewrite lvl_after_app, lvl_lp in H2.
              (* level 2 -> level 1: the same string read one level lower never closes either *)
              clear -Hh' Ha'. rewrite lvl_after_app, (lvl_noparen _ 1 (join_noparen h' Hh')).
              induction args' as [|y r IHr]; [exists 1%nat; reflexivity|].
              cbn [wf_pats] in Ha'. destruct Ha' as [Hwy Hwr]. destruct r as [|z r'].
              - cbn [ropen_args]. change (cSP :: ropen y) with ([cSP] ++ ropen y).
                rewrite lvl_after_app, (lvl_noparen [cSP]) by reflexivity. apply ropen_level; [exact Hwy|lia].
              - change (ropen_args (y :: z :: r')) with ([cSP] ++ show y ++ ropen_args (z :: r')).
                rewrite lvl_after_app, (lvl_noparen [cSP]) by reflexivity.
                rewrite lvl_after_app, (show_neutral y 1 Hwy) by lia. apply IHr; exact Hwr. }
            destruct Hin as [l2 H2]. apply (next_word_open _ l2 H2).
          + unfold tok_of. cbn [starts]. rewrite N.eqb_refl. cbn [andb]. rewrite <- ropen_func.
            apply IHf; [exact Hwx|exact Hdx|eauto|apply prepare_ropen; exact Hwx]. }
      destruct (args_cases args) as [->|[init [lastp [-> E2]]]].
      + cbn [ropen_words join_sp map]. rewrite (loop_last pf T _ _ _ Hhead_last). reflexivity.
      + rewrite E2. clear E2.
        apply wf_pats_app in Ha. destruct Ha as [Hai Hal]. cbn [wf_pats] in Hal. destruct Hal as [Hal _].
        rewrite pdepths_app in Hd. cbn [pdepths] in Hd.
        change (join h :: map show init ++ [ropen lastp]) with ((join h :: map show init) ++ [ropen lastp]).
        rewrite (loop_words pf T (join h :: map show init) (TAllow (names_syms T h) :: map (denote T) init)
                            (ropen lastp) (denote T lastp)).
        * cbn [finish app denote]. rewrite map_app. reflexivity.
        * constructor; [exact Hhead_mid|].
          assert (Hdi : (pdepths init <= f)%nat) by lia. clear -Hai Hdi Hmid.
          induction init as [|x r IHr]; cbn [map]; constructor.
          -- cbn [wf_pats pdepths] in *. apply Hmid; [tauto|lia].
          -- cbn [wf_pats pdepths] in *. apply IHr; [tauto|lia].
        * apply Hlast; [exact Hal|lia].
        * set (wds := (join h :: map show init) ++ [ropen lastp]).
          assert (Hl : (length wds <= length (join_sp wds))%nat).
          { apply join_sp_length. unfold wds. apply Forall_app. split.
            - constructor; [apply (proj1 (head_word_ok h Hh))|]. clear -Hai. induction init as [|x r IHr]; cbn [map]; constructor.
              + destruct x; [cbn [wf_pats] in Hai; apply (proj1 (arg_word_ok true a (proj1 Hai)))|rewrite show_func; discriminate].
              + apply IHr. cbn [wf_pats] in Hai. tauto.
            - constructor; [|constructor]. destruct lastp; [apply (proj1 (arg_word_ok false a Hal))|rewrite ropen_func; discriminate]. }
          unfold wds in *. rewrite app_length in Hl. cbn [length] in *. lia.
  Qed.

  Lemma length_ge_depth : forall p, (pdepth p <= length (show p))%nat.
  Proof.
    induction p as [a|h args IH] using pat_ind'; [cbn [pdepth]; lia|].
    rewrite pdepth_func, show_func. cbn [length]. rewrite !app_length. apply le_n_S.
    assert (G : (pdepths args <= length (show_args args))%nat).
    { induction IH as [|x r Hx _ IHr]; cbn [pdepths show_args length]; [lia|]. rewrite app_length. lia. }
    lia.
  Qed.

  (** parse_specification on the shown form of any function pattern *)
  Theorem parser_roundtrip h args : wf_pat (PFunc h args) ->
    parse_specification true T (show (PFunc h args)) = Some (denote T (PFunc h args)).
  Proof.
    intros Hw. unfold parse_specification. apply parse_nested; [exact Hw| |eauto|reflexivity].
    pose proof (length_ge_depth (PFunc h args)). lia.
  Qed.

  (** and of a counting or sub-tree rule alone (a sketch) *)
  Theorem parser_roundtrip_rule a : wf_nset (arg_set a) -> (forall s, a <> FSet s) ->
    parse_specification true T (show_arg a) = Some (denote_arg T a).
  Proof.
    intros Hw Hns. unfold parse_specification. rewrite parse_spec_S.
    destruct (closed_open_last a Hw) as [extra [He [Ee Hl]]].
    assert (Hp : prepare (show_arg a) = show_arg_gen false a).
    { rewrite Ee, (prepare_app_parens _ extra He). unfold prepare. change (fun c : N => negb (N.eqb c cNL)) with nonl.
      rewrite (filter_id _ _ (calm_nonl_f _ (arg_calm false a Hw))). apply strip_id; [|exact Hl].
      destruct a as [s|s am n br|s fb]; [exfalso; eapply Hns; reflexivity|reflexivity|reflexivity]. }
    rewrite Hp.
    assert (Ht := plain_takes_last (parse_spec (length (show_arg a)) true T) T _ _ (arg_word_ok false a Hw) (interp_arg T false a Hw)).
    rewrite (loop_last _ T _ _ _ Ht). destruct a as [s|s am n br|s fb]; [exfalso; eapply Hns; reflexivity| |].
    - cbn [denote_arg]. destruct am; reflexivity.
    - cbn [denote_arg]. destruct fb; reflexivity.
  Qed.
End Main.
