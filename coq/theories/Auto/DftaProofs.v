(** Property C07, final statements over the executable model of
    tree_automaton.py (Auto/Dfta.v), with concrete instances showing that the
    hypotheses are satisfiable.  Proofs are in DftaReduce.v, DftaOps.v,
    DftaUnion.v, DftaMinimise.v, DftaMinimal.v. *)
From Coq Require Import List Bool Arith NArith ZArith Lia.
From PS Require Import Base.ListX Base.Sexp Auto.Dfta Auto.DftaBase Auto.DftaReduce Auto.DftaOps
  Auto.DftaUnion Auto.DftaMinimise Auto.DftaMinimal Run.C07.
Import ListNotations.

(** the equality used by the extracted instance is a correct decision of [=] *)
Section SexpInd.
  Variable P : sexp -> Prop.
  Hypothesis HA : forall z, P (A z).
  Hypothesis HL : forall l, Forall P l -> P (L l).
  Fixpoint sexp_ind' (s : sexp) : P s :=
    match s with
    | A z => HA z
    | L l => HL l ((fix go (l : list sexp) : Forall P l :=
                      match l with
                      | [] => Forall_nil P
                      | x :: r => Forall_cons x (sexp_ind' x) (go r)
                      end) l)
    end.
End SexpInd.

Lemma sexp_eqb_spec : forall a b, sexp_eqb a b = true <-> a = b.
Proof.
  induction a as [z|l IH] using sexp_ind'; intros [z'|l']; cbn; try (split; discriminate).
  - rewrite Z.eqb_eq. split; congruence.
  - transitivity (l = l'); [|split; congruence].
    revert l'; induction IH as [|x r Hx _ IHr]; intros [|y r']; try (split; congruence).
    rewrite andb_true_iff, Hx, IHr. split; [intros [-> ->]; reflexivity|intros E; inversion E; auto].
Qed.

Lemma N_eqb_spec : forall a b, N.eqb a b = true <-> a = b.
Proof. apply N.eqb_eq. Qed.

Section Statements.
  Context {L Q : Type}.
  Variable leqb : L -> L -> bool.
  Variable qeqb : Q -> Q -> bool.
  Hypothesis leqb_spec : forall a b, leqb a b = true <-> a = b.
  Hypothesis qeqb_spec : forall a b, qeqb a b = true <-> a = b.

  (** reduce never runs out of fuel, returns a deterministic automaton with
      the same language in which every state is reached by a tree and reaches
      a final state *)
  Theorem reduce_correct (X : dfta L Q) : deterministic X ->
    exists X', reduce qeqb X = Ok X' /\ deterministic X' /\
               (forall t, accepts leqb qeqb X' t = accepts leqb qeqb X t) /\
               trim leqb qeqb X'.
  Proof. apply reduce_spec; auto. Qed.

  (** the code as pinned: same language, but see [reduce_pinned_not_trim] *)
  Theorem reduce_pinned_correct (X : dfta L Q) : deterministic X ->
    exists X', reduce_pinned qeqb X = Ok X' /\ deterministic X' /\
               (forall t, accepts leqb qeqb X' t = accepts leqb qeqb X t).
  Proof. apply reduce_pinned_spec; auto. Qed.

  Theorem minimise_correct (X : dfta L Q) : deterministic X -> trim leqb qeqb X ->
    exists M, minimise leqb qeqb X = Ok M /\ deterministic M /\
              forall t, accepts leqb (list_eqb qeqb) M t = accepts leqb qeqb X t.
  Proof. apply minimise_language; auto. Qed.

  (** whatever the input: no fuel exhaustion; a result has the language of the
      input; KeyErr exactly when the code's own precondition check fails *)
  Theorem minimise_any (X : dfta L Q) : deterministic X ->
    match minimise leqb qeqb X with
    | Ok M => deterministic M /\ forall t, accepts leqb (list_eqb qeqb) M t = accepts leqb qeqb X t
    | OutOfFuel => False
    | KeyErr => exists S0, states qeqb X = Ok S0 /\ min_precheck qeqb X S0 = false
    end.
  Proof. apply minimise_language_gen; auto. Qed.

  (** least number of states, in two forms *)
  Theorem minimise_least (X : dfta L Q) : deterministic X -> trim leqb qeqb X ->
    exists M, minimise leqb qeqb X = Ok M /\
      forall (Q' : Type) (eqb' : Q' -> Q' -> bool), (forall a b, eqb' a b = true <-> a = b) ->
      forall B : dfta L Q',
        (forall t, accepts leqb eqb' B t = accepts leqb qeqb X t) ->
        forall ms bs, NoDup ms -> (forall m, In m ms -> occurs M m) ->
                      (forall t b, run leqb eqb' B t = Some b -> In b bs) ->
                      length ms <= length bs.
  Proof. apply minimise_minimal; auto. Qed.

  Theorem minimise_least_states (X : dfta L Q) : deterministic X -> trim leqb qeqb X ->
    exists M sM, minimise leqb qeqb X = Ok M /\ states (list_eqb qeqb) M = Ok sM /\
      forall (Q' : Type) (eqb' : Q' -> Q' -> bool), (forall a b, eqb' a b = true <-> a = b) ->
      forall B : dfta L Q', deterministic B ->
        (forall t, accepts leqb eqb' B t = accepts leqb qeqb X t) ->
        forall sB, states eqb' B = Ok sB -> length sM <= length sB.
  Proof. apply minimise_minimal_states; auto. Qed.
End Statements.

Section Statements2.
  Context {L QA QB : Type}.
  Variable leqb : L -> L -> bool.
  Variable aeqb : QA -> QA -> bool.
  Variable beqb : QB -> QB -> bool.
  Hypothesis leqb_spec : forall a b, leqb a b = true <-> a = b.
  Hypothesis aeqb_spec : forall a b, aeqb a b = true <-> a = b.
  Hypothesis beqb_spec : forall a b, beqb a b = true <-> a = b.

  Theorem product_correct (X : dfta L QA) (Y : dfta L QB) : deterministic X -> deterministic Y ->
    forall t,
      run leqb (peqb aeqb beqb) (read_product leqb aeqb beqb X Y) t =
        pair_opt (run leqb aeqb X t) (run leqb beqb Y t) /\
      accepts leqb (peqb aeqb beqb) (read_product leqb aeqb beqb X Y) t =
        accepts leqb aeqb X t && accepts leqb beqb Y t.
  Proof.
    intros HX HY t. split; [apply product_run|apply product_accepts]; auto.
  Qed.

  Theorem union_correct (X : dfta L QA) (Y : dfta L QB) : deterministic X -> deterministic Y ->
    exists U, read_union leqb aeqb beqb X Y = Ok U /\ deterministic U /\
      (forall t, accepts leqb (ueqb aeqb beqb) U t = accepts leqb aeqb X t || accepts leqb beqb Y t) /\
      trim leqb (ueqb aeqb beqb) U.
  Proof. apply read_union_spec; auto. Qed.

  Theorem union_pinned_correct (X : dfta L QA) (Y : dfta L QB) : deterministic X -> deterministic Y ->
    exists U, read_union_pinned leqb aeqb beqb X Y = Ok U /\ deterministic U /\
      (forall t, accepts leqb (ueqb aeqb beqb) U t = accepts leqb aeqb X t || accepts leqb beqb Y t).
  Proof. apply read_union_pinned_spec; auto. Qed.

  Theorem map_states_correct (f : QA -> QB) (X : dfta L QA) :
    deterministic X -> (forall a b, f a = f b -> a = b) ->
    forall t, run leqb beqb (map_states leqb beqb f X) t = option_map f (run leqb aeqb X t) /\
              accepts leqb beqb (map_states leqb beqb f X) t = accepts leqb aeqb X t.
  Proof. apply map_states_injective; auto. Qed.
End Statements2.

(** * a concrete instance (letters N, states sexp, as in the extracted driver) *)
Definition q (n : Z) : sexp := A n.
(** a() -> 0   b() -> 1   f(0) -> 2   f(1) -> 2   g(2,0) -> 0   g(2,1) -> 1   f(2) -> 3   f(3) -> 3   c() -> 4;  final: 2
    state 3 is an unproductive loop, state 4 is consumed by nothing *)
Definition exA : dfta N sexp :=
  mkDfta [ ((0%N, []), q 0); ((1%N, []), q 1); ((2%N, [q 0]), q 2); ((2%N, [q 1]), q 2);
           ((3%N, [q 2; q 0]), q 0); ((3%N, [q 2; q 1]), q 1); ((2%N, [q 2]), q 3); ((2%N, [q 3]), q 3); ((4%N, []), q 4);
           ((2%N, [q 7]), q 8) ]
         [q 2].

Lemma deterministic_dec {L Q} (leqb : L -> L -> bool) (qeqb : Q -> Q -> bool) :
  (forall a b, leqb a b = true <-> a = b) -> (forall a b, qeqb a b = true <-> a = b) ->
  forall X : dfta L Q, nodupb (key_eqb leqb qeqb) (map fst (rules X)) = true -> deterministic X.
Proof.
  intros Hl Hq X H. apply (nodupb_spec (key_eqb leqb qeqb)); auto. apply key_eqb_spec; auto.
Qed.

Example exA_deterministic : deterministic exA.
Proof. apply (deterministic_dec N.eqb sexp_eqb N_eqb_spec sexp_eqb_spec). vm_compute. reflexivity. Qed.

(** the repaired reduce keeps the six rules of the productive part ... *)
Example exA_reduce :
  reduce sexp_eqb exA =
  Ok (mkDfta [ ((0%N, []), q 0); ((1%N, []), q 1); ((2%N, [q 0]), q 2); ((2%N, [q 1]), q 2);
               ((3%N, [q 2; q 0]), q 0); ((3%N, [q 2; q 1]), q 1) ] [q 2]).
Proof. vm_compute. reflexivity. Qed.

Definition exR : dfta N sexp :=
  mkDfta [ ((0%N, []), q 0); ((1%N, []), q 1); ((2%N, [q 0]), q 2); ((2%N, [q 1]), q 2);
           ((3%N, [q 2; q 0]), q 0); ((3%N, [q 2; q 1]), q 1) ] [q 2].

(** [trim] is satisfiable: the reduced automaton is deterministic and trim *)
Example exR_trim : deterministic exR /\ trim N.eqb sexp_eqb exR.
Proof.
  destruct (reduce_spec N.eqb sexp_eqb N_eqb_spec sexp_eqb_spec exA exA_deterministic) as [X (E & D & _ & T)].
  rewrite exA_reduce in E. inversion E; subst X. auto.
Qed.

(** ... the pinned one also keeps the unproductive loop on state 3 *)
Example exA_reduce_pinned :
  reduce_pinned sexp_eqb exA =
  Ok (mkDfta [ ((0%N, []), q 0); ((1%N, []), q 1); ((2%N, [q 0]), q 2); ((2%N, [q 1]), q 2);
               ((3%N, [q 2; q 0]), q 0); ((3%N, [q 2; q 1]), q 1); ((2%N, [q 2]), q 3); ((2%N, [q 3]), q 3) ] [q 2]).
Proof. vm_compute. reflexivity. Qed.

(** minimise merges states 0 and 1 of the reduced automaton *)
Example exA_minimise :
  rbind (reduce sexp_eqb exA) (minimise N.eqb sexp_eqb) =
  Ok (mkDfta [ ((0%N, []), [q 0; q 1]); ((1%N, []), [q 0; q 1]); ((2%N, [[q 0; q 1]]), [q 2]);
               ((3%N, [[q 2]; [q 0; q 1]]), [q 0; q 1]) ] [[q 2]]).
Proof. vm_compute. reflexivity. Qed.

Example exA_accepts :
  map (accepts N.eqb sexp_eqb exA)
      [Node 0%N []; Node 2%N [Node 0%N []]; Node 2%N [Node 3%N [Node 2%N [Node 1%N []]; Node 0%N []]];
       Node 2%N [Node 2%N [Node 0%N []]]] = [false; true; true; false].
Proof. vm_compute. reflexivity. Qed.

Example ex_injective : forall a b : sexp, (fun s => L [s; A 7]) a = (fun s => L [s; A 7]) b -> a = b.
Proof. intros a b E. inversion E. reflexivity. Qed.

(** * the pinned [reduce] does not deliver what [minimise] needs *)
(** With the code as pinned, reduce-then-minimise of [exA] has three states
    although a deterministic automaton with the same language and two states
    exists (the one the repaired pipeline returns). *)
Definition exM_pinned : dfta N (list sexp) :=
  mkDfta [ ((0%N, []), [q 1; q 0]); ((1%N, []), [q 1; q 0]); ((2%N, [[q 1; q 0]]), [q 2]);
           ((3%N, [[q 2]; [q 1; q 0]]), [q 1; q 0]); ((2%N, [[q 2]]), [q 3]); ((2%N, [[q 3]]), [q 3]) ] [[q 2]].
Definition exM : dfta N (list sexp) :=
  mkDfta [ ((0%N, []), [q 0; q 1]); ((1%N, []), [q 0; q 1]); ((2%N, [[q 0; q 1]]), [q 2]);
           ((3%N, [[q 2]; [q 0; q 1]]), [q 0; q 1]) ] [[q 2]].

Theorem reduce_pinned_minimise_not_minimal :
  deterministic exA /\
  rbind (reduce_pinned sexp_eqb exA) (minimise N.eqb sexp_eqb) = Ok exM_pinned /\
  states (list_eqb sexp_eqb) exM_pinned = Ok [[q 3]; [q 2]; [q 1; q 0]] /\
  deterministic exM /\
  (forall t, accepts N.eqb (list_eqb sexp_eqb) exM t = accepts N.eqb (list_eqb sexp_eqb) exM_pinned t) /\
  states (list_eqb sexp_eqb) exM = Ok [[q 2]; [q 0; q 1]].
Proof.
  pose proof (list_eqb_spec sexp_eqb sexp_eqb_spec) as lspec.
  split; [exact exA_deterministic|]. split; [vm_compute; reflexivity|]. split; [vm_compute; reflexivity|].
  split; [apply (deterministic_dec N.eqb (list_eqb sexp_eqb) N_eqb_spec lspec); vm_compute; reflexivity|].
  split; [|vm_compute; reflexivity].
  intros t.
  (* both have the language of exA *)
  destruct (reduce_spec N.eqb sexp_eqb N_eqb_spec sexp_eqb_spec exA exA_deterministic) as [X1 (E1 & D1 & L1 & T1)].
  destruct (minimise_language N.eqb sexp_eqb N_eqb_spec sexp_eqb_spec X1 D1 T1) as [M1 (EM1 & _ & LM1)].
  assert (M1 = exM).
  { pose proof exA_minimise as H. rewrite E1 in H. cbn [rbind] in H. rewrite EM1 in H. inversion H. reflexivity. }
  subst M1.
  destruct (reduce_pinned_spec N.eqb sexp_eqb N_eqb_spec sexp_eqb_spec exA exA_deterministic) as [X2 (E2 & D2 & L2)].
  pose proof (minimise_language_gen N.eqb sexp_eqb N_eqb_spec sexp_eqb_spec X2 D2) as H2.
  assert (E3 : minimise N.eqb sexp_eqb X2 = Ok exM_pinned).
  { assert (H : rbind (reduce_pinned sexp_eqb exA) (minimise N.eqb sexp_eqb) = Ok exM_pinned) by (vm_compute; reflexivity).
    rewrite E2 in H. exact H. }
  rewrite E3 in H2. destruct H2 as [_ LM2].
  rewrite LM1, L1, LM2, L2. reflexivity.
Qed.
