(** Semantics of the building blocks of sharpening: __augment__, __tag__,
    __count__, __filter__ keep the rule table a dict (pairwise distinct keys)
    and their runs are the runs of the input automaton with one more
    component. *)
From Coq Require Import List Bool Arith Lia Permutation.
From PS Require Import Base.ListX Base.Ty Base.Value Base.Prog Auto.Dfta Auto.DftaBase Gram.Cfg Gram.CfgProofs
  Auto.Sharpen Auto.SharpenBase.
Import ListNotations.

Definition b2n (b : bool) : nat := if b then 1 else 0.

Lemma map_fst_flat_map {X K V} (f : X -> list (K * V)) l :
  map fst (flat_map f l) = flat_map (fun x => map fst (f x)) l.
Proof. induction l as [|x r IH]; cbn; [reflexivity|]. rewrite map_app, IH. reflexivity. Qed.

Lemma omapo_impl {X Y Z} (f : X -> option Y) (g : X -> option Z) (h : Y -> Z) l :
  Forall (fun x => forall y, f x = Some y -> g x = Some (h y)) l ->
  forall ys, omapo f l = Some ys -> omapo g l = Some (map h ys).
Proof.
  induction 1 as [|x r Hx _ IH]; cbn; intros ys E.
  - inversion E; reflexivity.
  - destruct (f x) as [y|] eqn:Ex; [|discriminate].
    destruct (omapo f r) as [ys'|] eqn:Er; [|discriminate]. inversion E; subst.
    rewrite (Hx y eq_refl), (IH ys' eq_refl). reflexivity.
Qed.

Lemma omapo_all {X Y} (f g : X -> option Y) (h : X -> Y -> Y) l :
  Forall (fun x => forall y, f x = Some y -> g x = Some (h x y)) l ->
  forall ys, omapo f l = Some ys -> omapo g l = Some (map (fun p => h (fst p) (snd p)) (combine l ys)).
Proof.
  induction 1 as [|x r Hx _ IH]; cbn; intros ys E.
  - inversion E; reflexivity.
  - destruct (f x) as [y|] eqn:Ex; [|discriminate].
    destruct (omapo f r) as [ys'|] eqn:Er; [|discriminate]. inversion E; subst.
    rewrite (Hx y eq_refl), (IH ys' eq_refl). reflexivity.
Qed.

(** * __augment__ *)
Definition aug_key (k : sym * list st) : sym * list st := (fst k, map (push 0) (snd k)).

Lemma aug_key_inj k k' : aug_key k = aug_key k' -> k = k'.
Proof.
  destruct k as [l a], k' as [l' a']; unfold aug_key; cbn. intros E; inversion E; subst.
  f_equal. apply (map_push_inj 0); assumption.
Qed.

Lemma augment_keys A : map fst (rules (augment A)) = map aug_key (map fst (rules A)).
Proof. unfold augment; cbn. rewrite !map_map. apply map_ext. intros [[l a] d]; reflexivity. Qed.

Lemma augment_det A : deterministic A -> deterministic (augment A).
Proof.
  unfold deterministic. rewrite augment_keys. apply NoDup_map_inj.
  intros x y _ _. apply aug_key_inj.
Qed.

Lemma In_augment A l args' d' :
  In ((l, args'), d') (rules (augment A)) <->
  exists args d, In ((l, args), d) (rules A) /\ args' = map (push 0) args /\ d' = push 0 d.
Proof.
  unfold augment; cbn. rewrite in_map_iff. split.
  - intros [[[l0 a] d] [E H]]. unfold aug_rule in E; cbn in E. inversion E; subst. eauto.
  - intros [args [d [H [-> ->]]]]. exists ((l, args), d). split; auto.
Qed.

(** * a generic description of "every rule of A' expanded into a group" *)
Section Expand.
  (** [A'] is an augmented automaton; each rule [r] of it is expanded into the
      rules [(l, na) -> dst r na] for [na] in [alts r]; every alternative
      argument list projects back to the arguments of [r] by [set_top 0]. *)
  Variable A : sdfta.
  Hypothesis HdA : deterministic A.
  Variable alts : srule -> list (list st).
  Variable dst : srule -> list st -> st.
  Hypothesis alts_nodup : forall r, In r (rules (augment A)) -> NoDup (alts r).
  Hypothesis alts_proj : forall r na, In r (rules (augment A)) -> In na (alts r) -> map (set_top 0) na = snd (fst r).

  Definition expand_group (r : srule) : list srule := map (fun na => ((fst (fst r), na), dst r na)) (alts r).
  Definition expanded : list srule := flat_map expand_group (rules (augment A)).

  Lemma expanded_det : NoDup (map fst expanded).
  Proof.
    unfold expanded. rewrite (map_fst_flat_map (K:=sym * list st) (V:=st)).
    apply (NoDup_flat_map_proj _ (fun k : sym * list st => (fst k, map (set_top 0) (snd k))) (fun r : srule => fst r)).
    - apply augment_det; exact HdA.
    - intros r Hr. unfold expand_group. rewrite map_map; cbn.
      apply NoDup_map_inj; [|apply alts_nodup; exact Hr]. intros x y _ _ E; inversion E; auto.
    - intros r k Hr Hk. unfold expand_group in Hk. rewrite map_map in Hk; cbn in Hk.
      apply in_map_iff in Hk. destruct Hk as [na [<- Hna]]. cbn.
      rewrite (alts_proj r na Hr Hna). destruct r as [[l a] d]; reflexivity.
  Qed.

  Lemma In_expanded l na d' :
    In ((l, na), d') expanded <->
    exists args d, In ((l, args), d) (rules A) /\
                   In na (alts ((l, map (push 0) args), push 0 d)) /\
                   d' = dst ((l, map (push 0) args), push 0 d) na.
  Proof.
    unfold expanded. rewrite in_flat_map. split.
    - intros [[[l0 a0] d0] [Hr Hx]]. unfold expand_group in Hx; cbn in Hx.
      apply in_map_iff in Hx. destruct Hx as [na' [E Hna]]. inversion E; subst.
      apply In_augment in Hr. destruct Hr as [args [d [Hin [-> ->]]]]. exists args, d. auto.
    - intros [args [d [Hin [Hna ->]]]]. exists ((l, map (push 0) args), push 0 d). split.
      + apply In_augment. eauto.
      + unfold expand_group; cbn. apply in_map_iff. exists na. auto.
  Qed.
End Expand.

(** * __tag__ *)
Section Tag.
  Variable A : sdfta.
  Hypothesis HdA : deterministic A.
  Variable chk : sym -> list st -> st -> bool.

  Definition hit (r : srule) : bool := chk (fst (fst r)) (snd (fst r)) (snd r).
  Definition added_of : list st :=
    fold_left (fun acc r => if hit r then add_new (snd r) acc else acc) (rules (augment A)) [].
  Definition tag_alts (r : srule) : list (list st) := tag_possibles added_of (snd (fst r)).
  Definition tag_dst (r : srule) (_ : list st) : st := if hit r then tag_state (snd r) else snd r.

  Lemma In_add_new q x l : In q (add_new x l) <-> q = x \/ In q l.
  Proof.
    unfold add_new. destruct (memb st_eqb x l) eqn:E; cbn.
    - apply (memb_spec st_eqb st_eqb_spec) in E. split; [auto|intros [->|H]; auto].
    - split; intros [H|H]; auto.
  Qed.

  Lemma In_added_gen (rs : list srule) acc q :
    In q (fold_left (fun acc r => if hit r then add_new (snd r) acc else acc) rs acc) <->
    In q acc \/ exists r, In r rs /\ hit r = true /\ snd r = q.
  Proof.
    revert acc; induction rs as [|r rs IH]; intros acc; cbn.
    - split; [auto|intros [H|[r [[] _]]]; auto].
    - rewrite IH. destruct (hit r) eqn:Eh.
      + rewrite In_add_new. split.
        * intros [[Hq|H]|[r' [H1 [H2 H3]]]].
          -- right. exists r. subst; auto.
          -- left; exact H.
          -- right. exists r'. auto.
        * intros [H|[r' [[Hr|H1] [H2 H3]]]].
          -- left; right; exact H.
          -- subst r'. left; left; auto.
          -- right. exists r'. auto.
      + split.
        * intros [H|[r' [H1 [H2 H3]]]]; [left; exact H|right; exists r'; auto].
        * intros [H|[r' [[Hr|H1] [H2 H3]]]]; [left; exact H| |right; exists r'; auto].
          subst r'. congruence.
  Qed.

  Lemma In_added q : In q added_of <-> exists r, In r (rules (augment A)) /\ hit r = true /\ snd r = q.
  Proof. unfold added_of. rewrite In_added_gen. cbn. split; [intros [[]|H]; auto|auto]. Qed.

  (** the rule table of [tag A chk] is a rearrangement of the expansion *)
  Lemma tag_rules_perm :
    Permutation (rules (tag A chk)) (expanded A tag_alts tag_dst).
  Proof.
    unfold tag; cbn [rules]. etransitivity; [apply firsts_rests_perm|].
    rewrite map_map, concat_map_flat_map. unfold expanded.
    apply Permutation_refl'. apply flat_map_ext. intros [[l a] d]. unfold expand_group, tag_dst, tag_alts, hit; cbn.
    destruct (chk l a d); reflexivity.
  Qed.

  Lemma choice_In x a : In x (if memb st_eqb a added_of then [a; tag_state a] else [a]) <->
                        x = a \/ (In a added_of /\ x = tag_state a).
  Proof.
    destruct (memb st_eqb a added_of) eqn:E; cbn [In].
    - apply (memb_spec st_eqb st_eqb_spec) in E. split; [intros [<-|[<-|[]]]; auto|intros [->|[_ ->]]; auto].
    - split; [intros [<-|[]]; auto|]. intros [->|[H _]]; auto.
      apply (memb_spec st_eqb st_eqb_spec) in H. congruence.
  Qed.

  Lemma tag_alts_nodup r : In r (rules (augment A)) -> NoDup (tag_alts r).
  Proof.
    intros Hr. destruct r as [[l a'] d']. apply In_augment in Hr. destruct Hr as [a [d [_ [-> _]]]].
    unfold tag_alts, tag_possibles; cbn [fst snd]. apply NoDup_list_product.
    apply Forall_forall. intros c Hc. apply in_map_iff in Hc. destruct Hc as [x [<- Hx]].
    apply in_map_iff in Hx. destruct Hx as [q [<- _]].
    destruct (memb st_eqb (push 0 q) added_of); [|constructor; [intros []|constructor]].
    constructor; [|constructor; [intros []|constructor]]. intros [E|[]].
    unfold tag_state in E. rewrite set_top_push in E. apply push_inj in E. destruct E; discriminate.
  Qed.

  Lemma tag_alts_proj r na : In r (rules (augment A)) -> In na (tag_alts r) -> map (set_top 0) na = snd (fst r).
  Proof.
    intros Hr. destruct r as [[l a'] d']. apply In_augment in Hr. destruct Hr as [a [d [_ [-> _]]]].
    unfold tag_alts, tag_possibles; cbn [fst snd]. rewrite In_list_product. clear.
    revert na; induction a as [|q a IH]; intros na H; inversion H; subst; cbn; [reflexivity|].
    f_equal; [|apply IH; assumption].
    match goal with H : In _ _ |- _ => apply choice_In in H; destruct H as [->|[_ ->]] end; reflexivity.
  Qed.

  Lemma tag_det : deterministic (tag A chk).
  Proof.
    unfold deterministic. eapply Permutation_NoDup.
    - apply Permutation_map, Permutation_sym, tag_rules_perm.
    - apply expanded_det; auto using tag_alts_nodup, tag_alts_proj.
  Qed.

  (** membership in the rule table *)
  Definition tag_arg_ok (x q : st) : Prop := x = push 0 q \/ (In (push 0 q) added_of /\ x = push 1 q).

  Lemma In_tag l na d' :
    In ((l, na), d') (rules (tag A chk)) <->
    exists args d, In ((l, args), d) (rules A) /\ Forall2 tag_arg_ok na args /\
                   d' = push (b2n (chk l (map (push 0) args) (push 0 d))) d.
  Proof.
    split.
    - intros H. apply (Permutation_in _ tag_rules_perm) in H. apply In_expanded in H.
      destruct H as [args [d [Hin [Hna ->]]]]. exists args, d. split; [auto|]. split.
      + unfold tag_alts, tag_possibles in Hna; cbn [fst snd] in Hna. apply In_list_product in Hna.
        clear -Hna. revert na Hna; induction args as [|q a IH]; intros na H; inversion H; subst; constructor; auto.
        match goal with H : In _ _ |- _ => apply choice_In in H; destruct H as [->|[Ha ->]] end;
          [left; reflexivity|right; split; auto].
      + unfold tag_dst, hit; cbn. destruct (chk l _ _); reflexivity.
    - intros [args [d [Hin [Hna ->]]]]. apply (Permutation_in _ (Permutation_sym tag_rules_perm)).
      apply In_expanded. exists args, d. split; [auto|]. split.
      + unfold tag_alts, tag_possibles; cbn [fst snd]. apply In_list_product.
        clear -Hna. induction Hna as [|x q na a Hx _ IH]; cbn; constructor; auto.
        apply choice_In. destruct Hx as [->|[Ha ->]]; [left; reflexivity|right; split; auto].
      + unfold tag_dst, hit; cbn. destruct (chk l _ _); reflexivity.
  Qed.

  (** the bit the tag attaches at the root of [t] *)
  Definition tag_bit (t : tree sym) : nat :=
    match t with
    | Node l ts =>
      match omapo (srun A) ts, srun A t with
      | Some qs, Some q => b2n (chk l (map (push 0) qs) (push 0 q))
      | _, _ => 0
      end
    end.

  Lemma tag_bit_01 t : tag_bit t = 0 \/ tag_bit t = 1.
  Proof.
    destruct t as [l ts]; cbn [tag_bit]. destruct (omapo (srun A) ts); [|auto].
    destruct (srun A (Node l ts)); [|auto]. destruct (chk _ _ _); cbn [b2n]; auto.
  Qed.

  Lemma tag_sound : forall t q', srun (tag A chk) t = Some q' -> srun A t = Some (pop q').
  Proof.
    induction t as [l ts IH] using tree_ind'. intros q'. rewrite !srun_eq.
    destruct (omapo (srun (tag A chk)) ts) as [qs'|] eqn:E; [|discriminate].
    intros Hr. apply sread_in in Hr. apply In_tag in Hr. destruct Hr as [args [d [Hin [Hna ->]]]].
    rewrite (omapo_impl _ (srun A) pop ts IH qs' E).
    assert (Ea : map pop qs' = args).
    { clear -Hna. induction Hna as [|x q na a Hx _ IHa]; cbn; [reflexivity|]. f_equal; auto.
      destruct Hx as [->|[_ ->]]; apply pop_push. }
    rewrite Ea, pop_push. apply in_sread; auto.
  Qed.

  Lemma tag_bit_added t q : srun A t = Some q -> tag_bit t = 1 -> In (push 0 q) added_of.
  Proof.
    destruct t as [l ts]. intros Hq. cbn [tag_bit]. rewrite Hq. rewrite srun_eq in Hq.
    destruct (omapo (srun A) ts) as [qs|] eqn:E; [|discriminate].
    intros Hb. apply In_added. exists ((l, map (push 0) qs), push 0 q). split; [|split; [|reflexivity]].
    - apply In_augment. exists qs, q. split; auto. apply sread_in; exact Hq.
    - unfold hit; cbn. destruct (chk l _ _); [reflexivity|discriminate].
  Qed.

  Lemma tag_complete : forall t q, srun A t = Some q -> srun (tag A chk) t = Some (push (tag_bit t) q).
  Proof.
    induction t as [l ts IH] using tree_ind'. intros q Hq.
    assert (Hq0 := Hq). rewrite srun_eq in Hq.
    destruct (omapo (srun A) ts) as [qs|] eqn:E; [|discriminate].
    rewrite srun_eq.
    rewrite (omapo_all (srun A) (srun (tag A chk)) (fun t q => push (tag_bit t) q) ts IH qs E).
    cbn [tag_bit]. rewrite E, Hq0.
    apply in_sread; [apply tag_det|]. apply In_tag. exists qs, q. split; [apply sread_in; exact Hq|]. split; [|reflexivity].
    clear Hq Hq0 IH. revert qs E. induction ts as [|t ts IHt]; intros qs E; cbn in E.
    - inversion E; constructor.
    - destruct (srun A t) as [q1|] eqn:E1; [|discriminate].
      destruct (omapo (srun A) ts) as [qs1|] eqn:E2; [|discriminate]. inversion E; subst. cbn.
      constructor; [|apply IHt; reflexivity].
      destruct (tag_bit_01 t) as [Hb|Hb]; rewrite Hb; [left; reflexivity|right]. split; [|reflexivity].
      eapply tag_bit_added; eauto.
  Qed.

  Theorem tag_run t : srun (tag A chk) t = option_map (fun q => push (tag_bit t) q) (srun A t).
  Proof.
    destruct (srun A t) as [q|] eqn:E; cbn.
    - apply tag_complete; exact E.
    - destruct (srun (tag A chk) t) as [q'|] eqn:E'; [|reflexivity].
      apply tag_sound in E'. congruence.
  Qed.

  Theorem tag_finals t q' : srun (tag A chk) t = Some q' -> smem q' (finals (tag A chk)) = smem (pop q') (finals A).
  Proof.
    intros Hr. assert (Hs := tag_sound t q' Hr). rewrite tag_run, Hs in Hr; cbn [option_map] in Hr.
    injection Hr as Hq'. remember (pop q') as q eqn:Heq. clear Heq. subst q'.
    apply eq_true_iff_eq. rewrite !smem_spec. unfold tag; cbn [finals]. rewrite in_app_iff. split.
    - intros [H|H].
      + unfold augment in H; cbn [finals] in H. apply in_map_iff in H. destruct H as [x [E Hx]].
        apply push_inj in E. destruct E as [_ ->]. exact Hx.
      + apply in_map_iff in H. destruct H as [x [E Hx]]. apply filter_In in Hx. destruct Hx as [Hx _].
        unfold augment in Hx; cbn [finals] in Hx. apply in_map_iff in Hx. destruct Hx as [y [<- Hy]].
        unfold tag_state in E. rewrite set_top_push in E. apply push_inj in E. destruct E as [_ ->]. exact Hy.
    - intros Hf. destruct (tag_bit_01 t) as [Hb|Hb]; rewrite Hb.
      + left. unfold augment; cbn [finals]. apply in_map_iff. exists q. auto.
      + right. apply in_map_iff. exists (push 0 q). split; [reflexivity|].
        apply filter_In. split; [unfold augment; cbn [finals]; apply in_map; exact Hf|].
        apply (memb_spec st_eqb st_eqb_spec). fold added_of. eapply tag_bit_added; eauto.
  Qed.
End Tag.

(** * __count__ *)
Lemma sum_min_sat (l : list nat) (m b : nat) :
  Nat.min (sumnat (map (fun x => Nat.min x m) l) + b) m = Nat.min (sumnat l + b) m.
Proof.
  revert b; induction l as [|x r IH]; intros b; cbn [map sumnat]; [reflexivity|].
  replace (Nat.min x m + sumnat (map (fun x0 => Nat.min x0 m) r) + b)
    with (sumnat (map (fun x0 => Nat.min x0 m) r) + (Nat.min x m + b)) by lia.
  rewrite IH. lia.
Qed.

Section Count.
  Variable A : sdfta.
  Hypothesis HdA : deterministic A.
  Variable n : nat.
  Variable ss : list sym.
  Variable at_most : bool.

  Definition cmax : nat := n + (if at_most then 1 else 0).
  Definition count_alts (r : srule) : list (list st) := list_product (map (alternatives cmax) (snd (fst r))).
  Definition count_dst (r : srule) (na : list st) : st :=
    set_top (Nat.min (sumnat (map top na) + (if inb (fst (fst r)) ss then 1 else 0)) cmax) (snd r).

  Lemma count_rules_perm : Permutation (rules (count A n ss at_most)) (expanded A count_alts count_dst).
  Proof.
    unfold count; cbn [rules]. etransitivity; [apply firsts_rests_perm|].
    rewrite concat_map_flat_map. apply Permutation_refl'. reflexivity.
  Qed.

  Lemma In_alternatives x q : In x (alternatives cmax (push 0 q)) <-> exists i, i <= cmax /\ x = push i q.
  Proof.
    unfold alternatives. rewrite in_map_iff. split.
    - intros [i [<- Hi]]. apply in_seq in Hi. exists i. split; [lia|reflexivity].
    - intros [i [Hi ->]]. exists i. split; [reflexivity|]. apply in_seq. lia.
  Qed.

  Lemma count_alts_nodup r : In r (rules (augment A)) -> NoDup (count_alts r).
  Proof.
    intros Hr. destruct r as [[l a'] d']. apply In_augment in Hr. destruct Hr as [a [d [_ [-> _]]]].
    unfold count_alts; cbn [fst snd]. apply NoDup_list_product.
    apply Forall_forall. intros c Hc. apply in_map_iff in Hc. destruct Hc as [x [<- Hx]].
    apply in_map_iff in Hx. destruct Hx as [q [<- _]].
    unfold alternatives. apply NoDup_map_inj; [|apply seq_NoDup].
    intros i j _ _ E. rewrite !set_top_push in E. apply push_inj in E. tauto.
  Qed.

  Lemma count_alts_proj r na : In r (rules (augment A)) -> In na (count_alts r) -> map (set_top 0) na = snd (fst r).
  Proof.
    intros Hr. destruct r as [[l a'] d']. apply In_augment in Hr. destruct Hr as [a [d [_ [-> _]]]].
    unfold count_alts; cbn [fst snd]. rewrite In_list_product. clear.
    revert na; induction a as [|q a IH]; intros na H; inversion H; subst; cbn [map]; [reflexivity|].
    f_equal; [|apply IH; assumption].
    match goal with H : In _ (alternatives _ _) |- _ => apply In_alternatives in H; destruct H as [i [_ ->]] end.
    reflexivity.
  Qed.

  Lemma count_det : deterministic (count A n ss at_most).
  Proof.
    unfold deterministic. eapply Permutation_NoDup.
    - apply Permutation_map, Permutation_sym, count_rules_perm.
    - apply expanded_det; auto using count_alts_nodup, count_alts_proj.
  Qed.

  Definition count_arg_ok (x q : st) : Prop := exists i, i <= cmax /\ x = push i q.

  Lemma In_count l na d' :
    In ((l, na), d') (rules (count A n ss at_most)) <->
    exists args d, In ((l, args), d) (rules A) /\ Forall2 count_arg_ok na args /\
                   d' = push (Nat.min (sumnat (map top na) + (if inb l ss then 1 else 0)) cmax) d.
  Proof.
    split.
    - intros H. apply (Permutation_in _ count_rules_perm) in H. apply In_expanded in H.
      destruct H as [args [d [Hin [Hna ->]]]]. exists args, d. split; [auto|]. split; [|reflexivity].
      unfold count_alts in Hna; cbn [fst snd] in Hna. apply In_list_product in Hna.
      clear -Hna. revert na Hna; induction args as [|q a IH]; intros na H; inversion H; subst; constructor; auto.
      match goal with H : In _ (alternatives _ _) |- _ => apply In_alternatives in H; exact H end.
    - intros [args [d [Hin [Hna ->]]]]. apply (Permutation_in _ (Permutation_sym count_rules_perm)).
      apply In_expanded. exists args, d. split; [auto|]. split; [|reflexivity].
      unfold count_alts; cbn [fst snd]. apply In_list_product.
      clear -Hna. induction Hna as [|x q na a Hx _ IH]; cbn [map]; constructor; auto.
      apply In_alternatives. exact Hx.
  Qed.

  Lemma count_sound : forall t q', srun (count A n ss at_most) t = Some q' -> srun A t = Some (pop q').
  Proof.
    induction t as [l ts IH] using tree_ind'. intros q'. rewrite !srun_eq.
    destruct (omapo (srun (count A n ss at_most)) ts) as [qs'|] eqn:E; [|discriminate].
    intros Hr. apply sread_in in Hr. apply In_count in Hr. destruct Hr as [args [d [Hin [Hna ->]]]].
    rewrite (omapo_impl _ (srun A) pop ts IH qs' E).
    assert (Ea : map pop qs' = args).
    { clear -Hna. induction Hna as [|x q na a Hx _ IHa]; cbn [map]; [reflexivity|]. f_equal; auto.
      destruct Hx as [i [_ ->]]; apply pop_push. }
    rewrite Ea, pop_push. apply in_sread; auto.
  Qed.

  Definition sat_occ (t : tree sym) : nat := Nat.min (occ ss t) cmax.

  Lemma count_complete : forall t q, srun A t = Some q -> srun (count A n ss at_most) t = Some (push (sat_occ t) q).
  Proof.
    induction t as [l ts IH] using tree_ind'. intros q Hq.
    rewrite srun_eq in Hq.
    destruct (omapo (srun A) ts) as [qs|] eqn:E; [|discriminate].
    rewrite srun_eq.
    rewrite (omapo_all (srun A) (srun (count A n ss at_most)) (fun t q => push (sat_occ t) q) ts IH qs E).
    apply in_sread; [apply count_det|]. apply In_count. exists qs, q. split; [apply sread_in; exact Hq|].
    assert (Hlen : length qs = length ts) by (eapply omapo_length; eauto).
    split.
    - clear -Hlen. revert qs Hlen; induction ts as [|t ts IHt]; intros [|q1 qs] Hlen; try discriminate; cbn; constructor.
      + exists (sat_occ t). split; [unfold sat_occ; lia|reflexivity].
      + apply IHt. cbn in Hlen; lia.
    - f_equal. unfold sat_occ at 1. cbn [occ].
      assert (Et : map top (map (fun p : tree sym * st => push (sat_occ (fst p)) (snd p)) (combine ts qs))
                   = map (fun x => Nat.min x cmax) (map (occ ss) ts)).
      { clear -Hlen. revert qs Hlen; induction ts as [|t ts IHt]; intros [|q1 qs] Hlen; try discriminate; cbn; [reflexivity|].
        f_equal. apply IHt. cbn in Hlen; lia. }
      rewrite Et, sum_min_sat. f_equal. lia.
  Qed.

  Theorem count_run t : srun (count A n ss at_most) t = option_map (fun q => push (sat_occ t) q) (srun A t).
  Proof.
    destruct (srun A t) as [q|] eqn:E; cbn [option_map].
    - apply count_complete; exact E.
    - destruct (srun (count A n ss at_most) t) as [q'|] eqn:E'; [|reflexivity].
      apply count_sound in E'. congruence.
  Qed.

  Theorem count_finals t q' :
    srun (count A n ss at_most) t = Some q' -> smem q' (finals (count A n ss at_most)) = smem (pop q') (finals A).
  Proof.
    intros Hr. assert (Hs := count_sound t q' Hr). rewrite count_run, Hs in Hr; cbn [option_map] in Hr.
    injection Hr as Hq'. remember (pop q') as q eqn:Heq. clear Heq. subst q'.
    apply eq_true_iff_eq. rewrite !smem_spec. unfold count; cbn [finals]. fold cmax. rewrite in_flat_map. split.
    - intros [x [Hx H]]. unfold augment in Hx; cbn [finals] in Hx. apply in_map_iff in Hx. destruct Hx as [y [<- Hy]].
      apply In_alternatives in H. destruct H as [i [_ E]]. apply push_inj in E. destruct E as [_ ->]. exact Hy.
    - intros Hf. exists (push 0 q). split; [unfold augment; cbn [finals]; apply in_map; exact Hf|].
      apply In_alternatives. exists (sat_occ t). split; [unfold sat_occ; lia|reflexivity].
  Qed.
End Count.

(** * __filter__ *)
Section Filter.
  Variable A : sdfta.
  Hypothesis HdA : deterministic A.
  Variable chk : sym -> list st -> st -> bool.

  Lemma filter_det : deterministic (filter_rules A chk).
  Proof.
    unfold deterministic, filter_rules; cbn [rules]. apply filter_keys_nodup. exact HdA.
  Qed.

  Lemma filter_read l args :
    sread (filter_rules A chk) l args =
    match sread A l args with Some d => if chk l args d then Some d else None | None => None end.
  Proof.
    unfold sread, read, filter_rules; cbn [rules].
    exact (alookup_filter (Dfta.key_eqb sym_eqb st_eqb) (key_eqb_spec sym_eqb st_eqb sym_eqb_spec st_eqb_spec)
             (l, args) (fun r : srule => chk (fst (fst r)) (snd (fst r)) (snd r)) (rules A) HdA).
  Qed.

  (** the rule used at the root of [t] passes the check *)
  Definition node_ok (t : tree sym) : bool :=
    match t with
    | Node l ts =>
      match omapo (srun A) ts, srun A t with
      | Some qs, Some q => chk l qs q
      | _, _ => true
      end
    end.

  Theorem filter_run : forall t, srun (filter_rules A chk) t = if all_sub node_ok t then srun A t else None.
  Proof.
    induction t as [l ts IH] using tree_ind'.
    cbn [all_sub]. rewrite !srun_eq.
    assert (Hch : omapo (srun (filter_rules A chk)) ts =
                  if forallb (all_sub node_ok) ts then omapo (srun A) ts else None).
    { clear -IH. induction IH as [|t ts Ht _ IHt]; cbn [omapo forallb]; [reflexivity|].
      rewrite Ht, IHt. destruct (all_sub node_ok t); cbn [andb];
        destruct (srun A t); destruct (forallb (all_sub node_ok) ts); reflexivity. }
    rewrite Hch. cbn [node_ok]. rewrite srun_eq.
    destruct (forallb (all_sub node_ok) ts); [|rewrite andb_false_r; reflexivity]. rewrite andb_true_r.
    destruct (omapo (srun A) ts) as [qs|]; [|reflexivity].
    rewrite filter_read. destruct (sread A l qs) as [d|]; [|reflexivity]. reflexivity.
  Qed.

  Theorem filter_finals t q : srun (filter_rules A chk) t = Some q ->
    smem q (finals (filter_rules A chk)) = smem q (finals A).
  Proof.
    intros Hr. apply eq_true_iff_eq. rewrite !smem_spec. unfold filter_rules at 1; cbn [finals].
    rewrite filter_In. split; [tauto|]. intros Hf. split; [exact Hf|].
    apply (memb_spec st_eqb st_eqb_spec).
    apply (run_is_dst sym_eqb st_eqb sym_eqb_spec st_eqb_spec (filter_rules A chk) t q). exact Hr.
  Qed.
End Filter.
