(** [read_union]: the automaton built by the three rule loops runs both
    automata side by side ([None] for a component without run); then
    [reduce]. *)
From Coq Require Import List Bool Arith Lia.
From PS Require Import Base.ListX Auto.Dfta Auto.DftaBase Auto.DftaReduce Auto.DftaOps.
Import ListNotations.

Lemma list_product_in {X} (ls : list (list X)) : forall xs,
  In xs (list_product ls) <-> Forall2 (fun x l => In x l) xs ls.
Proof.
  induction ls as [|l r IH]; intros xs; cbn.
  - split; [intros [<-|[]]; constructor|intros H; inversion H; auto].
  - rewrite in_flat_map. split.
    + intros [x [Hx H]]. apply in_map_iff in H. destruct H as [ys [<- Hys]]. constructor; auto. apply IH; auto.
    + intros H. inversion H as [|x l' ys r' Hx Hys]; subst. exists x. split; auto.
      apply in_map. apply IH; auto.
Qed.

Lemma Forall2_map_r {X Y Z} (R : X -> Z -> Prop) (g : Y -> Z) xs ys :
  Forall2 R xs (map g ys) <-> Forall2 (fun x y => R x (g y)) xs ys.
Proof.
  revert xs; induction ys as [|y r IH]; intros xs; cbn.
  - split; intros H; inversion H; constructor.
  - split; intros H; inversion H; subst; constructor; auto; apply IH; auto.
Qed.

Lemma omapo_map_some {X Y} (f : X -> option Y) l ys : omapo f l = Some ys <-> map f l = map Some ys.
Proof.
  rewrite omapo_some. revert ys; induction l as [|x r IH]; intros [|y s]; cbn.
  - split; [reflexivity|constructor].
  - split; [intros H; inversion H|discriminate].
  - split; [intros H; inversion H|discriminate].
  - split.
    + intros H; inversion H; subst. f_equal; auto. apply IH; auto.
    + intros H; inversion H. constructor; auto. apply IH; auto.
Qed.

Lemma map_Some_inj {X} (a b : list X) : map Some a = map Some b -> a = b.
Proof.
  revert b; induction a as [|x r IH]; intros [|y s]; cbn; try discriminate; auto.
  intros H; inversion H; subst. f_equal; auto.
Qed.

Lemma combine_fst_snd {X Y} (us : list (X * Y)) (a : list X) (b : list Y) :
  length a = length b -> (us = combine a b <-> map fst us = a /\ map snd us = b).
Proof.
  revert a b; induction us as [|[x y] r IH]; intros [|x' a] [|y' b] H; cbn in *; try discriminate H.
  - split; auto.
  - split; [discriminate|intros [H1 _]; discriminate].
  - split; [discriminate|intros [H1 _]; discriminate].
  - injection H as H. pose proof (IH a b H) as [I1 I2]. split.
    + intros E; inversion E; subst. destruct (I1 eq_refl) as [-> ->]. auto.
    + intros [E1 E2]; inversion E1; inversion E2; subst. f_equal. apply I2. auto.
Qed.

Section UnionProofs.
  Context {L QA QB : Type}.
  Variable leqb : L -> L -> bool.
  Variable aeqb : QA -> QA -> bool.
  Variable beqb : QB -> QB -> bool.
  Hypothesis leqb_spec : forall a b, leqb a b = true <-> a = b.
  Hypothesis aeqb_spec : forall a b, aeqb a b = true <-> a = b.
  Hypothesis beqb_spec : forall a b, beqb a b = true <-> a = b.
  Variable A : dfta L QA.
  Variable B : dfta L QB.
  Hypothesis HdA : deterministic A.
  Hypothesis HdB : deterministic B.
  Variable sA : list QA.
  Variable sB : list QB.
  Hypothesis HsA : forall t a, run leqb aeqb A t = Some a -> In a sA.
  Hypothesis HsB : forall t b, run leqb beqb B t = Some b -> In b sB.

  Notation ustate := (option QA * option QB)%type.
  Notation ueqb := (ueqb aeqb beqb).
  Let U := union_raw leqb aeqb beqb A B sA sB.

  Lemma ueqb_spec : forall a b : ustate, ueqb a b = true <-> a = b.
  Proof. apply pair_eqb_spec; apply option_eqb_spec; auto. Qed.
  Let ukspec := key_eqb_spec leqb ueqb leqb_spec ueqb_spec.
  Let ma := mem_spec aeqb aeqb_spec.
  Let mb := mem_spec beqb beqb_spec.

  Definition ucomb (ra : option QA) (rb : option QB) : option ustate :=
    match ra, rb with None, None => None | _, _ => Some (ra, rb) end.

  Definition okA (o : option QA) : Prop := o = None \/ exists a, In a sA /\ o = Some a.
  Definition okB (o : option QB) : Prop := o = None \/ exists b, In b sB /\ o = Some b.

  Lemma mapping_s_in a (u : ustate) :
    In u (mapping_s aeqb sA sB a) <-> In a sA /\ fst u = Some a /\ okB (snd u).
  Proof.
    unfold mapping_s. destruct (memb aeqb a sA) eqn:E.
    - apply ma in E. rewrite in_app_iff, in_map_iff. cbn. split.
      + intros [[b [<- Hb]]|[<-|[]]]; cbn; (split; [auto|split; [auto|]]).
        * right; exists b; auto.
        * left; auto.
      + intros (_ & H1 & H2). destruct u as [ua ub]; cbn in *; subst.
        destruct H2 as [->|[b [Hb ->]]]; [right; auto|left; exists b; auto].
    - split; [intros []|]. intros [H _]. apply ma in H. unfold mem in H. congruence.
  Qed.

  Lemma mapping_o_in b (u : ustate) :
    In u (mapping_o beqb sA sB b) <-> In b sB /\ snd u = Some b /\ okA (fst u).
  Proof.
    unfold mapping_o. destruct (memb beqb b sB) eqn:E.
    - apply mb in E. rewrite in_app_iff, in_map_iff. cbn. split.
      + intros [[a [<- Ha]]|[<-|[]]]; cbn; (split; [auto|split; [auto|]]).
        * right; exists a; auto.
        * left; auto.
      + intros (_ & H1 & H2). destruct u as [ua ub]; cbn in *; subst.
        destruct H2 as [->|[a [Ha ->]]]; [right; auto|left; exists a; auto].
    - split; [intros []|]. intros [H _]. apply mb in H. unfold mem in H. congruence.
  Qed.

  Lemma forall2_mapping_s (us : list ustate) xs :
    Forall2 (fun u x => In u (mapping_s aeqb sA sB x)) us xs <->
    map fst us = map Some xs /\ Forall (fun x => In x sA) xs /\ Forall (fun u => okB (snd u)) us.
  Proof.
    revert xs; induction us as [|u r IH]; intros [|x s]; cbn.
    - split; [intros _; auto|constructor].
    - split; [intros H; inversion H|intros [H _]; discriminate].
    - split; [intros H; inversion H|intros [H _]; discriminate].
    - split.
      + intros H; inversion H as [|? ? ? ? H1 H2]; subst. apply mapping_s_in in H1. destruct H1 as (H1 & H3 & H4).
        apply IH in H2. destruct H2 as (H2 & H5 & H6). split; [congruence|]. split; constructor; auto.
      + intros (H1 & H2 & H3). inversion H1; inversion H2; inversion H3; subst. constructor.
        * apply mapping_s_in. auto.
        * apply IH. auto.
  Qed.

  Lemma forall2_mapping_o (us : list ustate) ys :
    Forall2 (fun u y => In u (mapping_o beqb sA sB y)) us ys <->
    map snd us = map Some ys /\ Forall (fun y => In y sB) ys /\ Forall (fun u => okA (fst u)) us.
  Proof.
    revert ys; induction us as [|u r IH]; intros [|y s]; cbn.
    - split; [intros _; auto|constructor].
    - split; [intros H; inversion H|intros [H _]; discriminate].
    - split; [intros H; inversion H|intros [H _]; discriminate].
    - split.
      + intros H; inversion H as [|? ? ? ? H1 H2]; subst. apply mapping_o_in in H1. destruct H1 as (H1 & H3 & H4).
        apply IH in H2. destruct H2 as (H2 & H5 & H6). split; [congruence|]. split; constructor; auto.
      + intros (H1 & H2 & H3). inversion H1; inversion H2; inversion H3; subst. constructor.
        * apply mapping_o_in. auto.
        * apply IH. auto.
  Qed.

  Lemma loop1_in l us v : In ((l, us), v) (union_loop1 aeqb A sA sB) <->
    exists xs d1, In ((l, xs), d1) (rules A) /\ map fst us = map Some xs /\
                  Forall (fun x => In x sA) xs /\ Forall (fun u => okB (snd u)) us /\ v = (Some d1, None).
  Proof.
    unfold union_loop1. rewrite in_flat_map. split.
    - intros [[[l1 xs] d1] [H1 H]]. cbn in H. apply in_map_iff in H. destruct H as [na [E H]].
      inversion E; subst. apply list_product_in in H.
      apply (Forall2_map_r (fun (u : ustate) l => In u l) (mapping_s aeqb sA sB)) in H. apply forall2_mapping_s in H.
      exists xs, d1. tauto.
    - intros (xs & d1 & H1 & H2 & H3 & H4 & ->). exists ((l, xs), d1). split; auto. cbn.
      apply in_map_iff. exists us. split; auto. apply list_product_in.
      apply (Forall2_map_r (fun (u : ustate) l => In u l) (mapping_s aeqb sA sB)). apply forall2_mapping_s. auto.
  Qed.

  Lemma loop2_in l us v : In ((l, us), v) (union_loop2 beqb B sA sB) <->
    exists ys d2, In ((l, ys), d2) (rules B) /\ map snd us = map Some ys /\
                  Forall (fun y => In y sB) ys /\ Forall (fun u => okA (fst u)) us /\ v = (None, Some d2).
  Proof.
    unfold union_loop2. rewrite in_flat_map. split.
    - intros [[[l1 ys] d2] [H1 H]]. cbn in H. apply in_map_iff in H. destruct H as [na [E H]].
      inversion E; subst. apply list_product_in in H.
      apply (Forall2_map_r (fun (u : ustate) l => In u l) (mapping_o beqb sA sB)) in H. apply forall2_mapping_o in H.
      exists ys, d2. tauto.
    - intros (ys & d2 & H1 & H2 & H3 & H4 & ->). exists ((l, ys), d2). split; auto. cbn.
      apply in_map_iff. exists us. split; auto. apply list_product_in.
      apply (Forall2_map_r (fun (u : ustate) l => In u l) (mapping_o beqb sA sB)). apply forall2_mapping_o. auto.
  Qed.

  Lemma loop3_in l us v : In ((l, us), v) (union_loop3 leqb A B) <->
    exists xs ys d1 d2, In ((l, xs), d1) (rules A) /\ In ((l, ys), d2) (rules B) /\
                        map fst us = map Some xs /\ map snd us = map Some ys /\ v = (Some d1, Some d2).
  Proof.
    unfold union_loop3. rewrite in_flat_map. split.
    - intros [[[l1 xs] d1] [H1 H]]. apply in_flat_map in H. destruct H as [[[l2 ys] d2] [H2 H]]. cbn in H.
      destruct (length xs =? length ys) eqn:El; cbn in H; [|tauto].
      destruct (leqb l1 l2) eqn:Ell; cbn in H; [|tauto].
      destruct H as [H|[]]. inversion H; subst. apply leqb_spec in Ell; subst. apply Nat.eqb_eq in El.
      exists xs, ys, d1, d2. split; [auto|]. split; [auto|].
      assert (El' : length (map (@Some QA) xs) = length (map (@Some QB) ys)) by (rewrite !map_length; auto).
      destruct (proj1 (combine_fst_snd _ _ _ El') eq_refl) as [E1 E2]. auto.
    - intros (xs & ys & d1 & d2 & H1 & H2 & E1 & E2 & ->).
      assert (El : length xs = length ys).
      { apply (f_equal (@length _)) in E1. apply (f_equal (@length _)) in E2. rewrite !map_length in *. congruence. }
      exists ((l, xs), d1). split; [auto|]. apply in_flat_map. exists ((l, ys), d2). split; [auto|]. cbn.
      apply Nat.eqb_eq in El as El2. rewrite El2. replace (leqb l l) with true by (symmetry; apply leqb_spec; auto).
      cbn. left. f_equal. f_equal. symmetry. apply combine_fst_snd; [rewrite !map_length; auto|auto].
  Qed.

  (** ** the three lookups, for the arguments produced by the two runs *)
  Section Lookups.
    Context {X : Type} (fa : X -> option QA) (fb : X -> option QB) (ts : list X) (l : L).
    Hypothesis Hfa : forall t a, fa t = Some a -> In a sA.
    Hypothesis Hfb : forall t b, fb t = Some b -> In b sB.
    Let uargs : list ustate := map (fun t => (fa t, fb t)) ts.

    Lemma uargs_fst : map fst uargs = map fa ts.
    Proof. unfold uargs. rewrite map_map. reflexivity. Qed.
    Lemma uargs_snd : map snd uargs = map fb ts.
    Proof. unfold uargs. rewrite map_map. reflexivity. Qed.
    Lemma uargs_okA : Forall (fun u : ustate => okA (fst u)) uargs.
    Proof.
      unfold uargs. apply Forall_forall. intros u Hu. apply in_map_iff in Hu. destruct Hu as [t [<- _]]. cbn.
      destruct (fa t) as [a|] eqn:E; [right; exists a; split; eauto|left; auto].
    Qed.
    Lemma uargs_okB : Forall (fun u : ustate => okB (snd u)) uargs.
    Proof.
      unfold uargs. apply Forall_forall. intros u Hu. apply in_map_iff in Hu. destruct Hu as [t [<- _]]. cbn.
      destruct (fb t) as [b|] eqn:E; [right; exists b; split; eauto|left; auto].
    Qed.
    Lemma some_in_sA xs : map fa ts = map Some xs -> Forall (fun x => In x sA) xs.
    Proof.
      intros E. apply Forall_forall. intros x Hx. apply (in_map Some) in Hx. rewrite <- E in Hx.
      apply in_map_iff in Hx. destruct Hx as [t [Ht _]]. eauto.
    Qed.
    Lemma some_in_sB ys : map fb ts = map Some ys -> Forall (fun y => In y sB) ys.
    Proof.
      intros E. apply Forall_forall. intros y Hy. apply (in_map Some) in Hy. rewrite <- E in Hy.
      apply in_map_iff in Hy. destruct Hy as [t [Ht _]]. eauto.
    Qed.

    Lemma look3 :
      alookup (key_eqb leqb ueqb) (l, uargs) (dict_of_list (key_eqb leqb ueqb) (union_loop3 leqb A B)) =
      match omapo fa ts, omapo fb ts with
      | Some xs, Some ys =>
        match read leqb aeqb A l xs, read leqb beqb B l ys with
        | Some d1, Some d2 => Some (Some d1, Some d2)
        | _, _ => None
        end
      | _, _ => None
      end.
    Proof.
      destruct (omapo fa ts) as [xs|] eqn:EA; [destruct (omapo fb ts) as [ys|] eqn:EB|].
      - apply omapo_map_some in EA. apply omapo_map_some in EB.
        destruct (read leqb aeqb A l xs) as [d1|] eqn:R1; [destruct (read leqb beqb B l ys) as [d2|] eqn:R2|].
        + apply dict_lookup_functional; auto.
          * apply loop3_in. exists xs, ys, d1, d2.
            split; [eapply read_in; eauto|]. split; [eapply read_in; eauto|].
            rewrite uargs_fst, uargs_snd. auto.
          * intros v' Hv'. apply loop3_in in Hv'. destruct Hv' as (xs' & ys' & d1' & d2' & H1 & H2 & E1 & E2 & ->).
            rewrite uargs_fst, EA in E1. rewrite uargs_snd, EB in E2.
            apply map_Some_inj in E1. apply map_Some_inj in E2. subst.
            apply (in_read leqb aeqb leqb_spec aeqb_spec A _ _ _ HdA) in H1.
            apply (in_read leqb beqb leqb_spec beqb_spec B _ _ _ HdB) in H2. congruence.
        + apply dict_lookup_none; auto. intros v' Hv'. apply loop3_in in Hv'.
          destruct Hv' as (xs' & ys' & d1' & d2' & H1 & H2 & E1 & E2 & ->).
          rewrite uargs_snd, EB in E2. apply map_Some_inj in E2. subst.
          apply (in_read leqb beqb leqb_spec beqb_spec B _ _ _ HdB) in H2. congruence.
        + apply dict_lookup_none; auto. intros v' Hv'. apply loop3_in in Hv'.
          destruct Hv' as (xs' & ys' & d1' & d2' & H1 & H2 & E1 & E2 & ->).
          rewrite uargs_fst, EA in E1. apply map_Some_inj in E1. subst.
          apply (in_read leqb aeqb leqb_spec aeqb_spec A _ _ _ HdA) in H1. congruence.
      - apply dict_lookup_none; auto. intros v' Hv'. apply loop3_in in Hv'.
        destruct Hv' as (xs' & ys' & d1' & d2' & H1 & H2 & E1 & E2 & ->).
        rewrite uargs_snd in E2. apply omapo_map_some in E2. congruence.
      - apply dict_lookup_none; auto. intros v' Hv'. apply loop3_in in Hv'.
        destruct Hv' as (xs' & ys' & d1' & d2' & H1 & H2 & E1 & E2 & ->).
        rewrite uargs_fst in E1. apply omapo_map_some in E1. congruence.
    Qed.

    Lemma look2 :
      alookup (key_eqb leqb ueqb) (l, uargs) (dict_of_list (key_eqb leqb ueqb) (union_loop2 beqb B sA sB)) =
      match omapo fb ts with
      | Some ys => match read leqb beqb B l ys with Some d2 => Some (None, Some d2) | None => None end
      | None => None
      end.
    Proof.
      destruct (omapo fb ts) as [ys|] eqn:EB.
      - apply omapo_map_some in EB. destruct (read leqb beqb B l ys) as [d2|] eqn:R2.
        + apply dict_lookup_functional; auto.
          * apply loop2_in. exists ys, d2. split; [eapply read_in; eauto|].
            rewrite uargs_snd. split; [auto|]. split; [apply some_in_sB; auto|]. split; [apply uargs_okA|auto].
          * intros v' Hv'. apply loop2_in in Hv'. destruct Hv' as (ys' & d2' & H2 & E2 & _ & _ & ->).
            rewrite uargs_snd, EB in E2. apply map_Some_inj in E2. subst.
            apply (in_read leqb beqb leqb_spec beqb_spec B _ _ _ HdB) in H2. congruence.
        + apply dict_lookup_none; auto. intros v' Hv'. apply loop2_in in Hv'.
          destruct Hv' as (ys' & d2' & H2 & E2 & _ & _ & ->).
          rewrite uargs_snd, EB in E2. apply map_Some_inj in E2. subst.
          apply (in_read leqb beqb leqb_spec beqb_spec B _ _ _ HdB) in H2. congruence.
      - apply dict_lookup_none; auto. intros v' Hv'. apply loop2_in in Hv'.
        destruct Hv' as (ys' & d2' & H2 & E2 & _ & _ & ->).
        rewrite uargs_snd in E2. apply omapo_map_some in E2. congruence.
    Qed.

    Lemma look1 :
      alookup (key_eqb leqb ueqb) (l, uargs) (dict_of_list (key_eqb leqb ueqb) (union_loop1 aeqb A sA sB)) =
      match omapo fa ts with
      | Some xs => match read leqb aeqb A l xs with Some d1 => Some (Some d1, None) | None => None end
      | None => None
      end.
    Proof.
      destruct (omapo fa ts) as [xs|] eqn:EA.
      - apply omapo_map_some in EA. destruct (read leqb aeqb A l xs) as [d1|] eqn:R1.
        + apply dict_lookup_functional; auto.
          * apply loop1_in. exists xs, d1. split; [eapply read_in; eauto|].
            rewrite uargs_fst. split; [auto|]. split; [apply some_in_sA; auto|]. split; [apply uargs_okB|auto].
          * intros v' Hv'. apply loop1_in in Hv'. destruct Hv' as (xs' & d1' & H1 & E1 & _ & _ & ->).
            rewrite uargs_fst, EA in E1. apply map_Some_inj in E1. subst.
            apply (in_read leqb aeqb leqb_spec aeqb_spec A _ _ _ HdA) in H1. congruence.
        + apply dict_lookup_none; auto. intros v' Hv'. apply loop1_in in Hv'.
          destruct Hv' as (xs' & d1' & H1 & E1 & _ & _ & ->).
          rewrite uargs_fst, EA in E1. apply map_Some_inj in E1. subst.
          apply (in_read leqb aeqb leqb_spec aeqb_spec A _ _ _ HdA) in H1. congruence.
      - apply dict_lookup_none; auto. intros v' Hv'. apply loop1_in in Hv'.
        destruct Hv' as (xs' & d1' & H1 & E1 & _ & _ & ->).
        rewrite uargs_fst in E1. apply omapo_map_some in E1. congruence.
    Qed.

    Lemma union_read :
      read leqb ueqb U l uargs =
      ucomb (match omapo fa ts with Some xs => read leqb aeqb A l xs | None => None end)
            (match omapo fb ts with Some ys => read leqb beqb B l ys | None => None end).
    Proof.
      unfold U, union_raw, read; cbn [rules].
      rewrite !(dict_of_list_app (key_eqb leqb ueqb) ukspec). rewrite look3, look2, look1.
      unfold read.
      destruct (omapo fa ts) as [xs|]; destruct (omapo fb ts) as [ys|]; cbn;
        repeat match goal with |- context [alookup ?e (l, ?a) (rules ?X0)] => destruct (alookup e (l, a) (rules X0)); cbn end;
        reflexivity.
    Qed.

    Lemma omapo_ucomb :
      omapo (fun t => ucomb (fa t) (fb t)) ts = Some uargs \/
      (omapo (fun t => ucomb (fa t) (fb t)) ts = None /\ omapo fa ts = None /\ omapo fb ts = None).
    Proof.
      unfold uargs. clear Hfa Hfb uargs. induction ts as [|t r IH]; cbn; [left; reflexivity|].
      destruct (fa t) as [a|], (fb t) as [b|]; cbn; try (right; auto; fail);
        destruct IH as [E|(E1 & E2 & E3)]; rewrite ?E, ?E1, ?E2, ?E3; auto.
    Qed.
  End Lookups.

  Theorem union_raw_run : forall t,
    run leqb ueqb U t = ucomb (run leqb aeqb A t) (run leqb beqb B t).
  Proof.
    intros t. induction t as [l ts IH] using tree_ind'. rewrite !run_eq.
    rewrite (omapo_ext _ _ _ IH).
    destruct (omapo_ucomb (run leqb aeqb A) (run leqb beqb B) ts) as [E|(E & EA & EB)].
    - rewrite E. apply union_read; auto.
    - rewrite E, EA, EB. reflexivity.
  Qed.

  Lemma union_finals_in (u : ustate) : okA (fst u) -> okB (snd u) ->
    (In u (union_finals aeqb beqb A B sA sB) <->
     (exists a, fst u = Some a /\ In a (finals A)) \/ (exists b, snd u = Some b /\ In b (finals B))).
  Proof.
    intros Ha Hb. unfold union_finals. rewrite in_app_iff, !in_flat_map. split.
    - intros [[a [Hsa H]]|[b [Hsb H]]].
      + destruct (memb aeqb a (finals A)) eqn:E; [|destruct H]. apply mapping_s_in in H.
        left. exists a. split; [tauto|apply ma; auto].
      + destruct (memb beqb b (finals B)) eqn:E; [|destruct H]. apply mapping_o_in in H.
        right. exists b. split; [tauto|apply mb; auto].
    - intros [[a [E Hf]]|[b [E Hf]]].
      + left. exists a. destruct Ha as [Ha|[a' [Ha E']]]; [congruence|].
        rewrite E in E'; inversion E'; subst a'. split; [auto|].
        apply ma in Hf. unfold mem in Hf. rewrite Hf. apply mapping_s_in. auto.
      + right. exists b. destruct Hb as [Hb|[b' [Hb E']]]; [congruence|].
        rewrite E in E'; inversion E'; subst b'. split; [auto|].
        apply mb in Hf. unfold mem in Hf. rewrite Hf. apply mapping_o_in. auto.
  Qed.

  Theorem union_raw_accepts : forall t,
    accepts leqb ueqb U t = accepts leqb aeqb A t || accepts leqb beqb B t.
  Proof.
    intros t. unfold accepts. rewrite union_raw_run.
    pose proof (mem_spec ueqb ueqb_spec) as mu.
    destruct (run leqb aeqb A t) as [a|] eqn:EA; destruct (run leqb beqb B t) as [b|] eqn:EB; cbn [ucomb]; try reflexivity.
    all: match goal with |- mem ueqb ?u _ = ?rhs =>
           assert (Hu : In u (union_finals aeqb beqb A B sA sB) <->
                        (exists a, fst u = Some a /\ In a (finals A)) \/ (exists b, snd u = Some b /\ In b (finals B)))
         end.
    all: try (apply union_finals_in; cbn; [try (left; reflexivity); right; eexists; split; eauto
                                          |try (left; reflexivity); right; eexists; split; eauto]).
    all: cbn [fst snd finals U union_raw] in *.
    - destruct (mem aeqb a (finals A)) eqn:Fa; cbn.
      + apply mu. apply Hu. left. exists a. split; auto. apply ma; auto.
      + destruct (mem beqb b (finals B)) eqn:Fb.
        * apply mu. apply Hu. right. exists b. split; auto. apply mb; auto.
        * match goal with |- ?x = false => destruct x eqn:E; [|reflexivity] end.
          apply mu in E. apply Hu in E. destruct E as [[a' [E H]]|[b' [E H]]]; inversion E; subst.
          -- apply ma in H. congruence.
          -- apply mb in H. congruence.
    - rewrite orb_false_r. destruct (mem aeqb a (finals A)) eqn:Fa.
      + apply mu. apply Hu. left. exists a. split; auto. apply ma; auto.
      + match goal with |- ?x = false => destruct x eqn:E; [|reflexivity] end.
        apply mu in E. apply Hu in E. destruct E as [[a' [E H]]|[b' [E H]]]; inversion E; subst.
        apply ma in H. congruence.
    - cbn [orb]. destruct (mem beqb b (finals B)) eqn:Fb.
      + apply mu. apply Hu. right. exists b. split; auto. apply mb; auto.
      + match goal with |- ?x = false => destruct x eqn:E; [|reflexivity] end.
        apply mu in E. apply Hu in E. destruct E as [[a' [E H]]|[b' [E H]]]; inversion E; subst.
        apply mb in H. congruence.
  Qed.

  Lemma union_raw_det : deterministic U.
  Proof. unfold deterministic, U, union_raw; cbn. apply dict_of_list_nodup. auto. Qed.
End UnionProofs.

Section UnionTheorem.
  Context {L QA QB : Type}.
  Variable leqb : L -> L -> bool.
  Variable aeqb : QA -> QA -> bool.
  Variable beqb : QB -> QB -> bool.
  Hypothesis leqb_spec : forall a b, leqb a b = true <-> a = b.
  Hypothesis aeqb_spec : forall a b, aeqb a b = true <-> a = b.
  Hypothesis beqb_spec : forall a b, beqb a b = true <-> a = b.

  Theorem read_union_spec (A : dfta L QA) (B : dfta L QB) : deterministic A -> deterministic B ->
    exists U, read_union leqb aeqb beqb A B = Ok U /\ deterministic U /\
      (forall t, accepts leqb (ueqb aeqb beqb) U t = accepts leqb aeqb A t || accepts leqb beqb B t) /\
      trim leqb (ueqb aeqb beqb) U.
  Proof.
    intros HdA HdB. unfold read_union.
    destruct (states_ok leqb beqb leqb_spec beqb_spec B HdB) as [sB (EB & _ & _)].
    destruct (states_ok leqb aeqb leqb_spec aeqb_spec A HdA) as [sA (EA & _ & _)].
    rewrite EB, EA. cbn [rbind].
    pose proof (ueqb_spec aeqb beqb aeqb_spec beqb_spec) as uspec.
    pose proof (union_raw_det leqb aeqb beqb leqb_spec aeqb_spec beqb_spec A B sA sB) as Hd.
    destruct (reduce_spec leqb (ueqb aeqb beqb) leqb_spec uspec _ Hd) as [U (E & HdU & Hacc & Htrim)].
    exists U. split; [exact E|]. split; [exact HdU|]. split; [|exact Htrim].
    intros t. rewrite Hacc. apply union_raw_accepts; auto.
    - intros t' a Ht. exact (states_complete leqb aeqb leqb_spec aeqb_spec A sA t' a HdA EA Ht).
    - intros t' b Ht. exact (states_complete leqb beqb leqb_spec beqb_spec B sB t' b HdB EB Ht).
  Qed.

  Theorem read_union_pinned_spec (A : dfta L QA) (B : dfta L QB) : deterministic A -> deterministic B ->
    exists U, read_union_pinned leqb aeqb beqb A B = Ok U /\ deterministic U /\
      (forall t, accepts leqb (ueqb aeqb beqb) U t = accepts leqb aeqb A t || accepts leqb beqb B t).
  Proof.
    intros HdA HdB. unfold read_union_pinned.
    destruct (states_ok leqb beqb leqb_spec beqb_spec B HdB) as [sB (EB & _ & _)].
    destruct (states_ok leqb aeqb leqb_spec aeqb_spec A HdA) as [sA (EA & _ & _)].
    rewrite EB, EA. cbn [rbind].
    pose proof (ueqb_spec aeqb beqb aeqb_spec beqb_spec) as uspec.
    pose proof (union_raw_det leqb aeqb beqb leqb_spec aeqb_spec beqb_spec A B sA sB) as Hd.
    destruct (reduce_pinned_spec leqb (ueqb aeqb beqb) leqb_spec uspec _ Hd) as [U (E & HdU & Hacc)].
    exists U. split; [exact E|]. split; [exact HdU|].
    intros t. rewrite Hacc. apply union_raw_accepts; auto.
    - intros t' a Ht. exact (states_complete leqb aeqb leqb_spec aeqb_spec A sA t' a HdA EA Ht).
    - intros t' b Ht. exact (states_complete leqb beqb leqb_spec beqb_spec B sB t' b HdB EB Ht).
  Qed.
End UnionTheorem.
