(** Minimality of [minimise] on a trim automaton (Myhill-Nerode):
    the final partition is coarser than Nerode equivalence, hence two distinct
    states of the result are told apart by a context; every deterministic
    automaton with the same language therefore needs at least as many states. *)
From Coq Require Import List Bool Arith Lia.
From PS Require Import Base.ListX Auto.Dfta Auto.DftaBase Auto.DftaReduce Auto.DftaOps Auto.DftaMinimise.
Import ListNotations.

(** contexts: trees with one hole *)
Inductive ctx (L : Type) : Type :=
| Hole
| CNode (l : L) (ls : list (tree L)) (c : ctx L) (rs : list (tree L)).
Arguments Hole {L}.
Arguments CNode {L} l ls c rs.

Fixpoint plug {L} (c : ctx L) (t : tree L) : tree L :=
  match c with
  | Hole => t
  | CNode l ls c' rs => Node l (ls ++ plug c' t :: rs)
  end.

Fixpoint ccomp {L} (c1 c2 : ctx L) : ctx L :=
  match c1 with
  | Hole => c2
  | CNode l ls c rs => CNode l ls (ccomp c c2) rs
  end.

Lemma plug_ccomp {L} (c1 c2 : ctx L) t : plug (ccomp c1 c2) t = plug c1 (plug c2 t).
Proof. induction c1 as [|l ls c IH rs]; cbn; [reflexivity|]. rewrite IH. reflexivity. Qed.

Lemma omapo_mid_congr {X Y} (f : X -> option Y) ls x y rs :
  f x = f y -> omapo f (ls ++ x :: rs) = omapo f (ls ++ y :: rs).
Proof. intros E. induction ls as [|z r IH]; cbn; [rewrite E; reflexivity|]. rewrite IH. reflexivity. Qed.

Lemma omapo_mid_some {X Y} (f : X -> option Y) ls x rs ys :
  omapo f (ls ++ x :: rs) = Some ys -> exists y, f x = Some y.
Proof.
  revert ys; induction ls as [|z r IH]; intros ys; cbn.
  - destruct (f x) as [y|]; [eauto|discriminate].
  - destruct (f z); [|discriminate]. destruct (omapo f (r ++ x :: rs)) eqn:E; [|discriminate]. eauto.
Qed.

Lemma omapo_app_mid {X Y} (f : X -> option Y) ls x rs a1 y a2 :
  omapo f ls = Some a1 -> f x = Some y -> omapo f rs = Some a2 ->
  omapo f (ls ++ x :: rs) = Some (a1 ++ y :: a2).
Proof.
  revert a1; induction ls as [|z r IH]; intros a1; cbn.
  - intros E1 E2 E3. inversion E1; subst. rewrite E2, E3. reflexivity.
  - destruct (f z); [|discriminate]. destruct (omapo f r) eqn:E; [|discriminate].
    intros E1 E2 E3. inversion E1; subst. rewrite (IH l eq_refl E2 E3). reflexivity.
Qed.

Lemma omapo_app_inv {X Y} (f : X -> option Y) ls x rs ys :
  omapo f (ls ++ x :: rs) = Some ys ->
  exists a1 y a2, omapo f ls = Some a1 /\ f x = Some y /\ omapo f rs = Some a2 /\ ys = a1 ++ y :: a2.
Proof.
  revert ys; induction ls as [|z r IH]; intros ys; cbn.
  - destruct (f x) as [y|]; [|discriminate]. destruct (omapo f rs) as [a2|]; [|discriminate].
    intros E; inversion E; subst. exists [], y, a2. auto.
  - destruct (f z) as [z'|]; [|discriminate]. destruct (omapo f (r ++ x :: rs)) as [ys'|] eqn:E; [|discriminate].
    intros E'; inversion E'; subst. destruct (IH ys' eq_refl) as (a1 & y & a2 & H1 & H2 & H3 & ->).
    rewrite H1. exists (z' :: a1), y, a2. auto.
Qed.

(** pigeonhole for a relation that is total on [ms] and injective *)
Lemma inj_rel_length {X Y} (Rel : X -> Y -> Prop) : forall (ms : list X) (bs : list Y),
  NoDup ms ->
  (forall m, In m ms -> exists b, In b bs /\ Rel m b) ->
  (forall m1 m2 b, In m1 ms -> In m2 ms -> Rel m1 b -> Rel m2 b -> m1 = m2) ->
  length ms <= length bs.
Proof.
  induction ms as [|m ms IH]; intros bs Hn Hex Hinj; cbn; [lia|].
  inversion Hn as [|? ? Hm Hn']; subst.
  destruct (Hex m (or_introl eq_refl)) as [b [Hb Hr]].
  apply in_split in Hb. destruct Hb as [l1 [l2 ->]].
  assert (length ms <= length (l1 ++ l2)).
  { apply IH; auto.
    - intros m' Hm'. destruct (Hex m' (or_intror Hm')) as [b' [Hb' Hr']].
      exists b'. split; [|auto]. apply in_app_iff in Hb'. apply in_app_iff.
      destruct Hb' as [?|[<-|?]]; auto.
      exfalso. apply Hm. rewrite (Hinj m m' b); auto; [left; auto|right; auto].
    - intros m1 m2 b' H1 H2. apply Hinj; right; auto. }
  rewrite app_length in *. cbn. lia.
Qed.

Section AnyAutomaton.
  Context {L Q : Type}.
  Variable leqb : L -> L -> bool.
  Variable qeqb : Q -> Q -> bool.
  Hypothesis leqb_spec : forall a b, leqb a b = true <-> a = b.
  Hypothesis qeqb_spec : forall a b, qeqb a b = true <-> a = b.
  Variable X : dfta L Q.

  Lemma run_plug_congr c t1 t2 :
    run leqb qeqb X t1 = run leqb qeqb X t2 -> run leqb qeqb X (plug c t1) = run leqb qeqb X (plug c t2).
  Proof.
    intros E. induction c as [|l ls c IH rs]; cbn [plug]; [exact E|].
    rewrite !run_eq. rewrite (omapo_mid_congr (run leqb qeqb X) ls _ _ rs IH). reflexivity.
  Qed.

  Lemma accepts_plug_congr c t1 t2 :
    run leqb qeqb X t1 = run leqb qeqb X t2 -> accepts leqb qeqb X (plug c t1) = accepts leqb qeqb X (plug c t2).
  Proof. intros E. unfold accepts. rewrite (run_plug_congr c t1 t2 E). reflexivity. Qed.

  Lemma run_plug_defined c t p : run leqb qeqb X (plug c t) = Some p -> exists p', run leqb qeqb X t = Some p'.
  Proof.
    revert p; induction c as [|l ls c IH rs]; intros p; cbn [plug]; [eauto|].
    rewrite run_eq. destruct (omapo _ _) as [args|] eqn:E; [|discriminate]. intros _.
    apply omapo_mid_some in E. destruct E as [y Hy]. eauto.
  Qed.

  Lemma accepts_defined t : accepts leqb qeqb X t = true -> exists p, run leqb qeqb X t = Some p.
  Proof. unfold accepts. destruct (run leqb qeqb X t); [eauto|discriminate]. Qed.
End AnyAutomaton.

Section Minimal.
  Context {L Q : Type}.
  Variable leqb : L -> L -> bool.
  Variable qeqb : Q -> Q -> bool.
  Hypothesis leqb_spec : forall a b, leqb a b = true <-> a = b.
  Hypothesis qeqb_spec : forall a b, qeqb a b = true <-> a = b.
  Variable A : dfta L Q.
  Hypothesis Hdet : deterministic A.
  Hypothesis Htrim : trim leqb qeqb A.

  Notation run := (run leqb qeqb).
  Notation accepts := (accepts leqb qeqb).
  Let mspec := mem_spec qeqb qeqb_spec.

  (** Nerode equivalence of two states: no context tells them apart *)
  Definition nerode (a b : Q) : Prop :=
    forall t1 t2, run A t1 = Some a -> run A t2 = Some b ->
    forall c, accepts A (plug c t1) = accepts A (plug c t2).

  Lemma rule_args_occur l args d a : In ((l, args), d) (rules A) -> In a args -> occurs A a.
  Proof. intros H Ha. right; left. eapply in_all_args; eauto. Qed.

  Lemma rule_dst_occurs l args d : In ((l, args), d) (rules A) -> occurs A d.
  Proof. intros H. left. apply in_map_iff. exists ((l, args), d). auto. Qed.

  Lemma args_trees l args d : In ((l, args), d) (rules A) ->
    exists ts, omapo (run A) ts = Some args.
  Proof.
    intros H. apply (trees_for leqb qeqb). apply Forall_forall. intros a Ha.
    apply Htrim. eapply rule_args_occur; eauto.
  Qed.

  (** a rule applied to trees reaching its arguments *)
  Lemma rule_tree l pre a post d tsp tsq t :
    In ((l, pre ++ a :: post), d) (rules A) ->
    omapo (run A) tsp = Some pre -> omapo (run A) tsq = Some post -> run A t = Some a ->
    run A (Node l (tsp ++ t :: tsq)) = Some d.
  Proof.
    intros Hin H1 H2 H3. rewrite run_eq, (omapo_app_mid _ _ _ _ _ _ _ H1 H3 H2).
    apply in_read; auto.
  Qed.

  (** a productive state has an accepting context *)
  Lemma coreach_ctx q : coreach A q -> exists c, forall t, run A t = Some q -> accepts A (plug c t) = true.
  Proof.
    induction 1 as [q Hq|l pre q post d Hin _ [c Hc]].
    - exists Hole. intros t Ht. cbn. unfold Dfta.accepts. rewrite Ht. apply mspec; auto.
    - destruct (args_trees _ _ _ Hin) as [ts Hts].
      apply omapo_some in Hts. apply Forall2_app_inv_r in Hts.
      destruct Hts as (tsp & tsq' & H1 & H2 & ->). inversion H2 as [|t0 ? tsq ? Ht0 H3]; subst.
      apply omapo_some in H1. apply omapo_some in H3.
      exists (ccomp c (CNode l tsp Hole tsq)). intros t Ht. rewrite plug_ccomp. cbn.
      apply Hc. eapply rule_tree; eauto.
  Qed.

  Variable S0 : list Q.
  Hypothesis HS0 : states qeqb A = Ok S0.

  Lemma S0_reachable q : In q S0 -> exists t, run A t = Some q.
  Proof. intros H. eapply (states_sound leqb qeqb); eauto. Qed.
  Lemma occurs_S0 q : occurs A q -> In q S0.
  Proof. intros H. destruct (Htrim q H) as [[t Ht] _]. eapply (states_complete leqb qeqb); eauto. Qed.

  Lemma nerode_final a b : In a S0 -> In b S0 -> nerode a b -> mem qeqb a (finals A) = mem qeqb b (finals A).
  Proof.
    intros Ha Hb Hn. destruct (S0_reachable a Ha) as [ta Hta]. destruct (S0_reachable b Hb) as [tb Htb].
    specialize (Hn ta tb Hta Htb Hole). cbn in Hn. unfold Dfta.accepts in Hn. rewrite Hta, Htb in Hn. exact Hn.
  Qed.

  Lemma nerode_hstep (c : Q -> nat) :
    (forall a b, In a S0 -> In b S0 -> nerode a b -> c a = c b) ->
    forall a b, In a S0 -> In b S0 -> nerode a b -> hstep A c a b.
  Proof.
    intros Hc a b Ha Hb Hn l pre post d Hin.
    destruct (S0_reachable a Ha) as [ta Hta]. destruct (S0_reachable b Hb) as [tb Htb].
    destruct (args_trees _ _ _ Hin) as [ts Hts].
    apply omapo_some in Hts. apply Forall2_app_inv_r in Hts.
    destruct Hts as (tsp & tsq' & H1 & H2 & ->). inversion H2 as [|t0 ? tsq ? Ht0 H3]; subst.
    apply omapo_some in H1. apply omapo_some in H3.
    assert (HTa : run A (Node l (tsp ++ ta :: tsq)) = Some d) by (eapply rule_tree; eauto).
    destruct (Htrim d (rule_dst_occurs _ _ _ Hin)) as [_ Hco].
    destruct (coreach_ctx d Hco) as [cd Hcd].
    pose proof (Hcd _ HTa) as Hacc.
    change (Node l (tsp ++ ta :: tsq)) with (plug (CNode l tsp Hole tsq) ta) in Hacc.
    rewrite <- plug_ccomp in Hacc. rewrite (Hn ta tb Hta Htb) in Hacc. rewrite plug_ccomp in Hacc.
    apply accepts_defined in Hacc. destruct Hacc as [p Hp].
    apply (run_plug_defined leqb qeqb) in Hp. destruct Hp as [d' Hd']. cbn [plug] in Hd'.
    pose proof Hd' as Hd''. rewrite run_eq in Hd''.
    rewrite (omapo_app_mid _ _ _ _ _ _ _ H1 Htb H3) in Hd''.
    exists d'. split; [eapply read_in; eauto|].
    assert (Hnd : nerode d d').
    { intros t1 t2 Ht1 Ht2 c0.
      rewrite (accepts_plug_congr leqb qeqb A c0 t1 (Node l (tsp ++ ta :: tsq))) by congruence.
      rewrite (accepts_plug_congr leqb qeqb A c0 t2 (Node l (tsp ++ tb :: tsq))) by congruence.
      change (Node l (tsp ++ ta :: tsq)) with (plug (CNode l tsp Hole tsq) ta).
      change (Node l (tsp ++ tb :: tsq)) with (plug (CNode l tsp Hole tsq) tb).
      rewrite <- !plug_ccomp. apply Hn; auto. }
    symmetry. apply Hc; auto.
    - apply occurs_S0. eapply rule_dst_occurs; eauto.
    - apply occurs_S0. apply read_in in Hd''; auto. eapply rule_dst_occurs; eauto.
  Qed.

  Lemma nerode_sym a b : nerode a b -> nerode b a.
  Proof. intros H t1 t2 H1 H2 c. symmetry. apply H; auto. Qed.

  Lemma nerode_equivP (c : Q -> nat) :
    (forall a b, In a S0 -> In b S0 -> nerode a b -> c a = c b) ->
    forall a b, In a S0 -> In b S0 -> nerode a b -> equivP A c a b.
  Proof.
    intros Hc a b Ha Hb Hn. split; [apply nerode_hstep; auto|].
    apply nerode_hstep; auto. apply nerode_sym; auto.
  Qed.

  (** ** the states of the result *)
  Variable st : @mst Q.
  Hypothesis HI : Inv qeqb A S0 nerode st.
  Let h := class_name qeqb st.
  Let M := map_states leqb (list_eqb qeqb) h A.
  Let lspec := list_eqb_spec qeqb qeqb_spec.

  Lemma M_rules_in k v : In (k, v) (rules M) ->
    exists l args d, In ((l, args), d) (rules A) /\ k = (l, map h args) /\ v = h d.
  Proof.
    unfold M, map_states; cbn [rules]. intros H.
    pose proof (key_eqb_spec leqb (list_eqb qeqb) leqb_spec lspec) as kspec.
    assert (Hl : alookup (key_eqb leqb (list_eqb qeqb)) k
                   (dict_of_list (key_eqb leqb (list_eqb qeqb))
                      (map (fun r : (L * list Q) * Q => ((fst (fst r), map h (snd (fst r))), h (snd r))) (rules A))) = Some v).
    { apply alookup_nodup; auto. apply dict_of_list_nodup; auto. }
    apply dict_lookup_in in Hl; auto. apply in_map_iff in Hl. destruct Hl as [[[l args] d] [E Hin]].
    cbn in E. inversion E; subst. exists l, args, d. auto.
  Qed.

  Lemma M_occurs m : occurs M m -> exists q, occurs A q /\ m = h q.
  Proof.
    intros [H|[H|H]].
    - apply in_map_iff in H. destruct H as [[k v] [<- H]]. apply M_rules_in in H.
      destruct H as (l & args & d & Hin & -> & ->). exists d. split; [eapply rule_dst_occurs; eauto|reflexivity].
    - apply in_all_args_inv in H. destruct H as (l' & args' & d' & H & Hm). apply M_rules_in in H.
      destruct H as (l & args & d & Hin & E & ->). inversion E; subst.
      apply in_map_iff in Hm. destruct Hm as [a [<- Ha]]. exists a. split; [eapply rule_args_occur; eauto|reflexivity].
    - unfold M, map_states in H; cbn [finals] in H. apply in_map_iff in H. destruct H as [q [<- Hq]].
      exists q. split; [right; right; auto|reflexivity].
  Qed.

  Lemma nerode_same_name a b : In a S0 -> In b S0 -> nerode a b -> h a = h b.
  Proof.
    intros Ha Hb Hn. unfold h, class_name. rewrite (inv_R _ _ _ _ _ HI a b Ha Hb Hn). reflexivity.
  Qed.

  Section Other.
    Context {Q' : Type}.
    Variable eqb' : Q' -> Q' -> bool.
    Hypothesis eqb'_spec : forall a b, eqb' a b = true <-> a = b.
    Variable B : dfta L Q'.
    Hypothesis Hlang : forall t, Dfta.accepts leqb eqb' B t = accepts A t.

    Definition Rel (m : list Q) (b : Q') : Prop :=
      exists q t, m = h q /\ occurs A q /\ run A t = Some q /\ Dfta.run leqb eqb' B t = Some b.

    Lemma Rel_total m : occurs M m -> exists b, (exists t, Dfta.run leqb eqb' B t = Some b) /\ Rel m b.
    Proof.
      intros Hm. destruct (M_occurs m Hm) as [q [Hq ->]].
      destruct (Htrim q Hq) as [[t Ht] Hco]. destruct (coreach_ctx q Hco) as [c Hc].
      specialize (Hc t Ht). rewrite <- Hlang in Hc. apply accepts_defined in Hc. destruct Hc as [p Hp].
      apply (run_plug_defined leqb eqb') in Hp. destruct Hp as [b Hb].
      exists b. split; [eauto|]. exists q, t. auto.
    Qed.

    Lemma Rel_inj m1 m2 b : Rel m1 b -> Rel m2 b -> m1 = m2.
    Proof.
      intros (q1 & t1 & -> & Ho1 & Hr1 & Hb1) (q2 & t2 & -> & Ho2 & Hr2 & Hb2).
      apply nerode_same_name; [apply occurs_S0; auto|apply occurs_S0; auto|].
      intros t1' t2' H1 H2 c.
      rewrite (accepts_plug_congr leqb qeqb A c t1' t1) by congruence.
      rewrite (accepts_plug_congr leqb qeqb A c t2' t2) by congruence.
      rewrite <- !Hlang. apply accepts_plug_congr. congruence.
    Qed.

    (** [bs] only has to contain the states that [B] reaches on some tree *)
    Lemma minimal_count ms bs :
      NoDup ms -> (forall m, In m ms -> occurs M m) ->
      (forall t b, Dfta.run leqb eqb' B t = Some b -> In b bs) ->
      length ms <= length bs.
    Proof.
      intros Hn Hms Hbs. apply (inj_rel_length Rel); auto.
      - intros m Hm. destruct (Rel_total m (Hms m Hm)) as [b [[t Hb] Hr]]. exists b. eauto.
      - intros m1 m2 b _ _. apply Rel_inj.
    Qed.
  End Other.
End Minimal.

Section MinimalTheorem.
  Context {L Q : Type}.
  Variable leqb : L -> L -> bool.
  Variable qeqb : Q -> Q -> bool.
  Hypothesis leqb_spec : forall a b, leqb a b = true <-> a = b.
  Hypothesis qeqb_spec : forall a b, qeqb a b = true <-> a = b.

  (** No bottom-up automaton with a functional transition table and the same
      language has fewer states: any duplicate-free list of states of
      [minimise A] is at most as long as any list that contains the states [B]
      reaches on some tree. *)
  Theorem minimise_minimal (A : dfta L Q) : deterministic A -> trim leqb qeqb A ->
    exists M, minimise leqb qeqb A = Ok M /\
      forall (Q' : Type) (eqb' : Q' -> Q' -> bool), (forall a b, eqb' a b = true <-> a = b) ->
      forall B : dfta L Q',
        (forall t, accepts leqb eqb' B t = accepts leqb qeqb A t) ->
        forall ms bs, NoDup ms -> (forall m, In m ms -> occurs M m) ->
                      (forall t b, run leqb eqb' B t = Some b -> In b bs) ->
                      length ms <= length bs.
  Proof.
    intros Hd Ht.
    destruct (states_ok leqb qeqb leqb_spec qeqb_spec A Hd) as [S0 (ES & _ & _)].
    pose proof (trim_precheck leqb qeqb leqb_spec qeqb_spec A Hd S0 Ht ES) as Hp.
    destruct (min_classes_ok leqb qeqb leqb_spec qeqb_spec A Hd S0 (nerode leqb qeqb A) ES Hp) as [st (E & HI & _)].
    - apply nerode_equivP; auto.
    - apply nerode_final; auto.
    - exists (map_states leqb (list_eqb qeqb) (class_name qeqb st) A). split.
      + unfold minimise. rewrite E. reflexivity.
      + intros Q' eqb' Hs B Hlang ms bs. eapply minimal_count; eauto.
  Qed.

  (** the same with the model's own count: [len(M.states)] of the result is at
      most [len(B.states)] for every deterministic [B] with the same language *)
  Theorem minimise_minimal_states (A : dfta L Q) : deterministic A -> trim leqb qeqb A ->
    exists M sM, minimise leqb qeqb A = Ok M /\ states (list_eqb qeqb) M = Ok sM /\
      forall (Q' : Type) (eqb' : Q' -> Q' -> bool), (forall a b, eqb' a b = true <-> a = b) ->
      forall B : dfta L Q', deterministic B ->
        (forall t, accepts leqb eqb' B t = accepts leqb qeqb A t) ->
        forall sB, states eqb' B = Ok sB -> length sM <= length sB.
  Proof.
    intros Hd Ht. destruct (minimise_minimal A Hd Ht) as [M [EM Hmin]].
    pose proof (list_eqb_spec qeqb qeqb_spec) as lspec.
    assert (HdM : deterministic M).
    { pose proof (minimise_language_gen leqb qeqb leqb_spec qeqb_spec A Hd) as H. rewrite EM in H. tauto. }
    destruct (states_ok leqb (list_eqb qeqb) leqb_spec lspec M HdM) as [sM (EsM & _ & HtM)].
    exists M, sM. split; [exact EM|]. split; [exact EsM|].
    intros Q' eqb' Hs B HdB Hlang sB EsB.
    apply (Hmin Q' eqb' Hs B Hlang sM sB).
    - eapply states_nodup; eauto.
    - intros m Hm. destruct (HtM m Hm) as [t Hr]. left. eapply (run_is_dst leqb (list_eqb qeqb)); eauto.
    - intros t b Hr. eapply (states_complete leqb eqb'); eauto.
  Qed.
End MinimalTheorem.
