(** [minimise]: the refinement loop terminates within its fuel; it ends in a
    partition that is stable for [are_equivalent], separates final from
    non-final states and is coarser than every congruence given in advance;
    the quotient automaton accepts the same trees and is deterministic. *)
From Coq Require Import List Bool Arith Lia.
From PS Require Import Base.ListX Auto.Dfta Auto.DftaBase Auto.DftaReduce Auto.DftaOps.
Import ListNotations.

Section Equiv.
  Context {L Q : Type}.
  Variable leqb : L -> L -> bool.
  Variable qeqb : Q -> Q -> bool.
  Hypothesis leqb_spec : forall a b, leqb a b = true <-> a = b.
  Hypothesis qeqb_spec : forall a b, qeqb a b = true <-> a = b.
  Variable A : dfta L Q.
  Hypothesis Hdet : deterministic A.

  Notation rule := ((L * list Q) * Q)%type.

  Lemma positions_from_spec a args : forall k0 k,
    In k (positions_from qeqb k0 a args) <-> exists pre post, args = pre ++ a :: post /\ k = k0 + length pre.
  Proof.
    induction args as [|x r IH]; intros k0 k; cbn.
    - split; [intros []|]. intros (pre & post & E & _). destruct pre; discriminate.
    - destruct (qeqb x a) eqn:E.
      + apply qeqb_spec in E; subst x. cbn. rewrite IH. split.
        * intros [<-|(pre & post & -> & ->)].
          -- exists (@nil Q), r. cbn. split; [auto|lia].
          -- exists (a :: pre), post. cbn. split; [auto|lia].
        * intros (pre & post & E & ->). destruct pre as [|y pre]; cbn in *.
          -- left; lia.
          -- right. inversion E; subst. exists pre, post. split; [auto|lia].
      + rewrite IH. split.
        * intros (pre & post & -> & ->). exists (x :: pre), post. cbn. split; [auto|lia].
        * intros (pre & post & E' & ->). destruct pre as [|y pre]; cbn in *.
          -- inversion E'; subst. rewrite (proj2 (qeqb_spec a a) eq_refl) in E. discriminate.
          -- inversion E'; subst. exists pre, post. split; [auto|lia].
  Qed.

  Lemma replace_at_app (pre : list Q) a post b : replace_at (length pre) b (pre ++ a :: post) = pre ++ b :: post.
  Proof. induction pre as [|x r IH]; cbn; [reflexivity|]. rewrite IH. reflexivity. Qed.

  Lemma consumer_of_spec a (r : rule) k :
    In (r, k) (consumer_of qeqb A a) <->
    In r (rules A) /\ exists pre post, snd (fst r) = pre ++ a :: post /\ k = length pre.
  Proof.
    unfold consumer_of. rewrite in_flat_map. split.
    - intros [r' [Hr H]]. apply in_map_iff in H. destruct H as [k' [E Hk]]. inversion E; subst.
      apply positions_from_spec in Hk. cbn in Hk. auto.
    - intros [Hr H]. exists r. split; auto. apply in_map_iff. exists k. split; auto.
      apply positions_from_spec. exact H.
  Qed.

  (** Prop-level reading of [are_equivalent] for a class map [c] *)
  Definition hstep (c : Q -> nat) (a b : Q) : Prop :=
    forall l pre post d, In ((l, pre ++ a :: post), d) (rules A) ->
    exists d', In ((l, pre ++ b :: post), d') (rules A) /\ c d' = c d.
  Definition equivP (c : Q -> nat) (a b : Q) : Prop := hstep c a b /\ hstep c b a.

  Lemma half_equiv_spec s2c a b :
    half_equiv leqb qeqb A s2c a b = true <-> hstep (cls_of qeqb s2c) a b.
  Proof.
    unfold half_equiv. rewrite forallb_forall. split.
    - intros H l pre post d Hin.
      specialize (H (((l, pre ++ a :: post), d), length pre)). cbn in H.
      rewrite replace_at_app in H.
      destruct (read leqb qeqb A l (pre ++ b :: post)) as [d'|] eqn:E.
      + exists d'. split; [eapply read_in; eauto|]. apply Nat.eqb_eq. apply H.
        apply consumer_of_spec. split; [auto|]. exists pre, post. auto.
      + assert (false = true); [|discriminate]. apply H.
        apply consumer_of_spec. split; [auto|]. exists pre, post. auto.
    - intros H [[[l args] d] k] Hc. apply consumer_of_spec in Hc. destruct Hc as [Hin (pre & post & E & ->)].
      cbn in *. subst args. rewrite replace_at_app.
      destruct (H l pre post d Hin) as [d' [Hin' Ec]].
      rewrite (in_read leqb qeqb leqb_spec qeqb_spec A _ _ _ Hdet Hin'). apply Nat.eqb_eq. exact Ec.
  Qed.

  Lemma are_equivalent_spec s2c a b :
    are_equivalent leqb qeqb A s2c a b = true <-> equivP (cls_of qeqb s2c) a b.
  Proof. unfold are_equivalent, equivP. rewrite andb_true_iff, !half_equiv_spec. reflexivity. Qed.

  Lemma equivP_refl c a : equivP c a a.
  Proof. split; intros l pre post d H; exists d; auto. Qed.
  Lemma equivP_sym c a b : equivP c a b -> equivP c b a.
  Proof. intros [H1 H2]; split; auto. Qed.
  Lemma hstep_trans c x y z : hstep c x y -> hstep c y z -> hstep c x z.
  Proof.
    intros H1 H2 l pre post d Hin. destruct (H1 _ _ _ _ Hin) as [d' [Hin' E']].
    destruct (H2 _ _ _ _ Hin') as [d'' [Hin'' E'']]. exists d''. split; [auto|congruence].
  Qed.
  Lemma equivP_trans c x y z : equivP c x y -> equivP c y z -> equivP c x z.
  Proof. intros [H1 H2] [H3 H4]. split; eapply hstep_trans; eauto. Qed.

  Lemma equivP_ext c c' a b : (forall x y, c x = c y -> c' x = c' y) -> equivP c a b -> equivP c' a b.
  Proof.
    intros H [H1 H2]. split; intros l pre post d Hin.
    - destruct (H1 _ _ _ _ Hin) as [d' [H3 H4]]. exists d'; auto.
    - destruct (H2 _ _ _ _ Hin) as [d' [H3 H4]]. exists d'; auto.
  Qed.
End Equiv.

Section Refine.
  Context {L Q : Type}.
  Variable leqb : L -> L -> bool.
  Variable qeqb : Q -> Q -> bool.
  Hypothesis leqb_spec : forall a b, leqb a b = true <-> a = b.
  Hypothesis qeqb_spec : forall a b, qeqb a b = true <-> a = b.
  Variable A : dfta L Q.
  Hypothesis Hdet : deterministic A.
  Variable S0 : list Q.
  (** a relation that every class map coarser than it turns into [equivP]
      (for the language theorem: equality; for minimality: Nerode equivalence) *)
  Variable R : Q -> Q -> Prop.
  Hypothesis HR : forall c : Q -> nat,
    (forall a b, In a S0 -> In b S0 -> R a b -> c a = c b) ->
    forall a b, In a S0 -> In b S0 -> R a b -> equivP A c a b.

  Notation mst := (@mst Q).
  Notation cls st := (cls_of qeqb (s2c st)).
  Notation mem := (mem qeqb).
  Let mspec := mem_spec qeqb qeqb_spec.
  Let aeq := are_equivalent_spec leqb qeqb leqb_spec qeqb_spec A Hdet.

  Lemma cls_of_insert_all n' : forall ks m q,
    cls_of qeqb (fold_left (fun m q => ainsert qeqb q n' m) ks m) q = if mem q ks then n' else cls_of qeqb m q.
  Proof.
    induction ks as [|k r IH]; intros m q; cbn; [reflexivity|].
    rewrite IH. unfold cls_of. destruct (qeqb q k) eqn:E; cbn.
    - apply qeqb_spec in E; subst. rewrite (alookup_ainsert_same qeqb qeqb_spec).
      destruct (Dfta.mem qeqb k r); reflexivity.
    - rewrite (alookup_ainsert_other qeqb qeqb_spec); [reflexivity|].
      intros ->. rewrite (proj2 (qeqb_spec q q) eq_refl) in E. discriminate.
  Qed.

  Lemma nat_eqb_spec : forall a b, Nat.eqb a b = true <-> a = b.
  Proof. intros; apply Nat.eqb_eq. Qed.

  Lemma getc_insert i (l : list Q) c2s j :
    getc (ainsert Nat.eqb i l c2s) j = if i =? j then l else getc c2s j.
  Proof.
    unfold getc. destruct (i =? j) eqn:E.
    - apply Nat.eqb_eq in E; subst. rewrite (alookup_ainsert_same Nat.eqb nat_eqb_spec). reflexivity.
    - rewrite (alookup_ainsert_other Nat.eqb nat_eqb_spec); [reflexivity|].
      intros ->. rewrite Nat.eqb_refl in E. discriminate.
  Qed.

  Definition mu (c : Q -> nat) : nat :=
    length (filter (fun p : Q * Q => c (fst p) =? c (snd p)) (list_prod S0 S0)).
  Definition phi (st : mst) : nat := mu (cls st) + (if unfinished st then 1 else 0).

  Lemma mu_bound c : mu c <= length S0 * length S0.
  Proof. unfold mu. etransitivity; [apply filter_length|]. rewrite prod_length. lia. Qed.

  Record Inv (st : mst) : Prop := {
    inv_a : forall q, In q S0 -> In q (getc (c2s st) (cls st q));
    inv_b : forall j q, In q (getc (c2s st) j) -> In q S0 /\ cls st q = j;
    inv_n : forall q, cls st q <= cn st;
    inv_f : forall a b, In a S0 -> In b S0 -> cls st a = cls st b -> mem a (finals A) = mem b (finals A);
    inv_R : forall a b, In a S0 -> In b S0 -> R a b -> cls st a = cls st b
  }.

  Record SInv (st : mst) (i : nat) (cl : list Q) : Prop := {
    si_a : forall q, In q S0 ->
             (cls st q = i -> In q cl) /\ (cls st q <> i -> In q (getc (c2s st) (cls st q)));
    si_b : forall j q, j <> i -> In q (getc (c2s st) j) -> In q S0 /\ cls st q = j;
    si_c : forall q, In q cl -> In q S0 /\ cls st q = i;
    si_n : forall q, cls st q <= cn st;
    si_i : i <= cn st;
    si_f : forall a b, In a S0 -> In b S0 -> cls st a = cls st b -> mem a (finals A) = mem b (finals A);
    si_R : forall a b, In a S0 -> In b S0 -> R a b -> cls st a = cls st b
  }.

  Lemma Inv_SInv st i : Inv st -> i <= cn st -> SInv st i (getc (c2s st) i).
  Proof.
    intros [Ha Hb Hn Hf HRr] Hi. split; auto.
    intros q Hq. split; [intros <-; auto|intros _; auto].
  Qed.

  Section Step.
    Variable st : mst.
    Variable i : nat.
    Variables (rest : list Q) (rep : Q).
    Hypothesis HS : SInv st i (rest ++ [rep]).
    Let c := cls st.
    Let eq q := are_equivalent leqb qeqb A (s2c st) rep q.
    Let new_cls := rep :: filter eq rest.
    Let next := filter (fun q => negb (eq q)) rest.

    Lemma new_cls_in q : In q new_cls <-> In q (rest ++ [rep]) /\ equivP A c rep q.
    Proof.
      unfold new_cls. cbn. rewrite filter_In, in_app_iff. cbn. unfold eq. rewrite aeq. split.
      - intros [<-|[H1 H2]]; [split; [auto|apply equivP_refl]|auto].
      - intros [[H|[H|[]]] H2]; auto.
    Qed.

    Lemma next_in q : In q next <-> In q rest /\ ~ equivP A c rep q.
    Proof.
      unfold next. rewrite filter_In, negb_true_iff. unfold eq. split.
      - intros [H1 H2]. split; auto. intros H. apply aeq in H. congruence.
      - intros [H1 H2]. split; auto. destruct (are_equivalent _ _ _ _ _ _) eqn:E; auto. apply aeq in E. tauto.
    Qed.

    Lemma next_not_new q : In q next -> In q (rest ++ [rep]) /\ ~ In q new_cls.
    Proof.
      intros H. apply next_in in H. destruct H as [H1 H2]. split; [apply in_app_iff; auto|].
      intros H. apply new_cls_in in H. tauto.
    Qed.

    Lemma cls_split q : In q (rest ++ [rep]) -> In q new_cls \/ In q next.
    Proof.
      intros H. apply in_app_iff in H. destruct H as [H|[<-|[]]].
      - destruct (eq q) eqn:E.
        + left. right. apply filter_In; auto.
        + right. apply filter_In. rewrite E. auto.
      - left. left. auto.
    Qed.

    (** no element left over: class i is done *)
    Lemma step_done : next = [] ->
      Inv (mkMst (s2c st) (ainsert Nat.eqb i new_cls (c2s st)) (cn st) (unfinished st)) /\
      (forall a b, In a S0 -> In b S0 -> c a = i -> c b = i -> equivP A c a b).
    Proof.
      intros Hnext. destruct HS as [Ha Hb Hc Hn Hi Hf HRr].
      assert (Hall : forall q, In q (rest ++ [rep]) -> In q new_cls).
      { intros q Hq. destruct (cls_split q Hq) as [H|H]; auto. rewrite Hnext in H. destruct H. }
      split; [split; cbn [s2c c2s cn]|].
      - intros q Hq. rewrite getc_insert. destruct (Ha q Hq) as [H1 H2].
        destruct (i =? cls st q) eqn:E.
        + apply Nat.eqb_eq in E. apply Hall. auto.
        + apply Nat.eqb_neq in E. auto.
      - intros j q. rewrite getc_insert. destruct (i =? j) eqn:E.
        + apply Nat.eqb_eq in E; subst j. intros H. apply new_cls_in in H. destruct H as [H _]. auto.
        + apply Nat.eqb_neq in E. apply Hb; auto.
      - auto.
      - auto.
      - auto.
      - intros a b Ha0 Hb0 Ea Eb.
        assert (H1 : In a new_cls) by (apply Hall; apply (Ha a Ha0); auto).
        assert (H2 : In b new_cls) by (apply Hall; apply (Ha b Hb0); auto).
        apply new_cls_in in H1. apply new_cls_in in H2.
        eapply equivP_trans; [apply equivP_sym; apply H1|apply H2].
    Qed.

    (** a split: the elements equivalent to the representative get the fresh class id *)
    Let n' := S (cn st).
    Let st1 := mkMst (fold_left (fun m q => ainsert qeqb q n' m) new_cls (s2c st))
                     (ainsert Nat.eqb n' new_cls (c2s st)) n' true.

    Lemma cls1 q : cls st1 q = if mem q new_cls then n' else c q.
    Proof. unfold st1; cbn [s2c]. apply cls_of_insert_all. Qed.

    Lemma step_split y : In y next -> SInv st1 i next /\ mu (cls st1) < mu c.
    Proof.
      intros Hy. destruct HS as [Ha Hb Hc Hn Hi Hf HRr].
      assert (Hnew_c : forall q, In q new_cls -> In q S0 /\ c q = i).
      { intros q H. apply new_cls_in in H. apply Hc. tauto. }
      assert (Hfresh : forall q, c q <> n') by (intros q; specialize (Hn q); unfold c, n'; lia).
      assert (Hin' : i <> n') by (unfold n'; lia).
      assert (Hmono : forall a b, In a S0 -> In b S0 -> cls st1 a = cls st1 b -> c a = c b).
      { intros a b Ha0 Hb0. rewrite !cls1.
        destruct (mem a new_cls) eqn:Ea, (mem b new_cls) eqn:Eb; intros E.
        - apply mspec in Ea, Eb. destruct (Hnew_c _ Ea), (Hnew_c _ Eb). congruence.
        - exfalso. apply (Hfresh b). auto.
        - exfalso. apply (Hfresh a). auto.
        - auto. }
      split; [split|].
      - intros q Hq. rewrite cls1. unfold st1; cbn [c2s]. destruct (mem q new_cls) eqn:E.
        + split; [intros E'; exfalso; auto|]. intros _. rewrite getc_insert, Nat.eqb_refl. apply mspec; auto.
        + destruct (Ha q Hq) as [H1 H2]. split.
          * intros Eq. destruct (cls_split q (H1 Eq)) as [H|H]; auto. apply mspec in H. congruence.
          * intros Eq. rewrite getc_insert. destruct (n' =? c q) eqn:E'.
            -- apply Nat.eqb_eq in E'. exfalso. eapply Hfresh; eauto.
            -- auto.
      - intros j q Hj. unfold st1; cbn [c2s]. rewrite getc_insert, cls1. destruct (n' =? j) eqn:E.
        + apply Nat.eqb_eq in E; subst j. intros H. split; [apply Hnew_c; auto|].
          apply mspec in H. rewrite H. reflexivity.
        + intros H. destruct (Hb j q Hj H) as [H1 H2]. split; auto.
          destruct (mem q new_cls) eqn:E'; auto. apply mspec in E'. destruct (Hnew_c _ E'). unfold c in *. congruence.
      - intros q H. destruct (next_not_new q H) as [H1 H2]. destruct (Hc q H1) as [H3 H4]. split; auto.
        rewrite cls1. destruct (mem q new_cls) eqn:E; auto. apply mspec in E. tauto.
      - intros q. rewrite cls1. unfold st1; cbn [cn]. destruct (mem q new_cls); [lia|]. specialize (Hn q). unfold c, n'. lia.
      - unfold st1; cbn [cn]. unfold n'. lia.
      - intros a b Ha0 Hb0 E. apply Hf; auto.
      - intros a b Ha0 Hb0 Hab. rewrite !cls1.
        assert (Hab' : equivP A c a b) by (apply HR; auto).
        specialize (HRr a b Ha0 Hb0 Hab).
        destruct (mem a new_cls) eqn:Ea, (mem b new_cls) eqn:Eb; auto; exfalso.
        + apply mspec in Ea. destruct (Hnew_c _ Ea) as [_ Eca]. apply new_cls_in in Ea. destruct Ea as [_ Ea].
          assert (In b new_cls); [|apply mspec in H; congruence].
          apply new_cls_in. split; [apply (Ha b Hb0); unfold c in *; congruence|eapply equivP_trans; eauto].
        + apply mspec in Eb. destruct (Hnew_c _ Eb) as [_ Ecb]. apply new_cls_in in Eb. destruct Eb as [_ Eb].
          assert (In a new_cls); [|apply mspec in H; congruence].
          apply new_cls_in. split; [apply (Ha a Ha0); unfold c in *; congruence|].
          eapply equivP_trans; [exact Eb|apply equivP_sym; auto].
      - (* the measure *)
        unfold mu. destruct (next_not_new y Hy) as [Hy1 Hy2]. destruct (Hc y Hy1) as [Hy3 Hy4].
        assert (Hrep : In rep new_cls) by (left; auto). destruct (Hnew_c _ Hrep) as [Hr1 Hr2].
        apply (filter_length_lt _ _ _ (rep, y)).
        + intros [a b] Hin E. cbn in *. apply in_prod_iff in Hin. apply Nat.eqb_eq in E. apply Nat.eqb_eq.
          apply Hmono; tauto.
        + apply in_prod_iff; auto.
        + cbn. apply Nat.eqb_eq. unfold c in *. congruence.
        + cbn. rewrite !cls1. apply mspec in Hrep. rewrite Hrep.
          destruct (mem y new_cls) eqn:E; [apply mspec in E; tauto|].
          apply Nat.eqb_neq. intros E'. eapply Hfresh; eauto.
    Qed.
  End Step.

  Lemma split_loop_nil fuel i st : split_loop leqb qeqb fuel A i [] st = Some st.
  Proof. destruct fuel; reflexivity. Qed.

  Lemma split_loop_spec : forall fuel i cl st, cl <> [] -> length cl <= fuel -> SInv st i cl ->
    exists st', split_loop leqb qeqb fuel A i cl st = Some st' /\ Inv st' /\
      phi st' <= phi st /\ cn st <= cn st' /\
      (unfinished st = true -> unfinished st' = true) /\
      (unfinished st' = false ->
         s2c st' = s2c st /\ cn st' = cn st /\
         forall a b, In a S0 -> In b S0 -> cls st a = i -> cls st b = i -> equivP A (cls st) a b).
  Proof.
    induction fuel as [|fuel IH]; intros i cl st Hne Hlen HS.
    - destruct cl; [congruence|cbn in Hlen; lia].
    - destruct (rev cl) as [|rep rrest] eqn:Erev.
      { exfalso. apply Hne. rewrite <- (rev_involutive cl), Erev. reflexivity. }
      assert (Ecl : cl = rev rrest ++ [rep]) by (rewrite <- (rev_involutive cl), Erev; reflexivity).
      rewrite Ecl in HS.
      cbn [split_loop]. rewrite Erev. cbv zeta.
      destruct (filter (fun q => negb (are_equivalent leqb qeqb A (s2c st) rep q)) (rev rrest)) as [|y nx] eqn:Enext.
      + rewrite split_loop_nil.
        destruct (step_done st i (rev rrest) rep HS Enext) as [HI Heq].
        eexists. split; [reflexivity|]. split; [exact HI|].
        split; [unfold phi; cbn [s2c unfinished]; lia|]. split; [cbn [cn]; lia|].
        split; [cbn [unfinished]; auto|]. intros _. cbn [s2c cn]. auto.
      + assert (Hy : In y (filter (fun q => negb (are_equivalent leqb qeqb A (s2c st) rep q)) (rev rrest)))
          by (rewrite Enext; left; auto).
        destruct (step_split st i (rev rrest) rep HS y Hy) as [HS1 Hmu].
        rewrite Enext in HS1.
        match goal with |- exists st', split_loop _ _ _ _ _ ?nx0 ?s1 = _ /\ _ =>
          destruct (IH i nx0 s1) as [st' (E & HI & Hphi & Hcn & Hfl & _)] end.
        * discriminate.
        * assert (length (y :: nx) <= length (rev rrest)) by (rewrite <- Enext; apply filter_length).
          rewrite Ecl, app_length in Hlen. cbn in Hlen. lia.
        * exact HS1.
        * exists st'. split; [exact E|]. split; [exact HI|].
          cbn [cn unfinished] in *. specialize (Hfl eq_refl).
          split.
          { unfold phi in *. cbn [s2c unfinished] in Hphi. rewrite Hfl in *.
            match type of Hphi with _ <= mu ?c1 + 1 => assert (Hmu' : mu c1 < mu (cls st)) by exact Hmu end.
            destruct (unfinished st); lia. }
          split; [lia|]. split; [auto|]. intros Hf. congruence.
  Qed.

  (** one pass *)
  Definition stable (st : mst) : Prop :=
    forall a b, In a S0 -> In b S0 -> cls st a = cls st b -> equivP A (cls st) a b.

  Definition pass_step (ost : option mst) (i : nat) : option mst :=
    match ost with
    | None => None
    | Some st => let cl := getc (c2s st) i in split_loop leqb qeqb (length cl) A i cl st
    end.

  Lemma pass_fold_spec st0 : forall len k st,
    Inv st -> phi st <= mu (cls st0) -> cn st0 <= cn st -> k + len = S (cn st0) ->
    (unfinished st = false ->
       s2c st = s2c st0 /\ cn st = cn st0 /\
       forall a b, In a S0 -> In b S0 -> cls st a = cls st b -> cls st a < k -> equivP A (cls st0) a b) ->
    exists st', fold_left pass_step (seq k len) (Some st) = Some st' /\ Inv st' /\
      phi st' <= mu (cls st0) /\
      (unfinished st' = false -> s2c st' = s2c st0 /\ stable st').
  Proof.
    induction len as [|len IH]; intros k st HI Hphi Hcn Hk Hno.
    - cbn. exists st. split; [reflexivity|]. split; [exact HI|]. split; [exact Hphi|].
      intros Hf. destruct (Hno Hf) as (E1 & E2 & H). split; [exact E1|].
      intros a b Ha Hb Eab. pose proof (inv_n st HI a) as Hn. rewrite E1 in *. apply H; auto. lia.
    - cbn [seq fold_left]. unfold pass_step at 2.
      destruct (getc (c2s st) k) as [|x cl] eqn:Ecl.
      + cbn [length]. rewrite split_loop_nil. apply IH; auto; [lia|].
        intros Hf. destruct (Hno Hf) as (E1 & E2 & H). split; [exact E1|]. split; [exact E2|].
        intros a b Ha Hb Eab Hlt. assert (cls st a < k \/ cls st a = k) as [?|Ek] by lia; [apply H; auto|].
        exfalso. pose proof (inv_a st HI a Ha) as Hin. rewrite Ek, Ecl in Hin. destruct Hin.
      + assert (HS : SInv st k (x :: cl)) by (rewrite <- Ecl; apply Inv_SInv; [auto|lia]).
        destruct (split_loop_spec (length (x :: cl)) k (x :: cl) st) as [st1 (E & HI1 & Hphi1 & Hcn1 & Hfl1 & Hno1)];
          [discriminate|lia|exact HS|].
        rewrite E. apply IH; auto; [lia|lia|lia|].
        intros Hf. destruct (Hno1 Hf) as (E1 & E2 & H1).
        assert (Hf0 : unfinished st = false) by (destruct (unfinished st); auto; specialize (Hfl1 eq_refl); congruence).
        destruct (Hno Hf0) as (E3 & E4 & H3). split; [congruence|]. split; [congruence|].
        intros a b Ha Hb Eab Hlt. rewrite E1 in *.
        assert (cls st a < k \/ cls st a = k) as [?|Ek] by lia; [apply H3; auto|].
        rewrite <- E3. apply H1; auto. congruence.
  Qed.

  Lemma min_pass_spec st : Inv st ->
    exists st', min_pass leqb qeqb A st = Some st' /\ Inv st' /\
      (unfinished st' = true -> mu (cls st') < mu (cls st)) /\
      (unfinished st' = false -> stable st').
  Proof.
    intros HI. unfold min_pass.
    set (st0 := mkMst (s2c st) (c2s st) (cn st) false).
    assert (HI0 : Inv st0) by (destruct HI; split; auto).
    destruct (pass_fold_spec st0 (S (cn st0)) 0 st0) as [st' (E & HI' & Hphi & Hst)]; auto.
    - unfold phi; cbn. lia.
    - intros _. split; [auto|]. split; [auto|]. intros a b _ _ _ H. lia.
    - exists st'. split; [exact E|]. split; [exact HI'|]. split.
      + intros Hf. unfold phi in Hphi. rewrite Hf in Hphi. cbn [s2c st0] in Hphi. lia.
      + intros Hf. apply Hst; auto.
  Qed.

  Lemma min_loop_spec : forall fuel st, mu (cls st) < fuel -> Inv st ->
    exists st', min_loop leqb qeqb fuel A st = Ok st' /\ Inv st' /\ stable st'.
  Proof.
    induction fuel as [|fuel IH]; intros st Hmu HI; [lia|]. cbn [min_loop].
    destruct (min_pass_spec st HI) as [st1 (E & HI1 & H1 & H2)]. rewrite E.
    destruct (unfinished st1) eqn:Ef.
    - apply IH; auto. specialize (H1 eq_refl). lia.
    - exists st1. auto.
  Qed.

  (** the initial partition *)
  Hypothesis HRf : forall a b, In a S0 -> In b S0 -> R a b -> mem a (finals A) = mem b (finals A).

  Lemma cls_of_map (v : Q -> nat) (l : list Q) q :
    In q l -> cls_of qeqb (map (fun q => (q, v q)) l) q = v q.
  Proof.
    unfold cls_of. induction l as [|x r IH]; cbn; [tauto|].
    intros [->|H].
    - rewrite (proj2 (qeqb_spec q q) eq_refl). reflexivity.
    - destruct (qeqb q x) eqn:E; [apply qeqb_spec in E; subst; reflexivity|auto].
  Qed.

  Lemma cls_of_map_le (v : Q -> nat) (l : list Q) q n :
    (forall x, v x <= n) -> cls_of qeqb (map (fun q => (q, v q)) l) q <= n.
  Proof.
    intros Hv. unfold cls_of. induction l as [|x r IH]; cbn; [lia|].
    destruct (qeqb q x); [apply Hv|auto].
  Qed.

  Lemma init_cls q : In q S0 -> cls (min_init qeqb A S0) q = if mem q (finals A) then 1 else 0.
  Proof. intros H. unfold min_init; cbn [s2c]. apply (cls_of_map (fun q => if mem q (finals A) then 1 else 0)); auto. Qed.

  Lemma init_cls_le q : cls (min_init qeqb A S0) q <= 1.
  Proof.
    unfold min_init; cbn [s2c]. apply (cls_of_map_le (fun q => if mem q (finals A) then 1 else 0)).
    intros x. destruct (mem x (finals A)); lia.
  Qed.

  Lemma init_inv : Inv (min_init qeqb A S0).
  Proof.
    split.
    - intros q Hq. rewrite (init_cls q Hq). unfold min_init; cbn [c2s]. unfold getc.
      destruct (mem q (finals A)) eqn:E; cbn; apply filter_In; rewrite E; auto.
    - intros j q H.
      assert (Hq : In q S0 /\ (if mem q (finals A) then 1 else 0) = j).
      { unfold min_init in H; cbn [c2s] in H. unfold getc in H.
        destruct j as [|[|j]]; cbn in H; [| |destruct H]; apply filter_In in H; destruct H as [H1 H2]; (split; [auto|]).
        - apply negb_true_iff in H2. rewrite H2. reflexivity.
        - rewrite H2. reflexivity. }
      destruct Hq as [H1 H2]. split; [auto|]. rewrite (init_cls q H1). exact H2.
    - intros q. unfold min_init at 2; cbn [cn]. apply init_cls_le.
    - intros a b Ha Hb. rewrite (init_cls a Ha), (init_cls b Hb).
      destruct (mem a (finals A)), (mem b (finals A)); auto; discriminate.
    - intros a b Ha Hb Hab. rewrite (init_cls a Ha), (init_cls b Hb), (HRf a b Ha Hb Hab). reflexivity.
  Qed.

  Lemma min_loop_ok : exists st,
    min_loop leqb qeqb (S (length S0 * length S0)) A (min_init qeqb A S0) = Ok st /\ Inv st /\ stable st.
  Proof. apply min_loop_spec; [|apply init_inv]. pose proof (mu_bound (cls (min_init qeqb A S0))). lia. Qed.
End Refine.

(** * the quotient *)
Section Quotient.
  Context {L Q : Type}.
  Variable leqb : L -> L -> bool.
  Variable qeqb : Q -> Q -> bool.
  Hypothesis leqb_spec : forall a b, leqb a b = true <-> a = b.
  Hypothesis qeqb_spec : forall a b, qeqb a b = true <-> a = b.
  Variable A : dfta L Q.
  Hypothesis Hdet : deterministic A.

  Let mspec := mem_spec qeqb qeqb_spec.
  Let lspec := list_eqb_spec qeqb qeqb_spec.

  (** states occurring in the rules are in [states A] when the precheck passes *)
  Lemma precheck_dom S0 : states qeqb A = Ok S0 -> min_precheck qeqb A S0 = true ->
    (forall q, dom A q -> In q S0) /\ (forall q, In q (finals A) -> In q S0).
  Proof.
    intros ES Hp. unfold min_precheck in Hp. apply andb_true_iff in Hp. destruct Hp as [Hp1 Hp2].
    rewrite forallb_forall in Hp1, Hp2.
    assert (Hargs : forall l args d, In ((l, args), d) (rules A) -> Forall (fun a => In a S0) args).
    { intros l args d Hin. specialize (Hp1 _ Hin). cbn in Hp1. rewrite forallb_forall in Hp1.
      apply Forall_forall. intros a Ha. apply mspec. auto. }
    destruct (states_ok leqb qeqb leqb_spec qeqb_spec A Hdet) as [R (ER & Hc & _)].
    rewrite ES in ER; inversion ER; subst R.
    split.
    - intros q [H|H].
      + apply in_map_iff in H. destruct H as [[[l args] d] [<- Hin]]. cbn. eapply Hc; eauto.
      + apply in_all_args_inv in H. destruct H as (l & args & d & Hin & Ha).
        specialize (Hargs _ _ _ Hin). rewrite Forall_forall in Hargs. auto.
    - intros q Hq. apply mspec. auto.
  Qed.

  Section WithR.
    Variable S0 : list Q.
    Variable R : Q -> Q -> Prop.
    Hypothesis HS0 : states qeqb A = Ok S0.
    Hypothesis Hpre : min_precheck qeqb A S0 = true.
    Hypothesis HR : forall c : Q -> nat,
      (forall a b, In a S0 -> In b S0 -> R a b -> c a = c b) ->
      forall a b, In a S0 -> In b S0 -> R a b -> equivP A c a b.
    Hypothesis HRf : forall a b, In a S0 -> In b S0 -> R a b -> mem qeqb a (finals A) = mem qeqb b (finals A).

    Lemma min_classes_ok : exists st,
      min_classes leqb qeqb A = Ok (S0, st) /\ Inv qeqb A S0 R st /\ stable qeqb A S0 st.
    Proof.
      unfold min_classes. rewrite HS0. cbn [rbind]. rewrite Hpre.
      destruct (min_loop_ok leqb qeqb leqb_spec qeqb_spec A Hdet S0 R HR HRf) as [st (E & HI & Hst)].
      rewrite E. cbn [rbind]. exists st. auto.
    Qed.

    Variable st : @mst Q.
    Hypothesis HI : Inv qeqb A S0 R st.
    Hypothesis Hst : stable qeqb A S0 st.

    Let h := class_name qeqb st.

    Lemma h_cls a b : In a S0 -> In b S0 -> h a = h b -> cls_of qeqb (s2c st) a = cls_of qeqb (s2c st) b.
    Proof.
      intros Ha Hb E. unfold h, class_name in E.
      pose proof (inv_a _ _ _ _ _ HI a Ha) as H. rewrite E in H.
      apply (inv_b _ _ _ _ _ HI) in H. destruct H as [_ H]. auto.
    Qed.

    Lemma cls_h a b : cls_of qeqb (s2c st) a = cls_of qeqb (s2c st) b -> h a = h b.
    Proof. intros E. unfold h, class_name. rewrite E. reflexivity. Qed.

    Lemma quotient_final a b : dom A a -> In b (finals A) -> h a = h b -> In a (finals A).
    Proof.
      intros Ha Hb E. destruct (precheck_dom S0 HS0 Hpre) as [Hd Hf].
      apply h_cls in E; auto. apply (inv_f _ _ _ _ _ HI) in E; auto.
      apply mspec. rewrite E. apply mspec; auto.
    Qed.

    Lemma quotient_step l pre a post d b :
      In ((l, pre ++ a :: post), d) (rules A) -> dom A b -> h a = h b ->
      exists d', In ((l, pre ++ b :: post), d') (rules A) /\ h d' = h d.
    Proof.
      intros Hin Hb E. destruct (precheck_dom S0 HS0 Hpre) as [Hd Hf].
      assert (Ha : In a S0).
      { apply Hd. right. eapply in_all_args; eauto. apply in_app_iff; cbn; auto. }
      apply h_cls in E; auto. destruct (Hst a b Ha (Hd b Hb) E) as [H1 _].
      destruct (H1 _ _ _ _ Hin) as [d' [Hin' Ec]]. exists d'. split; [auto|apply cls_h; auto].
    Qed.

    Theorem quotient_run t :
      run leqb (list_eqb qeqb) (map_states leqb (list_eqb qeqb) h A) t = option_map h (run leqb qeqb A t).
    Proof. apply map_states_run; auto; try apply quotient_final; apply quotient_step. Qed.

    Theorem quotient_accepts t :
      accepts leqb (list_eqb qeqb) (map_states leqb (list_eqb qeqb) h A) t = accepts leqb qeqb A t.
    Proof. apply map_states_accepts; auto; try apply quotient_final; apply quotient_step. Qed.
  End WithR.

  (** ** language of [minimise] *)
  Theorem minimise_language_gen :
    match minimise leqb qeqb A with
    | Ok M => deterministic M /\ forall t, accepts leqb (list_eqb qeqb) M t = accepts leqb qeqb A t
    | OutOfFuel => False
    | KeyErr => exists S0, states qeqb A = Ok S0 /\ min_precheck qeqb A S0 = false
    end.
  Proof.
    destruct (states_ok leqb qeqb leqb_spec qeqb_spec A Hdet) as [S0 (ES & _ & _)].
    destruct (min_precheck qeqb A S0) eqn:Hp.
    - destruct (min_classes_ok S0 eq ES Hp) as [st (E & HI & Hst)].
      + intros c _ a b _ _ <-. apply equivP_refl.
      + intros a b _ _ <-. reflexivity.
      + unfold minimise. rewrite E. cbn [rbind snd]. split.
        * apply map_states_det; auto.
        * intros t. eapply quotient_accepts; eauto.
    - unfold minimise, min_classes. rewrite ES. cbn [rbind]. rewrite Hp. cbn. exists S0. auto.
  Qed.

  Lemma trim_precheck S0 : trim leqb qeqb A -> states qeqb A = Ok S0 -> min_precheck qeqb A S0 = true.
  Proof.
    intros Ht ES. unfold min_precheck. apply andb_true_iff. split.
    - apply forallb_forall. intros [[l args] d] Hin. cbn. apply forallb_forall. intros a Ha. apply mspec.
      destruct (Ht a) as [[t Hr] _]; [right; left; eapply in_all_args; eauto|].
      exact (states_complete leqb qeqb leqb_spec qeqb_spec A S0 t a Hdet ES Hr).
    - apply forallb_forall. intros q Hq. apply mspec.
      destruct (Ht q) as [[t Hr] _]; [right; right; auto|].
      exact (states_complete leqb qeqb leqb_spec qeqb_spec A S0 t q Hdet ES Hr).
  Qed.

  Theorem minimise_language : trim leqb qeqb A ->
    exists M, minimise leqb qeqb A = Ok M /\ deterministic M /\
              forall t, accepts leqb (list_eqb qeqb) M t = accepts leqb qeqb A t.
  Proof.
    intros Ht. pose proof minimise_language_gen as H.
    destruct (minimise leqb qeqb A) as [M| |] eqn:E.
    - exists M. tauto.
    - destruct H.
    - destruct H as [S0 [ES Hp]]. rewrite (trim_precheck S0 Ht ES) in Hp. discriminate.
  Qed.
End Quotient.
