(** [map_states] along a map that respects the transitions (injective maps and
    the class map of [minimise] are instances), and [read_product]. *)
From Coq Require Import List Bool Arith Lia.
From PS Require Import Base.ListX Auto.Dfta Auto.DftaBase Auto.DftaReduce.
Import ListNotations.

Lemma pair_eqb_spec {X Y} (ex : X -> X -> bool) (ey : Y -> Y -> bool) :
  (forall a b, ex a b = true <-> a = b) -> (forall a b, ey a b = true <-> a = b) ->
  forall a b, pair_eqb ex ey a b = true <-> a = b.
Proof.
  intros Hx Hy [a1 a2] [b1 b2]. unfold pair_eqb; cbn. rewrite andb_true_iff, Hx, Hy.
  split; [intros [-> ->]; reflexivity|intros E; inversion E; auto].
Qed.

Lemma combine_inj {X Y} (a a' : list X) (b b' : list Y) :
  length a = length b -> length a' = length b' -> combine a b = combine a' b' -> a = a' /\ b = b'.
Proof.
  revert a' b b'; induction a as [|x r IH]; intros [|x' r'] [|y s] [|y' s']; cbn; try discriminate; auto.
  intros H1 H2 E. inversion E; subst. destruct (IH r' s s') as [-> ->]; auto.
Qed.

Section MapStatesProofs.
  Context {L Q Q' : Type}.
  Variable leqb : L -> L -> bool.
  Variable qeqb : Q -> Q -> bool.
  Variable qeqb' : Q' -> Q' -> bool.
  Hypothesis leqb_spec : forall a b, leqb a b = true <-> a = b.
  Hypothesis qeqb_spec : forall a b, qeqb a b = true <-> a = b.
  Hypothesis qeqb'_spec : forall a b, qeqb' a b = true <-> a = b.
  Variable f : Q -> Q'.
  Variable A : dfta L Q.
  Hypothesis Hdet : deterministic A.

  (** the states that occur in the rules *)
  Definition dom (q : Q) : Prop := In q (map snd (rules A)) \/ In q (all_args A).

  (** [f] respects finality and the transitions, one argument at a time *)
  Hypothesis f_final : forall a b, dom a -> In b (finals A) -> f a = f b -> In a (finals A).
  Hypothesis f_step : forall l pre a post d b,
    In ((l, pre ++ a :: post), d) (rules A) -> dom b -> f a = f b ->
    exists d', In ((l, pre ++ b :: post), d') (rules A) /\ f d' = f d.

  Let M := map_states leqb qeqb' f A.

  Lemma f_chain l : forall args2 args pre d2,
    In ((l, pre ++ args2), d2) (rules A) -> map f args2 = map f args -> Forall dom args ->
    exists d, In ((l, pre ++ args), d) (rules A) /\ f d = f d2.
  Proof.
    induction args2 as [|a r IH]; intros [|b r'] pre d2 Hin E Hdom; cbn in E; try discriminate.
    - exists d2; auto.
    - inversion E as [[E1 E2]]. inversion Hdom as [|? ? Hb Hr']; subst.
      destruct (f_step _ _ _ _ _ b Hin Hb E1) as [d' [Hin' Ed']].
      destruct (IH r' (pre ++ [b]) d') as [d [Hin'' Ed]]; auto.
      + rewrite <- app_assoc. exact Hin'.
      + exists d. rewrite <- app_assoc in Hin''. split; [exact Hin''|congruence].
  Qed.

  Lemma map_states_read l args : Forall dom args ->
    read leqb qeqb' M l (map f args) = option_map f (read leqb qeqb A l args).
  Proof.
    intros Hdom. unfold M, map_states, read; cbn.
    set (g := fun r : (L * list Q) * Q => ((fst (fst r), map f (snd (fst r))), f (snd r))).
    pose proof (key_eqb_spec leqb qeqb' leqb_spec qeqb'_spec) as kspec'.
    destruct (alookup (key_eqb leqb qeqb) (l, args) (rules A)) as [d|] eqn:E; cbn.
    - pose proof (read_in leqb qeqb leqb_spec qeqb_spec A l args d E) as Hin.
      apply dict_lookup_functional; auto.
      + apply in_map_iff. exists ((l, args), d). auto.
      + intros v' Hv'. apply in_map_iff in Hv'. destruct Hv' as [[[l2 args2] d2] [Eg Hin2]].
        unfold g in Eg; cbn in Eg. inversion Eg as [[E1 E2 E3]]; clear Eg. subst l2 v'.
        destruct (f_chain l args2 args [] d2 Hin2 E2 Hdom) as [d0 [Hin0 Ed0]]. cbn in Hin0.
        pose proof (in_read leqb qeqb leqb_spec qeqb_spec A _ _ _ Hdet Hin0) as R0.
        unfold read in R0. rewrite E in R0. inversion R0; subst. symmetry; exact Ed0.
    - apply dict_lookup_none; auto.
      intros v' Hv'. apply in_map_iff in Hv'. destruct Hv' as [[[l2 args2] d2] [Eg Hin2]].
      unfold g in Eg; cbn in Eg. inversion Eg as [[E1 E2 E3]]; clear Eg. subst l2 v'.
      destruct (f_chain l args2 args [] d2 Hin2 E2 Hdom) as [d0 [Hin0 Ed0]]. cbn in Hin0.
      pose proof (in_read leqb qeqb leqb_spec qeqb_spec A _ _ _ Hdet Hin0) as R0.
      unfold read in R0. congruence.
  Qed.

  Theorem map_states_run : forall t, run leqb qeqb' M t = option_map f (run leqb qeqb A t).
  Proof.
    intros t. induction t as [l ts IH] using tree_ind'. rewrite !run_eq.
    rewrite (omapo_map (run leqb qeqb A) f (run leqb qeqb' M) ts IH).
    destruct (omapo (run leqb qeqb A) ts) as [args|] eqn:E; cbn; [|reflexivity].
    apply map_states_read. apply omapo_some in E. clear -E leqb_spec qeqb_spec.
    induction E as [|t a ts args Ht _ IH]; constructor; auto.
    left. eapply run_is_dst; eauto.
  Qed.

  Theorem map_states_accepts : forall t, accepts leqb qeqb' M t = accepts leqb qeqb A t.
  Proof.
    intros t. unfold accepts. rewrite map_states_run.
    destruct (run leqb qeqb A t) as [q|] eqn:E; cbn; [|reflexivity].
    assert (Hq : dom q) by (left; eapply run_is_dst; eauto).
    destruct (mem qeqb q (finals A)) eqn:Ef.
    - apply (mem_spec qeqb' qeqb'_spec). apply in_map. apply (mem_spec qeqb qeqb_spec); auto.
    - match goal with |- ?x = false => destruct x eqn:Ef'; [|reflexivity] end.
      apply (mem_spec qeqb' qeqb'_spec) in Ef'. apply in_map_iff in Ef'. destruct Ef' as [b [Eb Hb]].
      assert (In q (finals A)) by (eapply f_final; eauto).
      apply (mem_spec qeqb qeqb_spec) in H. congruence.
  Qed.

  Lemma map_states_det : deterministic M.
  Proof.
    unfold deterministic, M, map_states; cbn. apply dict_of_list_nodup.
    apply key_eqb_spec; auto.
  Qed.
End MapStatesProofs.

Section MapInjective.
  Context {L Q Q' : Type}.
  Variable leqb : L -> L -> bool.
  Variable qeqb : Q -> Q -> bool.
  Variable qeqb' : Q' -> Q' -> bool.
  Hypothesis leqb_spec : forall a b, leqb a b = true <-> a = b.
  Hypothesis qeqb_spec : forall a b, qeqb a b = true <-> a = b.
  Hypothesis qeqb'_spec : forall a b, qeqb' a b = true <-> a = b.

  Theorem map_states_injective (f : Q -> Q') (A : dfta L Q) :
    deterministic A -> (forall a b, f a = f b -> a = b) ->
    forall t, run leqb qeqb' (map_states leqb qeqb' f A) t = option_map f (run leqb qeqb A t) /\
              accepts leqb qeqb' (map_states leqb qeqb' f A) t = accepts leqb qeqb A t.
  Proof.
    intros Hd Hinj t.
    assert (H1 : forall a b, dom A a -> In b (finals A) -> f a = f b -> In a (finals A)).
    { intros a b _ Hb E. apply Hinj in E. subst; auto. }
    assert (H2 : forall l pre a post d b,
      In ((l, pre ++ a :: post), d) (rules A) -> dom A b -> f a = f b ->
      exists d', In ((l, pre ++ b :: post), d') (rules A) /\ f d' = f d).
    { intros l pre a post d b Hin _ E. apply Hinj in E. subst. exists d; auto. }
    split.
    - apply map_states_run; auto.
    - apply map_states_accepts; auto.
  Qed.
End MapInjective.

Section ProductProofs.
  Context {L QA QB : Type}.
  Variable leqb : L -> L -> bool.
  Variable aeqb : QA -> QA -> bool.
  Variable beqb : QB -> QB -> bool.
  Hypothesis leqb_spec : forall a b, leqb a b = true <-> a = b.
  Hypothesis aeqb_spec : forall a b, aeqb a b = true <-> a = b.
  Hypothesis beqb_spec : forall a b, beqb a b = true <-> a = b.
  Variable A : dfta L QA.
  Variable B : dfta L QB.
  Hypothesis HdA : deterministic A.
  Hypothesis HdB : deterministic B.

  Let P := read_product leqb aeqb beqb A B.
  Let pspec := pair_eqb_spec aeqb beqb aeqb_spec beqb_spec.

  Definition pair_opt {X Y} (a : option X) (b : option Y) : option (X * Y) :=
    match a, b with Some x, Some y => Some (x, y) | _, _ => None end.

  Definition prod_list : list ((L * list (QA * QB)) * (QA * QB)) :=
    flat_map (fun r1 : (L * list QA) * QA =>
      flat_map (fun r2 : (L * list QB) * QB =>
        if negb (length (snd (fst r1)) =? length (snd (fst r2))) || negb (leqb (fst (fst r1)) (fst (fst r2)))
        then []
        else [((fst (fst r1), combine (snd (fst r1)) (snd (fst r2))), (snd r1, snd r2))])
        (rules B))
      (rules A).

  Lemma prod_list_in k v : In (k, v) prod_list <->
    exists l xs ys d1 d2, In ((l, xs), d1) (rules A) /\ In ((l, ys), d2) (rules B) /\ length xs = length ys /\
                          k = (l, combine xs ys) /\ v = (d1, d2).
  Proof.
    unfold prod_list. rewrite in_flat_map. split.
    - intros [[[l1 xs] d1] [H1 H]]. apply in_flat_map in H. destruct H as [[[l2 ys] d2] [H2 H]]. cbn in H.
      destruct (length xs =? length ys) eqn:El; cbn in H; [|tauto].
      destruct (leqb l1 l2) eqn:Ell; cbn in H; [|tauto].
      destruct H as [H|[]]. inversion H; subst. apply leqb_spec in Ell; subst. apply Nat.eqb_eq in El.
      exists l2, xs, ys, d1, d2. auto.
    - intros (l & xs & ys & d1 & d2 & H1 & H2 & El & -> & ->).
      exists ((l, xs), d1). split; [auto|]. apply in_flat_map. exists ((l, ys), d2). split; [auto|]. cbn.
      apply Nat.eqb_eq in El. rewrite El. replace (leqb l l) with true by (symmetry; apply leqb_spec; auto).
      cbn. auto.
  Qed.

  Lemma product_read l xs ys : length xs = length ys ->
    read leqb (peqb aeqb beqb) P l (combine xs ys) = pair_opt (read leqb aeqb A l xs) (read leqb beqb B l ys).
  Proof.
    intros El. unfold P, read_product, read; cbn. fold prod_list.
    pose proof (key_eqb_spec leqb (peqb aeqb beqb) leqb_spec pspec) as kspec.
    destruct (alookup (key_eqb leqb aeqb) (l, xs) (rules A)) as [d1|] eqn:E1;
      [destruct (alookup (key_eqb leqb beqb) (l, ys) (rules B)) as [d2|] eqn:E2|]; cbn.
    - pose proof (read_in leqb aeqb leqb_spec aeqb_spec A _ _ _ E1) as H1.
      pose proof (read_in leqb beqb leqb_spec beqb_spec B _ _ _ E2) as H2.
      apply dict_lookup_functional; auto.
      + apply prod_list_in. exists l, xs, ys, d1, d2. auto.
      + intros v' Hv'. apply prod_list_in in Hv'.
        destruct Hv' as (l' & xs' & ys' & d1' & d2' & H1' & H2' & El' & Ek & ->).
        inversion Ek; subst. destruct (combine_inj _ _ _ _ El El' H3) as [-> ->].
        pose proof (in_read leqb aeqb leqb_spec aeqb_spec A _ _ _ HdA H1') as R1.
        pose proof (in_read leqb beqb leqb_spec beqb_spec B _ _ _ HdB H2') as R2.
        unfold read in R1, R2. congruence.
    - apply dict_lookup_none; auto. intros v' Hv'. apply prod_list_in in Hv'.
      destruct Hv' as (l' & xs' & ys' & d1' & d2' & H1' & H2' & El' & Ek & ->).
      inversion Ek; subst. destruct (combine_inj _ _ _ _ El El' H1) as [-> ->].
      pose proof (in_read leqb beqb leqb_spec beqb_spec B _ _ _ HdB H2') as R2.
      unfold read in R2. congruence.
    - apply dict_lookup_none; auto. intros v' Hv'. apply prod_list_in in Hv'.
      destruct Hv' as (l' & xs' & ys' & d1' & d2' & H1' & H2' & El' & Ek & ->).
      inversion Ek; subst. destruct (combine_inj _ _ _ _ El El' H1) as [-> ->].
      pose proof (in_read leqb aeqb leqb_spec aeqb_spec A _ _ _ HdA H1') as R1.
      unfold read in R1. congruence.
  Qed.

  Lemma omapo_pair {X Y1 Y2} (f : X -> option Y1) (g : X -> option Y2) (h : X -> option (Y1 * Y2)) l :
    Forall (fun x => h x = pair_opt (f x) (g x)) l ->
    omapo h l = match omapo f l, omapo g l with
                | Some xs, Some ys => Some (combine xs ys)
                | _, _ => None
                end.
  Proof.
    induction 1 as [|x r E _ IH]; cbn; [reflexivity|]. rewrite E, IH.
    destruct (f x), (g x); cbn; try reflexivity.
    - destruct (omapo f r), (omapo g r); reflexivity.
    - destruct (omapo f r); reflexivity.
  Qed.

  Theorem product_run : forall t,
    run leqb (peqb aeqb beqb) P t = pair_opt (run leqb aeqb A t) (run leqb beqb B t).
  Proof.
    intros t. induction t as [l ts IH] using tree_ind'. rewrite !run_eq.
    rewrite (omapo_pair (run leqb aeqb A) (run leqb beqb B) _ ts IH).
    destruct (omapo (run leqb aeqb A) ts) as [xs|] eqn:E1; [|reflexivity].
    destruct (omapo (run leqb beqb B) ts) as [ys|] eqn:E2.
    - apply product_read. apply omapo_length in E1. apply omapo_length in E2. congruence.
    - destruct (read leqb aeqb A l xs); reflexivity.
  Qed.

  Theorem product_accepts : forall t,
    accepts leqb (peqb aeqb beqb) P t = accepts leqb aeqb A t && accepts leqb beqb B t.
  Proof.
    intros t. unfold accepts. rewrite product_run.
    destruct (run leqb aeqb A t) as [a|]; cbn; [|reflexivity].
    destruct (run leqb beqb B t) as [b|]; cbn; [|rewrite andb_false_r; reflexivity].
    pose proof (mem_spec aeqb aeqb_spec) as ma. pose proof (mem_spec beqb beqb_spec) as mb.
    pose proof (mem_spec (peqb aeqb beqb) pspec) as mp.
    destruct (mem aeqb a (finals A)) eqn:Ea; [destruct (mem beqb b (finals B)) eqn:Eb|]; cbn.
    - apply mp. apply in_flat_map. exists a. split; [apply ma; auto|]. apply in_map. apply mb; auto.
    - match goal with |- ?x = false => destruct x eqn:E; [|reflexivity] end.
      apply mp in E. apply in_flat_map in E. destruct E as [a' [_ E]]. apply in_map_iff in E.
      destruct E as [b' [E Hb]]. inversion E; subst. apply mb in Hb. congruence.
    - match goal with |- ?x = false => destruct x eqn:E; [|reflexivity] end.
      apply mp in E. apply in_flat_map in E. destruct E as [a' [Ha E]]. apply in_map_iff in E.
      destruct E as [b' [E Hb]]. inversion E; subst. apply ma in Ha. congruence.
  Qed.

  Lemma product_det : deterministic P.
  Proof.
    unfold deterministic, P, read_product; cbn. apply dict_of_list_nodup. apply key_eqb_spec; auto.
  Qed.
End ProductProofs.
