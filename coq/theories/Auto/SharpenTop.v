(** C05_sharpen: the level-0 part of __process__ (sketch: final states; local
    constraint: rule filter) and the combination loop of add_dfta_constraints,
    discharged with the C07 theorems (reduce, read_product, minimise,
    map_states of Auto/Dfta*.v). *)
From Coq Require Import List Bool Arith Lia Permutation.
From PS Require Import Base.ListX Base.Ty Base.Value Base.Prog Auto.Dfta Auto.DftaBase Auto.DftaReduce Auto.DftaOps
  Auto.DftaProofs Gram.Cfg Gram.CfgProofs Auto.Sharpen Auto.SharpenBase Auto.SharpenOps Auto.SharpenProofs.
Import ListNotations.

Definition uaccepts : udfta -> tree sym -> bool := accepts sym_eqb ust_eqb.

(** the run only reads the rule table *)
Lemma srun_rules A B : rules A = rules B -> forall t, srun A t = srun B t.
Proof.
  intros E. induction t as [l ts IH] using tree_ind'. rewrite !srun_eq.
  rewrite (omapo_ext (srun A) (srun B) ts IH). unfold sread, read. rewrite E. reflexivity.
Qed.

Lemma saccepts_eq A t : saccepts A t = match srun A t with Some q => smem q (finals A) | None => false end.
Proof. reflexivity. Qed.

Lemma smem_filter p q l : smem q (filter p l) = p q && smem q l.
Proof.
  apply eq_true_iff_eq. rewrite andb_true_iff, !smem_spec, filter_In. tauto.
Qed.

Lemma top_pushes_vals tok t q : 0 < added tok -> Nat.eqb (top (pushes (vals tok t) q)) 1 = sat tok t.
Proof.
  intros Hp. unfold top. rewrite comps_pushes.
  assert (Hv := vals_head tok t Hp). assert (Hl := vals_length tok t).
  destruct (vals tok t) as [|c cs]; [cbn [length] in Hl; lia|]. cbn [app hd] in *. rewrite Hv.
  destruct (sat tok t); reflexivity.
Qed.

(** * sketch *)
Theorem process_top_sketch A tok : deterministic A ->
  exists A', process_top A tok false = Some A' /\ deterministic A' /\
             forall t, saccepts A' t = saccepts A t && sat tok t.
Proof.
  intros Hd.
  assert (G : forall tok, tok <> TAny ->
            let A' := mkDfta (rules (process tok A)) (filter (fun q => Nat.eqb (top q) 1) (finals (process tok A))) in
            deterministic A' /\ forall t, saccepts A' t = saccepts A t && sat tok t).
  { intros tk Hne A'. assert (H := process_extends tk A Hd). split; [apply H|].
    intros t. rewrite !saccepts_eq.
    rewrite (srun_rules A' (process tk A) eq_refl t), (extends_run _ _ _ _ t H).
    destruct (srun A t) as [q|] eqn:E; cbn [option_map]; [|reflexivity].
    unfold A'; cbn [finals]. rewrite smem_filter.
    destruct H as [_ [R [_ [F L]]]]. rewrite (F t _ (R t q E)). rewrite <- (L t), popn_pushes.
    rewrite andb_comm. f_equal.
    assert (Hp : 0 < added tk) by (destruct tk; cbn [added]; try lia; congruence).
    apply top_pushes_vals; exact Hp. }
  destruct tok; try (eexists; split; [reflexivity|apply G; discriminate]).
  exists A. split; [reflexivity|]. split; [exact Hd|]. intros t. cbn [sat]. rewrite andb_true_r. reflexivity.
Qed.

(** * local constraint *)
Lemma run_subtrees A l ts q : srun A (Node l ts) = Some q -> Forall (fun u => exists qu, srun A u = Some qu) ts.
Proof.
  rewrite srun_eq. destruct (omapo (srun A) ts) as [qs|] eqn:E; [|discriminate]. intros _.
  apply omapo_some in E. induction E; constructor; eauto.
Qed.

Lemma all_sub_ext (p p' : tree sym -> bool) (A : sdfta) : forall t,
  (forall u qu, srun A u = Some qu -> p u = p' u) ->
  forall q, srun A t = Some q -> all_sub p t = all_sub p' t.
Proof.
  induction t as [l ts IH] using tree_ind'. intros Hp q Hq. cbn [all_sub].
  rewrite (Hp _ _ Hq). f_equal.
  assert (Hs := run_subtrees A l ts q Hq). clear Hq.
  induction IH as [|u us Hu _ IHu]; cbn [forallb]; [reflexivity|].
  inversion Hs as [|? ? [qu Hqu] Hs']; subst. rewrite (Hu Hp qu Hqu), (IHu Hs'). reflexivity.
Qed.

Definition local_chk (heads : list sym) (Pl : sym) (_ : list st) (dst : st) : bool :=
  negb (inb Pl heads) || Nat.eqb (top dst) 1.

Lemma filter_by_tag tok heads A : deterministic A -> 0 < added tok ->
  deterministic (filter_rules (process tok A) (local_chk heads)) /\
  forall t, saccepts (filter_rules (process tok A) (local_chk heads)) t =
            saccepts A t && all_sub (fun u => negb (inb (root u) heads) || sat tok u) t.
Proof.
  intros Hd Hp. remember (process tok A) as P eqn:EqP.
  assert (H := process_extends tok A Hd). rewrite <- EqP in H. assert (DP : deterministic P) by apply H.
  split; [apply filter_det; exact DP|].
  intros t. rewrite !saccepts_eq. rewrite (filter_run P DP (local_chk heads) t).
  destruct (srun A t) as [q|] eqn:E.
  - destruct H as [_ [R [N [F L]]]]. assert (EP := R t q E).
    assert (Hall : all_sub (node_ok P (local_chk heads)) t = all_sub (fun u => negb (inb (root u) heads) || sat tok u) t).
    { apply (all_sub_ext _ _ P t) with (q := pushes (vals tok t) q); [|exact EP].
      intros [l us] qu Hqu. cbn [node_ok root]. rewrite Hqu.
      destruct (run_children P l us qu Hqu) as [qs [Eqs _]]. rewrite Eqs. unfold local_chk. f_equal.
      destruct (srun A (Node l us)) as [q0|] eqn:E0; [|rewrite (N _ E0) in Hqu; discriminate].
      rewrite (R _ q0 E0) in Hqu. injection Hqu as <-.
      apply top_pushes_vals. exact Hp. }
    rewrite Hall. destruct (all_sub (fun u => negb (inb (root u) heads) || sat tok u) t) eqn:Es;
      [|rewrite andb_false_r; reflexivity].
    rewrite andb_true_r, EP.
    assert (EF : srun (filter_rules P (local_chk heads)) t = Some (pushes (vals tok t) q)).
    { rewrite (filter_run P DP (local_chk heads) t), Hall. exact EP. }
    rewrite (filter_finals P (local_chk heads) t _ EF). rewrite (F t _ EP). rewrite <- (L t), popn_pushes. reflexivity.
  - destruct H as [_ [_ [N _]]]. rewrite (N t E). destruct (all_sub _ t); reflexivity.
Qed.

Theorem process_top_local A f args : deterministic A ->
  exists A', process_top A (TFun f args) true = Some A' /\ deterministic A' /\
             forall t, saccepts A' t = saccepts A t && sat_everywhere (TFun f args) t.
Proof.
  intros Hd. exists (filter_rules (process (TFun f args) A) (local_chk f)). split; [reflexivity|].
  assert (Hp : 0 < added (TFun f args)) by (rewrite added_fun; lia).
  destruct (filter_by_tag (TFun f args) f A Hd Hp) as [D L]. split; [exact D|]. intros t. rewrite (L t). reflexivity.
Qed.

(** * reduce; minimise; rename *)
Lemma cls_of_st_inj a b : cls_of_st a = cls_of_st b -> a = b.
Proof.
  unfold cls_of_st. intros E. inversion E as [E']. clear E.
  revert b E'; induction a as [|x a IH]; intros [|y b] E'; cbn in E'; try discriminate; [reflexivity|].
  inversion E'; subst. f_equal. apply IH; assumption.
Qed.

Lemma ulist_eqb_spec (a b : list ust) : list_eqb ust_eqb a b = true <-> a = b.
Proof. apply list_eqb_spec, ust_eqb_spec. Qed.
Lemma stlist_eqb_spec (a b : list st) : list_eqb st_eqb a b = true <-> a = b.
Proof. apply list_eqb_spec, st_eqb_spec. Qed.

Lemma red_min_st_ok a : deterministic a ->
  exists d, red_min_st a = SOk d /\ deterministic d /\ forall t, uaccepts d t = saccepts a t.
Proof.
  intros Hd. unfold red_min_st.
  destruct (reduce_correct sym_eqb st_eqb sym_eqb_spec st_eqb_spec a Hd) as [r [Er [Dr [Lr Tr]]]].
  rewrite Er. cbn [of_res sbind].
  destruct (minimise_correct sym_eqb st_eqb sym_eqb_spec st_eqb_spec r Dr Tr) as [m [Em [Dm Lm]]].
  rewrite Em. cbn [of_res sbind]. eexists. split; [reflexivity|]. split.
  - apply map_states_det; [apply sym_eqb_spec|apply ust_eqb_spec].
  - intros t. unfold uaccepts.
    destruct (map_states_injective sym_eqb (list_eqb st_eqb) ust_eqb sym_eqb_spec stlist_eqb_spec ust_eqb_spec
                cls_of_st m Dm cls_of_st_inj t) as [_ Ha].
    rewrite Ha, Lm, Lr. reflexivity.
Qed.

Lemma red_min_u_ok a : deterministic a ->
  exists d, red_min_u a = SOk d /\ deterministic d /\ forall t, uaccepts d t = uaccepts a t.
Proof.
  intros Hd. unfold red_min_u.
  destruct (reduce_correct sym_eqb ust_eqb sym_eqb_spec ust_eqb_spec a Hd) as [r [Er [Dr [Lr Tr]]]].
  rewrite Er. cbn [of_res sbind].
  destruct (minimise_correct sym_eqb ust_eqb sym_eqb_spec ust_eqb_spec r Dr Tr) as [m [Em [Dm Lm]]].
  rewrite Em. cbn [of_res sbind]. eexists. split; [reflexivity|]. split.
  - apply map_states_det; [apply sym_eqb_spec|apply ust_eqb_spec].
  - intros t. unfold uaccepts.
    destruct (map_states_injective sym_eqb (list_eqb ust_eqb) ust_eqb sym_eqb_spec ulist_eqb_spec ust_eqb_spec
                UCls m Dm (fun a b E => f_equal (fun u => match u with UCls l => l | _ => [] end) E) t) as [_ Ha].
    rewrite Ha, Lm, Lr. reflexivity.
Qed.

Definition cur_inv (cur : option udfta) : Prop := match cur with Some d => deterministic d | None => True end.
Definition cur_lang (cur : option udfta) (t : tree sym) : bool := match cur with Some d => uaccepts d t | None => true end.

Lemma pair_u_inj a b : pair_u a = pair_u b -> a = b.
Proof. destruct a, b; unfold pair_u; cbn. intros E; inversion E; reflexivity. Qed.

Lemma upair_eqb_spec (a b : ust * ust) : peqb ust_eqb ust_eqb a b = true <-> a = b.
Proof. apply pair_eqb_spec; apply ust_eqb_spec. Qed.

Theorem combine_step_ok cur a : cur_inv cur -> deterministic a ->
  exists d, combine_step cur a = SOk d /\ deterministic d /\
            forall t, uaccepts d t = cur_lang cur t && saccepts a t.
Proof.
  intros Hc Ha. destruct cur as [d0|]; cbn [combine_step cur_lang cur_inv] in *.
  - destruct (red_min_st_ok a Ha) as [ma [Ema [Dma Lma]]]. rewrite Ema. cbn [sbind].
    set (P := read_product sym_eqb ust_eqb ust_eqb d0 ma).
    assert (DP : deterministic P) by (apply product_det; [apply sym_eqb_spec|apply ust_eqb_spec|apply ust_eqb_spec]).
    set (M := map_states sym_eqb ust_eqb pair_u P).
    assert (DM : deterministic M) by (apply map_states_det; [apply sym_eqb_spec|apply ust_eqb_spec]).
    destruct (red_min_u_ok M DM) as [d [Ed [Dd Ld]]]. exists d. split; [exact Ed|]. split; [exact Dd|].
    intros t. rewrite Ld. unfold uaccepts, M.
    destruct (map_states_injective sym_eqb (peqb ust_eqb ust_eqb) ust_eqb sym_eqb_spec upair_eqb_spec ust_eqb_spec
                pair_u P DP pair_u_inj t) as [_ HM]. rewrite HM.
    destruct (product_correct sym_eqb ust_eqb ust_eqb sym_eqb_spec ust_eqb_spec ust_eqb_spec d0 ma Hc Dma t) as [_ HP].
    unfold P. rewrite HP. f_equal. apply Lma.
  - destruct (red_min_st_ok a Ha) as [ma [Ema [Dma Lma]]]. exists ma. split; [exact Ema|]. split; [exact Dma|].
    intros t. apply Lma.
Qed.

(** * the loop over the constraints *)
Lemma all_sub_true t : all_sub (fun _ => true) t = true.
Proof.
  induction t as [l ts IH] using tree_ind'. cbn [all_sub andb].
  induction IH as [|u us Hu _ IHu]; cbn [forallb]; [reflexivity|]. rewrite Hu, IHu. reflexivity.
Qed.

Lemma skipped_sat_everywhere tok t : skipped tok = true -> sat_everywhere tok t = true.
Proof.
  destruct tok as [| | | | | |f args]; cbn [skipped]; try discriminate; [reflexivity|].
  destruct f; [|discriminate]. intros _. cbn [sat_everywhere inb memb negb orb]. apply all_sub_true.
Qed.

Definition base_lang (base : sdfta) (cur : option udfta) (t : tree sym) : bool :=
  match cur with Some d => uaccepts d t | None => saccepts base t end.
Definition cur_inv2 (base : sdfta) (cur : option udfta) : Prop :=
  match cur with Some d => deterministic d /\ forall t, uaccepts d t = true -> saccepts base t = true | None => True end.

Theorem constraints_loop_ok base : deterministic base -> forall toks cur,
  forallb supported toks = true -> cur_inv2 base cur ->
  exists cur', constraints_loop base toks cur = SOk cur' /\ cur_inv2 base cur' /\
               forall t, base_lang base cur' t = base_lang base cur t && forallb (fun c => sat_everywhere c t) toks.
Proof.
  intros Hb. induction toks as [|tok toks IH]; intros cur Hs Hc.
  - exists cur. split; [reflexivity|]. split; [exact Hc|]. intros t. cbn [forallb]. rewrite andb_true_r. reflexivity.
  - cbn [forallb] in Hs. apply andb_true_iff in Hs. destruct Hs as [Hs1 Hs2]. cbn [constraints_loop].
    destruct (skipped tok) eqn:Esk.
    + destruct (IH cur Hs2 Hc) as [cur' [E [I L]]]. exists cur'. split; [exact E|]. split; [exact I|].
      intros t. rewrite (L t). cbn [forallb]. rewrite (skipped_sat_everywhere tok t Esk). reflexivity.
    + destruct tok as [| | | | | |f args]; cbn [supported skipped] in *; try discriminate.
      destruct (process_top_local base f args Hb) as [a [Ea [Da La]]]. rewrite Ea.
      assert (Hci : cur_inv cur) by (destruct cur; [apply Hc|exact I]).
      destruct (combine_step_ok cur a Hci Da) as [d [Ed [Dd Ld]]]. rewrite Ed. cbn [sbind].
      assert (Hd' : cur_inv2 base (Some d)).
      { split; [exact Dd|]. intros t Ht. rewrite Ld, La in Ht. apply andb_true_iff in Ht. destruct Ht as [_ Ht].
        apply andb_true_iff in Ht. tauto. }
      destruct (IH (Some d) Hs2 Hd') as [cur' [E [I' L]]]. exists cur'. split; [exact E|]. split; [exact I'|].
      intros t. rewrite (L t). cbn [base_lang forallb]. rewrite Ld, La.
      destruct cur as [d0|]; cbn [cur_lang base_lang].
      * destruct Hc as [_ Hsub]. specialize (Hsub t).
        destruct (uaccepts d0 t); cbn [andb]; [rewrite (Hsub eq_refl)|]; cbn [andb]; rewrite ?andb_assoc; reflexivity.
      * cbn [andb]. destruct (saccepts base t); cbn [andb]; rewrite ?andb_assoc; reflexivity.
Qed.

Lemma ubase_inj a b : UBase a = UBase b -> a = b.
Proof. intros E; inversion E; reflexivity. Qed.

(** * C05_sharpen on automata *)
Theorem add_constraints_ok base toks sketch :
  deterministic base -> forallb supported toks = true ->
  exists D, add_constraints base toks sketch = SOk D /\ deterministic D /\
    forall t, uaccepts D t = saccepts base t && forallb (fun c => sat_everywhere c t) toks && sat_root sketch t.
Proof.
  intros Hb Hs. unfold add_constraints.
  destruct (constraints_loop_ok base Hb toks None Hs I) as [cur [E [Ic L]]]. rewrite E. cbn [sbind].
  destruct sketch as [sk|]; cbn [sat_root].
  - destruct (process_top_sketch base sk Hb) as [a [Ea [Da La]]]. rewrite Ea.
    assert (Hci : cur_inv cur) by (destruct cur; [apply Ic|exact I]).
    destruct (combine_step_ok cur a Hci Da) as [d [Ed [Dd Ld]]]. exists d. split; [exact Ed|]. split; [exact Dd|].
    intros t. rewrite Ld, La. specialize (L t). cbn [base_lang] in L.
    destruct cur as [d0|]; cbn [cur_lang base_lang] in *.
    + rewrite L. destruct (saccepts base t); cbn [andb]; reflexivity.
    + rewrite <- L. destruct (saccepts base t); reflexivity.
  - destruct cur as [d0|].
    + exists d0. split; [reflexivity|]. split; [apply Ic|]. intros t. rewrite andb_true_r. apply (L t).
    + eexists. split; [reflexivity|]. split; [apply map_states_det; [apply sym_eqb_spec|apply ust_eqb_spec]|].
      intros t. rewrite andb_true_r. unfold uaccepts.
      destruct (map_states_injective sym_eqb st_eqb ust_eqb sym_eqb_spec st_eqb_spec ust_eqb_spec
                  UBase base Hb ubase_inj t) as [_ Ha].
      rewrite Ha. apply (L t).
Qed.
