(** Facts about the model of parsing.py (Auto/SpecParser.v): what an unknown
    name yields; parse (show pattern) on patterns without nesting; concrete
    instances of the silent drops of the pinned parser. *)
From Coq Require Import List Bool Arith NArith Lia.
From PS Require Import Base.ListX Base.Sexp Base.Ty Base.Value Base.Prog Auto.Dfta Gram.Cfg Auto.Sharpen Auto.SharpenBase
  Auto.SharpenTop Auto.SpecParser.
Import ListNotations.
Local Open Scope N_scope.

Lemma parse_spec_S f fx T spec0 :
  parse_spec (S f) fx T spec0 =
  finish fx (words_loop (parse_spec f fx T) fx T (S (length (prepare spec0))) (prepare spec0)).
Proof. reflexivity. Qed.

(** * characters *)
Definition specials : list N := ws ++ [40; 41; 123; 125; 91; 93; 44; 94; 35; 62; 60; 61].
Definition nmc (c : N) : bool := negb (memb N.eqb c specials).
(** a name: non-empty, made of ordinary characters, not the word "_" *)
Definition plain_name (w : str) : Prop := w <> [] /\ forallb nmc w = true /\ w <> [cUNDER].
Definition unknown (T : table) (w : str) : Prop :=
  (forall p, In p (tprims T) -> fst p <> w) /\ starts s_var w = false.

Lemma nmc_not c cs : nmc c = true -> (forall x, In x cs -> In x specials) -> memb N.eqb c cs = false.
Proof.
  unfold nmc. intros H Hs. destruct (memb N.eqb c cs) eqn:E; [|reflexivity].
  apply (memb_spec N.eqb N.eqb_eq) in E. apply Hs in E. apply (memb_spec N.eqb N.eqb_eq) in E.
  rewrite E in H. discriminate.
Qed.

Lemma str_eqb_spec (a b : str) : str_eqb a b = true <-> a = b.
Proof. apply list_eqb_spec. intros x y; apply N.eqb_eq. Qed.

Lemma str_eqb_neq a b : a <> b -> str_eqb a b = false.
Proof. intros H. destruct (str_eqb a b) eqn:E; [|reflexivity]. apply str_eqb_spec in E. contradiction. Qed.

(** * strip *)
Lemma lstrip_keep cs c r : memb N.eqb c cs = false -> lstrip cs (c :: r) = c :: r.
Proof. intros H. cbn [lstrip]. rewrite H. reflexivity. Qed.

Lemma lstrip_all cs a b : forallb (fun c => memb N.eqb c cs) a = true -> lstrip cs (a ++ b) = lstrip cs b.
Proof.
  induction a as [|c a IH]; cbn [forallb app lstrip]; [reflexivity|]. intros H. apply andb_true_iff in H.
  destruct H as [H1 H2]. rewrite H1. apply IH; exact H2.
Qed.

Definition first_ok (cs : list N) (s : str) : Prop := match s with c :: _ => memb N.eqb c cs = false | [] => False end.
Definition last_ok (cs : list N) (s : str) : Prop := first_ok cs (rev s).

Lemma lstrip_first_ok cs s : first_ok cs s -> lstrip cs s = s.
Proof. destruct s as [|c r]; [intros []|]. apply lstrip_keep. Qed.

(** strip removes the characters of [cs] around a core whose ends are not in [cs] *)
Lemma strip_core cs pre core post :
  forallb (fun c => memb N.eqb c cs) pre = true -> forallb (fun c => memb N.eqb c cs) post = true ->
  first_ok cs core -> last_ok cs core -> strip cs (pre ++ core ++ post) = core.
Proof.
  intros Hpre Hpost Hf Hl. unfold strip. rewrite (lstrip_all cs pre _ Hpre).
  rewrite (lstrip_first_ok cs (core ++ post)) by (destruct core; [destruct Hf|exact Hf]).
  rewrite rev_app_distr. rewrite lstrip_all.
  - rewrite (lstrip_first_ok cs (rev core) Hl). apply rev_involutive.
  - rewrite forallb_forall in *. intros x Hx. apply in_rev in Hx. auto.
Qed.

Lemma strip_id cs s : first_ok cs s -> last_ok cs s -> strip cs s = s.
Proof. intros Hf Hl. rewrite <- (strip_core cs [] s [] eq_refl eq_refl Hf Hl) at 2. rewrite app_nil_r. reflexivity. Qed.

Lemma first_ok_app cs a b : first_ok cs a -> first_ok cs (a ++ b).
Proof. destruct a; [intros []|auto]. Qed.
Lemma last_ok_app cs a b : last_ok cs b -> last_ok cs (a ++ b).
Proof. unfold last_ok. rewrite rev_app_distr. apply first_ok_app. Qed.
Lemma last_ok_snoc cs a c : memb N.eqb c cs = false -> last_ok cs (a ++ [c]).
Proof. intros H. unfold last_ok. rewrite rev_app_distr. exact H. Qed.

(** names *)
Lemma plain_first w cs : plain_name w -> (forall x, In x cs -> In x specials) -> first_ok cs w.
Proof.
  intros [Hne [Hall _]] Hs. destruct w as [|c r]; [congruence|]. cbn [forallb] in Hall.
  apply andb_true_iff in Hall. apply nmc_not; tauto.
Qed.

Lemma forallb_rev {X} (p : X -> bool) l : forallb p (rev l) = forallb p l.
Proof.
  apply eq_true_iff_eq. rewrite !forallb_forall. split; intros H x Hx; apply H.
  - apply in_rev in Hx. exact Hx.
  - apply in_rev. exact Hx.
Qed.

Lemma plain_last w cs : plain_name w -> (forall x, In x cs -> In x specials) -> last_ok cs w.
Proof.
  intros [Hne [Hall _]] Hs. unfold last_ok. rewrite <- forallb_rev in Hall.
  destruct (rev w) as [|c r] eqn:E.
  - apply (f_equal (@rev N)) in E. rewrite rev_involutive in E. cbn in E. congruence.
  - cbn [forallb] in Hall. apply andb_true_iff in Hall. apply nmc_not; tauto.
Qed.

Lemma sub_ws x : In x ws -> In x specials.
Proof. unfold specials. intros H. apply in_or_app. left; exact H. Qed.
Lemma sub_brackets x : In x [cLP; cRP; cLBRACE; cRBRACE; cLBRACK; cRBRACK] -> In x specials.
Proof. unfold specials. intros H. apply in_or_app. right. cbn in *. intuition. Qed.
Lemma sub_brackets4 x : In x [cLP; cRP; cLBRACE; cRBRACE] -> In x specials.
Proof. unfold specials. intros H. apply in_or_app. right. cbn in *. intuition. Qed.
Lemma sub_parens x : In x [cRP; cLP] -> In x specials.
Proof. unfold specials. intros H. apply in_or_app. right. cbn in *. intuition. Qed.

Lemma plain_strip w cs : plain_name w -> (forall x, In x cs -> In x specials) -> strip cs w = w.
Proof. intros Hp Hs. apply strip_id; [apply plain_first|apply plain_last]; auto. Qed.

Lemma plain_head_char w c r : plain_name w -> w = c :: r -> nmc c = true.
Proof. intros [_ [H _]] ->. cbn [forallb] in H. apply andb_true_iff in H. tauto. Qed.

Lemma nmc_neq c x : nmc c = true -> In x specials -> N.eqb c x = false.
Proof.
  intros H Hx. destruct (N.eqb c x) eqn:E; [|reflexivity]. apply N.eqb_eq in E. subst.
  unfold nmc in H. apply (memb_spec N.eqb N.eqb_eq) in Hx. rewrite Hx in H. discriminate.
Qed.

Ltac special := unfold specials, ws; cbn; intuition.

(** a plain name contains no separator *)
Lemma split_plain w : forallb nmc w = true -> split_on cCOMMA w = [w].
Proof.
  induction w as [|c r IH]; cbn [split_on forallb]; [reflexivity|]. intros H. apply andb_true_iff in H.
  destruct H as [Hc Hr]. rewrite (nmc_neq c cCOMMA Hc) by special. rewrite (IH Hr). reflexivity.
Qed.

(** * an unknown name *)
Lemma named_vars_not_var fx T w : starts s_var w = false -> named_vars fx T [w] = Some [].
Proof. intros H. cbn [named_vars]. rewrite H. reflexivity. Qed.

Lemma filter_none {X} (p : X -> bool) l : (forall x, In x l -> p x = false) -> filter p l = [].
Proof.
  induction l as [|x r IH]; cbn [filter]; [reflexivity|]. intros H. rewrite (H x (or_introl eq_refl)).
  apply IH. intros y Hy. apply H. right; exact Hy.
Qed.

Lemma s2d_unknown fx T w : plain_name w -> unknown T w -> str_to_derivable fx T w = Some [].
Proof.
  intros Hp [Hu Hv]. assert (Hp' := Hp). destruct Hp' as [Hne [Hall Hund]].
  assert (Hnamed : match named_vars fx T (dedup_str (split_on cCOMMA w)) with
                   | Some vs => Some (map snd (filter (fun p => in_names (fst p) (split_on cCOMMA w)) (tprims T)) ++ vs)
                   | None => None
                   end = Some []).
  { rewrite (split_plain w Hall). cbn [dedup_str in_names memb]. rewrite (named_vars_not_var fx T w Hv).
    rewrite filter_none; [reflexivity|]. intros p Hin. unfold in_names. cbn [memb]. rewrite orb_false_r.
    apply str_eqb_neq. apply Hu. exact Hin. }
  unfold str_to_derivable. destruct fx.
  - rewrite (plain_strip w _ Hp sub_brackets). rewrite (str_eqb_neq w [cUNDER] Hund).
    destruct w as [|c r]; [congruence|]. rewrite (nmc_neq c cCARET (plain_head_char _ c r Hp eq_refl)) by special.
    exact Hnamed.
  - rewrite (str_eqb_neq w [cUNDER] Hund). rewrite (plain_strip w _ Hp sub_brackets4). exact Hnamed.
Qed.

Theorem parser_unknown_symbol fx T w :
  plain_name w -> unknown T w ->
  interpret_word fx T w = Some (TAllow []) /\
  (forall t, sat (TAllow []) t = false) /\
  (forall args, skipped (TFun [] args) = true /\ forall t, sat_everywhere (TFun [] args) t = true).
Proof.
  intros Hp Hu. split; [|split].
  - unfold interpret_word. rewrite (plain_strip w ws Hp sub_ws).
    assert (Hp' := Hp). destruct Hp' as [Hne [Hall Hund]].
    destruct w as [|c r]; [congruence|].
    assert (Hc := plain_head_char _ c r Hp eq_refl).
    rewrite (nmc_neq c cCARET Hc) by special. rewrite (nmc_neq c cGT Hc) by special.
    rewrite (str_eqb_neq _ _ Hund). rewrite (nmc_neq c cHASH Hc) by special.
    rewrite (s2d_unknown fx T _ Hp Hu). reflexivity.
  - intros t. reflexivity.
  - intros args. split; [reflexivity|]. intros t. apply skipped_sat_everywhere. reflexivity.
Qed.

(** * numbers *)
Lemma digit_of_digit d : (d < 10)%nat -> digit_of (N.of_nat d + 48) = Some d.
Proof.
  intros H. unfold digit_of.
  assert (E1 : (48 <=? N.of_nat d + 48) = true) by (apply N.leb_le; lia).
  assert (E2 : (N.of_nat d + 48 <=? 57) = true) by (apply N.leb_le; lia).
  rewrite E1, E2. cbn [andb]. f_equal. lia.
Qed.

Fixpoint shiftf (f a n : nat) : nat :=
  if Nat.ltb n 10 then (10 * a + n)%nat
  else match f with O => (10 * a + n)%nat | S f' => (10 * shiftf f' a (Nat.div n 10) + Nat.modulo n 10)%nat end.

Lemma show_nat_fuel_S f n acc :
  show_nat_fuel (S f) n acc =
  if Nat.ltb n 10 then (N.of_nat (Nat.modulo n 10) + 48) :: acc
  else show_nat_fuel f (Nat.div n 10) ((N.of_nat (Nat.modulo n 10) + 48) :: acc).
Proof. reflexivity. Qed.

Lemma shiftf_S f a n :
  shiftf (S f) a n = if Nat.ltb n 10 then (10 * a + n)%nat else (10 * shiftf f a (Nat.div n 10) + Nat.modulo n 10)%nat.
Proof. reflexivity. Qed.

Lemma parse_show_fuel : forall f n rest a, (n <= f)%nat ->
  parse_digits a (show_nat_fuel (S f) n rest) = parse_digits (shiftf f a n) rest.
Proof.
  induction f as [|f IH]; intros n rest a Hn.
  - assert (n = 0)%nat by lia. subst. reflexivity.
  - rewrite (show_nat_fuel_S (S f) n rest), (shiftf_S f a n). destruct (Nat.ltb n 10) eqn:E.
    + apply Nat.ltb_lt in E. rewrite (Nat.mod_small n 10 E). cbn [parse_digits]. rewrite (digit_of_digit n E). reflexivity.
    + apply Nat.ltb_ge in E.
      assert (Hd : (Nat.div n 10 <= f)%nat).
      { assert (Nat.div n 10 < n)%nat by (apply Nat.div_lt; lia). lia. }
      rewrite (IH _ _ _ Hd). cbn [parse_digits].
      assert (Hm : (Nat.modulo n 10 < 10)%nat) by (apply Nat.mod_upper_bound; lia).
      rewrite (digit_of_digit _ Hm). reflexivity.
Qed.

Lemma shiftf_zero : forall f n, (n <= f)%nat -> shiftf f 0 n = n.
Proof.
  induction f as [|f IH]; intros n Hn.
  - assert (n = 0)%nat by lia. subst. reflexivity.
  - rewrite shiftf_S. destruct (Nat.ltb n 10) eqn:E; [lia|]. apply Nat.ltb_ge in E.
    assert (Hd : (Nat.div n 10 <= f)%nat).
    { assert (Nat.div n 10 < n)%nat by (apply Nat.div_lt; lia). lia. }
    rewrite (IH _ Hd). symmetry. apply Nat.div_mod_eq.
Qed.

Lemma show_nat_nonempty n : show_nat n <> [].
Proof.
  unfold show_nat. cbn [show_nat_fuel]. destruct (Nat.ltb n 10); [discriminate|].
  generalize (N.of_nat (Nat.modulo n 10) + 48). intros d.
  assert (G : forall f m acc, acc <> [] -> show_nat_fuel f m acc <> []).
  { induction f as [|f IH]; intros m acc Ha; cbn [show_nat_fuel]; [exact Ha|].
    destruct (Nat.ltb m 10); [discriminate|]. apply IH. discriminate. }
  apply G. discriminate.
Qed.

Theorem parse_show_nat n : parse_nat (show_nat n) = Some n.
Proof.
  unfold parse_nat. destruct (show_nat n) as [|c r] eqn:E; [exfalso; eapply show_nat_nonempty; eauto|].
  rewrite <- E. unfold show_nat. rewrite (parse_show_fuel n n [] 0 (le_n n)). cbn [parse_digits].
  rewrite shiftf_zero by lia. reflexivity.
Qed.

Definition is_digit (c : N) : bool := (48 <=? c) && (c <=? 57).

Lemma show_nat_digits n : forallb is_digit (show_nat n) = true.
Proof.
  unfold show_nat.
  assert (Hd : forall m, is_digit (N.of_nat (Nat.modulo m 10) + 48) = true).
  { intros m. assert (Nat.modulo m 10 < 10)%nat by (apply Nat.mod_upper_bound; lia).
    unfold is_digit. apply andb_true_iff. split; apply N.leb_le; lia. }
  assert (G : forall f m acc, forallb is_digit acc = true -> forallb is_digit (show_nat_fuel f m acc) = true).
  { induction f as [|f IH]; intros m acc Ha; cbn [show_nat_fuel]; [exact Ha|].
    destruct (Nat.ltb m 10); [cbn [forallb]; rewrite Hd, Ha; reflexivity|]. apply IH. cbn [forallb]. rewrite Hd, Ha. reflexivity. }
  apply G. reflexivity.
Qed.

(** * name lists *)
Fixpoint join (ns : list str) : str :=
  match ns with
  | [] => []
  | n :: r => match r with [] => n | _ => n ++ cCOMMA :: join r end
  end.

Definition wf_name (n : str) : Prop := plain_name n /\ (starts s_var n = true -> exists k, n = var_name k).
Definition wf_names (ns : list str) : Prop := ns <> [] /\ Forall wf_name ns.

(** characters of a name list: ordinary characters and commas *)
Definition nlc (c : N) : bool := nmc c || N.eqb c cCOMMA.

Lemma forallb_app {X} (p : X -> bool) a b : forallb p (a ++ b) = forallb p a && forallb p b.
Proof. induction a as [|x a IH]; cbn [forallb app]; [reflexivity|]. rewrite IH, andb_assoc. reflexivity. Qed.

Lemma forallb_imp {X} (p q : X -> bool) l : (forall x, p x = true -> q x = true) -> forallb p l = true -> forallb q l = true.
Proof. intros H. rewrite !forallb_forall. auto. Qed.

Lemma join_chars ns : Forall wf_name ns -> forallb nlc (join ns) = true.
Proof.
  induction 1 as [|n r [[_ [Hn _]] _] Hr IH]; [reflexivity|]. cbn [join].
  assert (Hn' : forallb nlc n = true) by (revert Hn; apply forallb_imp; intros x Hx; unfold nlc; rewrite Hx; reflexivity).
  destruct r as [|m r']; [exact Hn'|]. rewrite forallb_app. cbn [forallb]. rewrite Hn', IH. reflexivity.
Qed.

Lemma split_app_plain w rest : forallb nmc w = true ->
  split_on cCOMMA (w ++ cCOMMA :: rest) = w :: split_on cCOMMA rest.
Proof.
  induction w as [|c r IH]; cbn [app split_on forallb]; intros H.
  - rewrite N.eqb_refl. reflexivity.
  - apply andb_true_iff in H. destruct H as [Hc Hr]. rewrite (nmc_neq c cCOMMA Hc) by special. rewrite (IH Hr). reflexivity.
Qed.

Lemma split_join ns : wf_names ns -> split_on cCOMMA (join ns) = ns.
Proof.
  intros [Hne H]. revert Hne. induction H as [|n r [[_ [Hn _]] _] Hr IH]; intros Hne; [congruence|]. cbn [join].
  destruct r as [|m r']; [apply split_plain; exact Hn|]. rewrite (split_app_plain n _ Hn). rewrite IH by discriminate. reflexivity.
Qed.

Lemma join_first ns cs : wf_names ns -> (forall x, In x cs -> In x specials) -> first_ok cs (join ns).
Proof.
  intros [Hne H] Hs. destruct H as [|n r [Hp _] Hr]; [congruence|]. cbn [join].
  destruct r; [apply plain_first; auto|apply first_ok_app, plain_first; auto].
Qed.

Lemma join_last ns cs : wf_names ns -> (forall x, In x cs -> In x specials) -> last_ok cs (join ns).
Proof.
  intros [Hne H] Hs. revert Hne. induction H as [|n r [Hp _] Hr IH]; intros Hne; [congruence|]. cbn [join].
  destruct r as [|m r']; [apply plain_last; auto|].
  apply last_ok_app. change (cCOMMA :: join (m :: r')) with ([cCOMMA] ++ join (m :: r')). apply last_ok_app.
  apply IH. discriminate.
Qed.

Lemma join_not_under ns : wf_names ns -> join ns <> [cUNDER].
Proof.
  intros [Hne H]. destruct H as [|n r [[Hn [_ Hu]] _] Hr]; [congruence|]. cbn [join].
  destruct r as [|m r']; [exact Hu|]. destruct n as [|c n']; [congruence|].
  cbn [app]. intros E. inversion E as [[E1 E2]]. destruct n'; discriminate.
Qed.

Lemma join_head_char ns c r : wf_names ns -> join ns = c :: r -> nmc c = true.
Proof.
  intros [Hne H]. destruct H as [|n rest [Hp _] Hr]; [congruence|]. cbn [join].
  assert (Hp' := Hp). destruct Hp' as [Hn _]. destruct n as [|c0 n']; [congruence|].
  destruct rest; cbn [app]; intros E; inversion E; subst; eapply plain_head_char; eauto.
Qed.

(** * find *)
Lemma find_sub_none p0 p1 s : forallb (fun c => negb (N.eqb p0 c)) s = true -> find_sub [p0; p1] s = None.
Proof.
  induction s as [|c r IH]; cbn [find_sub starts forallb]; [reflexivity|]. intros H. apply andb_true_iff in H.
  destruct H as [Hc Hr]. apply negb_true_iff in Hc. rewrite Hc. cbn [andb]. rewrite (IH Hr). reflexivity.
Qed.

Lemma find_sub_skip p0 p1 pre rest : forallb (fun c => negb (N.eqb p0 c)) pre = true ->
  find_sub [p0; p1] (pre ++ rest) = option_map (fun i => (length pre + i)%nat) (find_sub [p0; p1] rest).
Proof.
  induction pre as [|c r IH]; cbn [app length forallb]; intros H.
  - destruct (find_sub [p0; p1] rest); reflexivity.
  - apply andb_true_iff in H. destruct H as [Hc Hr]. apply negb_true_iff in Hc.
    cbn [find_sub starts]. rewrite Hc. cbn [andb]. rewrite (IH Hr).
    destruct (find_sub [p0; p1] rest); reflexivity.
Qed.

Lemma find_sub_here p0 p1 r : find_sub [p0; p1] (p0 :: p1 :: r) = Some 0%nat.
Proof. cbn [find_sub starts]. rewrite !N.eqb_refl. reflexivity. Qed.

(** * patterns without nesting *)
Inductive nset : Type := NAny | NPos (ns : list str) | NNeg (ns : list str).
Inductive farg : Type :=
| FSet (s : nset)
| FCount (s : nset) (at_most : bool) (n : nat) (brackets : bool)
| FSub (s : nset) (forbid : bool).
Record fpat : Type := mkFpat { fhead : list str; fargs : list farg }.

Definition show_nset (s : nset) : str :=
  match s with NAny => [cUNDER] | NPos ns => join ns | NNeg ns => cCARET :: join ns end.
Definition show_arg_gen (closed : bool) (a : farg) : str :=
  match a with
  | FSet s => show_nset s
  | FCount s am n br =>
    cHASH :: (if br then cLBRACK else cLP) :: show_nset s
      ++ (if br then cRBRACK else cRP) :: (if am then cLT else cGT) :: cEQ :: show_nat n
  | FSub s fb => cGT :: (if fb then [cCARET] else []) ++ cLP :: show_nset s ++ (if closed then [cRP] else [])
  end.
Definition show_arg : farg -> str := show_arg_gen true.
Definition show_flat (pt : fpat) : str :=
  cLP :: join (fhead pt) ++ flat_map (fun a => cSP :: show_arg a) (fargs pt) ++ [cRP].

(** the documented meaning *)
Fixpoint vars_of (T : table) (names : list str) : list sym :=
  match names with
  | [] => []
  | el :: r =>
    (if starts s_var el
     then match parse_nat (skipn 3 el) with
          | Some k => map snd (filter (fun v => Nat.eqb (fst v) k) (tvars T))
          | None => []
          end
     else []) ++ vars_of T r
  end.
Definition names_syms (T : table) (ns : list str) : list sym :=
  map snd (filter (fun p => in_names (fst p) ns) (tprims T)) ++ vars_of T (dedup_str ns).
Definition set_syms (T : table) (s : nset) : list sym :=
  match s with NAny => all_symbols T | NPos ns => names_syms T ns | NNeg ns => complement T ns end.
Definition denote_arg (T : table) (a : farg) : token :=
  match a with
  | FSet NAny => TAny
  | FSet (NPos ns) => TAllow (names_syms T ns)
  | FSet (NNeg ns) =>
    if Nat.eqb (length (complement T ns)) (length (tprims T) + length (tvars T)) then TAny else TAllow (complement T ns)
  | FCount s am n _ => if am then TAtMost (set_syms T s) n else TAtLeast (set_syms T s) n
  | FSub s fb => if fb then TForbid (set_syms T s) else TForce (set_syms T s)
  end.
Definition denote_flat (T : table) (pt : fpat) : token :=
  TFun (names_syms T (fhead pt)) (map (denote_arg T) (fargs pt)).

Definition wf_nset (s : nset) : Prop :=
  match s with NAny => True | NPos ns => wf_names ns | NNeg ns => wf_names ns end.
Definition arg_set (a : farg) : nset := match a with FSet s => s | FCount s _ _ _ => s | FSub s _ => s end.
Definition wf_flat (T : table) (pt : fpat) : Prop :=
  wf_names (fhead pt) /\ Forall (fun a => wf_nset (arg_set a)) (fargs pt).

Lemma var_name_skip k : skipn 3 (var_name k) = show_nat k.
Proof. reflexivity. Qed.

Lemma named_vars_wf T names : Forall wf_name names -> named_vars true T names = Some (vars_of T names).
Proof.
  induction 1 as [|el r [_ Hv] Hr IH]; [reflexivity|]. cbn [named_vars vars_of].
  destruct (starts s_var el) eqn:E.
  - destruct (Hv eq_refl) as [k ->]. rewrite var_name_skip, parse_show_nat, IH. reflexivity.
  - rewrite IH. reflexivity.
Qed.

Lemma dedup_sub (l : list str) x : In x (dedup_str l) -> In x l.
Proof.
  induction l as [|y r IH]; cbn [dedup_str]; [auto|]. destruct (in_names y r); cbn [In]; intros H; [right; auto|].
  destruct H; [left; auto|right; auto].
Qed.

Lemma dedup_wf ns : Forall wf_name ns -> Forall wf_name (dedup_str ns).
Proof. rewrite !Forall_forall. intros H x Hx. apply H, dedup_sub, Hx. Qed.

Definition brackets : list N := [cLP; cRP; cLBRACE; cRBRACE; cLBRACK; cRBRACK].
Definition all_in (cs : list N) (s : str) : bool := forallb (fun c => memb N.eqb c cs) s.

Lemma nset_first s cs : wf_nset s -> (forall x, In x cs -> In x specials) ->
  memb N.eqb cUNDER cs = false -> memb N.eqb cCARET cs = false -> first_ok cs (show_nset s).
Proof.
  intros Hw Hs Hu Hc. destruct s as [|ns|ns]; cbn [show_nset first_ok]; auto.
  apply join_first; auto.
Qed.

Lemma nset_last s cs : wf_nset s -> (forall x, In x cs -> In x specials) ->
  memb N.eqb cUNDER cs = false -> last_ok cs (show_nset s).
Proof.
  intros Hw Hs Hu. destruct s as [|ns|ns]; cbn [show_nset].
  - exact Hu.
  - apply join_last; auto.
  - change (cCARET :: join ns) with ([cCARET] ++ join ns). apply last_ok_app, join_last; auto.
Qed.

(** a name set between brackets of any kind *)
Lemma s2d_nset T s pre post : wf_nset s -> all_in brackets pre = true -> all_in brackets post = true ->
  str_to_derivable true T (pre ++ show_nset s ++ post) = Some (set_syms T s).
Proof.
  intros Hw Hpre Hpost. unfold str_to_derivable.
  change [cLP; cRP; cLBRACE; cRBRACE; cLBRACK; cRBRACK] with brackets.
  rewrite (strip_core brackets pre (show_nset s) post Hpre Hpost);
    [|apply nset_first; auto using sub_brackets|apply nset_last; auto using sub_brackets].
  destruct s as [|ns|ns]; cbn [show_nset set_syms].
  - reflexivity.
  - rewrite (str_eqb_neq _ _ (join_not_under ns Hw)).
    destruct (join ns) as [|c r] eqn:E.
    + exfalso. destruct Hw as [Hne H]. destruct H as [|n rest [[Hn _] _] _]; [congruence|]. cbn [join] in E.
      destruct rest; destruct n; try congruence; discriminate.
    + rewrite (nmc_neq c cCARET (join_head_char ns c r Hw E)) by special. rewrite <- E.
      rewrite (split_join ns Hw). rewrite (named_vars_wf T _ (dedup_wf ns (proj2 Hw))). reflexivity.
  - cbn [str_eqb list_eqb]. replace (N.eqb cCARET cUNDER) with false by reflexivity. cbn [andb].
    rewrite N.eqb_refl. rewrite (split_join ns Hw). reflexivity.
Qed.

(** * __interpret_word__ on the shown forms *)
Definition count_branch (fx : bool) (T : table) (r : str) : option token :=
  let w := filter (fun x => negb (N.eqb x cSP)) r in
  match max_found (find_sub [cLT; cEQ] w) (find_sub [cGT; cEQ] w) with
  | None => None
  | Some i =>
    let most := match nth_error w i with Some x => N.eqb x cLT | None => false end in
    match str_to_derivable fx T (firstn i w), parse_nat (skipn (i + 2) w) with
    | Some content, Some n => Some (if most then TAtMost content n else TAtLeast content n)
    | _, _ => None
    end
  end.

Lemma interpret_hash fx T r : strip ws (cHASH :: r) = cHASH :: r ->
  interpret_word fx T (cHASH :: r) = count_branch fx T r.
Proof. intros E. unfold interpret_word. rewrite E. reflexivity. Qed.

Lemma interpret_gt fx T r : strip ws (cGT :: r) = cGT :: r ->
  interpret_word fx T (cGT :: r) =
  match r with
  | c' :: r' => if N.eqb c' cCARET then option_map TForbid (str_to_derivable fx T r')
                else option_map TForce (str_to_derivable fx T r)
  | [] => option_map TForce (str_to_derivable fx T r)
  end.
Proof. intros E. unfold interpret_word. rewrite E. reflexivity. Qed.

Lemma interpret_caret fx T r : strip ws (cCARET :: r) = cCARET :: r ->
  interpret_word fx T (cCARET :: r) =
  let out := complement T (split_on cCOMMA r) in
  if Nat.eqb (length out) (length (tprims T) + length (tvars T)) then Some TAny else Some (TAllow out).
Proof. intros E. unfold interpret_word. rewrite E. reflexivity. Qed.

Lemma interpret_plain fx T c r : strip ws (c :: r) = c :: r -> nmc c = true -> c :: r <> [cUNDER] ->
  interpret_word fx T (c :: r) = option_map TAllow (str_to_derivable fx T (c :: r)).
Proof.
  intros E Hc Hu. unfold interpret_word. rewrite E.
  rewrite (nmc_neq c cCARET Hc) by special. rewrite (nmc_neq c cGT Hc) by special.
  rewrite (str_eqb_neq _ _ Hu). rewrite (nmc_neq c cHASH Hc) by special. reflexivity.
Qed.

Lemma filter_id {X} (p : X -> bool) l : forallb p l = true -> filter p l = l.
Proof.
  induction l as [|x r IH]; cbn [filter forallb]; [reflexivity|]. intros H. apply andb_true_iff in H.
  destruct H as [Hx Hr]. rewrite Hx, (IH Hr). reflexivity.
Qed.

(** characters that are neither a space nor a comparison sign *)
Definition quiet (c : N) : bool := negb (N.eqb c cSP) && negb (N.eqb cLT c) && negb (N.eqb cGT c) && negb (N.eqb c cNL).

Lemma nlc_quiet c : nlc c = true -> quiet c = true.
Proof.
  unfold nlc, quiet. intros H. apply orb_true_iff in H. destruct H as [H|H].
  - rewrite (nmc_neq c cSP H) by special. rewrite (nmc_neq c cNL H) by special.
    assert (E1 : N.eqb cLT c = false) by (rewrite N.eqb_sym; apply nmc_neq; [exact H|special]).
    assert (E2 : N.eqb cGT c = false) by (rewrite N.eqb_sym; apply nmc_neq; [exact H|special]).
    rewrite E1, E2. reflexivity.
  - apply N.eqb_eq in H. subst. reflexivity.
Qed.

Lemma nset_quiet s : wf_nset s -> forallb quiet (show_nset s) = true.
Proof.
  destruct s as [|ns|ns]; cbn [show_nset wf_nset]; intros Hw; [reflexivity| |].
  - apply (forallb_imp nlc quiet _ nlc_quiet), join_chars, Hw.
  - cbn [forallb]. rewrite (forallb_imp nlc quiet _ nlc_quiet (join_chars ns (proj2 Hw))). reflexivity.
Qed.

Lemma digit_quiet c : is_digit c = true -> quiet c = true /\ N.eqb cEQ c = false /\ memb N.eqb c ws = false.
Proof.
  unfold is_digit. intros H. apply andb_true_iff in H. destruct H as [H1 H2].
  apply N.leb_le in H1, H2. unfold quiet.
  assert (E : forall x, (x < 48 \/ 57 < x) -> N.eqb c x = false /\ N.eqb x c = false).
  { intros x Hx. split; apply N.eqb_neq; lia. }
  destruct (E cSP) as [-> _]; [unfold cSP; lia|]. destruct (E cLT) as [_ ->]; [unfold cLT; lia|].
  destruct (E cGT) as [_ ->]; [unfold cGT; lia|]. destruct (E cNL) as [-> _]; [unfold cNL; lia|].
  destruct (E cEQ) as [_ ->]; [unfold cEQ; lia|]. split; [reflexivity|]. split; [reflexivity|].
  unfold ws. cbn [memb].
  repeat match goal with |- context [N.eqb c ?x] => destruct (E x) as [-> _]; [lia|] end. reflexivity.
Qed.

Lemma quiet_not p s : (p = cLT \/ p = cGT) -> forallb quiet s = true -> forallb (fun c => negb (N.eqb p c)) s = true.
Proof.
  intros Hp. apply forallb_imp. intros x Hx. unfold quiet in Hx. rewrite !andb_true_iff in Hx.
  destruct Hp as [-> | ->]; tauto.
Qed.

Lemma digits_last_ws ds pre : ds <> [] -> forallb is_digit ds = true -> last_ok ws (pre ++ ds).
Proof.
  intros Hne Hd. apply last_ok_app. unfold last_ok. rewrite <- forallb_rev in Hd.
  destruct (rev ds) as [|c r] eqn:E.
  - apply (f_equal (@rev N)) in E. rewrite rev_involutive in E. cbn in E. congruence.
  - cbn [forallb] in Hd. apply andb_true_iff in Hd. cbn [first_ok]. apply digit_quiet. tauto.
Qed.

Lemma firstn_app_exact {X} (a b : list X) : firstn (length a) (a ++ b) = a.
Proof. induction a as [|x a IH]; cbn; [destruct b; reflexivity|]. rewrite IH. reflexivity. Qed.
Lemma skipn_app_exact {X} (a b : list X) : skipn (length a) (a ++ b) = b.
Proof. induction a as [|x a IH]; cbn; [reflexivity|exact IH]. Qed.
Lemma nth_error_app_exact {X} (a b : list X) x : nth_error (a ++ x :: b) (length a) = Some x.
Proof. induction a as [|y a IH]; cbn; [reflexivity|exact IH]. Qed.

Lemma interp_count T s (am : bool) n (lb rb : N) : wf_nset s -> In lb [cLP; cLBRACK] -> In rb [cRP; cRBRACK] ->
  interpret_word true T (cHASH :: lb :: show_nset s ++ rb :: (if am then cLT else cGT) :: cEQ :: show_nat n) =
  Some (if am then TAtMost (set_syms T s) n else TAtLeast (set_syms T s) n).
Proof.
  intros Hw Hlb Hrb.
  set (op := if am then cLT else cGT). set (other := if am then cGT else cLT).
  set (pre := lb :: show_nset s ++ [rb]).
  assert (Er : lb :: show_nset s ++ rb :: op :: cEQ :: show_nat n = pre ++ op :: cEQ :: show_nat n).
  { unfold pre. cbn [app]. rewrite <- app_assoc. reflexivity. }
  assert (Hqlb : quiet lb = true) by (destruct Hlb as [<-|[<-|[]]]; reflexivity).
  assert (Hqrb : quiet rb = true) by (destruct Hrb as [<-|[<-|[]]]; reflexivity).
  assert (Hqpre : forallb quiet pre = true).
  { unfold pre. cbn [forallb]. rewrite forallb_app, Hqlb, (nset_quiet s Hw). cbn [forallb]. rewrite Hqrb. reflexivity. }
  assert (Hqd : forallb quiet (show_nat n) = true).
  { generalize (show_nat_digits n). apply forallb_imp. intros x Hx. apply digit_quiet; exact Hx. }
  assert (Hop : op = cLT \/ op = cGT) by (unfold op; destruct am; auto).
  assert (Hother : other = cLT \/ other = cGT) by (unfold other; destruct am; auto).
  rewrite interpret_hash.
  2:{ apply strip_id; [reflexivity|].
      replace (cHASH :: lb :: show_nset s ++ rb :: op :: cEQ :: show_nat n)
        with ((cHASH :: lb :: show_nset s ++ [rb; op; cEQ]) ++ show_nat n)
        by (cbn [app]; rewrite <- app_assoc; reflexivity).
      apply digits_last_ws; [apply show_nat_nonempty|apply show_nat_digits]. }
  unfold count_branch. rewrite Er.
  assert (Hq : forallb (fun x => negb (N.eqb x cSP)) (pre ++ op :: cEQ :: show_nat n) = true).
  { rewrite forallb_app. cbn [forallb].
    assert (G : forall l, forallb quiet l = true -> forallb (fun x => negb (N.eqb x cSP)) l = true).
    { intros l. apply forallb_imp. intros x Hx. unfold quiet in Hx. rewrite !andb_true_iff in Hx. tauto. }
    rewrite (G _ Hqpre), (G _ Hqd). destruct Hop as [-> | ->]; reflexivity. }
  rewrite (filter_id _ _ Hq).
  assert (Fop : find_sub [op; cEQ] (pre ++ op :: cEQ :: show_nat n) = Some (length pre)).
  { rewrite (find_sub_skip op cEQ pre _ (quiet_not op pre Hop Hqpre)), find_sub_here. cbn [option_map]. f_equal. lia. }
  assert (Fother : find_sub [other; cEQ] (pre ++ op :: cEQ :: show_nat n) = None).
  { apply find_sub_none. rewrite forallb_app. rewrite (quiet_not other pre Hother Hqpre). cbn [forallb andb].
    rewrite (quiet_not other _ Hother Hqd).
    unfold op, other. destruct am; reflexivity. }
  assert (Fmax : max_found (find_sub [cLT; cEQ] (pre ++ op :: cEQ :: show_nat n))
                           (find_sub [cGT; cEQ] (pre ++ op :: cEQ :: show_nat n)) = Some (length pre)).
  { unfold op, other in *. destruct am; rewrite Fop, Fother; reflexivity. }
  rewrite Fmax. rewrite nth_error_app_exact, firstn_app_exact.
  replace (length pre + 2)%nat with (length (pre ++ [op; cEQ])) by (rewrite app_length; reflexivity).
  replace (pre ++ op :: cEQ :: show_nat n) with ((pre ++ [op; cEQ]) ++ show_nat n) by (rewrite <- app_assoc; reflexivity).
  rewrite skipn_app_exact, parse_show_nat.
  unfold pre. change (lb :: show_nset s ++ [rb]) with ([lb] ++ show_nset s ++ [rb]).
  rewrite (s2d_nset T s [lb] [rb] Hw).
  - unfold op. destruct am; reflexivity.
  - destruct Hlb as [<-|[<-|[]]]; reflexivity.
  - destruct Hrb as [<-|[<-|[]]]; reflexivity.
Qed.

Lemma nset_ws_first s : wf_nset s -> first_ok ws (show_nset s).
Proof. intros Hw. apply nset_first; auto using sub_ws. Qed.
Lemma nset_ws_last s : wf_nset s -> last_ok ws (show_nset s).
Proof. intros Hw. apply nset_last; auto using sub_ws. Qed.

Lemma interp_set T s : wf_nset s -> interpret_word true T (show_nset s) = Some (denote_arg T (FSet s)).
Proof.
  intros Hw. destruct s as [|ns|ns]; cbn [show_nset denote_arg].
  - reflexivity.
  - destruct (join ns) as [|c r] eqn:E.
    + exfalso. destruct Hw as [Hne H]. destruct H as [|n rest [[Hn _] _] _]; [congruence|]. cbn [join] in E.
      destruct rest; destruct n; try congruence; discriminate.
    + assert (Hs : strip ws (c :: r) = c :: r).
      { rewrite <- E. apply strip_id; [apply (nset_ws_first (NPos ns) Hw)|apply (nset_ws_last (NPos ns) Hw)]. }
      rewrite (interpret_plain true T c r Hs (join_head_char ns c r Hw E)).
      * rewrite <- E. assert (H := s2d_nset T (NPos ns) [] [] Hw eq_refl eq_refl).
        cbn [app show_nset] in H. rewrite app_nil_r in H. rewrite H. reflexivity.
      * rewrite <- E. apply join_not_under; exact Hw.
  - rewrite interpret_caret.
    + cbv zeta. rewrite (split_join ns Hw). destruct (Nat.eqb _ _); reflexivity.
    + apply strip_id; [reflexivity|]. apply (nset_ws_last (NNeg ns) Hw).
Qed.

Lemma interp_sub T s fb closed : wf_nset s ->
  interpret_word true T (show_arg_gen closed (FSub s fb)) = Some (denote_arg T (FSub s fb)).
Proof.
  intros Hw. cbn [show_arg_gen denote_arg].
  assert (Hpost : all_in brackets (if closed then [cRP] else []) = true) by (destruct closed; reflexivity).
  assert (H := s2d_nset T s [cLP] (if closed then [cRP] else []) Hw eq_refl Hpost). cbn [app] in H.
  rewrite interpret_gt.
  - destruct fb; cbn [app].
    + rewrite N.eqb_refl. exact (f_equal (option_map TForbid) H).
    + replace (N.eqb cLP cCARET) with false by reflexivity. exact (f_equal (option_map TForce) H).
  - apply strip_id; [reflexivity|].
    change (cGT :: (if fb then [cCARET] else []) ++ cLP :: show_nset s ++ (if closed then [cRP] else []))
      with ((cGT :: (if fb then [cCARET] else [])) ++ (cLP :: show_nset s ++ (if closed then [cRP] else []))).
    apply last_ok_app. change (cLP :: show_nset s ++ (if closed then [cRP] else []))
      with ([cLP] ++ show_nset s ++ (if closed then [cRP] else [])). apply last_ok_app.
    destruct closed; [apply last_ok_snoc; reflexivity|]. rewrite app_nil_r. apply nset_ws_last; exact Hw.
Qed.

Theorem interp_arg T closed a : wf_nset (arg_set a) ->
  interpret_word true T (show_arg_gen closed a) = Some (denote_arg T a).
Proof.
  intros Hw. destruct a as [s|s am n br|s fb]; cbn [arg_set] in Hw.
  - apply interp_set; exact Hw.
  - cbn [show_arg_gen denote_arg]. apply interp_count; [exact Hw| |]; destruct br; cbn; auto.
  - apply interp_sub; exact Hw.
Qed.

(** * the loop on a list of words *)
Fixpoint join_sp (wds : list str) : str :=
  match wds with
  | [] => []
  | w :: r => match r with [] => w | _ => w ++ cSP :: join_sp r end
  end.

Definition word_ok (w : str) : Prop :=
  w <> [] /\ forallb (fun c => negb (N.eqb c cSP)) w = true /\ starts [cLP] w = false.

Lemma take_plain_word w rest : forallb (fun c => negb (N.eqb c cSP)) w = true ->
  take_plain (w ++ cSP :: rest) = (w, cSP :: rest).
Proof.
  induction w as [|c r IH]; cbn [app take_plain forallb]; intros H.
  - rewrite N.eqb_refl. reflexivity.
  - apply andb_true_iff in H. destruct H as [Hc Hr]. apply negb_true_iff in Hc. rewrite Hc, (IH Hr). reflexivity.
Qed.

Lemma take_plain_last w : forallb (fun c => negb (N.eqb c cSP)) w = true -> take_plain w = (w, []).
Proof.
  induction w as [|c r IH]; cbn [take_plain forallb]; intros H; [reflexivity|].
  apply andb_true_iff in H. destruct H as [Hc Hr]. apply negb_true_iff in Hc. rewrite Hc, (IH Hr). reflexivity.
Qed.

Lemma next_word_cons w m r : word_ok w -> next_word (w ++ cSP :: join_sp (m :: r)) = (w, join_sp (m :: r)).
Proof.
  intros [Hne [Hsp Hlp]]. unfold next_word. destruct w as [|c w']; [congruence|]. cbn [app].
  assert (Ec : N.eqb c cLP = false).
  { cbn [starts] in Hlp. rewrite N.eqb_sym in Hlp. destruct (N.eqb c cLP); [discriminate|reflexivity]. }
  rewrite Ec. change (c :: w' ++ cSP :: join_sp (m :: r)) with ((c :: w') ++ cSP :: join_sp (m :: r)).
  rewrite (take_plain_word _ _ Hsp). reflexivity.
Qed.

Lemma next_word_last w : word_ok w -> next_word w = (w, []).
Proof.
  intros [Hne [Hsp Hlp]]. unfold next_word. destruct w as [|c w']; [congruence|].
  assert (Ec : N.eqb c cLP = false).
  { cbn [starts] in Hlp. rewrite N.eqb_sym in Hlp. destruct (N.eqb c cLP); [discriminate|reflexivity]. }
  rewrite Ec. rewrite (take_plain_last _ Hsp). reflexivity.
Qed.

Lemma words_loop_flat pf fx T : forall wds toks k,
  Forall2 (fun w t => word_ok w /\ interpret_word fx T w = Some t) wds toks -> (length wds < k)%nat ->
  words_loop pf fx T k (join_sp wds) = Some toks.
Proof.
  induction wds as [|w r IH]; intros toks k H Hk; inversion H as [|? t ? ts [Hw Ht] Hr]; subst.
  - destruct k; reflexivity.
  - destruct k as [|k]; [cbn in Hk; lia|]. cbn [join_sp].
    assert (Hne : w <> []) by apply Hw.
    destruct r as [|m r'].
    + inversion Hr; subst. destruct w as [|c w']; [congruence|]. cbn [words_loop].
      rewrite (next_word_last _ Hw). destruct Hw as [_ [_ Hlp]]. rewrite Hlp, Ht.
      destruct k; reflexivity.
    + destruct (w ++ cSP :: join_sp (m :: r')) as [|c0 s0] eqn:E; [destruct w; discriminate|]. rewrite <- E.
      cbn [words_loop]. rewrite E. rewrite <- E. rewrite (next_word_cons w m r' Hw).
      destruct Hw as [_ [_ Hlp]]. rewrite Hlp, Ht. rewrite (IH ts k Hr); [reflexivity|cbn [length] in *; lia].
Qed.

(** * the whole string *)
Definition calm (c : N) : bool := negb (N.eqb c cSP) && negb (N.eqb c cNL).

Lemma quiet_calm c : quiet c = true -> calm c = true.
Proof. unfold quiet, calm. rewrite !andb_true_iff. tauto. Qed.

Lemma arg_calm closed a : wf_nset (arg_set a) -> forallb calm (show_arg_gen closed a) = true.
Proof.
  intros Hw. assert (Hn : forallb calm (show_nset (arg_set a)) = true)
    by (apply (forallb_imp quiet calm _ quiet_calm), nset_quiet, Hw).
  destruct a as [s|s am n br|s fb]; cbn [arg_set show_arg_gen] in *.
  - exact Hn.
  - cbn [forallb]. rewrite forallb_app. cbn [forallb]. rewrite Hn.
    assert (Hd : forallb calm (show_nat n) = true).
    { generalize (show_nat_digits n). apply forallb_imp. intros x Hx. apply quiet_calm, digit_quiet, Hx. }
    rewrite Hd. destruct br, am; reflexivity.
  - cbn [forallb]. rewrite forallb_app. cbn [forallb]. rewrite forallb_app, Hn. destruct fb, closed; reflexivity.
Qed.

Lemma join_calm ns : wf_names ns -> forallb calm (join ns) = true.
Proof.
  intros Hw. apply (forallb_imp quiet calm _ quiet_calm). apply (nset_quiet (NPos ns) Hw).
Qed.

Lemma calm_nospace s : forallb calm s = true -> forallb (fun c => negb (N.eqb c cSP)) s = true.
Proof. apply forallb_imp. intros x Hx. unfold calm in Hx. apply andb_true_iff in Hx. tauto. Qed.

Lemma calm_nonl s : forallb calm s = true -> forallb (fun c => negb (N.eqb c cNL)) s = true.
Proof. apply forallb_imp. intros x Hx. unfold calm in Hx. apply andb_true_iff in Hx. tauto. Qed.

Lemma arg_word_ok closed a : wf_nset (arg_set a) -> word_ok (show_arg_gen closed a).
Proof.
  intros Hw. split; [|split].
  - destruct a as [s|s am n br|s fb]; cbn [show_arg_gen]; try discriminate.
    cbn [arg_set] in Hw. assert (H := nset_ws_first s Hw). destruct (show_nset s); [destruct H|discriminate].
  - apply calm_nospace, arg_calm, Hw.
  - destruct a as [s|s am n br|s fb]; cbn [show_arg_gen]; try reflexivity.
    cbn [arg_set] in Hw. assert (H := nset_first s [cLP] Hw). destruct (show_nset s) as [|c r]; [reflexivity|].
    cbn [starts]. cbn [first_ok memb] in H. rewrite N.eqb_sym.
    destruct (N.eqb c cLP); [|reflexivity]. exfalso.
    assert (true || false = false); [|discriminate]. apply H; [|reflexivity|reflexivity].
    intros x [<-|[]]. special.
Qed.

Lemma head_word_ok ns : wf_names ns -> word_ok (join ns).
Proof.
  intros Hw. change (join ns) with (show_arg_gen true (FSet (NPos ns))). apply arg_word_ok. exact Hw.
Qed.

Definition open_words (args : list farg) : list str :=
  match rev args with
  | [] => []
  | a :: r => map show_arg (rev r) ++ [show_arg_gen false a]
  end.

Lemma join_sp_cons w r : r <> [] -> join_sp (w :: r) = w ++ cSP :: join_sp r.
Proof. destruct r; [congruence|reflexivity]. Qed.

Lemma join_sp_snoc : forall wds w, wds <> [] -> join_sp (wds ++ [w]) = join_sp wds ++ cSP :: w.
Proof.
  induction wds as [|x r IH]; intros w Hne; [congruence|]. destruct r as [|y r'].
  - reflexivity.
  - change ((x :: y :: r') ++ [w]) with (x :: ((y :: r') ++ [w])).
    rewrite join_sp_cons by (destruct r'; discriminate). rewrite IH by discriminate.
    rewrite (join_sp_cons x (y :: r')) by discriminate. rewrite <- app_assoc. reflexivity.
Qed.

Lemma show_flat_words pt :
  show_flat pt = cLP :: join_sp (join (fhead pt) :: map show_arg (fargs pt)) ++ [cRP].
Proof.
  unfold show_flat. f_equal. rewrite app_assoc. f_equal.
  generalize (join (fhead pt)). induction (fargs pt) as [|a r IH]; intros w; cbn [flat_map map].
  - rewrite app_nil_r. reflexivity.
  - rewrite join_sp_cons by discriminate. f_equal. cbn [app]. f_equal. apply IH.
Qed.

Lemma closed_open a : exists extra, all_in [cRP; cLP] extra = true /\ show_arg a = show_arg_gen false a ++ extra.
Proof.
  destruct a as [s|s am n br|s fb]; unfold show_arg; cbn [show_arg_gen].
  - exists []. rewrite app_nil_r. auto.
  - exists []. rewrite app_nil_r. auto.
  - exists [cRP]. split; [reflexivity|]. rewrite app_nil_r. cbn [app].
    f_equal. rewrite <- app_assoc. reflexivity.
Qed.

Lemma words_closed_open w0 args : exists extra, all_in [cRP; cLP] extra = true /\
  join_sp (w0 :: map show_arg args) = join_sp (w0 :: open_words args) ++ extra.
Proof.
  unfold open_words. destruct (rev args) as [|a r] eqn:E.
  - apply (f_equal (@rev farg)) in E. rewrite rev_involutive in E. cbn in E. subst. exists []. rewrite app_nil_r. auto.
  - apply (f_equal (@rev farg)) in E. rewrite rev_involutive in E. cbn [rev] in E. subst args.
    rewrite map_app. cbn [map]. destruct (closed_open a) as [extra [He Ea]]. exists extra. split; [exact He|].
    change (w0 :: map show_arg (rev r) ++ [show_arg a]) with ((w0 :: map show_arg (rev r)) ++ [show_arg a]).
    change (w0 :: map show_arg (rev r) ++ [show_arg_gen false a]) with ((w0 :: map show_arg (rev r)) ++ [show_arg_gen false a]).
    rewrite !join_sp_snoc by discriminate. rewrite Ea. rewrite <- app_assoc. reflexivity.
Qed.

Lemma digit_not_special c : is_digit c = true -> In c specials -> False.
Proof.
  unfold is_digit. intros H. apply andb_true_iff in H. destruct H as [H1 H2]. apply N.leb_le in H1, H2.
  unfold specials, ws. cbn [app In]. intros Hin.
  repeat match goal with H : _ \/ _ |- _ => destruct H as [H|H]; [lia|] end. exact Hin.
Qed.

Lemma open_last_ok cs a : wf_nset (arg_set a) -> (forall x, In x cs -> In x specials) ->
  memb N.eqb cUNDER cs = false -> last_ok cs (show_arg_gen false a).
Proof.
  intros Hw Hs Hu. destruct a as [s|s am n br|s fb]; cbn [arg_set show_arg_gen] in *.
  - apply nset_last; auto.
  - change (cHASH :: (if br then cLBRACK else cLP) :: show_nset s ++
            (if br then cRBRACK else cRP) :: (if am then cLT else cGT) :: cEQ :: show_nat n)
      with ([cHASH; (if br then cLBRACK else cLP)] ++ show_nset s ++
            [(if br then cRBRACK else cRP); (if am then cLT else cGT); cEQ] ++ show_nat n).
    apply last_ok_app, last_ok_app, last_ok_app. unfold last_ok.
    assert (Hd := show_nat_digits n). rewrite <- forallb_rev in Hd.
    destruct (rev (show_nat n)) as [|c r] eqn:E.
    + apply (f_equal (@rev N)) in E. rewrite rev_involutive in E. cbn in E. exfalso. eapply show_nat_nonempty; eauto.
    + cbn [forallb] in Hd. apply andb_true_iff in Hd. destruct Hd as [Hc _]. cbn [first_ok].
      destruct (memb N.eqb c cs) eqn:Em; [|reflexivity]. exfalso.
      apply (memb_spec N.eqb N.eqb_eq) in Em. eapply digit_not_special; eauto.
  - rewrite app_nil_r.
    change (cGT :: (if fb then [cCARET] else []) ++ cLP :: show_nset s)
      with ((cGT :: (if fb then [cCARET] else [])) ++ [cLP] ++ show_nset s).
    apply last_ok_app, last_ok_app, nset_last; auto.
Qed.

Lemma join_sp_last_ok cs : forall wds w, last_ok cs w -> last_ok cs (join_sp (wds ++ [w])).
Proof.
  induction wds as [|x r IH]; intros w Hw; [exact Hw|].
  change ((x :: r) ++ [w]) with (x :: (r ++ [w])). rewrite join_sp_cons by (destruct r; discriminate).
  apply last_ok_app. change (cSP :: join_sp (r ++ [w])) with ([cSP] ++ join_sp (r ++ [w])). apply last_ok_app, IH, Hw.
Qed.

Lemma join_sp_length wds : Forall (fun w => w <> []) wds -> (length wds <= length (join_sp wds))%nat.
Proof.
  induction 1 as [|w r Hw Hr IH]; [cbn; lia|]. destruct r as [|m r'].
  - cbn [join_sp length]. destruct w; [congruence|cbn; lia].
  - rewrite join_sp_cons by discriminate. rewrite app_length. cbn [length] in *. destruct w; [congruence|cbn [length]; lia].
Qed.

Theorem parser_roundtrip_flat T pt : wf_flat T pt ->
  parse_specification true T (show_flat pt) = Some (denote_flat T pt).
Proof.
  intros [Hh Ha]. unfold parse_specification. rewrite parse_spec_S.
  set (wds := join (fhead pt) :: open_words (fargs pt)).
  assert (Hargs_open : Forall2 (fun w t => word_ok w /\ interpret_word true T w = Some t)
                               (open_words (fargs pt)) (map (denote_arg T) (fargs pt))).
  { unfold open_words. destruct (rev (fargs pt)) as [|a r] eqn:E.
    - apply (f_equal (@rev farg)) in E. rewrite rev_involutive in E. cbn in E. rewrite E. constructor.
    - apply (f_equal (@rev farg)) in E. rewrite rev_involutive in E. cbn [rev] in E. rewrite E in *.
      rewrite map_app. cbn [map]. apply Forall_app in Ha. destruct Ha as [Ha1 Ha2].
      apply Forall2_app.
      + clear -Ha1. induction Ha1 as [|x l Hx _ IH]; cbn [map]; constructor; [|exact IH].
        split; [apply arg_word_ok; exact Hx|apply interp_arg; exact Hx].
      + inversion Ha2; subst. constructor; [|constructor].
        split; [apply arg_word_ok; assumption|apply interp_arg; assumption]. }
  assert (Hwds : Forall2 (fun w t => word_ok w /\ interpret_word true T w = Some t) wds
                         (TAllow (names_syms T (fhead pt)) :: map (denote_arg T) (fargs pt))).
  { constructor; [|exact Hargs_open]. split; [apply head_word_ok; exact Hh|].
    apply (interp_set T (NPos (fhead pt)) Hh). }
  assert (Hprep : prepare (show_flat pt) = join_sp wds).
  { unfold prepare. rewrite show_flat_words.
    destruct (words_closed_open (join (fhead pt)) (fargs pt)) as [extra [He Ee]].
    assert (Hcalm : forallb (fun c => negb (N.eqb c cNL))
                            (cLP :: join_sp (join (fhead pt) :: map show_arg (fargs pt)) ++ [cRP]) = true).
    { cbn [forallb]. rewrite forallb_app. cbn [forallb]. rewrite andb_true_r.
      generalize (calm_nonl _ (join_calm _ Hh)). generalize (join (fhead pt)).
      clear -Ha. induction Ha as [|a r Hwa _ IH]; intros w Hw; cbn [map]; [exact Hw|].
      rewrite join_sp_cons by discriminate. rewrite forallb_app, Hw. cbn [forallb].
      replace (negb (N.eqb cSP cNL)) with true by reflexivity. cbn [andb]. apply IH.
      apply calm_nonl, arg_calm; exact Hwa. }
    rewrite (filter_id _ _ Hcalm). rewrite Ee. fold wds.
    change (cLP :: (join_sp wds ++ extra) ++ [cRP]) with ([cLP] ++ (join_sp wds ++ extra) ++ [cRP]).
    rewrite <- app_assoc. apply strip_core; [reflexivity| | |].
    - unfold all_in in He. rewrite forallb_app, He. reflexivity.
    - unfold wds. destruct (open_words (fargs pt)); [|rewrite join_sp_cons by discriminate; apply first_ok_app];
        apply join_first; auto using sub_parens.
    - unfold wds, open_words. destruct (rev (fargs pt)) as [|a r] eqn:E.
      + apply join_last; auto using sub_parens.
      + change (join (fhead pt) :: map show_arg (rev r) ++ [show_arg_gen false a])
          with ((join (fhead pt) :: map show_arg (rev r)) ++ [show_arg_gen false a]).
        apply join_sp_last_ok. apply open_last_ok; auto using sub_parens.
        apply (f_equal (@rev farg)) in E. rewrite rev_involutive in E. cbn [rev] in E. rewrite E in Ha.
        apply Forall_app in Ha. destruct Ha as [_ Ha2]. inversion Ha2; assumption. }
  rewrite Hprep.
  rewrite (words_loop_flat _ true T wds _ _ Hwds).
  - reflexivity.
  - assert (Hl : (length wds <= length (join_sp wds))%nat).
    { apply join_sp_length. clear -Hwds. induction Hwds as [|w t ws ts [[Hne _] _] _ IH]; constructor; auto. }
    lia.
Qed.

(** * what the name lists denote *)
Lemma in_names_spec n names : in_names n names = true <-> In n names.
Proof. apply memb_spec, str_eqb_spec. Qed.

Lemma dedup_complete (l : list str) x : In x l -> In x (dedup_str l).
Proof.
  induction l as [|y r IH]; cbn [dedup_str]; [auto|]. intros [->|H].
  - destruct (in_names x r) eqn:E; [apply IH, in_names_spec, E|left; reflexivity].
  - destruct (in_names y r); [auto|right; auto].
Qed.

Lemma starts_var_name k : starts s_var (var_name k) = true.
Proof. reflexivity. Qed.

Lemma vars_of_spec T names s : Forall wf_name names ->
  (In s (vars_of T names) <-> exists k, In (var_name k) names /\ In (k, s) (tvars T)).
Proof.
  induction 1 as [|el r [_ Hv] Hr IH]; cbn [vars_of].
  - split; [intros []|intros [k [[] _]]].
  - rewrite in_app_iff, IH. split.
    + intros [H|[k [H1 H2]]]; [|exists k; split; [right; exact H1|exact H2]].
      destruct (starts s_var el) eqn:E; [|destruct H]. destruct (Hv eq_refl) as [k ->].
      rewrite var_name_skip, parse_show_nat in H. apply in_map_iff in H. destruct H as [[k' s'] [<- Hf]].
      apply filter_In in Hf. destruct Hf as [Hin Hk]. cbn [fst] in Hk. apply Nat.eqb_eq in Hk. subst k'.
      exists k. split; [left; reflexivity|exact Hin].
    + intros [k [[->|H1] H2]]; [left|right; exists k; auto].
      rewrite starts_var_name, var_name_skip, parse_show_nat. apply in_map_iff. exists (k, s). split; [reflexivity|].
      apply filter_In. split; [exact H2|]. cbn [fst]. apply Nat.eqb_refl.
Qed.

Theorem names_syms_spec T ns s : Forall wf_name ns ->
  (In s (names_syms T ns) <->
   (exists nm, In nm ns /\ In (nm, s) (tprims T)) \/ (exists k, In (var_name k) ns /\ In (k, s) (tvars T))).
Proof.
  intros Hw. unfold names_syms. rewrite in_app_iff, (vars_of_spec T _ s (dedup_wf ns Hw)). split.
  - intros [H|[k [H1 H2]]].
    + left. apply in_map_iff in H. destruct H as [[nm s'] [<- Hf]]. apply filter_In in Hf.
      destruct Hf as [Hin Hn]. cbn [fst] in Hn. apply in_names_spec in Hn. exists nm. auto.
    + right. exists k. split; [apply dedup_sub; exact H1|exact H2].
  - intros [[nm [H1 H2]]|[k [H1 H2]]].
    + left. apply in_map_iff. exists (nm, s). split; [reflexivity|]. apply filter_In. split; [exact H2|].
      cbn [fst]. apply in_names_spec; exact H1.
    + right. exists k. split; [apply dedup_complete; exact H1|exact H2].
Qed.

(** * the silent drops of the pinned parser, on a concrete table *)
Definition txt_of (l : list N) : str := l.
Definition ex_tINT : ty := TPrim 0.
Definition ex_f : sym := SPrim 100 (TArrow ex_tINT (TArrow ex_tINT ex_tINT)).
Definition ex_c : sym := SPrim 101 ex_tINT.
Definition ex_table : table :=
  mkTable [([112; 49; 48; 48], ex_f); ([112; 49; 48; 49], ex_c)] [(0%nat, SVar 0 ex_tINT)].
Definition ex_head : list sym := [ex_f].
Definition ex_counted : list sym := [ex_c].
(** "(p100 #[p101]<=1 _)" *)
Definition ex_bracket_text : str :=
  [40; 112; 49; 48; 48; 32; 35; 91; 112; 49; 48; 49; 93; 60; 61; 49; 32; 95; 41].
(** "(p100 _ _)" *)
Definition ex_any_text : str := [40; 112; 49; 48; 48; 32; 95; 32; 95; 41].

Theorem parser_pinned_refuted :
  exists T,
    parse_specification false T ex_bracket_text = Some (TFun ex_head [TAtMost [] 1; TAny]) /\
    parse_specification true T ex_bracket_text = Some (TFun ex_head [TAtMost ex_counted 1; TAny]) /\
    parse_specification false T ex_any_text = Some TAny /\
    parse_specification true T ex_any_text = Some (TFun ex_head [TAny; TAny]).
Proof. exists ex_table. repeat split; vm_compute; reflexivity. Qed.

(** non-vacuity of [parser_roundtrip_flat]: "(p100 #[p101]<=1 _)" is the shown
    form of a well-formed pattern *)
Example roundtrip_instance :
  let pt := mkFpat [[112; 49; 48; 48]] [FCount (NPos [[112; 49; 48; 49]]) true 1 true; FSet NAny] in
  show_flat pt = ex_bracket_text /\ denote_flat ex_table pt = TFun ex_head [TAtMost ex_counted 1; TAny].
Proof. split; vm_compute; reflexivity. Qed.
