(** Model of synth/syntax/automata/tree_automaton.py (class DFTA).

    A DFTA is a Python dict [(letter, args) -> dst] plus a set of final
    states.  The dict is an association list with replace-on-insert
    ([ListX.ainsert]) read with first-match lookup ([ListX.alookup]); being a
    dict, an input automaton has pairwise distinct keys ([deterministic] in
    DftaBase.v).  Sets are lists read through membership only.

    Every operation of the class is modelled function by function, in the
    order the code performs its insertions.  Loops without a structural
    measure run on explicit fuel computed by the model; running out of fuel is
    the explicit result [OutOfFuel] (the theorems show it never happens).
    [KeyErr] is the KeyError that [minimise] raises on an automaton in which a
    rule argument or a final state is not in [self.states].

    Two versions of [__remove_unproductive__] are kept:
    - [remove_unproductive_pinned]: the code as it is at the pinned commit
      (delete rules whose destination is neither final nor an argument of some
      rule, until nothing is deleted).  It keeps unproductive states that lie
      on, or lead into, a cycle of unproductive states.
    - [remove_unproductive]: the repaired behaviour (proposed_fixes/C07-1):
      backward fix-point from the final states, then delete every rule whose
      destination is not productive.
    [reduce] / [read_union] use the repaired one, [reduce_pinned] /
    [read_union_pinned] the pinned one. *)
From Coq Require Import List Bool Arith.
From PS Require Import Base.ListX.
Import ListNotations.

Inductive tree (L : Type) : Type := Node (l : L) (ts : list (tree L)).
Arguments Node {L} l ts.

Record dfta (L Q : Type) : Type := mkDfta {
  rules : list ((L * list Q) * Q);
  finals : list Q
}.
Arguments mkDfta {L Q} rules finals.
Arguments rules {L Q} d.
Arguments finals {L Q} d.

Inductive res (X : Type) : Type :=
| Ok (x : X)
| OutOfFuel
| KeyErr.
Arguments Ok {X} x.
Arguments OutOfFuel {X}.
Arguments KeyErr {X}.

Definition rbind {X Y} (r : res X) (f : X -> res Y) : res Y :=
  match r with Ok x => f x | OutOfFuel => OutOfFuel | KeyErr => KeyErr end.

(** A dict built by successive [d[k] = v]. *)
Section Dict.
  Context {K V : Type} (keqb : K -> K -> bool).
  Definition dict_add_all (l : list (K * V)) (d : list (K * V)) : list (K * V) :=
    fold_left (fun d kv => ainsert keqb (fst kv) (snd kv) d) l d.
  Definition dict_of_list (l : list (K * V)) : list (K * V) := dict_add_all l [].
End Dict.

(** itertools.product( *ls ): leftmost component varies slowest. *)
Fixpoint list_product {X} (ls : list (list X)) : list (list X) :=
  match ls with
  | [] => [[]]
  | l :: r => flat_map (fun x => map (cons x) (list_product r)) l
  end.

Definition pair_eqb {X Y} (ex : X -> X -> bool) (ey : Y -> Y -> bool) (a b : X * Y) : bool :=
  ex (fst a) (fst b) && ey (snd a) (snd b).

Section Single.
  Context {L Q : Type}.
  Variable leqb : L -> L -> bool.
  Variable qeqb : Q -> Q -> bool.

  Local Notation key := (L * list Q)%type.
  Local Notation rule := ((L * list Q) * Q)%type.
  Definition key_eqb (k k' : key) : bool :=
    leqb (fst k) (fst k') && list_eqb qeqb (snd k) (snd k').
  Definition mem (q : Q) (l : list Q) : bool := memb qeqb q l.

  (** DFTA.read *)
  Definition read (A : dfta L Q) (l : L) (args : list Q) : option Q :=
    alookup key_eqb (l, args) (rules A).

  (** bottom-up run of a tree; [None] = no run. *)
  Fixpoint run (A : dfta L Q) (t : tree L) : option Q :=
    match t with
    | Node l ts =>
      match (fix runs (ts : list (tree L)) : option (list Q) :=
               match ts with
               | [] => Some []
               | t :: r =>
                 match run A t with
                 | None => None
                 | Some q => match runs r with None => None | Some qs => Some (q :: qs) end
                 end
               end) ts with
      | None => None
      | Some args => read A l args
      end
    end.

  Definition accepts (A : dfta L Q) (t : tree L) : bool :=
    match run A t with Some q => mem q (finals A) | None => false end.

  (** ** DFTA.states (lines 69-88) *)
  (** rules = defaultdict(list); rules[dst].append(args) *)
  Fixpoint group_add (dst : Q) (args : list Q) (g : list (Q * list (list Q))) : list (Q * list (list Q)) :=
    match g with
    | [] => [(dst, [args])]
    | (d, alts) :: r => if qeqb dst d then (d, alts ++ [args]) :: r else (d, alts) :: group_add dst args r
    end.
  Definition groups (A : dfta L Q) : list (Q * list (list Q)) :=
    fold_left (fun g (r : rule) => group_add (snd r) (snd (fst r)) g) (rules A) [].

  (** one [for dst in list(rules.keys())] sweep: [reachable] grows during the
      sweep; a destination that was added is deleted from [rules]. *)
  Fixpoint states_pass (g : list (Q * list (list Q))) (reach : list Q)
    : list Q * list (Q * list (list Q)) * bool :=
    match g with
    | [] => (reach, [], false)
    | (d, alts) :: r =>
      if existsb (fun args => forallb (fun s => mem s reach) args) alts
      then let '(reach', g', _) := states_pass r (d :: reach) in (reach', g', true)
      else let '(reach', g', b) := states_pass r reach in (reach', (d, alts) :: g', b)
    end.
  Fixpoint states_loop (fuel : nat) (g : list (Q * list (list Q))) (reach : list Q) : res (list Q) :=
    match fuel with
    | O => OutOfFuel
    | S f =>
      let '(reach', g', added) := states_pass g reach in
      if added then states_loop f g' reach' else Ok reach'
    end.
  Definition states (A : dfta L Q) : res (list Q) :=
    states_loop (S (length (groups A))) (groups A) [].

  (** ** __remove_unreachable__ (lines 103-111) *)
  Definition keep_reachable (R : list Q) (A : dfta L Q) : dfta L Q :=
    mkDfta (filter (fun r : rule => mem (snd r) R && forallb (fun s => mem s R) (snd (fst r))) (rules A))
           (filter (fun q => mem q R) (finals A)).
  Definition remove_unreachable (A : dfta L Q) : res (dfta L Q) :=
    rbind (states A) (fun R => Ok (keep_reachable R A)).

  (** ** __remove_unproductive__ as pinned (lines 113-124) *)
  Definition all_args (A : dfta L Q) : list Q := flat_map (fun r : rule => snd (fst r)) (rules A).
  Definition consumed (A : dfta L Q) : list Q := finals A ++ all_args A.
  Definition unprod_pass_pinned (A : dfta L Q) : dfta L Q :=
    let C := consumed A in
    mkDfta (filter (fun r : rule => mem (snd r) C) (rules A)) (finals A).
  Fixpoint unprod_loop_pinned (fuel : nat) (A : dfta L Q) : res (dfta L Q) :=
    match fuel with
    | O => OutOfFuel
    | S f =>
      let A' := unprod_pass_pinned A in
      if length (rules A') =? length (rules A) then Ok A' else unprod_loop_pinned f A'
    end.
  Definition remove_unproductive_pinned (A : dfta L Q) : res (dfta L Q) :=
    unprod_loop_pinned (S (length (rules A))) A.

  (** ** __remove_unproductive__ repaired: backward fix-point from the finals.
      [productive] is a set mutated while the rules are swept. *)
  Definition prod_arg (acc : list Q * bool) (a : Q) : list Q * bool :=
    if mem a (fst acc) then acc else (a :: fst acc, true).
  Definition prod_step (acc : list Q * bool) (r : rule) : list Q * bool :=
    if mem (snd r) (fst acc) then fold_left prod_arg (snd (fst r)) acc else acc.
  Definition prod_pass (rs : list rule) (P : list Q) : list Q * bool :=
    fold_left prod_step rs (P, false).
  Fixpoint prod_loop (fuel : nat) (rs : list rule) (P : list Q) : res (list Q) :=
    match fuel with
    | O => OutOfFuel
    | S f =>
      let '(P', added) := prod_pass rs P in
      if added then prod_loop f rs P' else Ok P'
    end.
  Definition productive (A : dfta L Q) : res (list Q) :=
    prod_loop (S (length (all_args A))) (rules A) (finals A).
  Definition keep_productive (P : list Q) (A : dfta L Q) : dfta L Q :=
    mkDfta (filter (fun r : rule => mem (snd r) P) (rules A)) (finals A).
  Definition remove_unproductive (A : dfta L Q) : res (dfta L Q) :=
    rbind (productive A) (fun P => Ok (keep_productive P A)).

  (** ** reduce (lines 126-131) *)
  Definition reduce (A : dfta L Q) : res (dfta L Q) :=
    rbind (remove_unreachable A) remove_unproductive.
  Definition reduce_pinned (A : dfta L Q) : res (dfta L Q) :=
    rbind (remove_unreachable A) remove_unproductive_pinned.

  (** ** minimise (lines 223-315), mapping = None *)
  (** consumer_of[a]: for every rule, every position k with args[k] == a, in
      rule order then position order.  The entry also carries the rule's
      destination ([self.rules[S]] in the code: the keys of a dict are unique). *)
  Fixpoint positions_from (k : nat) (a : Q) (args : list Q) : list nat :=
    match args with
    | [] => []
    | x :: r => if qeqb x a then k :: positions_from (S k) a r else positions_from (S k) a r
    end.
  Definition consumer_of (A : dfta L Q) (a : Q) : list (rule * nat) :=
    flat_map (fun r : rule => map (fun k => (r, k)) (positions_from 0 a (snd (fst r)))) (rules A).

  (** tuple([p if j != k else b for j, p in enumerate(args)]) *)
  Fixpoint replace_at (k : nat) (b : Q) (args : list Q) : list Q :=
    match args, k with
    | [], _ => []
    | _ :: r, O => b :: r
    | x :: r, S k' => x :: replace_at k' b r
    end.

  Definition cls_of (s2c : list (Q * nat)) (q : Q) : nat :=
    match alookup qeqb q s2c with Some i => i | None => 0 end.
  Definition getc (c2s : list (nat * list Q)) (i : nat) : list Q :=
    match alookup Nat.eqb i c2s with Some l => l | None => [] end.

  Definition half_equiv (A : dfta L Q) (s2c : list (Q * nat)) (a b : Q) : bool :=
    forallb (fun e : rule * nat =>
               match read A (fst (fst (fst e))) (replace_at (snd e) b (snd (fst (fst e)))) with
               | None => false
               | Some out => Nat.eqb (cls_of s2c out) (cls_of s2c (snd (fst e)))
               end) (consumer_of A a).
  Definition are_equivalent (A : dfta L Q) (s2c : list (Q * nat)) (a b : Q) : bool :=
    half_equiv A s2c a b && half_equiv A s2c b a.

  Record mst : Type := mkMst {
    s2c : list (Q * nat);          (* state2cls *)
    c2s : list (nat * list Q);     (* cls2states *)
    cn : nat;                      (* n *)
    unfinished : bool              (* not finished *)
  }.

  (** the [while cls:] loop for class [i]; [cls.pop()] takes the last element. *)
  Fixpoint split_loop (fuel : nat) (A : dfta L Q) (i : nat) (cls : list Q) (st : mst) : option mst :=
    match rev cls with
    | [] => Some st
    | rep :: rrest =>
      match fuel with
      | O => None
      | S f =>
        let rest := rev rrest in
        let new_cls := rep :: filter (are_equivalent A (s2c st) rep) rest in
        let next := filter (fun q => negb (are_equivalent A (s2c st) rep q)) rest in
        match next with
        | [] =>
          split_loop f A i next
            (mkMst (s2c st) (ainsert Nat.eqb i new_cls (c2s st)) (cn st) (unfinished st))
        | _ :: _ =>
          let n' := S (cn st) in
          split_loop f A i next
            (mkMst (fold_left (fun m q => ainsert qeqb q n' m) new_cls (s2c st))
                   (ainsert Nat.eqb n' new_cls (c2s st)) n' true)
        end
      end
    end.

  (** one iteration of [while not finished]: [for i in range(n + 1)] with n
      read at the start. *)
  Definition min_pass (A : dfta L Q) (st : mst) : option mst :=
    fold_left (fun ost i =>
                 match ost with
                 | None => None
                 | Some st => let cls := getc (c2s st) i in split_loop (length cls) A i cls st
                 end)
              (seq 0 (S (cn st)))
              (Some (mkMst (s2c st) (c2s st) (cn st) false)).

  Fixpoint min_loop (fuel : nat) (A : dfta L Q) (st : mst) : res mst :=
    match fuel with
    | O => OutOfFuel
    | S f =>
      match min_pass A st with
      | None => OutOfFuel
      | Some st' => if unfinished st' then min_loop f A st' else Ok st'
      end
    end.

  Definition min_init (A : dfta L Q) (S0 : list Q) : mst :=
    mkMst (map (fun q => (q, if mem q (finals A) then 1 else 0)) S0)
          [(0, filter (fun q => negb (mem q (finals A))) S0); (1, filter (fun q => mem q (finals A)) S0)]
          1 true.

  (** the KeyErrors of the code: [consumer_of[ik]] for a rule argument that is
      not in self.states (then every lookup in state2cls succeeds, because the
      destination of a rule whose arguments are reachable is reachable), and
      [state2cls[q]] for a final state that is not in self.states. *)
  Definition min_precheck (A : dfta L Q) (S0 : list Q) : bool :=
    forallb (fun r : rule => forallb (fun s => mem s S0) (snd (fst r))) (rules A)
    && forallb (fun q => mem q S0) (finals A).

  Definition min_classes (A : dfta L Q) : res (list Q * mst) :=
    rbind (states A) (fun S0 =>
      if min_precheck A S0
      then rbind (min_loop (S (length S0 * length S0)) A (min_init A S0)) (fun st => Ok (S0, st))
      else KeyErr).

  Definition class_name (st : mst) (q : Q) : list Q := getc (c2s st) (cls_of (s2c st) q).
End Single.

(** ** map_states (lines 317-324): dict comprehension, set(map(...)) *)
Section MapStates.
  Context {L Q Q' : Type}.
  Variable leqb : L -> L -> bool.
  Variable qeqb' : Q' -> Q' -> bool.
  Definition map_states (f : Q -> Q') (A : dfta L Q) : dfta L Q' :=
    mkDfta (dict_of_list (key_eqb leqb qeqb')
              (map (fun r => ((fst (fst r), map f (snd (fst r))), f (snd r))) (rules A)))
           (map f (finals A)).
End MapStates.

Section Minimise.
  Context {L Q : Type}.
  Variable leqb : L -> L -> bool.
  Variable qeqb : Q -> Q -> bool.
  (** the new rules and finals of lines 310-315 are [map_states] with the
      class tuple as the new name of a state. *)
  Definition minimise (A : dfta L Q) : res (dfta L (list Q)) :=
    rbind (min_classes leqb qeqb A) (fun p =>
      Ok (map_states leqb (list_eqb qeqb) (class_name qeqb (snd p)) A)).
End Minimise.

(** ** read_product (lines 133-157) and read_union (lines 159-213) *)
Section Binary.
  Context {L QA QB : Type}.
  Variable leqb : L -> L -> bool.
  Variable aeqb : QA -> QA -> bool.
  Variable beqb : QB -> QB -> bool.

  Definition peqb : QA * QB -> QA * QB -> bool := pair_eqb aeqb beqb.

  Definition read_product (A : dfta L QA) (B : dfta L QB) : dfta L (QA * QB) :=
    mkDfta
      (dict_of_list (key_eqb leqb peqb)
         (flat_map (fun r1 =>
            flat_map (fun r2 =>
              if negb (length (snd (fst r1)) =? length (snd (fst r2))) || negb (leqb (fst (fst r1)) (fst (fst r2)))
              then []
              else [((fst (fst r1), combine (snd (fst r1)) (snd (fst r2))), (snd r1, snd r2))])
              (rules B))
            (rules A)))
      (flat_map (fun d1 => map (fun d2 => (d1, d2)) (finals B)) (finals A)).

  Local Notation ustate := (option QA * option QB)%type.
  Definition ueqb : ustate -> ustate -> bool := pair_eqb (option_eqb aeqb) (option_eqb beqb).

  (** mapping_s[a] / mapping_o[b] (defaultdict(list): [] for a state that is
      not in self.states / other.states), default fusion [lambda x, y: (x, y)] *)
  Definition mapping_s (sA : list QA) (sB : list QB) (a : QA) : list ustate :=
    if memb aeqb a sA then map (fun b => (Some a, Some b)) sB ++ [(Some a, None)] else [].
  Definition mapping_o (sA : list QA) (sB : list QB) (b : QB) : list ustate :=
    if memb beqb b sB then map (fun a => (Some a, Some b)) sA ++ [(None, Some b)] else [].

  Definition union_finals (A : dfta L QA) (B : dfta L QB) (sA : list QA) (sB : list QB) : list ustate :=
    flat_map (fun a => if memb aeqb a (finals A) then mapping_s sA sB a else []) sA
    ++ flat_map (fun b => if memb beqb b (finals B) then mapping_o sA sB b else []) sB.

  Definition union_loop1 (A : dfta L QA) (sA : list QA) (sB : list QB) : list ((L * list ustate) * ustate) :=
    flat_map (fun r =>
      map (fun new_args => ((fst (fst r), new_args), (Some (snd r), None)))
          (list_product (map (mapping_s sA sB) (snd (fst r))))) (rules A).
  Definition union_loop2 (B : dfta L QB) (sA : list QA) (sB : list QB) : list ((L * list ustate) * ustate) :=
    flat_map (fun r =>
      map (fun new_args => ((fst (fst r), new_args), (None, Some (snd r))))
          (list_product (map (mapping_o sA sB) (snd (fst r))))) (rules B).
  Definition union_loop3 (A : dfta L QA) (B : dfta L QB) : list ((L * list ustate) * ustate) :=
    flat_map (fun r1 =>
      flat_map (fun r2 =>
        if negb (length (snd (fst r1)) =? length (snd (fst r2))) || negb (leqb (fst (fst r1)) (fst (fst r2)))
        then []
        else [((fst (fst r1), combine (map Some (snd (fst r1))) (map Some (snd (fst r2)))),
               (Some (snd r1), Some (snd r2)))])
        (rules B))
      (rules A).

  (** the automaton of line 211, before [out.reduce()] *)
  Definition union_raw (A : dfta L QA) (B : dfta L QB) (sA : list QA) (sB : list QB) : dfta L ustate :=
    mkDfta (dict_of_list (key_eqb leqb ueqb) (union_loop1 A sA sB ++ union_loop2 B sA sB ++ union_loop3 A B))
           (union_finals A B sA sB).

  Definition read_union (A : dfta L QA) (B : dfta L QB) : res (dfta L ustate) :=
    rbind (states beqb B) (fun sB => rbind (states aeqb A) (fun sA =>
      reduce ueqb (union_raw A B sA sB))).
  Definition read_union_pinned (A : dfta L QA) (B : dfta L QB) : res (dfta L ustate) :=
    rbind (states beqb B) (fun sB => rbind (states aeqb A) (fun sA =>
      reduce_pinned ueqb (union_raw A B sA sB))).
End Binary.
