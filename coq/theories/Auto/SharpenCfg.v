(** C05_cfg2dfta: the language of __cfg2dfta__.

    The automaton keeps the type and the height of a sub-term only.  So
      L(grammar)  is included in  L(automaton)  is included in  L(relax grammar)
    where [relax] drops the minimum variable depth and the forbidden patterns
    ([cfg_complete], [cfg_sound]); the three coincide when the grammar has
    neither ([cfg2dfta_exact]); otherwise the automaton can accept programs
    the grammar excludes ([cfg2dfta_refuted]). *)
From Coq Require Import List Bool Arith Lia NArith.
From PS Require Import Base.ListX Base.Ty Base.Value Base.Prog Auto.Dfta Auto.DftaBase Auto.DftaReduce Auto.DftaOps
  Auto.DftaProofs Gram.Cfg Gram.CfgSpec Gram.CfgProofs Auto.Sharpen Auto.SharpenBase Auto.SharpenOps.
Import ListNotations.

(** * ends_with determines the remaining type *)
Lemma ends_with_rec_inv : forall self other acc l,
  ends_with_rec self other acc = Some l -> exists l0, l = acc ++ l0 /\ self = function_type l0 other.
Proof.
  induction self as [n|a b IHa IHb|n l0 _|n|n l0 _|l0 _|] using ty_ind'; intros other acc l; cbn [ends_with_rec];
    match goal with |- context [ty_eqb ?x other] => destruct (ty_eqb x other) eqn:E end;
    try (intros H; inversion H; subst; apply ty_eqb_spec in E; subst; exists []; rewrite app_nil_r; split; reflexivity);
    try discriminate.
  intros H. apply IHb in H. destruct H as [l1 [-> ->]]. exists (a :: l1). rewrite <- app_assoc. split; reflexivity.
Qed.

Lemma function_type_inj l t t' : function_type l t = function_type l t' -> t = t'.
Proof. induction l as [|a r IH]; cbn; [auto|]. intros E; inversion E; auto. Qed.

Lemma ends_with_inj a t t' l : ends_with a t = Some l -> ends_with a t' = Some l -> t = t'.
Proof.
  unfold ends_with. intros H1 H2. apply ends_with_rec_inv in H1, H2. cbn [app] in *.
  destruct H1 as [l1 [-> E1]], H2 as [l2 [E E2]]. subst l2. rewrite E1 in E2. eapply function_type_inj; eauto.
Qed.

(** * what a grammar rule says *)
Lemma rule_leaf P t g d s : rule_of P (t, g, d) s = Some [] -> wt_leaf P t (hd_error g) d s = true /\ sym_type s = t.
Proof.
  unfold rule_of. destruct (wt_leaf P t (hd_error g) d s) eqn:Hl.
  - intros _. split; [reflexivity|].
    destruct s as [n tp|v tv|t' [c|]]; cbn [wt_leaf sym_type] in *; try discriminate;
      rewrite !andb_true_iff in Hl; apply ty_eqb_spec; tauto.
  - destruct (wt_head P t (hd_error g) d s) as [[|a r]|]; try discriminate.
Qed.

Lemma decorate_types P g d s tys : map nt_type (decorate P g d s tys) = tys.
Proof.
  unfold decorate, enumerate. rewrite map_map. cbn [nt_type fst].
  generalize 0. induction tys as [|a r IH]; intros i; cbn [enumerate_from map]; [reflexivity|].
  cbn [snd]. f_equal. apply IH.
Qed.

Lemma rule_fun P t g d s n nr : rule_of P (t, g, d) s = Some (n :: nr) ->
  wt_head P t (hd_error g) d s = Some (map nt_type (n :: nr)).
Proof.
  unfold rule_of. destruct (wt_leaf P t (hd_error g) d s); [discriminate|].
  destruct (wt_head P t (hd_error g) d s) as [[|a r]|]; try discriminate.
  intros E. assert (E' : decorate P g d s (a :: r) = n :: nr) by congruence.
  rewrite <- E', decorate_types. reflexivity.
Qed.

Lemma wt_head_inj P t t' par par' d d' s tys : tys <> [] ->
  wt_head P t par d s = Some tys -> wt_head P t' par' d' s = Some tys -> t = t'.
Proof.
  intros Hne. destruct s as [n tp|v tv|tc c]; cbn [wt_head]; try discriminate.
  - destruct (_ && _ && _); [|discriminate]. destruct (_ && _ && _); [|discriminate]. apply ends_with_inj.
  - destruct (_ && _ && _); [|discriminate]. destruct (_ && _ && _); [|discriminate]. apply ends_with_inj.
Qed.

(** transfer to the relaxed grammar *)
Lemma relax_forb P g : forb (relax P) g = [].
Proof. unfold forb. destruct g as [|[[n tp|v tv|tc c] i] r]; try reflexivity. Qed.

Lemma wt_leaf_relax P t par d par' d' s :
  wt_leaf P t par d s = true -> d' < max_depth P -> wt_leaf (relax P) t par' d' s = true.
Proof.
  intros H Hd. apply Nat.ltb_lt in Hd.
  destruct s as [n tp|v tv|tc [c|]]; cbn [wt_leaf] in *; try discriminate; rewrite !andb_true_iff in *;
    cbn [relax dsl request max_depth min_var const_types].
  - destruct H as [[[H1 H2] H3] H4]. repeat split; auto.
    unfold par_forb. destruct par'; [rewrite relax_forb|]; reflexivity.
  - destruct H as [[[H1 H2] H3] H4]. repeat split; auto.
  - destruct H as [[[H1 H2] H3] H4]. repeat split; auto.
Qed.

Lemma wt_head_relax P t par d par' d' s tys :
  wt_head P t par d s = Some tys -> S d' < max_depth P -> wt_head (relax P) t par' d' s = Some tys.
Proof.
  intros H Hd. apply Nat.ltb_lt in Hd.
  destruct s as [n tp|v tv|tc c]; cbn [wt_head] in *; try discriminate;
    cbn [relax dsl request max_depth min_var const_types].
  - destruct (memb dsl_eqb (n, tp) (dsl P) && negb (memb N.eqb n (par_forb P par)) && Nat.ltb (S d) (max_depth P)) eqn:E;
      [|discriminate].
    rewrite !andb_true_iff in E. destruct E as [[E1 _] _]. rewrite E1, Hd.
    assert (Ef : par_forb (relax P) par' = []) by (unfold par_forb; destruct par'; [apply relax_forb|reflexivity]).
    rewrite Ef. cbn. exact H.
  - destruct (option_eqb ty_eqb (nth_error (arguments (request P)) v) (Some tv) && Nat.leb (min_var P) d
              && Nat.ltb (S d) (max_depth P)) eqn:E; [|discriminate].
    rewrite !andb_true_iff in E. destruct E as [[E1 _] _]. rewrite E1, Hd. cbn. exact H.
Qed.

Lemma relax_id P : min_var P = 0 -> forbidden P = [] -> relax P = P.
Proof. destruct P; cbn. intros -> ->. reflexivity. Qed.

(** * the transitions of the automaton as built *)
Definition raw_list (P : params) : list srule :=
  flat_map (fun x => flat_map (cfg_rule (cfg_depth P) x) (crules P x)) (reachable P).

Definition arg_ok (D : nat) (q : st) (n : cnt) : Prop := st_type q = nt_type n /\ st_height q < D /\ comps q = [].

Lemma st_eta q : comps q = [] -> q = base_state (st_type q) (st_height q).
Proof. destruct q as [t [h c]]; unfold comps, base_state, st_type, st_height; cbn. intros ->. reflexivity. Qed.

Lemma In_height_cases D tys nargs :
  In nargs (height_cases D tys) <-> Forall2 (fun q t => st_type q = t /\ st_height q < D /\ comps q = []) nargs tys.
Proof.
  unfold height_cases. rewrite In_list_product. split.
  - intros H. remember (map (fun t => map (base_state t) (seq 0 D)) tys) as ls eqn:E. revert tys E.
    induction H as [|q c nargs ls Hq _ IH]; intros [|t tys] E; try discriminate; constructor.
    + cbn [map] in E. inversion E; subst. apply in_map_iff in Hq. destruct Hq as [h [<- Hh]].
      apply in_seq in Hh. unfold base_state, st_type, st_height, comps; cbn. repeat split; lia.
    + cbn [map] in E. inversion E; subst. apply IH. reflexivity.
  - intros H. induction H as [|q t nargs tys [H1 [H2 H3]] _ IH]; cbn [map]; constructor; auto.
    apply in_map_iff. exists (st_height q). split; [rewrite <- H1; symmetry; apply st_eta; exact H3|].
    apply in_seq. lia.
Qed.

Lemma In_raw P s nargs d :
  In ((s, nargs), d) (raw_list P) <->
  exists x nts, In x (reachable P) /\ In (s, nts) (crules P x) /\
    ((nts = [] /\ nargs = [] /\ d = base_state (sym_type s) 0) \/
     (nts <> [] /\ Forall2 (arg_ok (cfg_depth P)) nargs nts /\
      S (maxnat (map st_height nargs)) < cfg_depth P /\
      d = base_state (nt_type x) (S (maxnat (map st_height nargs))))).
Proof.
  unfold raw_list. rewrite in_flat_map. split.
  - intros [x [Hx H]]. apply in_flat_map in H. destruct H as [[s0 nts] [Hr H]].
    exists x, nts. unfold cfg_rule in H. cbn [fst snd] in H. destruct nts as [|n nr].
    + destruct H as [H|[]]. inversion H; subst. split; [auto|]. split; [auto|]. left; auto.
    + apply in_flat_map in H. destruct H as [na [Hna H]].
      destruct (Nat.leb (cfg_depth P) (S (maxnat (map st_height na)))) eqn:El; [destruct H|].
      destruct H as [H|[]]. inversion H; subst. apply Nat.leb_gt in El.
      split; [auto|]. split; [auto|]. right. split; [discriminate|]. split; [|split; [lia|reflexivity]].
      apply In_height_cases in Hna. clear -Hna. remember (map nt_type (n :: nr)) as tys eqn:E.
      revert E. generalize (n :: nr). induction Hna as [|q t na tys Hq _ IH]; intros [|m mr] E; try discriminate; constructor.
      * cbn [map] in E. inversion E; subst. exact Hq.
      * cbn [map] in E. inversion E; subst. apply IH; reflexivity.
  - intros [x [nts [Hx [Hr H]]]]. exists x. split; [exact Hx|]. apply in_flat_map. exists (s, nts). split; [exact Hr|].
    unfold cfg_rule. cbn [fst snd]. destruct H as [[-> [-> ->]]|[Hne [Hf [Hd ->]]]].
    + left; reflexivity.
    + destruct nts as [|n nr]; [congruence|]. apply in_flat_map. exists nargs. split.
      * apply In_height_cases. clear -Hf. induction Hf as [|q m na ms Hq _ IH]; cbn [map]; constructor; auto.
      * assert (El : Nat.leb (cfg_depth P) (S (maxnat (map st_height nargs))) = false) by (apply Nat.leb_gt; lia).
        rewrite El. left; reflexivity.
Qed.

Lemma Forall2_nonempty {X Y} (R : X -> Y -> Prop) l l' : Forall2 R l l' -> l' <> [] -> l <> [].
Proof. intros H. destruct H; [congruence|discriminate]. Qed.

Lemma Forall2_types D nargs nts : Forall2 (arg_ok D) nargs nts -> map st_type nargs = map nt_type nts.
Proof. induction 1 as [|q n l l' [H _] _ IH]; cbn [map]; [reflexivity|]. rewrite H, IH. reflexivity. Qed.

Lemma raw_functional P k v v' : In (k, v) (raw_list P) -> In (k, v') (raw_list P) -> v = v'.
Proof.
  destruct k as [s nargs]. intros H1 H2. apply In_raw in H1, H2.
  destruct H1 as [x [nts [Hx [Hr H1]]]], H2 as [x' [nts' [Hx' [Hr' H2]]]].
  destruct H1 as [[E1 [E2 ->]]|[Hne [Hf [_ ->]]]], H2 as [[E1' [E2' ->]]|[Hne' [Hf' [_ ->]]]].
  - reflexivity.
  - subst. exfalso. apply (Forall2_nonempty _ _ _ Hf' Hne'). reflexivity.
  - subst. exfalso. apply (Forall2_nonempty _ _ _ Hf Hne). reflexivity.
  - f_equal. destruct x as [[t g] d], x' as [[t' g'] d']. cbn [nt_type fst].
    apply In_crules in Hr, Hr'. destruct Hr as [Hr _], Hr' as [Hr' _].
    destruct nts as [|n nr]; [congruence|]. destruct nts' as [|n' nr']; [congruence|].
    apply rule_fun in Hr, Hr'.
    apply Forall2_types in Hf, Hf'. rewrite <- Hf in Hr. rewrite <- Hf' in Hr'.
    eapply wt_head_inj; [|exact Hr|exact Hr']. destruct nargs; [discriminate|discriminate].
Qed.

Definition raw (P : params) : sdfta := cfg2dfta_raw P.

Lemma skey_eqb_spec k k' : skey_eqb k k' = true <-> k = k'.
Proof. apply key_eqb_spec; [apply sym_eqb_spec|apply st_eqb_spec]. Qed.

Lemma raw_det P : deterministic (raw P).
Proof. unfold deterministic, raw, cfg2dfta_raw; cbn [rules]. apply dict_of_list_nodup, skey_eqb_spec. Qed.

Lemma raw_read_in P s nargs d : sread (raw P) s nargs = Some d -> In ((s, nargs), d) (raw_list P).
Proof. unfold sread, read, raw, cfg2dfta_raw; cbn [rules]. apply dict_lookup_in, skey_eqb_spec. Qed.

Lemma raw_in_read P s nargs d : In ((s, nargs), d) (raw_list P) -> sread (raw P) s nargs = Some d.
Proof.
  intros H. unfold sread, read, raw, cfg2dfta_raw; cbn [rules].
  apply (dict_lookup_functional skey_eqb skey_eqb_spec); [exact H|].
  intros v' Hv'. eapply raw_functional; eauto.
Qed.

(** * heights *)
Lemma ht_ge1 p : 1 <= ht p.
Proof. destruct p; cbn [ht]; lia. Qed.

Lemma maxht_heights args hs :
  Forall2 (fun a h => h = ht a - 1) args hs -> args <> [] -> S (maxnat hs) = maxht args.
Proof.
  intros H. induction H as [|a h args hs Eh Hr IH]; [congruence|]. intros _. subst h.
  cbn [maxnat maxht fold_right]. pose proof (ht_ge1 a) as Ha. destruct Hr as [|b h' br hs' Eb Hr'].
  - cbn [maxnat fold_right]. lia.
  - assert (E : S (maxnat (h' :: hs')) = maxht (b :: br)) by (apply IH; discriminate).
    unfold maxht in *. lia.
Qed.

(** * the automaton accepts at most the relaxed grammar *)
Lemma wt_args_intro P f d : forall tys args i,
  Forall2 (fun t a => forall par, wt P t par (S d) a = true) tys args ->
  all2b (fun it a => wt P (snd it) (Some (f, fst it)) (S d) a) (enumerate_from i tys) args = true.
Proof.
  intros tys args i H. revert i. induction H as [|t a tys args Ha _ IH]; intros i; cbn [enumerate_from all2b]; [reflexivity|].
  cbn [fst snd]. rewrite Ha, IH. reflexivity.
Qed.

Theorem raw_sound P : forall p q, srun (raw P) (tree_of p) = Some q ->
  comps q = [] /\ st_height q = ht p - 1 /\
  forall d par, d + ht p <= max_depth P -> wt (relax P) (st_type q) par d p = true.
Proof.
  assert (Leaf : forall s q, sread (raw P) s [] = Some q ->
            comps q = [] /\ st_height q = 0 /\ forall d par, d + 1 <= max_depth P -> wt_leaf (relax P) (st_type q) par d s = true).
  { intros s q H. apply raw_read_in, In_raw in H. destruct H as [x [nts [Hx [Hr H]]]].
    destruct H as [[-> [_ ->]]|[Hne [Hf _]]].
    - split; [reflexivity|]. split; [reflexivity|]. intros d par Hd.
      destruct x as [[t g] dx]. apply In_crules in Hr. destruct Hr as [Hr _]. apply rule_leaf in Hr.
      destruct Hr as [Hl Et]. cbn [st_type base_state fst]. rewrite Et. eapply wt_leaf_relax; [exact Hl|lia].
    - exfalso. inversion Hf; subst. congruence. }
  induction p as [s|f args IH] using prog_ind'; intros q Hq; cbn [tree_of] in Hq; rewrite srun_eq in Hq.
  - cbn [omapo] in Hq. destruct (Leaf s q Hq) as [H1 [H2 H3]]. split; [exact H1|]. split; [exact H2|].
    intros d par Hd. cbn [wt ht] in *. apply H3. exact Hd.
  - destruct (omapo (srun (raw P)) (map tree_of args)) as [qs|] eqn:Eqs; [|discriminate].
    assert (Hrun : Forall2 (fun a q' => srun (raw P) (tree_of a) = Some q') args qs).
    { apply omapo_some in Eqs. clear -Eqs. remember (map tree_of args) as ts eqn:E. revert args E.
      induction Eqs as [|t q' ts qs Ht _ IHq]; intros [|a args] E; try discriminate; constructor.
      - cbn [map] in E. inversion E; subst. exact Ht.
      - cbn [map] in E. inversion E; subst. apply IHq; reflexivity. }
    destruct args as [|a0 ar0].
    + inversion Hrun; subst. destruct (Leaf f q Hq) as [H1 [H2 H3]]. split; [exact H1|]. split; [exact H2|].
      intros d par Hd. rewrite wt_fun. apply H3. cbn [ht fold_right] in Hd. lia.
    + apply raw_read_in, In_raw in Hq. destruct Hq as [x [nts [Hx [Hr H]]]].
      destruct H as [[_ [E _]]|[Hne [Hf [Hlt ->]]]]; [subst; inversion Hrun|].
      assert (Hh : Forall2 (fun a h => h = ht a - 1) (a0 :: ar0) (map st_height qs)).
      { clear -Hrun IH. induction Hrun as [|a q' args qs Ha _ IHr]; cbn [map]; constructor.
        - inversion IH; subst. destruct (H1 q' Ha) as [_ [E _]]. exact E.
        - apply IHr. inversion IH; assumption. }
      assert (Emax : S (maxnat (map st_height qs)) = maxht (a0 :: ar0)) by (apply maxht_heights; [exact Hh|discriminate]).
      split; [reflexivity|]. split.
      * cbn [st_height base_state fst snd]. rewrite Emax, ht_fun. lia.
      * intros d par Hd. rewrite ht_fun in Hd. rewrite wt_fun.
        destruct x as [[t g] dx]. apply In_crules in Hr. destruct Hr as [Hr _].
        destruct nts as [|n nr]; [congruence|]. apply rule_fun in Hr.
        cbn [st_type base_state fst nt_type].
        rewrite (wt_head_relax P t (hd_error g) dx par d f _ Hr) by lia.
        apply wt_args_intro.
        assert (Et := Forall2_types _ _ _ Hf). rewrite <- Et.
        remember (maxht (a0 :: ar0)) as M eqn:EM.
        assert (Hall : forall a, In a (a0 :: ar0) -> ht a <= M) by (intros; subst M; apply maxht_In; assumption).
        clear -Hrun IH Hd Hall. revert Hrun IH Hall. generalize (a0 :: ar0). intros args Hrun.
        induction Hrun as [|a q' args qs Ha _ IHr]; intros HF Hin; cbn [map]; constructor.
        -- intros par'. inversion HF; subst. destruct (H1 q' Ha) as [_ [_ W]]. apply W.
           assert (ht a <= M) by (apply Hin; left; reflexivity). lia.
        -- apply IHr; [inversion HF; assumption|]. intros b Hb. apply Hin. right; exact Hb.
Qed.

(** * the automaton accepts at least the grammar *)
Lemma reach_in P x : Reach P x -> In x (reachable P).
Proof. apply reachable_iff_reach. Qed.

Lemma depth_le_cfg_depth P x : In x (reachable P) -> S (nt_depth x) <= cfg_depth P.
Proof.
  unfold cfg_depth. intros H. apply le_n_S.
  induction (reachable P) as [|y r IH]; [destruct H|]. cbn [map maxnat]. destruct H as [->|H]; [lia|].
  apply IH in H. lia.
Qed.

Theorem raw_complete P : forall p x, Reach P x -> contains_gen (crules P) x p = true ->
  nt_depth x + ht p <= cfg_depth P /\ srun (raw P) (tree_of p) = Some (base_state (nt_type x) (ht p - 1)).
Proof.
  assert (Leaf : forall s x, Reach P x -> rlookup s (crules P x) = Some [] ->
            sread (raw P) s [] = Some (base_state (nt_type x) 0)).
  { intros s x Hx Hl. apply (alookup_in sym_eqb sym_eqb_spec) in Hl.
    assert (Et : sym_type s = nt_type x).
    { destruct x as [[t g] d]. apply In_crules in Hl. destruct Hl as [Hl _]. apply rule_leaf in Hl. apply Hl. }
    apply raw_in_read. apply In_raw. exists x, []. split; [apply reach_in; exact Hx|]. split; [exact Hl|].
    left. rewrite Et. auto. }
  induction p as [s|f args IH] using prog_ind'; intros x Hx Hc.
  - rewrite contains_gen_leaf in Hc. destruct (rlookup s (crules P x)) as [[|n nr]|] eqn:El; try discriminate.
    cbn [ht tree_of]. split; [pose proof (depth_le_cfg_depth P x (reach_in P x Hx)); lia|].
    rewrite srun_eq. cbn [omapo]. apply Leaf; assumption.
  - rewrite contains_gen_fun in Hc. destruct (rlookup f (crules P x)) as [nts|] eqn:El; [|discriminate].
    destruct args as [|a0 ar0].
    + destruct nts; [|discriminate]. cbn [tree_of map]. split.
      * cbn [ht fold_right]. pose proof (depth_le_cfg_depth P x (reach_in P x Hx)). lia.
      * rewrite srun_eq. cbn [omapo]. apply Leaf; assumption.
    + assert (Hin := El). apply (alookup_in sym_eqb sym_eqb_spec) in Hin.
      destruct nts as [|n0 nr0]; [discriminate|].
      assert (Hdepth : forall n, In n (n0 :: nr0) -> nt_depth n = S (nt_depth x)).
      { intros n Hn. destruct x as [[t g] d]. apply In_crules in Hin. destruct Hin as [Hin _].
        apply rule_of_depth in Hin. destruct Hin as [_ Hin]. apply Hin in Hn. cbn [nt_depth snd]. tauto. }
      assert (Hreach : forall n, In n (n0 :: nr0) -> Reach P n).
      { intros n Hn. eapply reach_step; [exact Hx|exact Hin|exact Hn]. }
      (* children *)
      assert (G : forall nts args, all2b (contains_gen (crules P)) nts args = true ->
                  (forall n, In n nts -> Reach P n /\ nt_depth n = S (nt_depth x)) ->
                  Forall (fun p => forall x, Reach P x -> contains_gen (crules P) x p = true ->
                               nt_depth x + ht p <= cfg_depth P /\
                               srun (raw P) (tree_of p) = Some (base_state (nt_type x) (ht p - 1))) args ->
                  exists qs, omapo (srun (raw P)) (map tree_of args) = Some qs /\
                             Forall2 (arg_ok (cfg_depth P)) qs nts /\
                             Forall2 (fun a h => h = ht a - 1) args (map st_height qs) /\
                             (forall a, In a args -> S (nt_depth x) + ht a <= cfg_depth P)).
      { intros nts. induction nts as [|n nr IHn]; intros [|a ar] Ha Hn HF; cbn [all2b] in Ha; try discriminate.
        - exists []. split; [reflexivity|]. split; [constructor|]. split; [constructor|]. intros a [].
        - apply andb_true_iff in Ha. destruct Ha as [Ha1 Ha2].
          destruct (Hn n (or_introl eq_refl)) as [Rn Dn].
          inversion HF as [|? ? Hfa HFr]; subst.
          destruct (Hfa n Rn Ha1) as [Hd Hr].
          destruct (IHn ar Ha2 (fun m Hm => Hn m (or_intror Hm)) HFr) as [qs [Eqs [F1 [F2 F3]]]].
          exists (base_state (nt_type n) (ht a - 1) :: qs). cbn [map omapo]. rewrite Hr, Eqs.
          split; [reflexivity|]. split; [|split].
          + constructor; [|exact F1]. unfold arg_ok, base_state, st_type, st_height, comps; cbn.
            pose proof (ht_ge1 a). repeat split; lia.
          + constructor; [reflexivity|exact F2].
          + intros b [<-|Hb]; [lia|apply F3; exact Hb]. }
      destruct (G (n0 :: nr0) (a0 :: ar0) Hc (fun n Hn => conj (Hreach n Hn) (Hdepth n Hn)) IH)
        as [qs [Eqs [F1 [F2 F3]]]].
      assert (Emax : S (maxnat (map st_height qs)) = maxht (a0 :: ar0)) by (apply maxht_heights; [exact F2|discriminate]).
      assert (Hm : S (nt_depth x) + maxht (a0 :: ar0) <= cfg_depth P).
      { clear -F3. assert (Hne : a0 :: ar0 <> []) by discriminate. revert Hne F3. generalize (a0 :: ar0).
        intros l Hne Hl. induction l as [|b r IHl]; [congruence|]. cbn [maxht fold_right].
        assert (S (nt_depth x) + ht b <= cfg_depth P) by (apply Hl; left; reflexivity).
        destruct r as [|c r']; [cbn [fold_right]; lia|].
        assert (S (nt_depth x) + maxht (c :: r') <= cfg_depth P) by (apply IHl; [discriminate|intros; apply Hl; right; assumption]).
        unfold maxht in *. lia. }
      rewrite ht_fun. split; [lia|].
      cbn [tree_of]. rewrite srun_eq, Eqs. apply raw_in_read. apply In_raw.
      exists x, (n0 :: nr0). split; [apply reach_in; exact Hx|]. split; [exact Hin|]. right.
      split; [discriminate|]. split; [exact F1|]. split; [lia|]. rewrite Emax. f_equal. lia.
Qed.

(** * the final states *)
Lemma raw_finals P q : smem q (finals (raw P)) = true <->
  st_type q = returns (request P) /\ st_height q < cfg_depth P /\ comps q = [].
Proof.
  rewrite smem_spec. unfold raw, cfg2dfta_raw; cbn [finals]. rewrite in_map_iff. split.
  - intros [h [<- Hh]]. apply in_seq in Hh. unfold base_state, st_type, st_height, comps; cbn. repeat split; lia.
  - intros [H1 [H2 H3]]. exists (st_height q). split; [rewrite <- H1; symmetry; apply st_eta; exact H3|].
    apply in_seq. lia.
Qed.

(** the depth measured on the grammar does not exceed the bound *)
Lemma productive_has_rule P f x : productive f P x = true -> exists r, In r (rules_at P x).
Proof.
  destruct f as [|f]; cbn [productive]; [discriminate|]. intros H. apply existsb_exists in H.
  destruct H as [r [Hr _]]. eauto.
Qed.

Lemma cfg_depth_le P : (exists x r, In x (reachable P) /\ In r (crules P x)) -> cfg_depth P <= max_depth P.
Proof.
  intros [x0 [r0 [Hx0 Hr0]]].
  assert (H0 : nt_depth x0 < max_depth P).
  { destruct x0 as [[t g] d], r0 as [s nts]. apply In_crules in Hr0. destruct Hr0 as [Hr0 _].
    apply rule_of_depth in Hr0. cbn [nt_depth snd]. tauto. }
  assert (Hall : forall x, In x (reachable P) -> nt_depth x < max_depth P).
  { intros x Hx. destruct (reachable_productive P x Hx) as [->|Hp]; [cbn; lia|].
    apply productive_has_rule in Hp. destruct Hp as [[s nts] Hr]. destruct x as [[t g] d].
    apply In_rules_at in Hr. apply rule_of_depth in Hr. cbn [nt_depth snd]. tauto. }
  unfold cfg_depth. clear -Hall H0. induction (reachable P) as [|y r IH]; cbn [map maxnat]; [lia|].
  assert (nt_depth y < max_depth P) by (apply Hall; left; reflexivity).
  assert (S (maxnat (map nt_depth r)) <= max_depth P) by (apply IH; intros; apply Hall; right; assumption).
  lia.
Qed.

Lemma raw_rule_source P t q : srun (raw P) t = Some q -> exists x r, In x (reachable P) /\ In r (crules P x).
Proof.
  destruct t as [l ts]. rewrite srun_eq. destruct (omapo _ ts) as [qs|]; [|discriminate].
  intros H. apply raw_read_in, In_raw in H. destruct H as [x [nts [Hx [Hr _]]]]. eauto.
Qed.

(** * C05_cfg2dfta *)
Theorem cfg_complete P p : contains P p = true -> saccepts (raw P) (tree_of p) = true.
Proof.
  unfold contains, contains_at. intros H.
  destruct (raw_complete P p (start P) (reach_start P) H) as [Hd Hr].
  unfold saccepts, accepts. fold (srun (raw P) (tree_of p)). rewrite Hr.
  apply raw_finals. unfold base_state, st_type, st_height, comps, start, nt_type; cbn.
  pose proof (ht_ge1 p). cbn [nt_depth start snd] in Hd. repeat split; lia.
Qed.

Theorem cfg_sound P p : saccepts (raw P) (tree_of p) = true ->
  wt (relax P) (returns (request P)) None 0 p = true.
Proof.
  unfold saccepts, accepts. fold (srun (raw P) (tree_of p)).
  destruct (srun (raw P) (tree_of p)) as [q|] eqn:E; [|discriminate].
  intros Hf. apply raw_finals in Hf. destruct Hf as [Ht [Hh _]].
  destruct (raw_sound P p q E) as [_ [Eh W]]. rewrite <- Ht. apply W.
  pose proof (cfg_depth_le P (raw_rule_source P _ _ E)). pose proof (ht_ge1 p). lia.
Qed.

(** reduce keeps the language *)
Theorem cfg2dfta_ok P :
  exists base, cfg2dfta P = Ok base /\ deterministic base /\
               forall t, saccepts base t = saccepts (raw P) t.
Proof.
  destruct (reduce_correct sym_eqb st_eqb sym_eqb_spec st_eqb_spec (raw P) (raw_det P)) as [b [E [D [L _]]]].
  exists b. split; [exact E|]. split; [exact D|exact L].
Qed.

Theorem cfg2dfta_sandwich P : 2 <= n_gram P ->
  exists base, cfg2dfta P = Ok base /\ deterministic base /\
    forall p, (contains P p = true -> saccepts base (tree_of p) = true) /\
              (saccepts base (tree_of p) = true -> contains (relax P) p = true).
Proof.
  intros Hn. destruct (cfg2dfta_ok P) as [b [E [D L]]]. exists b. split; [exact E|]. split; [exact D|].
  intros p. rewrite L. split; [apply cfg_complete|].
  intros H. rewrite (contains_is_typed (relax P) (Hn : 2 <= n_gram (relax P))).
  change (request (relax P)) with (request P). apply cfg_sound. exact H.
Qed.

Theorem cfg2dfta_exact P : min_var P = 0 -> forbidden P = [] -> 2 <= n_gram P ->
  exists base, cfg2dfta P = Ok base /\ deterministic base /\
               forall p, saccepts base (tree_of p) = contains P p.
Proof.
  intros H1 H2 Hn. destruct (cfg2dfta_sandwich P Hn) as [b [E [D L]]]. exists b. split; [exact E|]. split; [exact D|].
  intros p. destruct (L p) as [La Lb]. rewrite (relax_id P H1 H2) in Lb.
  destruct (contains P p) eqn:Ec; [apply La; reflexivity|].
  destruct (saccepts b (tree_of p)) eqn:Ea; [|reflexivity]. specialize (Lb eq_refl). discriminate.
Qed.

(** * the witness: the bare variable is accepted although the grammar (minimum
    variable depth 1, the default) excludes it *)
Definition tINT : ty := TPrim 0.
Definition exP : params :=
  {| dsl := [(6%N, tINT); (0%N, TArrow tINT (TArrow tINT tINT))]; forbidden := []; request := TArrow tINT tINT;
     max_depth := 2; min_var := 1; n_gram := 2; const_types := [] |}.
Definition exVar : prog := PLeaf (SVar 0 tINT).

Theorem cfg2dfta_refuted :
  exists P p base, 2 <= n_gram P /\ cfg2dfta P = Ok base /\
                   saccepts base (tree_of p) = true /\ contains P p = false.
Proof.
  exists exP, exVar. destruct (cfg2dfta exP) as [b| |] eqn:E.
  - exists b. split; [cbn; lia|]. split; [reflexivity|]. split.
    + revert E. vm_compute. intros E; inversion E; reflexivity.
    + vm_compute. reflexivity.
  - exfalso. revert E. vm_compute. discriminate.
  - exfalso. revert E. vm_compute. discriminate.
Qed.

(** non-vacuity of [cfg2dfta_exact]: with minimum variable depth 0 the same
    DSL satisfies the hypotheses and the automaton accepts (add 1 var0) *)
Example exact_instance :
  let P := {| dsl := dsl exP; forbidden := []; request := request exP; max_depth := 2; min_var := 0; n_gram := 2;
              const_types := [] |} in
  min_var P = 0 /\ forbidden P = [] /\ 2 <= n_gram P /\
  contains P (PFun (SPrim 0%N (TArrow tINT (TArrow tINT tINT))) [PLeaf (SPrim 6%N tINT); PLeaf (SVar 0 tINT)]) = true /\
  contains P (PLeaf (SVar 1 tINT)) = false.
Proof. vm_compute. repeat split; lia. Qed.
