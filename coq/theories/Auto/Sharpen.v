(** Model of synth/filter/constraints/dfta_constraints.py ("sharpening").

    Letters are the symbols of Base/Prog.v, trees are [Auto.Dfta.tree sym].
    A state of the code is the nested tuple
        (type, (...((height, c_1), c_2)..., c_k))
    where every [__augment__] appends one integer component.  It is modelled
    as [(type, (height, [c_k; ...; c_1]))] (newest component first), so that
    [__get_tuple_val__ t (-i-1)] is [nth i] and [q[1][-1]] is the head.

    Dicts.  The Python code fills dicts by assignment.  [__cfg2dfta__] may
    assign a key several times (same value) and is modelled with
    [dict_of_list].  [__count__] and [__tag__] only (a) re-assign the key of
    the rule they are visiting and (b) assign keys that contain a component
    no existing key contains; the resulting dict is therefore the list of
    re-assigned rules followed by the new ones, which is how they are written
    here (no quadratic replace-on-insert; SharpenProofs.v shows the keys stay
    pairwise distinct).

    [__process__] measures how many components a sub-pattern added by looking
    at the tuple length of an arbitrary final state; the model computes the
    same number from the pattern ([added]); the two agree because every state
    of an automaton carries the same number of components (a final state
    exists whenever the base grammar has a program).

    The combination of the per-constraint automata ([add_dfta_constraints])
    uses the model of tree_automaton.py (Auto/Dfta.v: [reduce],
    [read_product], [minimise]).  Their state types grow with every step
    (pairs, tuples of states); the model renames them injectively into the one
    type [ust] with [map_states] so that the loop over the constraints is a
    fold. *)
From Coq Require Import List Bool Arith NArith.
From PS Require Import Base.ListX Base.Sexp Base.Ty Base.Value Base.Prog Auto.Dfta Gram.Cfg.
Import ListNotations.

(** * States *)
Definition st : Type := ty * (nat * list nat).
Definition st_type (q : st) : ty := fst q.
Definition st_height (q : st) : nat := fst (snd q).
Definition comps (q : st) : list nat := snd (snd q).
Definition st_eqb (a b : st) : bool :=
  ty_eqb (st_type a) (st_type b) && Nat.eqb (st_height a) (st_height b) && list_eqb Nat.eqb (comps a) (comps b).
(** (s[0], (s[1], c)) *)
Definition push (c : nat) (q : st) : st := (st_type q, (st_height q, c :: comps q)).
(** (s[0], (s[1][0], c)) *)
Definition set_top (c : nat) (q : st) : st := (st_type q, (st_height q, c :: tl (comps q))).
Definition top (q : st) : nat := hd 0 (comps q).

Definition sdfta : Type := dfta sym st.
Definition srule : Type := (sym * list st) * st.

Fixpoint tree_of (p : prog) : tree sym :=
  match p with
  | PLeaf s => Node s []
  | PFun f l => Node f (map tree_of l)
  end.

(** * Tokens (parsing.py) *)
Inductive token : Type :=
| TAny
| TAllow (ss : list sym)
| TAtMost (ss : list sym) (n : nat)
| TAtLeast (ss : list sym) (n : nat)
| TForce (ss : list sym)
| TForbid (ss : list sym)
| TFun (f : list sym) (args : list token).

Definition inb (s : sym) (ss : list sym) : bool := memb sym_eqb s ss.

(** * __cfg2dfta__ (lines 37-94), bounded depth *)
(** grammar.max_program_depth(): 1 + the largest depth of a non-terminal of
    the cleaned grammar *)
Definition cfg_depth (P : params) : nat := S (maxnat (map nt_depth (reachable P))).

Definition base_state (t : ty) (h : nat) : st := (t, (h, [])).

(** product( *[[(arg[0], j) for j in range(max_depth)] for arg in args]) *)
Definition height_cases (D : nat) (tys : list ty) : list (list st) :=
  list_product (map (fun t => map (base_state t) (seq 0 D)) tys).

Definition cfg_rule (D : nat) (x : cnt) (r : rule) : list srule :=
  match snd r with
  | [] => [((fst r, []), base_state (sym_type (fst r)) 0)]
  | nts =>
    flat_map (fun nargs =>
                let nd := S (maxnat (map st_height nargs)) in
                if Nat.leb D nd then [] else [((fst r, nargs), base_state (nt_type x) nd)])
             (height_cases D (map nt_type nts))
  end.

Definition skey_eqb : sym * list st -> sym * list st -> bool := Dfta.key_eqb sym_eqb st_eqb.

Definition cfg2dfta_raw (P : params) : sdfta :=
  let D := cfg_depth P in
  mkDfta (dict_of_list skey_eqb (flat_map (fun x => flat_map (cfg_rule D x) (crules P x)) (reachable P)))
         (map (base_state (returns (request P))) (seq 0 D)).

Definition cfg2dfta (P : params) : res sdfta := reduce st_eqb (cfg2dfta_raw P).

(** * __augment__ (lines 97-107) *)
Definition aug_rule (r : srule) : srule :=
  ((fst (fst r), map (push 0) (snd (fst r))), push 0 (snd r)).
Definition augment (A : sdfta) : sdfta :=
  mkDfta (map aug_rule (rules A)) (map (push 0) (finals A)).

(** first assignment of a group re-assigns an existing key, the others are new *)
Definition firsts {X} (ls : list (list X)) : list X := flat_map (firstn 1) ls.
Definition rests {X} (ls : list (list X)) : list X := flat_map (skipn 1) ls.

(** * __count__ (lines 122-143) *)
Definition alternatives (m : nat) (q : st) : list st := map (fun i => set_top i q) (seq 0 (S m)).

Definition count_rule (m : nat) (ss : list sym) (r : srule) : list srule :=
  map (fun new_args =>
         let total := sumnat (map top new_args) + (if inb (fst (fst r)) ss then 1 else 0) in
         ((fst (fst r), new_args), set_top (Nat.min total m) (snd r)))
      (list_product (map (alternatives m) (snd (fst r)))).

Definition count (A : sdfta) (n : nat) (ss : list sym) (at_most : bool) : sdfta :=
  let A' := augment A in
  let m := n + (if at_most then 1 else 0) in
  let groups := map (count_rule m ss) (rules A') in
  mkDfta (firsts groups ++ rests groups) (flat_map (alternatives m) (finals A')).

(** * __tag__ (lines 146-175) *)
Definition tag_state (q : st) : st := set_top 1 q.

Definition add_new (q : st) (l : list st) : list st := if memb st_eqb q l then l else q :: l.

Definition tag_possibles (added : list st) (args : list st) : list (list st) :=
  list_product (map (fun a => if memb st_eqb a added then [a; tag_state a] else [a]) args).

Definition tag (A : sdfta) (chk : sym -> list st -> st -> bool) : sdfta :=
  let A' := augment A in
  let hit (r : srule) := chk (fst (fst r)) (snd (fst r)) (snd r) in
  let R1 := map (fun r => if hit r then (fst r, tag_state (snd r)) else r) (rules A') in
  let added := fold_left (fun acc r => if hit r then add_new (snd r) acc else acc) (rules A') [] in
  let groups := map (fun r : srule => map (fun na => ((fst (fst r), na), snd r)) (tag_possibles added (snd (fst r)))) R1 in
  mkDfta (firsts groups ++ rests groups)
         (finals A' ++ map tag_state (filter (fun q => memb st_eqb q added) (finals A'))).

(** * __filter__ (lines 178-197) *)
Definition filter_rules (A : sdfta) (chk : sym -> list st -> st -> bool) : sdfta :=
  let rs := filter (fun r : srule => chk (fst (fst r)) (snd (fst r)) (snd r)) (rules A) in
  mkDfta rs (filter (fun q => memb st_eqb q (map snd rs)) (finals A)).

(** * __match__ (lines 200-215); the states it sees have been augmented by the
    enclosing __tag__ *)
Fixpoint match_args (args : list st) (idx : list nat) (hc : list bool) : bool :=
  match args, idx, hc with
  | a :: ar, i :: ir, c :: cr =>
    (if c then Nat.eqb (nth (S i) (comps a) 0) 1 else true) && match_args ar ir cr
  | _, _, _ => true
  end.
Definition match_check (pc : nat) (idx : list nat) (hc : list bool) (args : list st) (dst : st) : bool :=
  Nat.eqb (nth (S pc) (comps dst) 0) 1 && match_args args idx hc.

(** number of components a pattern appends *)
Fixpoint added (tok : token) : nat :=
  match tok with
  | TAny => 0
  | TAllow _ => 1
  | TAtMost _ _ | TAtLeast _ _ | TForce _ | TForbid _ => 2
  | TFun _ args => 2 + (fix go (l : list token) : nat := match l with [] => 0 | a :: r => added a + go r end) args
  end.

(** indices = [lengths[-1] - l for l in lengths[1:]] *)
Fixpoint suffix_sums (l : list nat) : list nat :=
  match l with [] => [] | _ :: r => sumnat r :: suffix_sums r end.

Definition count_tag_check (at_most : bool) (n : nat) (q : st) : bool :=
  let c := nth 1 (comps q) 0 in              (* state[1][0][-1] *)
  if at_most then Nat.leb c n else Nat.eqb c n.

Definition process_count (A : sdfta) (ss : list sym) (n : nat) (at_most : bool) : sdfta :=
  tag (count A n ss at_most) (fun _ _ q => count_tag_check at_most n q).

(** * __process__ (lines 218-287) at level > 0 *)
Fixpoint process (tok : token) (A : sdfta) : sdfta :=
  match tok with
  | TAny => A
  | TAllow ss => tag A (fun P _ _ => inb P ss)
  | TAtMost ss n => process_count A ss n true
  | TAtLeast ss n => process_count A ss n false
  | TForbid ss => process_count A ss 0 true
  | TForce ss => process_count A ss 1 false
  | TFun f args =>
    let A1 := tag A (fun P _ _ => inb P f) in
    let A2 := (fix go (l : list token) (A : sdfta) : sdfta :=
                 match l with [] => A | a :: r => go r (process a A) end) args A1 in
    let ads := map added args in
    tag A2 (fun _ rargs dst => match_check (sumnat ads) (suffix_sums ads) (map (fun a => Nat.ltb 0 a) ads) rargs dst)
  end.

(** the level-0 part: a sketch keeps the final states whose last component is
    1; a local constraint must be a function pattern and keeps the rules whose
    letter is outside the head set or whose destination is tagged.  [None] is
    the AssertionError "Unsupported topmost token for local constraint". *)
Definition process_top (A : sdfta) (tok : token) (local : bool) : option sdfta :=
  match tok with
  | TAny => Some A
  | _ =>
    let A' := process tok A in
    if local then
      match tok with
      | TFun f _ => Some (filter_rules A' (fun P _ dst => negb (inb P f) || Nat.eqb (top dst) 1))
      | _ => None
      end
    else Some (mkDfta (rules A') (filter (fun q => Nat.eqb (top q) 1) (finals A')))
  end.

(** * add_dfta_constraints (lines 290-358) *)
Inductive ust : Type :=
| UBase (q : st)
| UPair (a b : ust)
| UCls (l : list ust).

Fixpoint ust_eqb (a b : ust) : bool :=
  match a, b with
  | UBase q, UBase q' => st_eqb q q'
  | UPair a1 a2, UPair b1 b2 => ust_eqb a1 b1 && ust_eqb a2 b2
  | UCls l, UCls l' =>
    (fix go (l l' : list ust) : bool :=
       match l, l' with
       | [], [] => true
       | x :: r, y :: r' => ust_eqb x y && go r r'
       | _, _ => false
       end) l l'
  | _, _ => false
  end.

Definition udfta : Type := dfta sym ust.

Inductive sres (X : Type) : Type :=
| SOk (x : X)
| SUnsupported          (* AssertionError: unsupported topmost token *)
| SFuel                 (* never: SharpenProofs *)
| SKeyErr.              (* never: SharpenProofs *)
Arguments SOk {X} x.
Arguments SUnsupported {X}.
Arguments SFuel {X}.
Arguments SKeyErr {X}.

Definition sbind {X Y} (r : sres X) (f : X -> sres Y) : sres Y :=
  match r with SOk x => f x | SUnsupported => SUnsupported | SFuel => SFuel | SKeyErr => SKeyErr end.
Definition of_res {X} (r : res X) : sres X :=
  match r with Ok x => SOk x | OutOfFuel => SFuel | KeyErr => SKeyErr end.

Definition cls_of_st (l : list st) : ust := UCls (map UBase l).
Definition pair_u (p : ust * ust) : ust := UPair (fst p) (snd p).

(** x.reduce(); x.minimise() on a per-constraint automaton *)
Definition red_min_st (a : sdfta) : sres udfta :=
  sbind (of_res (reduce st_eqb a)) (fun r =>
  sbind (of_res (minimise sym_eqb st_eqb r)) (fun m =>
  SOk (map_states sym_eqb ust_eqb cls_of_st m))).
Definition red_min_u (a : udfta) : sres udfta :=
  sbind (of_res (reduce ust_eqb a)) (fun r =>
  sbind (of_res (minimise sym_eqb ust_eqb r)) (fun m =>
  SOk (map_states sym_eqb ust_eqb UCls m))).

(** one turn of the loop: [a] is the automaton of the new constraint *)
Definition combine_step (cur : option udfta) (a : sdfta) : sres udfta :=
  match cur with
  | None => red_min_st a
  | Some d =>
    sbind (red_min_st a) (fun ma =>
      red_min_u (map_states sym_eqb ust_eqb pair_u (read_product sym_eqb ust_eqb ust_eqb d ma)))
  end.

(** Skip empty allow since it means the primitive was not recognized *)
Definition skipped (tok : token) : bool :=
  match tok with TAny => true | TFun [] _ => true | _ => false end.

Fixpoint constraints_loop (base : sdfta) (toks : list token) (cur : option udfta) : sres (option udfta) :=
  match toks with
  | [] => SOk cur
  | tok :: r =>
    if skipped tok then constraints_loop base r cur
    else match process_top base tok true with
         | None => SUnsupported
         | Some a => sbind (combine_step cur a) (fun d => constraints_loop base r (Some d))
         end
  end.

(** the result when nothing was added is the base automaton itself *)
Definition add_constraints (base : sdfta) (toks : list token) (sketch : option token) : sres udfta :=
  sbind (constraints_loop base toks None) (fun cur =>
    match sketch with
    | None => SOk (match cur with Some d => d | None => map_states sym_eqb ust_eqb UBase base end)
    | Some sk =>
      match process_top base sk false with
      | None => SUnsupported
      | Some a => combine_step cur a
      end
    end).

(** * Declarative meaning of a pattern *)
Definition root {L} (t : tree L) : L := match t with Node l _ => l end.
Definition children {L} (t : tree L) : list (tree L) := match t with Node _ ts => ts end.

(** occurrences of the symbols of S in the whole tree *)
Fixpoint occ (ss : list sym) (t : tree sym) : nat :=
  match t with
  | Node l ts => (if inb l ss then 1 else 0) + sumnat (map (occ ss) ts)
  end.

(** the pattern holds at the root of t; argument patterns are matched against
    the children position by position, surplus patterns or children are
    unconstrained *)
Fixpoint sat (tok : token) (t : tree sym) : bool :=
  match tok with
  | TAny => true
  | TAllow ss => inb (root t) ss
  | TAtMost ss n => Nat.leb (occ ss t) n
  | TAtLeast ss n => Nat.leb n (occ ss t)
  | TForce ss => Nat.leb 1 (occ ss t)
  | TForbid ss => Nat.eqb (occ ss t) 0
  | TFun f args =>
    inb (root t) f &&
    (fix go (l : list token) (ts : list (tree sym)) : bool :=
       match l, ts with
       | a :: r, u :: us => sat a u && go r us
       | _, _ => true
       end) args (children t)
  end.

Fixpoint all_sub (p : tree sym -> bool) (t : tree sym) : bool :=
  match t with
  | Node l ts => p (Node l ts) && forallb (all_sub p) ts
  end.

(** a local constraint: every sub-term whose head is in the head set satisfies the pattern *)
Definition sat_everywhere (tok : token) (t : tree sym) : bool :=
  match tok with
  | TFun f _ => all_sub (fun u => negb (inb (root u) f) || sat tok u) t
  | _ => true
  end.

Definition sat_root (sketch : option token) (t : tree sym) : bool :=
  match sketch with Some sk => sat sk t | None => true end.

(** local constraints the code accepts *)
Definition supported (tok : token) : bool :=
  match tok with TAny | TFun _ _ => true | _ => false end.

Definition sat_p (tok : token) (p : prog) : bool := sat tok (tree_of p).
Definition sat_everywhere_p (tok : token) (p : prog) : bool := sat_everywhere tok (tree_of p).
Definition sat_root_p (sk : option token) (p : prog) : bool := sat_root sk (tree_of p).

(** the grammar compiled without what __cfg2dfta__ forgets: minimum variable
    depth 0 and no forbidden pattern *)
Definition relax (P : params) : params :=
  {| dsl := dsl P; forbidden := []; request := request P; max_depth := max_depth P; min_var := 0;
     n_gram := n_gram P; const_types := const_types P |}.

(** the specified language of add_dfta_constraints on a grammar *)
Definition sharpen_spec (P : params) (toks : list token) (sk : option token) (p : prog) : bool :=
  contains P p && forallb (fun c => sat_everywhere_p c p) toks && sat_root_p sk p.
