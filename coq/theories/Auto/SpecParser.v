(** Model of synth/filter/constraints/parsing.py (parse_specification and its
    helpers) over ASCII code points, and of the string-level part of
    add_dfta_constraints (ordering of the constraints, symbol table of a
    grammar).

    A string is a [list N] of code points.  The symbol table is what
    parse_specification reads from the grammar: [tprims] = primitives_used()
    (name, symbol), [tvars] = variables() (number, symbol).  Lists of symbols
    in tokens are read as sets (the code sorts the primitives by name and
    appends the variables in the iteration order of a Python set; neither
    order is observable through sharpening) -- the model lists primitives in
    table order, then variables in the order of the written names.

    Every exception of the code (AssertionError, ValueError, IndexError) is
    the result [None].

    The flag [fx] selects the behaviour:
      fx = false   the code as pinned;
      fx = true    the code with proposed_fixes/C05-1 (name sets inside
                   "#..." and ">..." are read like everywhere else: square
                   brackets stripped, "_" and "^a,b" understood; "varK" is
                   the variable number K, not the K-th used variable) and
                   proposed_fixes/C05-2 (a pattern whose arguments are all
                   "_" keeps its head: "(f _ _)" as a sketch or as an
                   argument means "an application of f"). *)
From Coq Require Import List Bool Arith NArith.
From PS Require Import Base.ListX Base.Sexp Base.Ty Base.Value Base.Prog Auto.Dfta Gram.Cfg Auto.Sharpen.
Import ListNotations.
Local Open Scope N_scope.

Definition str : Type := list N.
Definition str_eqb : str -> str -> bool := list_eqb N.eqb.

Definition cLP : N := 40.   Definition cRP : N := 41.
Definition cSP : N := 32.   Definition cNL : N := 10.
Definition cCOMMA : N := 44. Definition cCARET : N := 94.
Definition cGT : N := 62.   Definition cLT : N := 60.   Definition cEQ : N := 61.
Definition cHASH : N := 35. Definition cUNDER : N := 95.
Definition cLBRACE : N := 123. Definition cRBRACE : N := 125.
Definition cLBRACK : N := 91.  Definition cRBRACK : N := 93.
Definition s_var : str := [118; 97; 114].

Record table : Type := mkTable {
  tprims : list (str * sym);
  tvars : list (nat * sym)
}.

(** ** Python string functions *)
Fixpoint lstrip (cs : list N) (s : str) : str :=
  match s with
  | c :: r => if memb N.eqb c cs then lstrip cs r else s
  | [] => []
  end.
Definition strip (cs : list N) (s : str) : str := rev (lstrip cs (rev (lstrip cs s))).
(** str.strip() without argument: ASCII white space *)
Definition ws : list N := [32; 9; 10; 11; 12; 13; 28; 29; 30; 31].

Fixpoint starts (p s : str) : bool :=
  match p, s with
  | [], _ => true
  | a :: p', b :: s' => N.eqb a b && starts p' s'
  | _ :: _, [] => false
  end.

(** s.split(sep) for a one-character separator *)
Fixpoint split_on (sep : N) (s : str) : list str :=
  match s with
  | [] => [[]]
  | c :: r =>
    if N.eqb c sep then [] :: split_on sep r
    else match split_on sep r with
         | p :: ps => (c :: p) :: ps
         | [] => [[c]]
         end
  end.

(** s.find(p): [None] is -1 *)
Fixpoint find_sub (p s : str) : option nat :=
  if starts p s then Some O
  else match s with
       | [] => None
       | _ :: r => match find_sub p r with Some i => Some (S i) | None => None end
       end.

(** int(s) on a non-empty string of decimal digits *)
Definition digit_of (c : N) : option nat :=
  if (48 <=? c) && (c <=? 57) then Some (N.to_nat (c - 48)) else None.
Fixpoint parse_digits (acc : nat) (s : str) : option nat :=
  match s with
  | [] => Some acc
  | c :: r => match digit_of c with Some d => parse_digits (10 * acc + d)%nat r | None => None end
  end.
Definition parse_nat (s : str) : option nat :=
  match s with [] => None | _ => parse_digits 0%nat s end.

(** str(n) *)
Fixpoint show_nat_fuel (fuel : nat) (n : nat) (acc : str) : str :=
  match fuel with
  | O => acc
  | S f =>
    let d := N.of_nat (Nat.modulo n 10) + 48 in
    if Nat.ltb n 10 then d :: acc else show_nat_fuel f (Nat.div n 10) (d :: acc)
  end.
Definition show_nat (n : nat) : str := show_nat_fuel (S n) n [].
Definition var_name (k : nat) : str := s_var ++ show_nat k.

(** ** __next_level__ / __parse_next_word__ (lines 147-164) *)
(** [take_paren s level]: the prefix of [s] up to and including the [")"]
    that brings the level back to 0 (everything if there is none), and what
    follows it. *)
Fixpoint take_paren (s : str) (level : nat) : str * str :=
  match s with
  | [] => ([], [])
  | c :: r =>
    if N.eqb c cLP then let '(w, rest) := take_paren r (S level) in (c :: w, rest)
    else if N.eqb c cRP then
           match level with
           | 1%nat => ([c], r)
           | _ => let '(w, rest) := take_paren r (Nat.pred level) in (c :: w, rest)
           end
         else let '(w, rest) := take_paren r level in (c :: w, rest)
  end.
Fixpoint take_plain (s : str) : str * str :=
  match s with
  | [] => ([], [])
  | c :: r => if N.eqb c cSP then ([], c :: r) else let '(w, rest) := take_plain r in (c :: w, rest)
  end.
(** word = program[:end + 1]; the next iteration starts at program[end + 2:] *)
Definition next_word (s : str) : str * str :=
  let '(w, rest) := match s with
                    | c :: _ => if N.eqb c cLP then take_paren s 0 else take_plain s
                    | [] => ([], [])
                    end in
  (w, tl rest).

(** ** __str_to_derivable_program__ (lines 167-187) *)
Definition all_symbols (T : table) : list sym := map snd (tprims T) ++ map snd (tvars T).

Fixpoint insert_var (v : nat * sym) (l : list (nat * sym)) : list (nat * sym) :=
  match l with
  | [] => [v]
  | w :: r => if Nat.leb (fst v) (fst w) then v :: w :: r else w :: insert_var v r
  end.
Definition sorted_vars (T : table) : list (nat * sym) := fold_right insert_var [] (tvars T).

Definition in_names (n : str) (names : list str) : bool := memb str_eqb n names.

Fixpoint dedup_str (l : list str) : list str :=
  match l with
  | [] => []
  | x :: r => if in_names x r then dedup_str r else x :: dedup_str r
  end.

(** the variables named by the elements that start with "var" *)
Fixpoint named_vars (fx : bool) (T : table) (names : list str) : option (list sym) :=
  match names with
  | [] => Some []
  | el :: r =>
    if starts s_var el then
      match parse_nat (skipn 3 el) with
      | None => None                                       (* ValueError *)
      | Some k =>
        let here :=
          if fx then Some (map snd (filter (fun v => Nat.eqb (fst v) k) (tvars T)))
          else match nth_error (sorted_vars T) k with
               | Some v => Some [snd v]
               | None => None                               (* IndexError *)
               end in
        match here, named_vars fx T r with
        | Some a, Some b => Some (a ++ b)
        | _, _ => None
        end
      end
    else named_vars fx T r
  end.

(** complement of a set of names: [P for P in primitives if P.primitive not in
    forbidden] + [V for V in variables if str(V) not in forbidden] *)
Definition complement (T : table) (forbidden : list str) : list sym :=
  map snd (filter (fun p => negb (in_names (fst p) forbidden)) (tprims T))
  ++ map snd (filter (fun v => negb (in_names (var_name (fst v)) forbidden)) (tvars T)).

Definition str_to_derivable (fx : bool) (T : table) (word : str) : option (list sym) :=
  let named (w : str) :=
    let allowed := split_on cCOMMA w in
    match named_vars fx T (dedup_str allowed) with
    | Some vs => Some (map snd (filter (fun p => in_names (fst p) allowed) (tprims T)) ++ vs)
    | None => None
    end in
  if fx then
    let w := strip [cLP; cRP; cLBRACE; cRBRACE; cLBRACK; cRBRACK] word in
    if str_eqb w [cUNDER] then Some (all_symbols T)
    else match w with
         | c :: r => if N.eqb c cCARET then Some (complement T (split_on cCOMMA r)) else named w
         | [] => named w
         end
  else
    if str_eqb word [cUNDER] then Some (all_symbols T)
    else named (strip [cLP; cRP; cLBRACE; cRBRACE] word).

(** ** __interpret_word__ (lines 190-227) *)
Definition max_found (a b : option nat) : option nat :=
  match a, b with
  | Some x, Some y => Some (Nat.max x y)
  | Some x, None => Some x
  | None, Some y => Some y
  | None, None => None
  end.

Definition interpret_word (fx : bool) (T : table) (word0 : str) : option token :=
  let word := strip ws word0 in
  match word with
  | c :: r =>
    if N.eqb c cCARET then
      let out := complement T (split_on cCOMMA r) in
      if Nat.eqb (length out) (length (tprims T) + length (tvars T)) then Some TAny else Some (TAllow out)
    else if N.eqb c cGT then
      match r with
      | c' :: r' =>
        if N.eqb c' cCARET then option_map TForbid (str_to_derivable fx T r')
        else option_map TForce (str_to_derivable fx T r)
      | [] => option_map TForce (str_to_derivable fx T r)
      end
    else if str_eqb word [cUNDER] then Some TAny
    else if N.eqb c cHASH then
      let w := filter (fun x => negb (N.eqb x cSP)) r in
      match max_found (find_sub [cLT; cEQ] w) (find_sub [cGT; cEQ] w) with
      | None => None                                   (* int("") : ValueError *)
      | Some i =>
        let most := match nth_error w i with Some x => N.eqb x cLT | None => false end in
        match str_to_derivable fx T (firstn i w), parse_nat (skipn (i + 2) w) with
        | Some content, Some n => Some (if most then TAtMost content n else TAtLeast content n)
        | _, _ => None
        end
      end
    else option_map TAllow (str_to_derivable fx T word)
  | [] => option_map TAllow (str_to_derivable fx T word)
  end.

(** ** parse_specification (lines 233-262) *)
Definition is_any (t : token) : bool := match t with TAny => true | _ => false end.

(** the while loop: words are cut off the front of the string; a word that
    starts with "(" is parsed recursively ([pf]), any other by
    __interpret_word__.  [k] bounds the number of iterations (each consumes at
    least one character). *)
Fixpoint words_loop (pf : str -> option token) (fx : bool) (T : table) (k : nat) (s : str) : option (list token) :=
  match s with
  | [] => Some []
  | _ =>
    match k with
    | O => None
    | S k' =>
      let '(w, rest) := next_word s in
      let tok := if starts [cLP] w then pf w else interpret_word fx T w in
      match tok, words_loop pf fx T k' rest with
      | Some t, Some ts => Some (t :: ts)
      | _, _ => None
      end
    end
  end.

(** lines 255-262 *)
Definition finish (fx : bool) (elements : option (list token)) : option token :=
  match elements with
  | Some (TAllow f :: args) => if negb fx && forallb is_any args then Some TAny else Some (TFun f args)
  | Some [t] => Some t
  | _ => None                                          (* AssertionError *)
  end.

(** spec.replace("\n", "").strip(")(") *)
Definition prepare (spec0 : str) : str := strip [cRP; cLP] (filter (fun c => negb (N.eqb c cNL)) spec0).

Fixpoint parse_spec (fuel : nat) (fx : bool) (T : table) (spec0 : str) : option token :=
  match fuel with
  | O => None
  | S fuel' =>
    finish fx (words_loop (parse_spec fuel' fx T) fx T (S (length (prepare spec0))) (prepare spec0))
  end.

Definition parse_specification (fx : bool) (T : table) (spec : str) : option token :=
  parse_spec (S (length spec)) fx T spec.

(** ** string level of add_dfta_constraints (lines 303-308) *)
Fixpoint contains_sub (p s : str) : bool :=
  starts p s || match s with [] => false | _ :: r => contains_sub p r end.

Fixpoint str_ltb (a b : str) : bool :=
  match a, b with
  | [], [] => false
  | [], _ :: _ => true
  | _ :: _, [] => false
  | x :: a', y :: b' => (x <? y) || (N.eqb x y && str_ltb a' b')
  end.
(** tuple order on (int("var" in c), c) *)
Definition cons_ltb (a b : str) : bool :=
  let fa := contains_sub s_var a in
  let fb := contains_sub s_var b in
  if Bool.eqb fa fb then str_ltb a b else fb.
(** constraint_plus.sort(reverse=True): descending; equal keys are equal strings *)
Fixpoint insert_desc (c : str) (l : list str) : list str :=
  match l with
  | [] => [c]
  | d :: r => if cons_ltb c d then d :: insert_desc c r else c :: d :: r
  end.
Definition order_constraints (cs : list str) : list str := fold_right insert_desc [] cs.

(** ** symbol table of a depth-bounded grammar *)
(** _guess_type_request_ collects the variables of the rules as built, before
    clean() *)
Fixpoint levels_raw (k : nat) (P : params) (cur : list cnt) : list cnt :=
  match k with
  | O => []
  | S k' => cur ++ levels_raw k' P (dedup cnt_eqb (flat_map (fun x => flat_map snd (rules_at P x)) cur))
  end.
Definition raw_reachable (P : params) : list cnt := levels_raw (fuel_of P) P [start P].

Definition add_sym (s : sym) (l : list sym) : list sym := if memb sym_eqb s l then l else l ++ [s].

Definition grammar_vars (P : params) : list (nat * sym) :=
  flat_map (fun s => match s with SVar i _ => [(i, s)] | _ => [] end)
           (fold_left (fun acc s => add_sym s acc)
                      (flat_map (fun x => map fst (rules_at P x)) (raw_reachable P)) []).

(** primitives_used(): the primitives of the cleaned grammar; [names] gives
    the printed name of a primitive identifier *)
Definition grammar_prims (names : list (N * str)) (P : params) : list (str * sym) :=
  flat_map (fun s => match s with
                     | SPrim n _ => match alookup N.eqb n names with Some nm => [(nm, s)] | None => [] end
                     | _ => []
                     end)
           (fold_left (fun acc s => add_sym s acc)
                      (flat_map (fun x => map fst (crules P x)) (reachable P)) []).

Definition grammar_table (names : list (N * str)) (P : params) : table :=
  mkTable (grammar_prims names P) (grammar_vars P).

Fixpoint omap_tok (f : str -> option token) (l : list str) : option (list token) :=
  match l with
  | [] => Some []
  | x :: r => match f x, omap_tok f r with Some t, Some ts => Some (t :: ts) | _, _ => None end
  end.

(** skip condition of the loop, with proposed_fixes/C05-2: a pattern without
    any argument requirement constrains nothing as a local constraint *)
Definition skipped_fx (tok : token) : bool :=
  skipped tok || match tok with TFun _ args => forallb is_any args | _ => false end.

Inductive outcome : Type :=
| Sharpened (d : udfta)
| ParseError
| Unsupported
| ModelError.          (* OutOfFuel / KeyErr of the automaton model: never *)

(** add_dfta_constraints(cfg, constraints, sketch) on texts *)
Definition sharpen_text (fx : bool) (names : list (N * str)) (P : params)
           (cs : list str) (sketch : option str) : outcome * list token * option token :=
  let T := grammar_table names P in
  match omap_tok (parse_specification fx T) (order_constraints cs),
        match sketch with
        | None => Some None
        | Some s => option_map Some (parse_specification fx T s)
        end with
  | Some toks, Some sk =>
    let toks' := if fx then filter (fun t => negb (skipped_fx t)) toks else toks in
    (match cfg2dfta P with
     | Ok base =>
       match add_constraints base toks' sk with
       | SOk d => Sharpened d
       | SUnsupported => Unsupported
       | _ => ModelError
       end
     | _ => ModelError
     end, toks, sk)
  | Some toks, None => (ParseError, toks, None)
  | None, _ => (ParseError, [], None)
  end.
