(** Model of synth/pbe/task_generator.py (TaskGenerator.generate_program,
    generate_type_request, sample_input, eval_input, generate_task) as a
    deterministic function of ORACLE STREAMS.

    Everything random in the implementation comes from four kinds of samplers:
      - gen_random_type_request.sample()            -> stream [g_reqs]
      - type2pgrammar[tr].sample_program()          -> one stream per request, [g_progs]
      - gen_random_sample_number.sample(type=tr)    -> stream [g_counts]
      - input_generator.sample(type=t)              -> one stream per argument type, [g_inputs]
    The model consumes these lists in the order in which the code calls the
    samplers and has no other source of information.  Running out of a stream
    is the explicit failure [FOutOfStream]; the theorems exclude it.

    Every Python loop is bounded by [max_tries] in the code itself and becomes
    structural recursion on the remaining budget; only the outer [while True]
    of generate_task needs fuel ([FOutOfFuel]).

    The evaluator is the reference semantics [eval_ref] seen through
    [observe] (property C11: the cached evaluator returns exactly that). *)
From Coq Require Import ZArith NArith List Bool Arith Lia.
From PS Require Import Base.ListX Base.Sexp Base.Ty Base.Value Base.Prog Sem.Semantics Sem.Eval.
Import ListNotations.

Inductive stream_id : Type :=
| SReq                 (* the type-request sampler *)
| SProg (t : ty)       (* the grammar sampler of request t *)
| SCount               (* the sampler of the number of examples *)
| SInput (t : ty).     (* the input sampler asked for type t *)

Inductive failure : Type :=
| FOutOfStream (s : stream_id)
| FNoGrammar (t : ty)      (* KeyError: type2pgrammar[type_request] *)
| FEvalRaised (e : N)      (* an exception that is in neither skip set escapes generate_task *)
| FOutOfFuel.              (* outer while True *)

Inductive result (X : Type) : Type :=
| Done (x : X)
| Fail (f : failure).
Arguments Done {X} x.
Arguments Fail {X} f.

Definition rbind {X Y} (r : result X) (k : X -> result Y) : result Y :=
  match r with Done x => k x | Fail f => Fail f end.
Notation "'dor' x <- r ; k" := (rbind r (fun x => k))
  (at level 200, x pattern, r at level 100, k at level 200).

(** The state of the samplers (what is left of each stream) and the [seen]
    set of the generator. *)
Record gstate : Type := mk_state {
  g_reqs : list ty;
  g_progs : list (ty * list prog);
  g_counts : list nat;
  g_inputs : list (ty * list value);
  g_seen : list prog }.

Record settings : Type := mk_settings {
  s_max_tries : nat;
  s_uniques : bool;
  s_eskip : list N;        (* evaluator.skip_exceptions *)
  s_gskip : list N;        (* TaskGenerator.skip_exceptions *)
  s_count_guard : bool }.  (* true: the example loop stops as soon as the requested number is
                              reached, also when that number is 0 (repaired code);
                              false: the pinned code, whose loop body runs once before the count
                              is looked at *)

Record task : Type := mk_task {
  t_req : ty;
  t_sol : prog;
  t_examples : list (list value * value);
  t_tries : nat;           (* metadata "tries" *)
  t_unique : bool }.       (* metadata "unique" *)

(** Program.used_variables: the set of variable numbers occurring. *)
Fixpoint var_indices (p : prog) : list nat :=
  match p with
  | PLeaf (SVar i _) => [i]
  | PLeaf _ => []
  | PFun f args => match f with SVar i _ => [i] | _ => [] end ++ flat_map var_indices args
  end.
Definition nvars (p : prog) : nat := length (nodup Nat.eq_dec (var_indices p)).

(** Python's == on programs (synth/syntax/program.py): [Variable.__eq__] is
    [isinstance(other, Variable) and self.variable == other.variable]. *)
Definition sym_eqb_py (a b : sym) : bool :=
  match a, b with
  | SVar i _, SVar j _ => Nat.eqb i j
  | _, _ => sym_eqb a b
  end.

Fixpoint prog_eqb_py (a b : prog) : bool :=
  match a, b with
  | PLeaf s, PLeaf s' => sym_eqb_py s s'
  | PFun f l, PFun g l' => sym_eqb_py f g && list_eqb prog_eqb_py l l'
  | _, _ => false
  end.

Section TaskGen.
  Variable vapp : value -> value -> outcome value.
  Variable prim_value : N -> value.
  Variable valid : value -> bool.          (* output_validator *)
  Variable cfg : settings.

  (** ---- draws ---- *)
  Definition draw_req (st : gstate) : result (ty * gstate) :=
    match g_reqs st with
    | [] => Fail (FOutOfStream SReq)
    | t :: r => Done (t, mk_state r (g_progs st) (g_counts st) (g_inputs st) (g_seen st))
    end.

  Definition draw_prog (tr : ty) (st : gstate) : result (prog * gstate) :=
    match alookup ty_eqb tr (g_progs st) with
    | None => Fail (FNoGrammar tr)
    | Some [] => Fail (FOutOfStream (SProg tr))
    | Some (p :: r) =>
      Done (p, mk_state (g_reqs st) (ainsert ty_eqb tr r (g_progs st)) (g_counts st) (g_inputs st) (g_seen st))
    end.

  Definition draw_count (st : gstate) : result (nat * gstate) :=
    match g_counts st with
    | [] => Fail (FOutOfStream SCount)
    | c :: r => Done (c, mk_state (g_reqs st) (g_progs st) r (g_inputs st) (g_seen st))
    end.

  Definition draw_input (t : ty) (st : gstate) : result (value * gstate) :=
    match alookup ty_eqb t (g_inputs st) with
    | None | Some [] => Fail (FOutOfStream (SInput t))
    | Some (v :: r) =>
      Done (v, mk_state (g_reqs st) (g_progs st) (g_counts st) (ainsert ty_eqb t r (g_inputs st)) (g_seen st))
    end.

  (** sample_input: one draw per argument type, left to right. *)
  Fixpoint sample_input (args : list ty) (st : gstate) : result (list value * gstate) :=
    match args with
    | [] => Done ([], st)
    | t :: r =>
      dor (v, st1) <- draw_input t st;
      dor (vs, st2) <- sample_input r st1;
      Done (v :: vs, st2)
    end.

  (** eval_input: the evaluator turns exceptions of its own skip set into
      None; the generator does the same for its skip set; anything else
      propagates. *)
  Definition eval_input (sol : prog) (inp : list value) : observed :=
    match observe (s_eskip cfg) (eval_ref vapp prim_value sol inp) with
    | Returned v => Returned v
    | Raised e => if memb N.eqb e (s_gskip cfg) then Returned VNone else Raised e
    end.

  (** [solution in self.seen] is Python's == on programs: Variable.__eq__ compares the
      index only (the type is ignored), everything else is structural. *)
  Definition seen_mem (p : prog) (st : gstate) : bool := memb prog_eqb_py p (g_seen st).

  (** ---- generate_program ---- *)
  (** [while solution in self.seen and unique_tries < self.max_tries]:
      [urem] is max_tries - unique_tries. *)
  Fixpoint uniq_loop (tr : ty) (urem : nat) (sol : prog) (st : gstate) : result (prog * nat * gstate) :=
    match urem with
    | O => Done (sol, O, st)
    | S u =>
      if seen_mem sol st then
        dor (sol', st') <- draw_prog tr st;
        uniq_loop tr u sol' st'
      else Done (sol, urem, st)
    end.

  (** [while var_used < nargs and tries < self.max_tries]: [trem] is
      max_tries - tries. *)
  Fixpoint var_loop (tr : ty) (nargs : nat) (trem : nat) (best : prog) (var_used : nat) (urem : nat)
           (st : gstate) : result (prog * nat * gstate) :=
    match trem with
    | O => Done (best, urem, st)
    | S t =>
      if var_used <? nargs then
        dor (sol, st1) <- draw_prog tr st;
        dor (sol', urem', st2) <- uniq_loop tr urem sol st1;
        let n := nvars sol' in
        if var_used <? n then var_loop tr nargs t sol' n urem' st2
        else var_loop tr nargs t best var_used urem' st2
      else Done (best, urem, st)
    end.

  (** Returns (program, is_unique). *)
  Definition generate_program (tr : ty) (st : gstate) : result (prog * bool * gstate) :=
    dor (s0, st0) <- draw_prog tr st;
    dor (s1, urem, st1) <- uniq_loop tr (s_max_tries cfg) s0 st0;
    dor (best, urem', st2) <-
      var_loop tr (length (arguments tr)) (s_max_tries cfg) s1 (nvars s1) urem st1;
    Done (best, 0 <? urem', st2).

  (** ---- generate_type_request ---- *)
  (** [while type_request in self._failed_types and i <= self.max_tries]:
      at most max_tries + 1 re-draws. *)
  Fixpoint req_loop (failed : list ty) (rem : nat) (tr : ty) (st : gstate) : result (ty * gstate) :=
    match rem with
    | O => Done (tr, st)
    | S r =>
      if memb ty_eqb tr failed then
        dor (tr', st') <- draw_req st;
        req_loop failed r tr' st'
      else Done (tr, st)
    end.

  Definition generate_type_request (failed : list ty) (st : gstate) : result (ty * gstate) :=
    dor (tr, st') <- draw_req st;
    req_loop failed (S (s_max_tries cfg)) tr st'.

  (** ---- the example loop of generate_task ---- *)
  (** [rem] is max_tries - tries.  Loop condition:
        (max_tries - tries) + len(inputs) >= samples and tries < max_tries
      preceded, in the repaired code, by len(inputs) < samples. *)
  Fixpoint ex_loop (args : list ty) (sol : prog) (samples : nat) (rem : nat)
           (acc : list (list value * value)) (st : gstate)
    : result (list (list value * value) * nat * gstate) :=
    match rem with
    | O => Done (acc, O, st)
    | S r =>
      if (if s_count_guard cfg then length acc <? samples else true) && (samples <=? rem + length acc) then
        dor (inp, st') <- sample_input args st;
        match eval_input sol inp with
        | Raised e => Fail (FEvalRaised e)
        | Returned out =>
          if valid out && negb (memb value_eqb out (map snd acc)) then
            let acc' := acc ++ [(inp, out)] in
            if samples <=? length acc' then Done (acc', r, st')      (* break *)
            else ex_loop args sol samples r acc' st'
          else ex_loop args sol samples r acc st'
        end
      else Done (acc, rem, st)
    end.

  Definition add_seen (p : prog) (st : gstate) : gstate :=
    mk_state (g_reqs st) (g_progs st) (g_counts st) (g_inputs st)
             (if seen_mem p st then g_seen st else p :: g_seen st).

  (** generate_task: the [while True] loop; [failed] is self._failed_types
      (cleared on entry).  Also returns the number of examples that was drawn
      for the attempt that succeeded. *)
  Fixpoint task_loop (fuel : nat) (failed : list ty) (st : gstate) : result (task * nat * gstate) :=
    match fuel with
    | O => Fail FOutOfFuel
    | S f =>
      dor (tr, st1) <- generate_type_request failed st;
      dor (sol, uniq, st2) <- generate_program tr st1;
      dor (samples, st3) <- draw_count st2;
      dor (exs, rem, st4) <- ex_loop (arguments tr) sol samples (s_max_tries cfg) [] st3;
      if length exs <? samples then task_loop f (tr :: failed) st4
      else
        Done (mk_task tr sol exs (s_max_tries cfg - rem) uniq, samples,
              if s_uniques cfg && uniq then add_seen sol st4 else st4)
    end.

  Definition generate_task (fuel : nat) (st : gstate) : result (task * nat * gstate) :=
    task_loop fuel [] st.

  (** [n] successive calls of generate_task on one generator; stops at the
      first failure (the exception leaves the Python loop). *)
  Fixpoint gen_tasks (fuel n : nat) (st : gstate) : list (task * nat) * option failure :=
    match n with
    | O => ([], None)
    | S k =>
      match generate_task fuel st with
      | Done (t, drawn, st') => let '(l, e) := gen_tasks fuel k st' in ((t, drawn) :: l, e)
      | Fail f => ([], Some f)
      end
    end.
End TaskGen.

(** The validators used by the correspondence check
    (basic_output_validator of task_generator.py with an int range, optional
    bool / None entries and a maximal list length, negative = unbounded). *)
Section Validator.
  Variables lo hi maxlen : Z.
  Variables allow_none allow_bool : bool.
  Fixpoint basic_validator (v : value) : bool :=
    match v with
    | VInt z => (lo <=? z)%Z && (z <=? hi)%Z
    | VBool _ => allow_bool
    | VNone => allow_none
    | VList l => ((maxlen <? 0)%Z || (Z.of_nat (length l) <=? maxlen)%Z) && forallb basic_validator l
    | VClos _ _ => false
    end.
End Validator.
