(** The fixed DSL semantics used by the correspondence checks; mirrored line by
    line in harness/lib/semantics.py.  Theorems never depend on this table:
    they are stated for an arbitrary application function [vapp]. *)
From Coq Require Import ZArith NArith List Bool Lia.
From PS Require Import Base.ListX Base.Sexp Base.Value.
Import ListNotations.
Local Open Scope Z_scope.

Inductive outcome (X : Type) : Type :=
| Ok (x : X)
| Exc (e : N).          (* exception class: 0 ZeroDivisionError, 1 IndexError, 2 ValueError, 3 TypeError, 99 model fuel *)
Arguments Ok {X} x.
Arguments Exc {X} e.

Definition obindO {X Y} (o : outcome X) (f : X -> outcome Y) : outcome Y :=
  match o with Ok x => f x | Exc e => Exc e end.

Definition E_ZERODIV : N := 0%N.
Definition E_INDEX : N := 1%N.
Definition E_VALUE : N := 2%N.
Definition E_TYPE : N := 3%N.
Definition E_FUEL : N := 99%N.

Definition prim_arity (n : N) : nat :=
  match n with
  | 0 | 1 | 2 | 3 => 2%nat | 4 => 1%nat | 5 | 6 | 7 => 0%nat
  | 8 | 9 => 2%nat | 10 => 1%nat | 11 => 2%nat | 12 => 3%nat
  | 13 => 0%nat | 14 => 2%nat | 15 | 16 | 17 | 18 => 1%nat
  | 19 => 2%nat | 20 | 21 => 1%nat
  | 22 | 23 => 1%nat | 24 => 2%nat
  | 25 | 26 | 27 | 28 => 1%nat
  | 29 => 3%nat | 30 => 3%nat | 31 | 32 => 0%nat
  | _ => 0%nat
  end%N.

Fixpoint sum_values (l : list value) : outcome Z :=
  match l with
  | [] => Ok 0
  | VInt x :: r => obindO (sum_values r) (fun s => Ok (x + s))
  | _ => Exc E_TYPE
  end.

Fixpoint concat_values (l : list value) : outcome (list value) :=
  match l with
  | [] => Ok []
  | VList x :: r => obindO (concat_values r) (fun s => Ok (x ++ s))
  | _ => Exc E_TYPE
  end.

Fixpoint range_values (k : nat) (from : Z) : list value :=
  match k with O => [] | S k' => VInt from :: range_values k' (from + 1) end.

(** [vapp fuel f v]: apply a function value to one argument. *)
Fixpoint vapp_fuel (fuel : nat) (f v : value) {struct fuel} : outcome value :=
  match fuel with
  | O => Exc E_FUEL
  | S fu =>
    match f with
    | VClos n args =>
      let args' := args ++ [v] in
      if Nat.ltb (length args') (prim_arity n) then Ok (VClos n args')
      else
        let app := vapp_fuel fu in
        let fix map_app (g : value) (l : list value) : outcome (list value) :=
          match l with
          | [] => Ok []
          | x :: r => obindO (app g x) (fun y => obindO (map_app g r) (fun ys => Ok (y :: ys)))
          end in
        match n, args' with
        | 0%N, [VInt a; VInt b] => Ok (VInt (a + b))
        | 1%N, [VInt a; VInt b] => Ok (VInt (a - b))
        | 2%N, [VInt a; VInt b] => Ok (VInt (a * b))
        | 3%N, [VInt a; VInt b] => if b =? 0 then Exc E_ZERODIV else Ok (VInt (a / b))
        | 4%N, [VInt a] => Ok (VInt (- a))
        | 8%N, [VInt a; VInt b] => Ok (VBool (a <? b))
        | 9%N, [VInt a; VInt b] => Ok (VBool (a =? b))
        | 10%N, [VBool a] => Ok (VBool (negb a))
        | 11%N, [VBool a; VBool b] => Ok (VBool (a && b))
        | 12%N, [VBool c; x; y] => Ok (if c then x else y)
        | 14%N, [x; VList l] => Ok (VList (x :: l))
        | 15%N, [VList l] => match l with [] => Exc E_INDEX | x :: _ => Ok x end
        | 16%N, [VList l] => Ok (VList (tl l))
        | 17%N, [VList l] => Ok (VInt (Z.of_nat (length l)))
        | 18%N, [VList l] => obindO (sum_values l) (fun s => Ok (VInt s))
        | 19%N, [g; VList l] => obindO (map_app g l) (fun ys => Ok (VList ys))
        | 20%N, [VInt a] => Ok (VInt (a + 1))
        | 21%N, [VInt a] => Ok (VInt (2 * a))
        | 22%N, [VList l] => match l with [] => Ok VNone | x :: _ => Ok x end
        | 23%N, [x] => Ok (VBool (match x with VNone => true | _ => false end))
        | 24%N, [o; d] => Ok (match o with VNone => d | _ => o end)
        | 25%N, [x] => Ok (VList [x])
        | 26%N, [VList l] => obindO (concat_values l) (fun r => Ok (VList r))
        | 27%N, [VInt a] => if a <? 0 then Exc E_VALUE else Ok (VInt a)
        | 28%N, [VInt a] => Ok (VList (range_values (Z.to_nat (Z.min (Z.max a 0) 5)) 0))
        | 29%N, [g; a; b] => obindO (app g a) (fun h => app h b)
        | 30%N, [g; h; x] => obindO (app h x) (fun y => app g y)
        | _, _ => Exc E_TYPE
        end
    | _ => Exc E_TYPE
    end
  end.

Definition vapp : value -> value -> outcome value := vapp_fuel 200.

(** The object the semantics dictionary holds for primitive [n]. *)
Definition prim_value (n : N) : value :=
  match n with
  | 5 => VInt 0 | 6 => VInt 1 | 7 => VInt 2
  | 13 => VList []
  | 31 => VBool true | 32 => VBool false
  | _ => VClos n []
  end%N.

Definition sexp_of_outcome {X} (f : X -> sexp) (o : outcome X) : sexp :=
  match o with Ok x => L [A 0; f x] | Exc e => L [A 1; ofN e] end.
