(** Model of synth/semantic/evaluator.py (DSLEvaluator.eval, clear_cache).
    Generic in the application function and in the set of skippable exception
    classes. *)
From Coq Require Import ZArith NArith List Bool Lia.
From PS Require Import Base.ListX Base.Sexp Base.Ty Base.Value Base.Prog Sem.Semantics.
Import ListNotations.

Section Eval.
  Variable vapp : value -> value -> outcome value.
  Variable prim_value : N -> value.

  (** Value of a leaf object under input [inp]. *)
  Definition eval_sym (s : sym) (inp : list value) : outcome value :=
    match s with
    | SPrim n _ => Ok (prim_value n)
    | SVar i _ => match nth_error inp i with Some v => Ok v | None => Exc E_INDEX end
    | SConst _ (Some v) => Ok v
    | SConst _ None => Ok VNone
    end.

  Fixpoint apply_all (f : value) (args : list value) : outcome value :=
    match args with
    | [] => Ok f
    | a :: r => obindO (vapp f a) (fun g => apply_all g r)
    end.

  (** Reference semantics: head, then every argument left to right (innermost
      first), then the curried applications left to right. *)
  Fixpoint eval_ref (p : prog) (inp : list value) : outcome value :=
    match p with
    | PLeaf s => eval_sym s inp
    | PFun f args =>
      obindO (eval_sym f inp) (fun fv =>
        let fix eval_args (l : list prog) : outcome (list value) :=
          match l with
          | [] => Ok []
          | a :: r => obindO (eval_ref a inp) (fun v => obindO (eval_args r) (fun vs => Ok (v :: vs)))
          end in
        obindO (eval_args args) (fun vs => apply_all fv vs))
    end.

  (** What the user observes from [DSLEvaluator.eval]. *)
  Inductive observed : Type :=
  | Returned (v : value)       (* includes the None returned for a skipped failure *)
  | Raised (e : N).

  Variable skip : list N.
  Definition is_skipped (e : N) : bool := memb N.eqb e skip.

  Definition observe (o : outcome value) : observed :=
    match o with
    | Ok v => Returned v
    | Exc e => if is_skipped e then Returned VNone else Raised e
    end.

  (** ---- cached evaluator ---- *)
  (** An entry is either a value or the mark "evaluation failed with a skipped
      exception" (kept apart from the value None). *)
  Inductive entry : Type := EVal (v : value) | EFailed.
  Definition table := list (prog * entry).
  Definition cache := list (list value * table).

  Definition tlookup (p : prog) (t : table) : option entry := alookup prog_eqb p t.
  Definition tinsert (p : prog) (e : entry) (t : table) : table := ainsert prog_eqb p e t.

  (** One step of the [for sub_prog in depth_first_iter()] loop.
      Result: [inl t'] continue with table t', [inr (t', o)] stop with outcome. *)
  Inductive loop_result : Type :=
  | Continue (t : table)
  | StopFailed (t : table)               (* met a sub-program recorded as failed *)
  | StopExc (t : table) (e : N).         (* an exception escaped a semantic function *)

  Definition entry_value (t : table) (p : prog) : outcome value :=
    match tlookup p t with
    | Some (EVal v) => Ok v
    | _ => Exc E_FUEL   (* unreachable: post-order guarantees presence *)
    end.

  Definition step_sub (inp : list value) (t : table) (q : prog) : loop_result :=
    match tlookup q t with
    | Some (EVal _) => Continue t
    | Some EFailed => StopFailed t
    | None =>
      match q with
      | PLeaf s =>
        match eval_sym s inp with
        | Ok v => Continue (tinsert q (EVal v) t)
        | Exc e => StopExc t e
        end
      | PFun f args =>
        let fix arg_values (l : list prog) : outcome (list value) :=
          match l with
          | [] => Ok []
          | a :: r => obindO (entry_value t a) (fun v => obindO (arg_values r) (fun vs => Ok (v :: vs)))
          end in
        match obindO (entry_value t (PLeaf f)) (fun fv => obindO (arg_values args) (fun vs => apply_all fv vs)) with
        | Ok v => Continue (tinsert q (EVal v) t)
        | Exc e => StopExc t e
        end
      end
    end.

  Fixpoint run_loop (inp : list value) (t : table) (subs : list prog) : loop_result :=
    match subs with
    | [] => Continue t
    | q :: r =>
      match step_sub inp t q with
      | Continue t' => run_loop inp t' r
      | other => other
      end
    end.

  (** [eval_table t p inp]: DSLEvaluator.eval on the table of this input. *)
  Definition eval_table (t : table) (p : prog) (inp : list value) : observed * table :=
    match tlookup p t with
    | Some (EVal v) => (Returned v, t)
    | Some EFailed => (Returned VNone, t)
    | None =>
      match run_loop inp t (subprograms p) with
      | Continue t' =>
        match tlookup p t' with
        | Some (EVal v) => (Returned v, t')
        | _ => (Raised E_FUEL, t')
        end
      | StopFailed t' => (Returned VNone, tinsert p EFailed t')
      | StopExc t' e =>
        if is_skipped e then (Returned VNone, tinsert p EFailed t') else (Raised e, t')
      end
    end.

  Definition inputs_eqb : list value -> list value -> bool := list_eqb value_eqb.

  Definition eval_cached (use_cache : bool) (c : cache) (p : prog) (inp : list value) : observed * cache :=
    if use_cache then
      let t := match alookup inputs_eqb inp c with Some t => t | None => [] end in
      let '(o, t') := eval_table t p inp in
      (o, ainsert inputs_eqb inp t' c)
    else (fst (eval_table [] p inp), c).

  (** Histories. *)
  Inductive op : Type := OEval (p : prog) (inp : list value) | OClear.

  Definition run_op (use_cache : bool) (c : cache) (o : op) : option observed * cache :=
    match o with
    | OEval p inp => let '(r, c') := eval_cached use_cache c p inp in (Some r, c')
    | OClear => (None, [])
    end.

  Fixpoint run_history (use_cache : bool) (c : cache) (h : list op) : list (option observed) :=
    match h with
    | [] => []
    | o :: r => let '(x, c') := run_op use_cache c o in x :: run_history use_cache c' r
    end.

  (** The specification the property states: each evaluation in a history
      returns what the reference semantics gives, independently of the rest. *)
  Definition spec_history (h : list op) : list (option observed) :=
    map (fun o => match o with OEval p inp => Some (observe (eval_ref p inp)) | OClear => None end) h.
End Eval.

Definition sexp_of_observed (o : observed) : sexp :=
  match o with
  | Returned v => L [A 0%Z; sexp_of_value v]
  | Raised e => L [A 1%Z; ofN e]
  end.
