(** Proofs for property C20 (filter algebra, observational equivalence). *)
From Coq Require Import ZArith NArith List Bool Lia Setoid.
From PS Require Import Base.ListX Base.Sexp Base.Ty Base.Value Base.Prog Sem.Semantics Sem.Eval Sem.Filters.
Import ListNotations.

Section Algebra.
  Variable env : nat -> bool.

  Lemma accept_inter a b : accept env (f_inter a b) = accept env a && accept env b.
  Proof.
    destruct a as [i|f|l|l], b as [j|g|l'|l']; cbn [f_inter accept forallb];
      rewrite ?forallb_app; cbn [forallb accept]; rewrite ?andb_true_r; auto using andb_comm.
  Qed.

  Lemma accept_union a b : accept env (f_union a b) = accept env a || accept env b.
  Proof.
    destruct a as [i|f|l|l], b as [j|g|l'|l']; cbn [f_union accept existsb];
      rewrite ?existsb_app; cbn [existsb accept]; rewrite ?orb_false_r; auto using orb_comm.
  Qed.

  Lemma accept_neg a : accept env (f_neg a) = negb (accept env a).
  Proof. destruct a; cbn [f_neg accept]; rewrite ?negb_involutive; reflexivity. Qed.

  Lemma forallb_map_ext {X Y} (f : Y -> bool) (g : X -> bool) (h : X -> Y) l :
    Forall (fun x => f (h x) = g x) l -> forallb f (map h l) = forallb g l.
  Proof. induction 1; cbn; congruence. Qed.

  Lemma existsb_map_ext {X Y} (f : Y -> bool) (g : X -> bool) (h : X -> Y) l :
    Forall (fun x => f (h x) = g x) l -> existsb f (map h l) = existsb g l.
  Proof. induction 1; cbn; congruence. Qed.

  Section FexpInd.
    Variable P : fexp -> Prop.
    Hypothesis HBase : forall i, P (EBase i).
    Hypothesis HNeg : forall a, P a -> P (ENeg a).
    Hypothesis HAnd : forall a b, P a -> P b -> P (EAnd a b).
    Hypothesis HOr : forall a b, P a -> P b -> P (EOr a b).
    Hypothesis HInterN : forall l, Forall P l -> P (EInterN l).
    Hypothesis HUnionN : forall l, Forall P l -> P (EUnionN l).
    Hypothesis HNegRaw : forall a, P a -> P (ENegRaw a).
    Fixpoint fexp_ind' (e : fexp) : P e :=
      let fix go (l : list fexp) : Forall P l :=
        match l with [] => Forall_nil _ | x :: r => Forall_cons _ (fexp_ind' x) (go r) end in
      match e with
      | EBase i => HBase i
      | ENeg a => HNeg a (fexp_ind' a)
      | EAnd a b => HAnd a b (fexp_ind' a) (fexp_ind' b)
      | EOr a b => HOr a b (fexp_ind' a) (fexp_ind' b)
      | EInterN l => HInterN l (go l)
      | EUnionN l => HUnionN l (go l)
      | ENegRaw a => HNegRaw a (fexp_ind' a)
      end.
  End FexpInd.

  (** Whatever the nesting, the object built by the operators accepts exactly
      what the expression denotes. *)
  Theorem accept_build e : accept env (build e) = denote env e.
  Proof.
    induction e as [i|a IH|a b IHa IHb|a b IHa IHb|l IH|l IH|a IH] using fexp_ind';
      cbn [build denote].
    - reflexivity.
    - rewrite accept_neg, IH; reflexivity.
    - rewrite accept_inter, IHa, IHb; reflexivity.
    - rewrite accept_union, IHa, IHb; reflexivity.
    - cbn [accept]. apply forallb_map_ext; exact IH.
    - cbn [accept]. apply existsb_map_ext; exact IH.
    - cbn [accept]. rewrite IH; reflexivity.
  Qed.

  Theorem reject_build e : reject env (build e) = negb (denote env e).
  Proof. unfold reject; rewrite accept_build; reflexivity. Qed.
End Algebra.

(** ---- observational equivalence ---- *)
Lemma okey_eqb_spec a b : okey_eqb a b = true <-> a = b.
Proof.
  destruct a as [t s], b as [t' s']; unfold okey_eqb; cbn [fst snd].
  rewrite andb_true_iff, ty_eqb_spec, (list_eqb_spec value_eqb value_eqb_spec).
  split; [intros [-> ->]; auto|intros E; inversion E; auto].
Qed.

Definition key_of (p : presented) : option (ty * list value) :=
  match pr_sig p with Some s => Some (pr_type p, s) | None => None end.

(** The characterisation of the property: a presented program is accepted iff
    it has a signature and every previously accepted program with the same
    type and signature is that very program. *)
Definition spec_accept (accepted : list presented) (p : presented) : bool :=
  match key_of p with
  | None => false
  | Some k =>
    forallb (fun q => match key_of q with
                      | Some k' => negb (okey_eqb k' k) || prog_eqb (pr_prog q) (pr_prog p)
                      | None => true
                      end) accepted
  end.

Fixpoint spec_run (accepted : list presented) (l : list presented) : list bool :=
  match l with
  | [] => []
  | p :: r =>
    let b := spec_accept accepted p in
    b :: spec_run (if b then p :: accepted else accepted) r
  end.

Definition Inv (c : ocache) (acc : list presented) : Prop :=
  forall k,
    match alookup okey_eqb k c with
    | None => forall q, In q acc -> key_of q <> Some k
    | Some q0 => (exists q, In q acc /\ key_of q = Some k) /\
                 forall q, In q acc -> key_of q = Some k -> pr_prog q = q0
    end.

Lemma Inv_nil : Inv [] [].
Proof. intros k; cbn; intros q []. Qed.

Lemma step_spec c acc p :
  Inv c acc ->
  fst (obseq_step c p) = spec_accept acc p /\
  Inv (snd (obseq_step c p)) (if spec_accept acc p then p :: acc else acc).
Proof.
  intros HI. unfold obseq_step, spec_accept.
  destruct (pr_sig p) as [s|] eqn:Hs; [|unfold key_of; rewrite Hs; split; auto].
  set (k := (pr_type p, s)).
  assert (Hkp : key_of p = Some k) by (unfold key_of; rewrite Hs; reflexivity).
  rewrite Hkp.
  pose proof (HI k) as Hk.
  destruct (alookup okey_eqb k c) as [q0|] eqn:Hl.
  - destruct Hk as [[qw [Hqw Hkw]] Hall].
    destruct (prog_eqb q0 (pr_prog p)) eqn:He; cbn [fst snd].
    + apply prog_eqb_spec in He.
      assert (Hf : forallb (fun q => match key_of q with
                       | Some k' => negb (okey_eqb k' k) || prog_eqb (pr_prog q) (pr_prog p)
                       | None => true end) acc = true).
      { apply forallb_forall; intros q Hq. destruct (key_of q) as [k'|] eqn:Hkq; auto.
        destruct (okey_eqb k' k) eqn:Ek; auto. apply okey_eqb_spec in Ek; subst k'.
        cbn. apply prog_eqb_spec. rewrite (Hall q Hq Hkq); auto. }
      rewrite Hf. split; auto.
      intros k2. destruct (okey_eqb k k2) eqn:E2.
      * apply okey_eqb_spec in E2; subst k2.
        rewrite (alookup_ainsert_same okey_eqb okey_eqb_spec). split.
        -- exists p; split; [left; auto|auto].
        -- intros q [<-|Hq] Hkq; auto. rewrite (Hall q Hq Hkq); auto.
      * assert (k <> k2) by (intros ->; rewrite (keqb_refl okey_eqb okey_eqb_spec) in E2; discriminate).
        rewrite (alookup_ainsert_other okey_eqb okey_eqb_spec) by auto.
        pose proof (HI k2) as H2. destruct (alookup okey_eqb k2 c) as [q2|].
        -- destruct H2 as [[qv [Hqv Hkv]] Hall2]. split.
           ++ exists qv; split; [right; auto|auto].
           ++ intros q [<-|Hq] Hkq; [congruence|auto].
        -- intros q [<-|Hq]; [congruence|auto].
    + assert (Hf : forallb (fun q => match key_of q with
                       | Some k' => negb (okey_eqb k' k) || prog_eqb (pr_prog q) (pr_prog p)
                       | None => true end) acc = false).
      { apply not_true_is_false; intros Hf. rewrite forallb_forall in Hf.
        specialize (Hf qw Hqw). rewrite Hkw, (keqb_refl okey_eqb okey_eqb_spec) in Hf. cbn in Hf.
        apply prog_eqb_spec in Hf. rewrite (Hall qw Hqw Hkw) in Hf.
        apply prog_eqb_spec in Hf. congruence. }
      rewrite Hf. split; auto.
  - cbn [fst snd].
    assert (Hf : forallb (fun q => match key_of q with
                       | Some k' => negb (okey_eqb k' k) || prog_eqb (pr_prog q) (pr_prog p)
                       | None => true end) acc = true).
    { apply forallb_forall; intros q Hq. destruct (key_of q) as [k'|] eqn:Hkq; auto.
      destruct (okey_eqb k' k) eqn:Ek; auto. apply okey_eqb_spec in Ek; subst k'.
      exfalso; exact (Hk q Hq Hkq). }
    rewrite Hf. split; auto.
    intros k2. destruct (okey_eqb k k2) eqn:E2.
    + apply okey_eqb_spec in E2; subst k2.
      rewrite (alookup_ainsert_same okey_eqb okey_eqb_spec). split.
      * exists p; split; [left; auto|auto].
      * intros q [<-|Hq] Hkq; auto. exfalso; exact (Hk q Hq Hkq).
    + assert (k <> k2) by (intros ->; rewrite (keqb_refl okey_eqb okey_eqb_spec) in E2; discriminate).
      rewrite (alookup_ainsert_other okey_eqb okey_eqb_spec) by auto.
      pose proof (HI k2) as H2. destruct (alookup okey_eqb k2 c) as [q2|].
      * destruct H2 as [[qv [Hqv Hkv]] Hall2]. split.
        -- exists qv; split; [right; auto|auto].
        -- intros q [<-|Hq] Hkq; [congruence|auto].
      * intros q [<-|Hq]; [congruence|auto].
Qed.

Lemma run_spec_gen l : forall c acc, Inv c acc -> obseq_run c l = spec_run acc l.
Proof.
  induction l as [|p r IH]; intros c acc HI; cbn [obseq_run spec_run]; auto.
  destruct (step_spec c acc p HI) as [Hb HI'].
  destruct (obseq_step c p) as [b c'] eqn:E; cbn [fst snd] in *. subst b.
  f_equal. apply IH; exact HI'.
Qed.

Theorem obseq_characterisation l : obseq_run [] l = spec_run [] l.
Proof. apply run_spec_gen, Inv_nil. Qed.

(** Corollaries read off the specification run. *)

(** all accepted programs sharing a key are one program *)
Definition Distinct (acc : list presented) : Prop :=
  forall p q k, In p acc -> In q acc -> key_of p = Some k -> key_of q = Some k -> pr_prog p = pr_prog q.

Lemma spec_accept_true acc p :
  spec_accept acc p = true ->
  exists k, key_of p = Some k /\ forall q, In q acc -> key_of q = Some k -> pr_prog q = pr_prog p.
Proof.
  unfold spec_accept. destruct (key_of p) as [k|]; [|discriminate].
  intros H; exists k; split; auto. intros q Hq Hk. rewrite forallb_forall in H.
  specialize (H q Hq). rewrite Hk, (keqb_refl okey_eqb okey_eqb_spec) in H. cbn in H.
  apply prog_eqb_spec; auto.
Qed.

Lemma Distinct_step acc p : Distinct acc -> Distinct (if spec_accept acc p then p :: acc else acc).
Proof.
  intros HD. destruct (spec_accept acc p) eqn:E; auto.
  destruct (spec_accept_true _ _ E) as [k [Hk Hall]].
  intros a b k' [<-|Ha] [<-|Hb] Hka Hkb; auto.
  - symmetry. apply Hall; auto. congruence.
  - apply Hall; auto. congruence.
  - eapply HD; eauto.
Qed.

(** Presenting again a program that was accepted accepts it again. *)
Lemma spec_accept_again acc p : Distinct acc -> In p acc -> key_of p <> None -> spec_accept acc p = true.
Proof.
  intros HD Hin Hk. unfold spec_accept. destruct (key_of p) as [k|] eqn:Ek; [|congruence].
  apply forallb_forall; intros q Hq. destruct (key_of q) as [k'|] eqn:Ekq; auto.
  destruct (okey_eqb k' k) eqn:E; auto. apply okey_eqb_spec in E; subst k'. cbn.
  apply prog_eqb_spec. eapply HD; eauto.
Qed.

(** Every behaviour seen (a key of a presented program) has an accepted
    representative afterwards. *)
Lemma spec_accept_false_repr acc p k :
  key_of p = Some k -> spec_accept acc p = false -> exists q, In q acc /\ key_of q = Some k.
Proof.
  unfold spec_accept; intros -> H.
  destruct (forallb _ acc) eqn:E in H; [discriminate|].
  clear H. induction acc as [|q r IH]; cbn in E; [discriminate|].
  destruct (key_of q) as [k'|] eqn:Ek.
  - destruct (okey_eqb k' k) eqn:E2.
    + apply okey_eqb_spec in E2; subst k'. exists q; split; [left|]; auto.
    + cbn in E. destruct (IH E) as [q' [Hq' Hk']]. exists q'; split; [right|]; auto.
  - cbn in E. destruct (IH E) as [q' [Hq' Hk']]. exists q'; split; [right|]; auto.
Qed.

(** State of the filter after a whole presentation sequence. *)
Fixpoint accepted_after (acc : list presented) (l : list presented) : list presented :=
  match l with
  | [] => acc
  | p :: r => accepted_after (if spec_accept acc p then p :: acc else acc) r
  end.

Definition Keyed (acc : list presented) : Prop := forall p, In p acc -> key_of p <> None.

Lemma Keyed_step acc p : Keyed acc -> Keyed (if spec_accept acc p then p :: acc else acc).
Proof.
  intros HK. destruct (spec_accept acc p) eqn:E; auto.
  intros q [<-|Hq]; auto. destruct (spec_accept_true _ _ E) as [k [Hk _]]; congruence.
Qed.

Lemma after_invariants l : forall acc, Distinct acc -> Keyed acc ->
  Distinct (accepted_after acc l) /\ Keyed (accepted_after acc l).
Proof.
  induction l as [|p r IH]; intros acc HD HK; cbn [accepted_after]; auto.
  apply IH; [apply Distinct_step|apply Keyed_step]; auto.
Qed.

Lemma after_mono l : forall acc q, In q acc -> In q (accepted_after acc l).
Proof.
  induction l as [|p r IH]; intros acc q Hq; cbn [accepted_after]; auto.
  apply IH. destruct (spec_accept acc p); [right|]; auto.
Qed.

Lemma after_represented l : forall acc p k, In p l -> key_of p = Some k ->
  exists q, In q (accepted_after acc l) /\ key_of q = Some k.
Proof.
  induction l as [|x r IH]; intros acc p k [] Hk; cbn [accepted_after].
  - subst x. destruct (spec_accept acc p) eqn:E.
    + exists p; split; auto. apply after_mono; left; auto.
    + destruct (spec_accept_false_repr _ _ _ Hk E) as [q [Hq Hkq]].
      exists q; split; auto. apply after_mono; auto.
  - eapply IH; eauto.
Qed.

Lemma Distinct_nil : Distinct [].
Proof. intros p q k []. Qed.
Lemma Keyed_nil : Keyed [].
Proof. intros p []. Qed.
