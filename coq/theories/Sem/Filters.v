(** Model of synth/filter/filter.py: the combinator classes with their
    flattening constructors, and of synth/filter/obs_eq_filter.py. *)
From Coq Require Import ZArith NArith List Bool Lia.
From PS Require Import Base.ListX Base.Sexp Base.Ty Base.Value Base.Prog Sem.Semantics Sem.Eval.
Import ListNotations.

(** Filter objects as the constructors build them. *)
Inductive fobj : Type :=
| OBase (i : nat)
| ONeg (f : fobj)
| OUnion (l : list fobj)
| OInter (l : list fobj).

(** Filter.intersection / Filter.union / Filter.complementary. *)
Definition f_inter (a b : fobj) : fobj :=
  match a, b with
  | OInter la, OInter lb => OInter (la ++ lb)
  | OInter la, _ => OInter (la ++ [b])
  | _, OInter lb => OInter (lb ++ [a])
  | _, _ => OInter [a; b]
  end.
Definition f_union (a b : fobj) : fobj :=
  match a, b with
  | OUnion la, OUnion lb => OUnion (la ++ lb)
  | OUnion la, _ => OUnion (la ++ [b])
  | _, OUnion lb => OUnion (lb ++ [a])
  | _, _ => OUnion [a; b]
  end.
Definition f_neg (a : fobj) : fobj :=
  match a with ONeg f => f | _ => ONeg a end.

Section Accept.
  Variable env : nat -> bool.       (* what each base filter answers on the object at hand *)
  Fixpoint accept (f : fobj) : bool :=
    match f with
    | OBase i => env i
    | ONeg g => negb (accept g)
    | OUnion l => existsb accept l
    | OInter l => forallb accept l
    end.
  Definition reject (f : fobj) : bool := negb (accept f).
End Accept.

(** Expressions a user writes. *)
Inductive fexp : Type :=
| EBase (i : nat)
| ENeg (e : fexp)                 (* -e *)
| EAnd (a b : fexp)               (* a & b *)
| EOr (a b : fexp)                (* a | b *)
| EInterN (l : list fexp)         (* IntersectionFilter( *l ) *)
| EUnionN (l : list fexp)         (* UnionFilter( *l ) *)
| ENegRaw (e : fexp).             (* NegFilter(e) *)

Fixpoint build (e : fexp) : fobj :=
  match e with
  | EBase i => OBase i
  | ENeg a => f_neg (build a)
  | EAnd a b => f_inter (build a) (build b)
  | EOr a b => f_union (build a) (build b)
  | EInterN l => OInter (map build l)
  | EUnionN l => OUnion (map build l)
  | ENegRaw a => ONeg (build a)
  end.

(** The predicate the expression denotes. *)
Section Denote.
  Variable env : nat -> bool.
  Fixpoint denote (e : fexp) : bool :=
    match e with
    | EBase i => env i
    | ENeg a => negb (denote a)
    | EAnd a b => denote a && denote b
    | EOr a b => denote a || denote b
    | EInterN l => forallb denote l
    | EUnionN l => existsb denote l
    | ENegRaw a => negb (denote a)
    end.
End Denote.

(** ---- observational equivalence filter ---- *)
(** A presented program: the program, its type (the cache is per type) and its
    output signature: [None] when some reference input yields None. *)
Record presented : Type := { pr_prog : prog; pr_type : ty; pr_sig : option (list value) }.

Definition ocache := list ((ty * list value) * prog).
Definition okey_eqb (a b : ty * list value) : bool :=
  ty_eqb (fst a) (fst b) && list_eqb value_eqb (snd a) (snd b).

Definition obseq_step (c : ocache) (p : presented) : bool * ocache :=
  match pr_sig p with
  | None => (false, c)
  | Some s =>
    match alookup okey_eqb (pr_type p, s) c with
    | Some q => if prog_eqb q (pr_prog p) then (true, ainsert okey_eqb (pr_type p, s) (pr_prog p) c)
                else (false, c)
    | None => (true, ainsert okey_eqb (pr_type p, s) (pr_prog p) c)
    end
  end.

Fixpoint obseq_run (c : ocache) (l : list presented) : list bool :=
  match l with
  | [] => []
  | p :: r => let '(b, c') := obseq_step c p in b :: obseq_run c' r
  end.

(** Signature of a program from the evaluator's observations on the reference
    inputs: [inl None]-like failure is modelled by [None]; a raised (non
    skipped) exception aborts the presentation and leaves the cache untouched. *)
Fixpoint signature (obs : list observed) : outcome (option (list value)) :=
  match obs with
  | [] => Ok (Some [])
  | Raised e :: _ => Exc e
  | Returned VNone :: _ => Ok None
  | Returned v :: r =>
    obindO (signature r) (fun s => Ok (match s with Some l => Some (v :: l) | None => None end))
  end.
