(** Proofs about the restart solver model (Sem/SolverRestart.v). *)
From Coq Require Import ZArith NArith List Bool Lia Arith Sorted.
From PS Require Import Base.ListX Base.Sexp Base.Ty Base.Value Base.Prog Sem.Semantics Sem.Eval Sem.EvalProofs
     Sem.Solver Sem.SolverProofs Sem.SolverRestart.
Import ListNotations.

(** ---- the statistics are not touched by the per-program updates ---- *)
Lemma rtotal_record s k sc : rtotal (r_record s k sc) = rtotal s.
Proof. unfold r_record. destruct (positive sc); reflexivity. Qed.
Lemma rtotal_restarts_record s k sc : rtotal_restarts (r_record s k sc) = rtotal_restarts s.
Proof. unfold r_record. destruct (positive sc); reflexivity. Qed.
Lemma rcnt_record s k sc : rcnt (r_record s k sc) = rcnt s.
Proof. unfold r_record. destruct (positive sc); reflexivity. Qed.
Lemma rrestarts_record s k sc : rrestarts (r_record s k sc) = rrestarts s.
Proof. unfold r_record. destruct (positive sc); reflexivity. Qed.
Lemma rcuts_record s k sc : rcuts (r_record s k sc) = rcuts s.
Proof. unfold r_record. destruct (positive sc); reflexivity. Qed.
Lemma rdrawn_record s k sc : rdrawn (r_record s k sc) = rdrawn s.
Proof. unfold r_record. destruct (positive sc); reflexivity. Qed.
Lemma rtested_record s k sc : rtested (r_record s k sc) = rtested s.
Proof. unfold r_record. destruct (positive sc); reflexivity. Qed.

Lemma accepted_in : forall passing replies i, accepted passing replies = Some i -> In i passing.
Proof.
  induction passing as [|x more IH]; intros replies i; [discriminate|].
  destruct replies as [|[|] rs]; cbn [accepted]; [discriminate| |].
  - intros H; injection H as <-. left; reflexivity.
  - intros H. right. apply (IH rs i H).
Qed.

Section RestartProofs.
  Variable vapp : value -> value -> outcome value.
  Variable prim_value : N -> value.
  Variable skip : list N.
  Variable veq : value -> value -> bool.
  Variable crit : rsolver -> bool.

  Notation check := (check_example vapp prim_value skip veq).
  Notation sat := (satisfies vapp prim_value skip veq).
  Notation pass := (passes vapp prim_value skip veq).
  Notation tst := (test vapp prim_value skip veq).
  Notation tsc := (test_scored vapp prim_value skip veq).
  Notation scn := (scan vapp prim_value skip veq).
  Notation wat := (what_at vapp prim_value skip veq crit).
  Notation after := (r_after vapp prim_value skip veq crit).
  Notation afterall := (r_after_all vapp prim_value skip veq crit).
  Notation eff := (effective vapp prim_value skip veq crit).
  Notation segs := (segments vapp prim_value skip veq crit).
  Notation fpos := (fired_positions vapp prim_value skip veq crit).

  (** ---- the scored tests: same verdict as the tests of Solver.v ---- *)
  Lemma cutoff_scored_test p : forall exs total n,
    test_cutoff vapp prim_value skip veq p exs =
    match cutoff_scored vapp prim_value skip veq total n p exs with Ok (b, _) => Ok b | Exc e => Exc e end.
  Proof.
    induction exs as [|ex r IH]; intros total n; cbn; [reflexivity|].
    destruct (check p ex) as [[|]|e]; auto.
  Qed.

  Theorem test_scored_test kind p exs :
    tst kind p exs = match tsc kind p exs with Ok (b, _) => Ok b | Exc e => Exc e end.
  Proof.
    destruct kind; cbn [test test_scored].
    - unfold test_naive_gen, naive_scored.
      destruct (naive_loop vapp prim_value skip veq p exs false 0) as [[f n]|e]; [|reflexivity].
      cbn. destruct (Nat.eqb (length exs) 0); reflexivity.
    - apply cutoff_scored_test.
    - unfold test_naive_gen, naive_scored.
      destruct (naive_loop vapp prim_value skip veq p exs false 0) as [[f n]|e]; [|reflexivity].
      cbn. destruct (Nat.eqb (length exs) 0); reflexivity.
  Qed.

  (** The score of the naive test is positive iff some example is satisfied
      (or there is none); its value is the fraction of satisfied examples. *)
  Theorem naive_score_spec p exs b sc : tsc Naive p exs = Ok (b, sc) ->
    b = pass p exs /\
    sc = (if Nat.eqb (length exs) 0 then (1, 1) else (length (filter (sat p) exs), length exs)).
  Proof.
    cbn. unfold naive_scored. rewrite naive_loop_spec.
    destruct (first_exc vapp prim_value skip veq p exs); [discriminate|].
    cbn. destruct (Nat.eqb (length exs) 0); intros H; injection H as <- <-;
      rewrite negb_involutive; auto.
  Qed.

  (** The score of the cut-off test: the number of examples satisfied before
      the first one that is not, over the number of examples; 1 on success. *)
  Fixpoint satisfied_prefix (p : prog) (exs : list example) : nat :=
    match exs with
    | [] => 0
    | ex :: r => if sat p ex then S (satisfied_prefix p r) else 0
    end.

  Lemma cutoff_scored_spec p : forall exs total n b sc,
    cutoff_scored vapp prim_value skip veq total n p exs = Ok (b, sc) ->
    b = pass p exs /\ sc = (if b then (1, 1) else (n + satisfied_prefix p exs, total)).
  Proof.
    induction exs as [|ex r IH]; intros total n b sc; cbn.
    - intros H; injection H as <- <-. auto.
    - unfold satisfies. destruct (check p ex) as [[|]|e]; cbn; [| |discriminate].
      + intros H. destruct (IH total (S n) b sc H) as [-> ->]. split; [reflexivity|].
        destruct (pass p r); [reflexivity|]. f_equal. lia.
      + intros H; injection H as <- <-. split; [reflexivity|]. f_equal. lia.
  Qed.

  Theorem cutoff_score_spec p exs b sc : tsc Cutoff p exs = Ok (b, sc) ->
    b = pass p exs /\ sc = (if b then (1, 1) else (satisfied_prefix p exs, length exs)).
  Proof. cbn. intros H. apply (cutoff_scored_spec p exs (length exs) 0 b sc H). Qed.

  (** ---- unfolding equations ---- *)
  Section Unfold.
    Variable timed_out : nat -> bool.
    Variable fixed : bool.
    Notation rsrch := (rsearch vapp prim_value skip veq timed_out crit fixed).
    Notation raft := (rafter vapp prim_value skip veq timed_out crit fixed).

    Lemma rsearch_nil kind exs more k s : rsrch kind exs more [] k s = (exhausted_event fixed, RFinished, s).
    Proof. destruct more; reflexivity. Qed.

    Lemma rsearch_cons kind exs more p r k s :
      rsrch kind exs more (p :: r) k s =
      if timed_out k then (Stop, RFinished, r_close (r_draw s p))
      else match tsc kind p exs with
           | Exc e => (Raise e, RFinished, r_test (r_draw s p) p)
           | Ok (true, sc) => (Yield k, RSuspended k sc r more, r_test (r_draw s p) p)
           | Ok (false, sc) => raft kind exs more r k sc (r_test (r_draw s p) p)
           end.
    Proof. destruct more; reflexivity. Qed.
  End Unfold.

  Lemma effective_nil kind exs more k s : eff kind exs more [] k s = [].
  Proof. destruct more; reflexivity. Qed.

  Lemma effective_cons kind exs more p r k s :
    eff kind exs more (p :: r) k s =
    match wat kind exs s k p with
    | ARaises => [p]
    | AFires => p :: match more with
                     | [] => []
                     | nxt :: m => eff kind exs m nxt (S k) (after kind exs s k p)
                     end
    | AQuiet => p :: eff kind exs more r (S k) (after kind exs s k p)
    end.
  Proof. destruct more; reflexivity. Qed.

  Lemma segments_nil kind exs more k s : segs kind exs more [] k s = [[]].
  Proof. destruct more; reflexivity. Qed.

  Lemma segments_cons kind exs more p r k s :
    segs kind exs more (p :: r) k s =
    match wat kind exs s k p with
    | ARaises => [[p]]
    | AFires => [p] :: match more with
                       | [] => [[]]
                       | nxt :: m => segs kind exs m nxt (S k) (after kind exs s k p)
                       end
    | AQuiet => match segs kind exs more r (S k) (after kind exs s k p) with
                | a :: b => (p :: a) :: b
                | [] => [[p]]
                end
    end.
  Proof. destruct more; reflexivity. Qed.

  (** ---- the declarative fold ---- *)
  Lemma rtotal_after kind exs s k p : rtotal (after kind exs s k p) = rtotal s.
  Proof.
    unfold r_after. destruct (tsc kind p exs) as [[b sc]|e]; [|reflexivity].
    destruct (crit _); cbn; rewrite rtotal_record; reflexivity.
  Qed.

  Lemma rtotal_restarts_after kind exs s k p : rtotal_restarts (after kind exs s k p) = rtotal_restarts s.
  Proof.
    unfold r_after. destruct (tsc kind p exs) as [[b sc]|e]; [|reflexivity].
    destruct (crit _); cbn; rewrite rtotal_restarts_record; reflexivity.
  Qed.

  Lemma rcnt_after kind exs s k p : rcnt (after kind exs s k p) = S (rcnt s).
  Proof.
    unfold r_after. destruct (tsc kind p exs) as [[b sc]|e]; [|reflexivity].
    destruct (crit _); cbn; rewrite rcnt_record; reflexivity.
  Qed.

  Lemma rdrawn_after kind exs s k p : rdrawn (after kind exs s k p) = rdrawn s ++ [p].
  Proof.
    unfold r_after. destruct (tsc kind p exs) as [[b sc]|e]; [|reflexivity].
    destruct (crit _); cbn; rewrite rdrawn_record; reflexivity.
  Qed.

  Lemma rtested_after kind exs s k p : rtested (after kind exs s k p) = rtested s ++ [p].
  Proof.
    unfold r_after. destruct (tsc kind p exs) as [[b sc]|e]; [|reflexivity].
    destruct (crit _); cbn; rewrite rtested_record; reflexivity.
  Qed.

  Lemma rrestarts_after kind exs s k p :
    rrestarts (after kind exs s k p) = rrestarts s + (match wat kind exs s k p with AFires => 1 | _ => 0 end).
  Proof.
    unfold r_after, what_at. destruct (tsc kind p exs) as [[b sc]|e]; [|cbn; lia].
    destruct (crit _); cbn; rewrite rrestarts_record; cbn; lia.
  Qed.

  Lemma rcuts_after kind exs s k p :
    rcuts (after kind exs s k p) = rcuts s ++ (match wat kind exs s k p with AFires => [S (rcnt s)] | _ => [] end).
  Proof.
    unfold r_after, what_at. destruct (tsc kind p exs) as [[b sc]|e]; [|cbn; rewrite app_nil_r; reflexivity].
    destruct (crit _); cbn; rewrite rcuts_record; cbn; [rewrite rcnt_record; reflexivity|rewrite app_nil_r; reflexivity].
  Qed.

  Lemma afterall_app kind exs : forall ps qs k s,
    afterall kind exs (ps ++ qs) k s = afterall kind exs qs (k + length ps) (afterall kind exs ps k s).
  Proof.
    induction ps as [|p r IH]; intros qs k s; cbn [app r_after_all length].
    - rewrite Nat.add_0_r; reflexivity.
    - rewrite IH. f_equal. lia.
  Qed.

  Lemma rtotal_afterall kind exs : forall ps k s, rtotal (afterall kind exs ps k s) = rtotal s.
  Proof. induction ps as [|p r IH]; intros k s; cbn; [reflexivity|]. rewrite IH. apply rtotal_after. Qed.

  Lemma rtotal_restarts_afterall kind exs : forall ps k s,
    rtotal_restarts (afterall kind exs ps k s) = rtotal_restarts s.
  Proof. induction ps as [|p r IH]; intros k s; cbn; [reflexivity|]. rewrite IH. apply rtotal_restarts_after. Qed.

  (** Every program is counted once ... *)
  Lemma rcnt_afterall kind exs : forall ps k s, rcnt (afterall kind exs ps k s) = rcnt s + length ps.
  Proof. induction ps as [|p r IH]; intros k s; cbn; [lia|]. rewrite IH, rcnt_after. lia. Qed.

  (** ... drawn once and tested once, in order. *)
  Lemma rdrawn_afterall kind exs : forall ps k s, rdrawn (afterall kind exs ps k s) = rdrawn s ++ ps.
  Proof.
    induction ps as [|p r IH]; intros k s; cbn; [rewrite app_nil_r; reflexivity|].
    rewrite IH, rdrawn_after, <- app_assoc. reflexivity.
  Qed.

  Lemma rtested_afterall kind exs : forall ps k s, rtested (afterall kind exs ps k s) = rtested s ++ ps.
  Proof.
    induction ps as [|p r IH]; intros k s; cbn; [rewrite app_nil_r; reflexivity|].
    rewrite IH, rtested_after, <- app_assoc. reflexivity.
  Qed.

  (** The restarts are exactly the firings of the criterion. *)
  Lemma rrestarts_afterall kind exs : forall ps k s,
    rrestarts (afterall kind exs ps k s) = rrestarts s + length (fpos kind exs ps k s).
  Proof.
    induction ps as [|p r IH]; intros k s; cbn [r_after_all fired_positions]; [cbn; lia|].
    rewrite IH, rrestarts_after, app_length. destruct (wat kind exs s k p); cbn; lia.
  Qed.

  Lemma rcuts_afterall kind exs : forall ps k s, rcnt s = k ->
    rcuts (afterall kind exs ps k s) = rcuts s ++ fpos kind exs ps k s.
  Proof.
    induction ps as [|p r IH]; intros k s Hk; cbn [r_after_all fired_positions]; [rewrite app_nil_r; reflexivity|].
    rewrite IH by (rewrite rcnt_after; lia). rewrite rcuts_after, <- app_assoc, Hk. reflexivity.
  Qed.

  (** ---- the generator against the protocol over the effective stream ---- *)
  Variable timed_out : nat -> bool.
  Hypothesis no_timeout : forall k, timed_out k = false.

  Notation rsrch := (rsearch vapp prim_value skip veq timed_out crit true).
  Notation raft := (rafter vapp prim_value skip veq timed_out crit true).
  Notation rstp := (rstep vapp prim_value skip veq timed_out crit true).
  Notation rstps := (rsteps vapp prim_value skip veq timed_out crit true).
  Notation rrn := (rrun vapp prim_value skip veq timed_out crit true).
  Notation effof := (effective_of vapp prim_value skip veq crit).

  Lemma rsteps_finished kind exs s : forall answers,
    rstps kind exs RFinished s answers = (repeat Stop (length answers), s).
  Proof. induction answers as [|a r IH]; cbn; [reflexivity|]. rewrite IH; reflexivity. Qed.

  (** What a search starting at the k-th drawn program in state [s] must do,
      [effl] being the programs still to be drawn: the events are the protocol
      over the passing programs of [effl]; when a solution is accepted the
      solver object is the fold over the programs before it, plus the draw and
      test of the solution, closed; otherwise the statistics are untouched,
      and when the search has been driven to its end the solver object is the
      fold over all of [effl]. *)
  Definition run_spec (kind : solver_kind) (exs : list example) (k : nat) (s : rsolver) (effl : list prog)
             (replies : list bool) (evs : list event) (s2 : rsolver) : Prop :=
    evs = protocol (fst (scn kind exs k effl)) (snd (scn kind exs k effl)) replies /\
    match accepted (fst (scn kind exs k effl)) replies with
    | Some i => exists p, nth_error effl (i - k) = Some p /\
                          s2 = r_close (r_test (r_draw (afterall kind exs (firstn (i - k) effl) k s) p) p)
    | None => rtotal s2 = rtotal s /\ rtotal_restarts s2 = rtotal_restarts s /\
              (length (fst (scn kind exs k effl)) <= length replies -> s2 = afterall kind exs effl k s)
    end.

  Lemma scan_cons_true kind exs k p rest : tst kind p exs = Ok true ->
    scn kind exs k (p :: rest) = (k :: fst (scn kind exs (S k) rest), snd (scn kind exs (S k) rest)).
  Proof. intros Ht. cbn [scan]. rewrite Ht. destruct (scn kind exs (S k) rest); reflexivity. Qed.

  Lemma spec_lift_reject kind exs k s p rest replies evs s2 :
    tst kind p exs = Ok false ->
    run_spec kind exs (S k) (after kind exs s k p) rest replies evs s2 ->
    run_spec kind exs k s (p :: rest) replies evs s2.
  Proof.
    intros Ht. unfold run_spec. cbn [scan]. rewrite Ht.
    pose proof (scan_sorted vapp prim_value skip veq kind exs rest (S k)) as [_ Hge].
    destruct (scn kind exs (S k) rest) as [l f]. cbn [fst snd] in *.
    intros [H1 H2]. split; [exact H1|].
    destruct (accepted l replies) as [i|] eqn:Ea.
    - destruct H2 as (q & Hn & Hs). specialize (Hge i (accepted_in _ _ _ Ea)).
      exists q. replace (i - k) with (S (i - S k)) by lia. cbn [nth_error firstn r_after_all]. auto.
    - destruct H2 as (H2 & H3 & H4). rewrite rtotal_after in H2. rewrite rtotal_restarts_after in H3.
      cbn [r_after_all]. auto.
  Qed.

  Lemma spec_lift_yield kind exs k s p rest rs evs s2 :
    tst kind p exs = Ok true ->
    run_spec kind exs (S k) (after kind exs s k p) rest rs evs s2 ->
    run_spec kind exs k s (p :: rest) (false :: rs) (Yield k :: evs) s2.
  Proof.
    intros Ht. unfold run_spec. cbn [scan]. rewrite Ht.
    pose proof (scan_sorted vapp prim_value skip veq kind exs rest (S k)) as [_ Hge].
    destruct (scn kind exs (S k) rest) as [l f]. cbn [fst snd protocol accepted] in *.
    intros [H1 H2]. split; [rewrite H1; reflexivity|].
    destruct (accepted l rs) as [i|] eqn:Ea.
    - destruct H2 as (q & Hn & Hs). specialize (Hge i (accepted_in _ _ _ Ea)).
      exists q. replace (i - k) with (S (i - S k)) by lia. cbn [nth_error firstn r_after_all]. auto.
    - destruct H2 as (H2 & H3 & H4). rewrite rtotal_after in H2. rewrite rtotal_restarts_after in H3.
      cbn [r_after_all length]. repeat split; auto. intros Hl. apply H4. lia.
  Qed.

  (** What follows a tested program that is not accepted. *)
  Definition after_spec (kind : solver_kind) (exs : list example) (more : list (list prog)) (r : list prog)
             (k : nat) (s : rsolver) (p : prog) (replies : list bool) : Prop :=
    forall sc b, tsc kind p exs = Ok (b, sc) ->
      let '(e, g, s1) := raft kind exs more r k sc (r_test (r_draw s p) p) in
      let '(es, s2) := rstps kind exs g s1 replies in
      run_spec kind exs (S k) (after kind exs s k p)
               (match wat kind exs s k p with
                | AFires => match more with [] => [] | nxt :: m => eff kind exs m nxt (S k) (after kind exs s k p) end
                | _ => eff kind exs more r (S k) (after kind exs s k p)
                end) replies (e :: es) s2.

  Lemma run_spec_end kind exs k s replies :
    run_spec kind exs k s [] replies (Stop :: repeat Stop (length replies)) s.
  Proof. unfold run_spec. cbn. auto. Qed.

  Lemma rsearch_protocol kind exs : forall more cur k s replies,
    let '(e, g, s1) := rsrch kind exs more cur k s in
    let '(es, s2) := rstps kind exs g s1 replies in
    run_spec kind exs k s (eff kind exs more cur k s) replies (e :: es) s2.
  Proof.
    (* what the inner induction needs from the outer one *)
    assert (Hmain : forall more,
      (forall nxt m, more = nxt :: m -> forall k s replies,
          let '(e, g, s1) := rsrch kind exs m nxt k s in
          let '(es, s2) := rstps kind exs g s1 replies in
          run_spec kind exs k s (eff kind exs m nxt k s) replies (e :: es) s2) ->
      forall cur k s replies,
        let '(e, g, s1) := rsrch kind exs more cur k s in
        let '(es, s2) := rstps kind exs g s1 replies in
        run_spec kind exs k s (eff kind exs more cur k s) replies (e :: es) s2).
    { intros more IHm. induction cur as [|p r IHc]; intros k s replies.
      - rewrite rsearch_nil, effective_nil. cbn [exhausted_event]. rewrite rsteps_finished. apply run_spec_end.
      - (* after the test of p, not accepted *)
        assert (Haft : after_spec kind exs more r k s p replies /\
                       forall rs, after_spec kind exs more r k s p rs).
        { assert (H : forall rs, after_spec kind exs more r k s p rs).
          { intros rs sc b Et. unfold rafter, what_at, r_after. rewrite Et.
            destruct (crit (r_record (r_test (r_draw s p) p) k sc)) eqn:Ec.
            - destruct more as [|nxt m].
              + cbn [exhausted_event]. rewrite rsteps_finished. apply run_spec_end.
              + apply (IHm nxt m eq_refl).
            - apply IHc. }
          split; [apply H|exact H]. }
        destruct Haft as [Haft Haft'].
        rewrite rsearch_cons, effective_cons, no_timeout.
        pose proof (test_scored_test kind p exs) as Htt.
        destruct (tsc kind p exs) as [[[|] sc]|e] eqn:Et; cbv beta iota in Htt.
        + (* yielded *)
          assert (Hhead : exists rest, match wat kind exs s k p with
                            | ARaises => [p]
                            | AFires => p :: match more with [] => [] | nxt :: m => eff kind exs m nxt (S k) (after kind exs s k p) end
                            | AQuiet => p :: eff kind exs more r (S k) (after kind exs s k p) end = p :: rest).
          { unfold what_at. rewrite Et. cbv beta iota. destruct (crit _); eauto. }
          destruct replies as [|[|] rs].
          * cbn [rsteps]. destruct Hhead as [rest ->]. unfold run_spec.
            rewrite (scan_cons_true kind exs k p rest Htt). cbn. repeat split; auto. intros; lia.
          * (* accepted *)
            cbn [rsteps rstep]. rewrite rsteps_finished. destruct Hhead as [rest ->]. unfold run_spec.
            rewrite (scan_cons_true kind exs k p rest Htt). cbn [fst snd protocol accepted].
            split; [reflexivity|]. exists p. rewrite Nat.sub_diag. cbn. auto.
          * (* rejected by the caller *)
            cbn [rsteps rstep].
            specialize (Haft' rs sc true Et).
            destruct (raft kind exs more r k sc (r_test (r_draw s p) p)) as [[e g] s1].
            destruct (rstps kind exs g s1 rs) as [es s2].
            unfold what_at in *. rewrite Et in *. cbv beta iota in *.
            destruct (crit (r_record (r_test (r_draw s p) p) k sc));
              apply spec_lift_yield; auto.
        + (* rejected by the test *)
          specialize (Haft sc false Et).
          destruct (raft kind exs more r k sc (r_test (r_draw s p) p)) as [[e g] s1].
          destruct (rstps kind exs g s1 replies) as [es s2].
          unfold what_at in *. rewrite Et in *. cbv beta iota in *.
          destruct (crit (r_record (r_test (r_draw s p) p) k sc));
            apply spec_lift_reject; auto.
        + (* the test raised *)
          rewrite rsteps_finished. unfold what_at, run_spec. rewrite Et. cbn [scan]. rewrite Htt.
          cbn. unfold r_after. rewrite Et. auto. }
    induction more as [|nxt m IHm].
    - apply Hmain. intros nxt m H; discriminate.
    - apply Hmain. intros nxt' m' H; injection H as <- <-. apply IHm.
  Qed.

  (** ---- one task ---- *)
  Theorem rrun_spec kind exs streams s a0 replies :
    run_spec kind exs 0 (r_init s) (effof kind exs streams s) replies
             (fst (rrn kind exs streams s (a0 :: replies))) (snd (rrn kind exs streams s (a0 :: replies))).
  Proof.
    unfold rrun, effective_of. cbn [rsteps rstep].
    pose proof (rsearch_protocol kind exs (tl streams) (hd [] streams) 0 (r_init s) replies) as H.
    destruct (rsrch kind exs (tl streams) (hd [] streams) 0 (r_init s)) as [[e g] s1].
    destruct (rstps kind exs g s1 replies) as [es s2]. exact H.
  Qed.

  (** The events are those of the protocol specification of the plain solvers
      (Solver.v) over the effective stream ... *)
  Theorem restart_events kind exs streams s answers :
    fst (rrn kind exs streams s answers) = spec_events vapp prim_value skip veq kind exs (effof kind exs streams s) answers.
  Proof.
    destruct answers as [|a0 replies]; [reflexivity|].
    destruct (rrun_spec kind exs streams s a0 replies) as [H _]. rewrite H. unfold spec_events.
    destruct (scn kind exs 0 (effof kind exs streams s)); reflexivity.
  Qed.

  (** ... that is, the restart solver behaves as its sub-solver run on the
      effective stream. *)
  Theorem restart_equals_plain kind exs streams s sp answers :
    fst (rrn kind exs streams s answers) =
    fst (run_task vapp prim_value skip veq timed_out kind exs (effof kind exs streams s) sp answers).
  Proof. rewrite restart_events. symmetry. apply run_task_events. exact no_timeout. Qed.

  Lemma firstn_S_nth {X} : forall (l : list X) i x, nth_error l i = Some x -> firstn (S i) l = firstn i l ++ [x].
  Proof.
    induction l as [|y r IH]; intros i x; destruct i; cbn; try discriminate.
    - intros H; injection H as <-. reflexivity.
    - intros H. rewrite <- (IH i x H). reflexivity.
  Qed.

  (** The solver object when the solution of index i of the effective stream
      is accepted. *)
  Theorem restart_accept_state kind exs streams s a0 replies i :
    accepted (fst (scn kind exs 0 (effof kind exs streams s))) replies = Some i ->
    exists p, nth_error (effof kind exs streams s) i = Some p /\
              snd (rrn kind exs streams s (a0 :: replies)) =
              r_close (r_test (r_draw (afterall kind exs (firstn i (effof kind exs streams s)) 0 (r_init s)) p) p).
  Proof.
    intros Ha. destruct (rrun_spec kind exs streams s a0 replies) as [_ H]. rewrite Ha, Nat.sub_0_r in H. exact H.
  Qed.

  (** Statistics on acceptance: the number of tested programs is the rank of
      the solution in the effective stream; the restarts are the firings of
      the criterion on the programs before the solution, and they happened
      right after those programs; every program up to the solution has been
      drawn once and tested once, in order. *)
  Theorem restart_accept_stats kind exs streams s a0 replies i :
    accepted (fst (scn kind exs 0 (effof kind exs streams s))) replies = Some i ->
    let s2 := snd (rrn kind exs streams s (a0 :: replies)) in
    let before := firstn i (effof kind exs streams s) in
    rtotal s2 = S i /\
    rtotal_restarts s2 = rtotal_restarts s + length (fpos kind exs before 0 (r_init s)) /\
    rrestarts s2 = length (fpos kind exs before 0 (r_init s)) /\
    rcuts s2 = fpos kind exs before 0 (r_init s) /\
    rdrawn s2 = firstn (S i) (effof kind exs streams s) /\
    rtested s2 = firstn (S i) (effof kind exs streams s).
  Proof.
    intros Ha. destruct (restart_accept_state kind exs streams s a0 replies i Ha) as (p & Hn & ->).
    cbn zeta. cbn [r_close r_test r_draw rtotal rtotal_restarts rrestarts rcuts rdrawn rtested rcnt].
    assert (Hl : length (firstn i (effof kind exs streams s)) = i).
    { apply firstn_length_le. apply Nat.lt_le_incl. apply nth_error_Some. congruence. }
    rewrite rcnt_afterall, rrestarts_afterall, rcuts_afterall, rdrawn_afterall, rtested_afterall,
      rtotal_restarts_afterall by reflexivity.
    rewrite Hl, (firstn_S_nth _ _ _ Hn). cbn. repeat split; lia.
  Qed.

  Theorem restart_stats_programs kind exs streams s a0 replies i :
    accepted (fst (scn kind exs 0 (effof kind exs streams s))) replies = Some i ->
    rtotal (snd (rrn kind exs streams s (a0 :: replies))) = S i.
  Proof. intros Ha. apply (restart_accept_stats kind exs streams s a0 replies i Ha). Qed.

  (** No solution accepted: the statistics are untouched. *)
  Theorem restart_unaccepted kind exs streams s a0 replies :
    accepted (fst (scn kind exs 0 (effof kind exs streams s))) replies = None ->
    rtotal (snd (rrn kind exs streams s (a0 :: replies))) = rtotal s /\
    rtotal_restarts (snd (rrn kind exs streams s (a0 :: replies))) = rtotal_restarts s.
  Proof.
    intros Ha. destruct (rrun_spec kind exs streams s a0 replies) as [_ H]. rewrite Ha in H.
    destruct H as (H1 & H2 & _). cbn in H1, H2. auto.
  Qed.

  (** A search driven to its end (every proposal rejected): the whole
      effective stream has been drawn and tested, each program once, in order,
      and the restarts are exactly the firings of the criterion. *)
  Theorem restart_complete kind exs streams s a0 replies :
    accepted (fst (scn kind exs 0 (effof kind exs streams s))) replies = None ->
    length (fst (scn kind exs 0 (effof kind exs streams s))) <= length replies ->
    let s2 := snd (rrn kind exs streams s (a0 :: replies)) in
    s2 = afterall kind exs (effof kind exs streams s) 0 (r_init s) /\
    rdrawn s2 = effof kind exs streams s /\ rtested s2 = effof kind exs streams s /\
    rcnt s2 = length (effof kind exs streams s) /\
    rrestarts s2 = length (fpos kind exs (effof kind exs streams s) 0 (r_init s)) /\
    rcuts s2 = fpos kind exs (effof kind exs streams s) 0 (r_init s).
  Proof.
    intros Ha Hl. destruct (rrun_spec kind exs streams s a0 replies) as [_ H]. rewrite Ha in H.
    destruct H as (_ & _ & H). specialize (H Hl). cbn zeta. rewrite H.
    rewrite rdrawn_afterall, rtested_afterall, rcnt_afterall, rrestarts_afterall, rcuts_afterall by reflexivity.
    cbn. repeat split; reflexivity.
  Qed.

  (** At every moment what has been drawn has been tested (any answers, also
      when the caller stops driving the generator at a yield). *)
  Lemma rsearch_logs kind exs : forall more cur k s, rdrawn s = rtested s ->
    rdrawn (snd (rsrch kind exs more cur k s)) = rtested (snd (rsrch kind exs more cur k s)).
  Proof.
    induction more as [|nxt m IHm]; induction cur as [|p r IHc]; intros k s Hs;
      try (rewrite rsearch_nil; exact Hs);
      rewrite rsearch_cons, no_timeout; destruct (tsc kind p exs) as [[[|] sc]|e];
      try (cbn; rewrite Hs; reflexivity);
      unfold rafter; destruct (crit _);
      try (apply IHc; rewrite rdrawn_record, rtested_record; cbn; rewrite Hs; reflexivity);
      try (apply IHm; cbn; rewrite rdrawn_record, rtested_record; cbn; rewrite Hs; reflexivity);
      cbn; rewrite rdrawn_record, rtested_record; cbn; rewrite Hs; reflexivity.
  Qed.

  Definition logs_ok (g : rgstate) (s : rsolver) : Prop :=
    match g with RFresh _ => True | _ => rdrawn s = rtested s end.

  Lemma rstep_logs kind exs g s a : logs_ok g s ->
    rdrawn (snd (rstp kind exs g s a)) = rtested (snd (rstp kind exs g s a)).
  Proof.
    intros Hs. destruct g as [streams|k sc rest more|]; cbn [rstep]; cbn in Hs.
    - apply rsearch_logs. reflexivity.
    - destruct a; [cbn; exact Hs|]. unfold rafter. destruct (crit _).
      + destruct more; [cbn; rewrite rdrawn_record, rtested_record; exact Hs|].
        apply rsearch_logs. cbn. rewrite rdrawn_record, rtested_record; exact Hs.
      + apply rsearch_logs. rewrite rdrawn_record, rtested_record; exact Hs.
    - cbn. exact Hs.
  Qed.

  Lemma rstep_not_fresh kind exs g s a streams : snd (fst (rstp kind exs g s a)) <> RFresh streams.
  Proof.
    assert (Hsrch : forall more cur k s0, snd (fst (rsrch kind exs more cur k s0)) <> RFresh streams).
    { induction more as [|nxt m IHm]; induction cur as [|p r IHc]; intros k s0;
        try (rewrite rsearch_nil; discriminate);
        rewrite rsearch_cons, no_timeout; destruct (tsc kind p exs) as [[[|] sc]|e]; try discriminate;
        unfold rafter; destruct (crit _); try apply IHc; try apply IHm; discriminate. }
    destruct g as [st|k sc rest more|]; cbn [rstep]; [apply Hsrch| |discriminate].
    destruct a; [discriminate|]. unfold rafter. destruct (crit _); [destruct more; [discriminate|]|]; apply Hsrch.
  Qed.

  Lemma rsteps_logs kind exs : forall answers g s, logs_ok g s -> answers <> [] ->
    rdrawn (snd (rstps kind exs g s answers)) = rtested (snd (rstps kind exs g s answers)).
  Proof.
    induction answers as [|a r IH]; intros g s Hs Hne; [contradiction|].
    cbn [rsteps]. pose proof (rstep_logs kind exs g s a Hs) as H1.
    pose proof (rstep_not_fresh kind exs g s a) as H2.
    destruct (rstp kind exs g s a) as [[e g'] s']. cbn [fst snd] in *.
    destruct r as [|a' r'].
    - cbn. exact H1.
    - assert (Hok : logs_ok g' s') by (destruct g'; cbn; auto).
      specialize (IH g' s' Hok ltac:(discriminate)).
      destruct (rstps kind exs g' s' (a' :: r')) as [es s'']. exact IH.
  Qed.

  Theorem restart_drawn_tested kind exs streams s a0 replies :
    rdrawn (snd (rrn kind exs streams s (a0 :: replies))) = rtested (snd (rrn kind exs streams s (a0 :: replies))).
  Proof. unfold rrun. apply rsteps_logs; [exact I|discriminate]. Qed.

  (** ---- the effective stream in terms of the scripted enumerations ---- *)
  (** No program of [pre] makes the test raise or the criterion fire. *)
  Fixpoint quiet (kind : solver_kind) (exs : list example) (pre : list prog) (k : nat) (s : rsolver) : Prop :=
    match pre with
    | [] => True
    | p :: r => wat kind exs s k p = AQuiet /\ quiet kind exs r (S k) (after kind exs s k p)
    end.

  (** [Consumed streams k s pieces]: starting with the solver object [s] after
      [k] drawn programs, [pieces] are the prefixes of the successive
      enumerations that are drawn (one piece per enumeration used). *)
  Inductive Consumed (kind : solver_kind) (exs : list example)
    : list (list prog) -> nat -> rsolver -> list (list prog) -> Prop :=
  | C_none k s :
      (* clone() past the end of the script: an empty enumeration *)
      Consumed kind exs [] k s [[]]
  | C_exhausted cur more k s :
      quiet kind exs cur k s -> Consumed kind exs (cur :: more) k s [cur]
  | C_raise pre p post more k s :
      quiet kind exs pre k s ->
      wat kind exs (afterall kind exs pre k s) (k + length pre) p = ARaises ->
      Consumed kind exs ((pre ++ p :: post) :: more) k s [pre ++ [p]]
  | C_restart pre p post more k s sg :
      quiet kind exs pre k s ->
      wat kind exs (afterall kind exs pre k s) (k + length pre) p = AFires ->
      Consumed kind exs more (k + S (length pre)) (afterall kind exs (pre ++ [p]) k s) sg ->
      Consumed kind exs ((pre ++ p :: post) :: more) k s ((pre ++ [p]) :: sg).

  Lemma consumed_cons kind exs p r more k s a b :
    wat kind exs s k p = AQuiet ->
    Consumed kind exs (r :: more) (S k) (after kind exs s k p) (a :: b) ->
    Consumed kind exs ((p :: r) :: more) k s ((p :: a) :: b).
  Proof.
    intros Hq H. inversion H; subst.
    - apply C_exhausted. cbn. auto.
    - apply (C_raise kind exs (p :: pre) p0 post); [cbn; auto|].
      cbn [r_after_all length]. replace (k + S (length pre)) with (S k + length pre) by lia. assumption.
    - apply (C_restart kind exs (p :: pre) p0 post); [cbn; auto| |].
      + cbn [r_after_all length]. replace (k + S (length pre)) with (S k + length pre) by lia. assumption.
      + cbn [r_after_all length app]. replace (k + S (S (length pre))) with (S k + S (length pre)) by lia. assumption.
  Qed.

  (** The pieces computed by [segments] are the consumed prefixes ... *)
  Theorem segments_consumed kind exs : forall more cur k s,
    Consumed kind exs (cur :: more) k s (segs kind exs more cur k s).
  Proof.
    induction more as [|nxt m IHm]; induction cur as [|p r IHc]; intros k s;
      try (rewrite segments_nil; apply C_exhausted; exact I);
      rewrite segments_cons; destruct (wat kind exs s k p) eqn:Hw.
    - specialize (IHc (S k) (after kind exs s k p)).
      destruct (segs kind exs [] r (S k) (after kind exs s k p)) as [|a b]; [inversion IHc|].
      apply consumed_cons; assumption.
    - apply (C_restart kind exs [] p r); [exact I|cbn; rewrite Nat.add_0_r; exact Hw|]. apply C_none.
    - apply (C_raise kind exs [] p r); [exact I|cbn; rewrite Nat.add_0_r; exact Hw].
    - specialize (IHc (S k) (after kind exs s k p)).
      destruct (segs kind exs (nxt :: m) r (S k) (after kind exs s k p)) as [|a b]; [inversion IHc|].
      apply consumed_cons; assumption.
    - apply (C_restart kind exs [] p r); [exact I|cbn; rewrite Nat.add_0_r; exact Hw|].
      cbn [app r_after_all length]. replace (k + 1) with (S k) by lia. apply IHm.
    - apply (C_raise kind exs [] p r); [exact I|cbn; rewrite Nat.add_0_r; exact Hw].
  Qed.

  (** ... and the effective stream is their concatenation. *)
  Theorem concat_segments kind exs : forall more cur k s,
    concat (segs kind exs more cur k s) = eff kind exs more cur k s.
  Proof.
    induction more as [|nxt m IHm]; induction cur as [|p r IHc]; intros k s;
      try (rewrite segments_nil, effective_nil; reflexivity);
      rewrite segments_cons, effective_cons; destruct (wat kind exs s k p); try reflexivity.
    - specialize (IHc (S k) (after kind exs s k p)).
      destruct (segs kind exs [] r (S k) (after kind exs s k p)) as [|a b]; cbn in *; rewrite <- IHc; reflexivity.
    - specialize (IHc (S k) (after kind exs s k p)).
      destruct (segs kind exs (nxt :: m) r (S k) (after kind exs s k p)) as [|a b]; cbn in *; rewrite <- IHc; reflexivity.
    - cbn. rewrite IHm. reflexivity.
  Qed.

  (** Each consumed piece is a prefix of the corresponding enumeration: it
      starts at the first program of that enumeration and skips none. *)
  Theorem consumed_prefix kind exs streams k s sg : Consumed kind exs streams k s sg ->
    forall i, exists rest, nth i streams [] = nth i sg [] ++ rest.
  Proof.
    induction 1 as [k s|cur more k s Hq|pre p post more k s Hq Hw|pre p post more k s sg Hq Hw Hc IH]; intros i.
    - exists []. destruct i as [|[|i]]; reflexivity.
    - destruct i as [|i]; [exists []; cbn; rewrite app_nil_r; reflexivity|].
      exists (nth i more []). destruct i; reflexivity.
    - destruct i as [|i]; [exists post; cbn; rewrite <- app_assoc; reflexivity|].
      exists (nth i more []). destruct i; reflexivity.
    - destruct i as [|i]; [exists post; cbn; rewrite <- app_assoc; reflexivity|].
      cbn. apply IH.
  Qed.

  (** The specification determines the pieces. *)
  Lemma quiet_app kind exs : forall pre p post k s,
    quiet kind exs (pre ++ p :: post) k s -> wat kind exs (afterall kind exs pre k s) (k + length pre) p = AQuiet.
  Proof.
    induction pre as [|q pre IH]; intros p post k s; cbn [app quiet r_after_all length].
    - rewrite Nat.add_0_r. tauto.
    - intros [_ H]. replace (k + S (length pre)) with (S k + length pre) by lia. apply (IH p post _ _ H).
  Qed.

  Lemma split_unique kind exs : forall pre pre' p p' post post' k s,
    pre ++ p :: post = pre' ++ p' :: post' ->
    quiet kind exs pre k s -> quiet kind exs pre' k s ->
    wat kind exs (afterall kind exs pre k s) (k + length pre) p <> AQuiet ->
    wat kind exs (afterall kind exs pre' k s) (k + length pre') p' <> AQuiet ->
    pre = pre' /\ p = p' /\ post = post'.
  Proof.
    induction pre as [|q pre IH]; intros pre' p p' post post' k s He Hq Hq' Hw Hw'; destruct pre' as [|q' pre'].
    - injection He as H1 H2; subst. auto.
    - injection He as H1 H2; subst. cbn in Hw, Hq'. rewrite Nat.add_0_r in Hw. tauto.
    - injection He as H1 H2; subst. cbn in Hw', Hq. rewrite Nat.add_0_r in Hw'. tauto.
    - injection He as <- He. cbn [quiet] in Hq, Hq'. cbn [r_after_all length] in Hw, Hw'.
      replace (k + S (length pre)) with (S k + length pre) in Hw by lia.
      replace (k + S (length pre')) with (S k + length pre') in Hw' by lia.
      destruct (IH pre' p p' post post' (S k) _ He (proj2 Hq) (proj2 Hq') Hw Hw') as (-> & -> & ->). auto.
  Qed.

  Theorem consumed_unique kind exs streams k s sg : Consumed kind exs streams k s sg ->
    forall sg', Consumed kind exs streams k s sg' -> sg = sg'.
  Proof.
    induction 1 as [k s|cur more k s Hq|pre p post more k s Hq Hw|pre p post more k s sg Hq Hw Hc IH];
      intros sg' H'; inversion H'; subst; try reflexivity;
      try (match goal with Hx : quiet _ _ (_ ++ _ :: _) _ _ |- _ =>
             pose proof (quiet_app kind exs _ _ _ _ _ Hx); congruence end);
      match goal with He : _ ++ _ :: _ = _ ++ _ :: _ |- _ =>
        apply (split_unique kind exs _ _ _ _ _ _ k s) in He; [|assumption|assumption|congruence|congruence];
        destruct He as (? & ? & ?); subst end;
      try congruence.
    f_equal. apply IH. assumption.
  Qed.

  (** For one task. *)
  Theorem effective_consumed kind exs streams s :
    Consumed kind exs (hd [] streams :: tl streams) 0 (r_init s) (segments_of vapp prim_value skip veq crit kind exs streams s) /\
    effof kind exs streams s = concat (segments_of vapp prim_value skip veq crit kind exs streams s).
  Proof.
    unfold segments_of, effective_of. split; [apply segments_consumed|symmetry; apply concat_segments].
  Qed.

  (** ---- a criterion that never fires: the restart solver is its sub-solver ---- *)
  (** A list of programs up to (and including) the first one whose test raises. *)
  Fixpoint upto_raise (kind : solver_kind) (exs : list example) (cur : list prog) : list prog :=
    match cur with
    | [] => []
    | p :: r => match tst kind p exs with Exc _ => [p] | Ok _ => p :: upto_raise kind exs r end
    end.

  Lemma scan_upto_raise kind exs : forall cur k, scn kind exs k (upto_raise kind exs cur) = scn kind exs k cur.
  Proof.
    induction cur as [|p r IH]; intros k; cbn [upto_raise scan]; [reflexivity|].
    destruct (tst kind p exs) eqn:E; cbn [scan]; rewrite E; [rewrite IH|]; reflexivity.
  Qed.

  Lemma effective_never kind exs : (forall s, crit s = false) ->
    forall more cur k s, eff kind exs more cur k s = upto_raise kind exs cur.
  Proof.
    intros Hn more. induction cur as [|p r IH]; intros k s; [apply effective_nil|].
    rewrite effective_cons. cbn [upto_raise]. unfold what_at. rewrite test_scored_test.
    destruct (tsc kind p exs) as [[b sc]|e]; [|reflexivity]. rewrite Hn, IH. reflexivity.
  Qed.

  Lemma fpos_never kind exs : (forall s, crit s = false) -> forall ps k s, fpos kind exs ps k s = [].
  Proof.
    intros Hn. induction ps as [|p r IH]; intros k s; cbn [fired_positions]; [reflexivity|].
    rewrite IH, app_nil_r. unfold what_at. destruct (tsc kind p exs) as [[b sc]|e]; [rewrite Hn|]; reflexivity.
  Qed.

  Lemma scan_effective_never kind exs streams s : (forall s, crit s = false) ->
    scn kind exs 0 (effof kind exs streams s) = scn kind exs 0 (hd [] streams).
  Proof. intros Hn. unfold effective_of. rewrite (effective_never kind exs Hn). apply scan_upto_raise. Qed.

  Theorem restart_never_fires kind exs streams s sp answers : (forall s, crit s = false) ->
    fst (rrn kind exs streams s answers) =
    fst (run_task vapp prim_value skip veq timed_out kind exs (hd [] streams) sp answers).
  Proof.
    intros Hn. rewrite restart_events, (run_task_events vapp prim_value skip veq timed_out no_timeout).
    unfold spec_events. rewrite (scan_effective_never kind exs streams s Hn). reflexivity.
  Qed.

  Theorem restart_never_fires_stats kind exs streams s a0 replies i : (forall s, crit s = false) ->
    accepted (fst (scn kind exs 0 (hd [] streams))) replies = Some i ->
    rtotal (snd (rrn kind exs streams s (a0 :: replies))) = S i /\
    rtotal_restarts (snd (rrn kind exs streams s (a0 :: replies))) = rtotal_restarts s /\
    rrestarts (snd (rrn kind exs streams s (a0 :: replies))) = 0.
  Proof.
    intros Hn Ha. rewrite <- (scan_effective_never kind exs streams s Hn) in Ha.
    destruct (restart_accept_stats kind exs streams s a0 replies i Ha) as (H1 & H2 & H3 & _).
    rewrite (fpos_never kind exs Hn) in H2, H3. cbn [length] in H2, H3. rewrite Nat.add_0_r in H2. auto.
  Qed.

  (** ---- the loop before repair C10b-1 ---- *)
  (** An exhausted enumeration makes the generator raise RuntimeError where
      the plain solvers end with StopIteration. *)
  Theorem pinned_exhaustion_refuted kind exs s sp :
    fst (rrun vapp prim_value skip veq timed_out crit false kind exs [[]] s [false]) = [Raise E_RUNTIME] /\
    fst (rrn kind exs [[]] s [false]) = [Stop] /\
    fst (run_task vapp prim_value skip veq timed_out kind exs [] sp [false]) = [Stop].
  Proof. repeat split; reflexivity. Qed.
End RestartProofs.

(** ---- non-vacuity and sanity on the fixed semantics ---- *)
Section RestartExamples.
  Local Open Scope Z_scope.
  Let tint := TPrim 0%N.
  Let var0 := PLeaf (SVar 0 tint).
  Let one := PLeaf (SPrim 6%N tint).
  Let two := PLeaf (SPrim 7%N tint).
  Let bin n a b := PFun (SPrim n (TArrow tint (TArrow tint tint))) [a; b].
  (* target: x + 1 on 2 and 0 *)
  Let exs : list example := [([VInt 2], VInt 3); ([VInt 0], VInt 1)].
  Let never (k : nat) := false.
  (* restart as soon as one more program with a positive score has been recorded *)
  Let crit := crit_of 0 0.
  (* [two] satisfies no example, [one] satisfies the second one (score 1/2: recorded, restart);
     the enumerator cloned then starts with a solution (rejected: score 1, recorded, restart);
     the third enumeration starts with another solution *)
  Let streams := [[two; one; bin 2%N var0 two; var0];
                  [bin 0%N var0 one; two; two];
                  [bin 0%N one var0; bin 3%N one var0]].
  Let s0 := {| rcnt := 7; rrestarts := 7; rdata := [(0, (1, 1))]%nat; rlast := 1; rdrawn := [one]; rtested := [];
               rcuts := [5%nat]; rtotal := 10; rtotal_restarts := 3 |}.
  Let run kind answers := rrun vapp prim_value [E_ZERODIV] value_pyeq never crit true kind exs streams s0 answers.
  Let effl kind := effective_of vapp prim_value [E_ZERODIV] value_pyeq crit kind exs streams s0.

  (** The pieces drawn from the three enumerations (every proposal rejected):
      the first program of each restarted enumeration is there. *)
  Example ex_segments :
    segments_of vapp prim_value [E_ZERODIV] value_pyeq crit Naive exs streams s0 =
    [[two; one]; [bin 0%N var0 one]; [bin 0%N one var0]; []].
  Proof. vm_compute. reflexivity. Qed.

  Example ex_effective : effl Naive = [two; one; bin 0%N var0 one; bin 0%N one var0].
  Proof. vm_compute. reflexivity. Qed.

  (** Two restarts, the first solution rejected, the second accepted: 4
      programs tested (the rank of the accepted solution in the effective
      stream), restarts after the 2nd and the 3rd. *)
  Example ex_run_accept :
    let '(es, s) := run Naive [false; false; true; false] in
    (es, rtotal s, rtotal_restarts s, rcuts s, rdata s, rtested s) =
    ([Yield 2; Yield 3; Stop; Stop], 4, 5, [2; 3], [(1, (1, 2)); (2, (2, 2))],
     [two; one; bin 0%N var0 one; bin 0%N one var0])%nat.
  Proof. vm_compute. reflexivity. Qed.

  (** The hypothesis of the statistics theorems is satisfiable with restarts. *)
  Example ex_accepted :
    accepted (fst (scan vapp prim_value [E_ZERODIV] value_pyeq Naive exs 0 (effl Naive))) [false; true; false] = Some 3%nat /\
    fired_positions vapp prim_value [E_ZERODIV] value_pyeq crit Naive exs (firstn 3 (effl Naive)) 0 (r_init s0) = [2; 3]%nat.
  Proof. vm_compute. auto. Qed.

  (** Every proposal rejected: the third restart finds no enumeration left. *)
  Example ex_run_complete :
    let '(es, s) := run Naive [false; false; false; false] in
    (es, rtotal s, rcnt s, rrestarts s, rcuts s) = ([Yield 2; Yield 3; Stop; Stop], 10, 4, 3, [2; 3; 4])%nat.
  Proof. vm_compute. reflexivity. Qed.

  (** The cut-off sub-solver scores [one] 0 (its first example fails): nothing
      is recorded, no restart happens and the first enumeration is exhausted. *)
  Example ex_run_cutoff :
    let '(es, s) := run Cutoff [false; false; true] in
    (es, rtotal s, rcuts s, rdata s) =
    ([Stop; Stop; Stop], 10, [], [])%nat.
  Proof. vm_compute. reflexivity. Qed.

  (** The hypothesis of the never-fires theorems is satisfiable. *)
  Example ex_never_fires : forall s : rsolver, (fun _ : rsolver => false) s = false.
  Proof. reflexivity. Qed.
End RestartExamples.
