(** Proofs about the solver model (Sem/Solver.v). *)
From Coq Require Import ZArith NArith List Bool Lia Arith Sorted.
From PS Require Import Base.ListX Base.Sexp Base.Ty Base.Value Base.Prog Sem.Semantics Sem.Eval Sem.EvalProofs Sem.Solver.
Import ListNotations.

Section SolverProofs.
  Variable vapp : value -> value -> outcome value.
  Variable prim_value : N -> value.
  Variable skip : list N.
  Variable veq : value -> value -> bool.

  Notation check := (check_example vapp prim_value skip veq).
  Notation sat := (satisfies vapp prim_value skip veq).
  Notation pass := (passes vapp prim_value skip veq).
  Notation rais := (raises vapp prim_value skip veq).
  Notation tst := (test vapp prim_value skip veq).
  Notation scn := (scan vapp prim_value skip veq).

  (** ---- the two tests ---- *)
  (** Exception of the first example (in order) whose evaluation raises. *)
  Fixpoint first_exc (p : prog) (exs : list example) : option N :=
    match exs with
    | [] => None
    | ex :: r => match check p ex with Exc e => Some e | _ => first_exc p r end
    end.

  Lemma first_exc_none p exs : first_exc p exs = None <-> forall ex, In ex exs -> rais p ex = false.
  Proof.
    induction exs as [|ex r IH]; cbn [first_exc In].
    - split; [intros _ ex []|reflexivity].
    - destruct (check p ex) as [b|e] eqn:E.
      + rewrite IH. split.
        * intros H x [<-|Hx]; [unfold raises; rewrite E; reflexivity|apply H; exact Hx].
        * intros H x Hx; apply H; right; exact Hx.
      + split; [discriminate|]. intros H. specialize (H ex (or_introl eq_refl)).
        unfold raises in H; rewrite E in H; discriminate.
  Qed.

  Lemma passes_no_exc p exs : pass p exs = true -> first_exc p exs = None.
  Proof.
    induction exs as [|ex r IH]; cbn; [reflexivity|].
    unfold satisfies. destruct (check p ex) as [[|]|e]; cbn; auto; discriminate.
  Qed.

  Lemma naive_loop_spec p : forall exs failed n,
    naive_loop vapp prim_value skip veq p exs failed n =
    match first_exc p exs with
    | Some e => Exc e
    | None => Ok (failed || negb (pass p exs), n + length (filter (sat p) exs))
    end.
  Proof.
    induction exs as [|ex r IH]; intros failed n; cbn.
    - rewrite orb_false_r, Nat.add_0_r; reflexivity.
    - unfold satisfies at 1 3. destruct (check p ex) as [[|]|e]; cbn; try reflexivity.
      + rewrite IH. destruct (first_exc p r); [reflexivity|]. f_equal. f_equal. lia.
      + rewrite IH. destruct (first_exc p r); [reflexivity|]. rewrite orb_true_r; reflexivity.
  Qed.

  Lemma test_naive_spec p exs :
    tst Naive p exs = match first_exc p exs with Some e => Exc e | None => Ok (pass p exs) end.
  Proof.
    cbn. unfold test_naive_gen. rewrite naive_loop_spec. destruct (first_exc p exs); [reflexivity|].
    cbn. rewrite negb_involutive; reflexivity.
  Qed.

  Lemma test_pinned_spec p exs :
    tst NaivePinned p exs =
    match first_exc p exs with
    | Some e => Exc e
    | None => if Nat.eqb (length exs) 0 then Exc E_ZERODIV else Ok (pass p exs)
    end.
  Proof.
    cbn. unfold test_naive_gen. rewrite naive_loop_spec. destruct (first_exc p exs); [reflexivity|].
    cbn. rewrite negb_involutive; reflexivity.
  Qed.

  (** The cut-off test: its verdict is the conjunction over the examples up to
      the first one that is not satisfied. *)
  Lemma test_cutoff_true p exs : tst Cutoff p exs = Ok true <-> pass p exs = true.
  Proof.
    cbn. induction exs as [|ex r IH]; cbn; [tauto|].
    unfold satisfies. destruct (check p ex) as [[|]|e]; cbn; try tauto; split; discriminate.
  Qed.

  Lemma test_cutoff_no_exc p exs : first_exc p exs = None -> tst Cutoff p exs = Ok (pass p exs).
  Proof.
    cbn. induction exs as [|ex r IH]; cbn; [reflexivity|].
    unfold satisfies. destruct (check p ex) as [[|]|e]; cbn; auto; discriminate.
  Qed.

  Lemma test_cutoff_exc p exs e : tst Cutoff p exs = Exc e -> first_exc p exs = Some e.
  Proof.
    cbn. induction exs as [|ex r IH]; cbn; [discriminate|].
    destruct (check p ex) as [[|]|e']; auto; try discriminate. intros H; injection H as ->; reflexivity.
  Qed.

  Lemma test_cutoff_false_or_exc p exs e :
    first_exc p exs = Some e -> tst Cutoff p exs = Exc e \/ tst Cutoff p exs = Ok false.
  Proof.
    cbn. induction exs as [|ex r IH]; cbn; [discriminate|].
    destruct (check p ex) as [[|]|e']; auto. intros H; injection H as ->; auto.
  Qed.

  (** Both tests answer true exactly on the programs satisfying every example. *)
  Theorem test_true_iff kind p exs : kind <> NaivePinned -> (tst kind p exs = Ok true <-> pass p exs = true).
  Proof.
    intros Hk. destruct kind; [|apply test_cutoff_true|contradiction].
    rewrite test_naive_spec. split.
    - destruct (first_exc p exs); [discriminate|]. intros H; injection H; auto.
    - intros H. rewrite (passes_no_exc p exs H), H; reflexivity.
  Qed.

  (** Naive and cut-off as booleans. *)
  Theorem naive_cutoff_agree p exs :
    (forall ex, In ex exs -> rais p ex = false) -> tst Naive p exs = tst Cutoff p exs.
  Proof.
    intros H. apply first_exc_none in H. rewrite test_naive_spec, H. symmetry; apply test_cutoff_no_exc; exact H.
  Qed.

  Theorem naive_cutoff_relation p exs :
    (forall b, tst Naive p exs = Ok b -> tst Cutoff p exs = Ok b) /\
    (forall e, tst Cutoff p exs = Exc e -> tst Naive p exs = Exc e) /\
    (forall e, tst Naive p exs = Exc e -> tst Cutoff p exs = Exc e \/ tst Cutoff p exs = Ok false) /\
    (tst Naive p exs = Ok true <-> tst Cutoff p exs = Ok true).
  Proof.
    rewrite test_naive_spec. repeat split.
    - intros b. destruct (first_exc p exs) eqn:E; [discriminate|]. intros H; injection H as <-.
      apply test_cutoff_no_exc; exact E.
    - intros e H. rewrite (test_cutoff_exc p exs e H); reflexivity.
    - intros e. destruct (first_exc p exs) eqn:E; [|discriminate]. intros H; injection H as ->.
      apply test_cutoff_false_or_exc; exact E.
    - rewrite <- test_naive_spec. rewrite (test_true_iff Naive), (test_true_iff Cutoff); [tauto|discriminate|discriminate].
    - rewrite <- test_naive_spec. rewrite (test_true_iff Naive), (test_true_iff Cutoff); [tauto|discriminate|discriminate].
  Qed.

  Theorem zero_examples p : tst Naive p [] = Ok true /\ tst Cutoff p [] = Ok true.
  Proof. split; reflexivity. Qed.

  Theorem pinned_zero_examples_refuted p : tst NaivePinned p [] = Exc E_ZERODIV /\ tst Cutoff p [] = Ok true.
  Proof. split; reflexivity. Qed.

  Theorem pinned_eq_naive p exs : exs <> [] -> tst NaivePinned p exs = tst Naive p exs.
  Proof.
    intros H. rewrite test_pinned_spec, test_naive_spec. destruct exs; [contradiction|reflexivity].
  Qed.

  (** ---- the tests through the cached evaluator (link with C11) ---- *)
  Notation cinv := (cache_inv vapp prim_value skip).

  Lemma check_example_c_correct uc c p ex : cinv c ->
    fst (check_example_c vapp prim_value skip veq uc c p ex) = check p ex /\
    cinv (snd (check_example_c vapp prim_value skip veq uc c p ex)).
  Proof.
    intros Hc. unfold check_example_c, check_example.
    destruct (eval_cached_correct vapp prim_value skip uc c p (fst ex) Hc) as [H1 H2].
    destruct (eval_cached vapp prim_value skip uc c p (fst ex)) as [o c']; cbn in *. subst o; auto.
  Qed.

  Lemma naive_loop_c_correct uc p : forall exs c failed n, cinv c ->
    fst (naive_loop_c vapp prim_value skip veq uc c p exs failed n) = naive_loop vapp prim_value skip veq p exs failed n /\
    cinv (snd (naive_loop_c vapp prim_value skip veq uc c p exs failed n)).
  Proof.
    induction exs as [|ex r IH]; intros c failed n Hc; cbn; [auto|].
    destruct (check_example_c_correct uc c p ex Hc) as [H1 H2].
    destruct (check_example_c vapp prim_value skip veq uc c p ex) as [o c']; cbn in *. rewrite <- H1.
    destruct o as [[|]|e]; cbn; auto.
  Qed.

  Lemma test_cutoff_c_correct uc p : forall exs c, cinv c ->
    fst (test_cutoff_c vapp prim_value skip veq uc c p exs) = test_cutoff vapp prim_value skip veq p exs /\
    cinv (snd (test_cutoff_c vapp prim_value skip veq uc c p exs)).
  Proof.
    induction exs as [|ex r IH]; intros c Hc; cbn; [auto|].
    destruct (check_example_c_correct uc c p ex Hc) as [H1 H2].
    destruct (check_example_c vapp prim_value skip veq uc c p ex) as [o c']; cbn in *. rewrite <- H1.
    destruct o as [[|]|e]; cbn; auto.
  Qed.

  (** A solver test run through the cached evaluator, in any correct cache
      state (C11: every state reachable by evaluations and clearings is one),
      gives the verdict of the reference semantics and leaves a correct cache. *)
  Theorem test_cached_correct kind uc c p exs : cinv c ->
    fst (test_cached vapp prim_value skip veq kind uc c p exs) = tst kind p exs /\
    cinv (snd (test_cached vapp prim_value skip veq kind uc c p exs)).
  Proof.
    intros Hc. destruct kind; cbn [test_cached test].
    - unfold test_naive_gen_c, test_naive_gen.
      destruct (naive_loop_c_correct uc p exs c false 0 Hc) as [H1 H2].
      destruct (naive_loop_c vapp prim_value skip veq uc c p exs false 0) as [o c']; cbn in *. rewrite <- H1; auto.
    - apply test_cutoff_c_correct; exact Hc.
    - unfold test_naive_gen_c, test_naive_gen.
      destruct (naive_loop_c_correct uc p exs c false 0 Hc) as [H1 H2].
      destruct (naive_loop_c vapp prim_value skip veq uc c p exs false 0) as [o c']; cbn in *. rewrite <- H1; auto.
  Qed.

  (** ---- the generator against the protocol specification ---- *)
  Variable timed_out : nat -> bool.
  Hypothesis no_timeout : forall k, timed_out k = false.

  Notation srch := (search vapp prim_value skip veq timed_out).
  Notation stp := (step vapp prim_value skip veq timed_out).
  Notation steps := (run_steps vapp prim_value skip veq timed_out).
  Notation rtask := (run_task vapp prim_value skip veq timed_out).
  Notation rtasks := (run_tasks vapp prim_value skip veq timed_out).
  Notation sevents := (spec_events vapp prim_value skip veq).

  (** The accepted solution, if any: the first yield answered True. *)
  Fixpoint accepted (passing : list nat) (replies : list bool) : option nat :=
    match passing, replies with
    | i :: _, true :: _ => Some i
    | _ :: more, false :: rs => accepted more rs
    | _, _ => None
    end.

  Definition added (a : option nat) : nat := match a with Some i => S i | None => 0 end.

  Lemma accepted_nil passing : accepted passing [] = None.
  Proof. destruct passing; reflexivity. Qed.

  Lemma steps_finished kind exs s : forall answers,
    steps kind exs Finished s answers = (repeat Stop (length answers), s).
  Proof.
    induction answers as [|a r IH]; cbn; [reflexivity|]. rewrite IH; reflexivity.
  Qed.

  (** Main invariant: searching from index k with self._programs = k. *)
  Lemma search_protocol kind exs : forall rest k s replies, cnt s = k ->
    let '(e, g, s1) := srch kind exs k rest s in
    let '(es, s2) := steps kind exs g s1 replies in
    let '(passing, final) := scn kind exs k rest in
    e :: es = protocol passing final replies /\
    total s2 = total s + added (accepted passing replies).
  Proof.
    induction rest as [|p r IH]; intros k s replies Hk.
    - cbn. rewrite steps_finished. cbn. split; [reflexivity|lia].
    - cbn [search scan]. rewrite no_timeout.
      destruct (tst kind p exs) as [[|]|e] eqn:Et.
      + (* yielded *)
        destruct (scn kind exs (S k) r) as [more final] eqn:Es.
        destruct replies as [|[|] rs].
        * cbn. split; [reflexivity|lia].
        * cbn [run_steps step]. rewrite steps_finished. cbn. split; [reflexivity|lia].
        * cbn [run_steps step].
          specialize (IH (S k) {| cnt := S (cnt s); total := total s |} rs).
          cbn [cnt total] in IH. rewrite Es in IH.
          destruct (srch kind exs (S k) r {| cnt := S (cnt s); total := total s |}) as [[e g] s1].
          destruct (steps kind exs g s1 rs) as [es s2].
          destruct (IH ltac:(lia)) as [H1 H2]. cbn [protocol accepted]. rewrite <- H1. auto.
      + (* rejected by the test *)
        specialize (IH (S k) {| cnt := S (cnt s); total := total s |} replies).
        cbn [cnt total] in IH.
        destruct (srch kind exs (S k) r {| cnt := S (cnt s); total := total s |}) as [[e g] s1].
        destruct (steps kind exs g s1 replies) as [es s2].
        destruct (scn kind exs (S k) r) as [more final].
        apply IH; lia.
      + (* the evaluation raised *)
        rewrite steps_finished. cbn. split; [reflexivity|lia].
  Qed.

  (** One task: events and statistics. *)
  Theorem run_task_spec kind exs progs s a0 replies :
    fst (rtask kind exs progs s (a0 :: replies)) = sevents kind exs progs (a0 :: replies) /\
    total (snd (rtask kind exs progs s (a0 :: replies))) =
    total s + added (accepted (fst (scn kind exs 0 progs)) replies).
  Proof.
    unfold run_task, spec_events. cbn [run_steps step].
    pose proof (search_protocol kind exs progs 0 {| cnt := 0; total := total s |} replies eq_refl) as H.
    destruct (srch kind exs 0 progs {| cnt := 0; total := total s |}) as [[e g] s1].
    destruct (steps kind exs g s1 replies) as [es s2].
    destruct (scn kind exs 0 progs) as [passing final]. cbn in *. exact H.
  Qed.

  Theorem run_task_events kind exs progs s answers :
    fst (rtask kind exs progs s answers) = sevents kind exs progs answers.
  Proof.
    destruct answers as [|a0 replies]; [reflexivity|]. apply run_task_spec.
  Qed.

  Lemma run_task_nil kind exs progs s : rtask kind exs progs s [] = ([], s).
  Proof. reflexivity. Qed.

  (** Several tasks on one solver: statistics accumulate. *)
  Fixpoint spec_tasks (kind : solver_kind) (tot : nat) (ts : list task) : list (list event * nat) :=
    match ts with
    | [] => []
    | (exs, progs, answers) :: r =>
      let tot' := tot + added (accepted (fst (scn kind exs 0 progs)) (tl answers)) in
      (sevents kind exs progs answers, tot') :: spec_tasks kind tot' r
    end.

  Theorem run_tasks_spec kind : forall ts s, rtasks kind s ts = spec_tasks kind (total s) ts.
  Proof.
    induction ts as [|[[exs progs] answers] r IH]; intros s; [reflexivity|].
    cbn [run_tasks spec_tasks].
    destruct answers as [|a0 replies].
    - rewrite run_task_nil. cbn [tl spec_events]. rewrite accepted_nil. cbn [added]. rewrite Nat.add_0_r, IH; reflexivity.
    - destruct (run_task_spec kind exs progs s a0 replies) as [H1 H2].
      destruct (rtask kind exs progs s (a0 :: replies)) as [es s']. cbn [fst snd tl] in *.
      rewrite IH, H1, H2; reflexivity.
  Qed.

  (** ---- what [scan] lists: exactly the passing programs before the first raise ---- *)
  Definition no_exc_before (kind : solver_kind) (exs : list example) (progs : list prog) (n : nat) : Prop :=
    forall j q, j < n -> nth_error progs j = Some q -> forall e, tst kind q exs <> Exc e.

  Lemma scan_in kind exs : forall progs k i,
    In i (fst (scn kind exs k progs)) <->
    exists p, k <= i /\ nth_error progs (i - k) = Some p /\ tst kind p exs = Ok true /\
              no_exc_before kind exs progs (i - k).
  Proof.
    induction progs as [|p r IH]; intros k i; cbn [scan].
    - cbn. split; [tauto|]. intros (q & _ & H & _). destruct (i - k); discriminate.
    - destruct (tst kind p exs) as [b|e] eqn:Et.
      + specialize (IH (S k) i). destruct (scn kind exs (S k) r) as [l f]. cbn [fst] in *.
        assert (Hrec : In i l <->
                       exists q, k < i /\ nth_error (p :: r) (i - k) = Some q /\ tst kind q exs = Ok true /\
                                 no_exc_before kind exs (p :: r) (i - k)).
        { rewrite IH. split.
          - intros (q & Hle & Hn & Ht & Hb). exists q. split; [lia|].
            replace (i - k) with (S (i - S k)) by lia. cbn. split; [exact Hn|split; [exact Ht|]].
            intros j x Hj Hx e' He. destruct j as [|j]; cbn in Hx.
            + injection Hx as <-. congruence.
            + apply (Hb j x ltac:(lia) Hx e' He).
          - intros (q & Hlt & Hn & Ht & Hb). exists q. split; [lia|].
            replace (i - k) with (S (i - S k)) in Hn, Hb by lia. cbn in Hn. split; [exact Hn|split; [exact Ht|]].
            intros j x Hj Hx e' He. apply (Hb (S j) x ltac:(lia) Hx e' He). }
        destruct b; cbn [In].
        * rewrite Hrec. split.
          -- intros [<-|(q & Hlt & H)].
             ++ exists p. rewrite Nat.sub_diag. cbn. repeat split; auto. intros j x Hj; lia.
             ++ exists q. split; [lia|exact H].
          -- intros (q & Hle & Hn & Ht & Hb).
             destruct (Nat.eq_dec k i) as [->|Hne]; [left; reflexivity|right].
             exists q. split; [lia|auto].
        * rewrite Hrec. split.
          -- intros (q & Hlt & H). exists q. split; [lia|exact H].
          -- intros (q & Hle & Hn & Ht & Hb).
             destruct (Nat.eq_dec k i) as [->|Hne].
             ++ rewrite Nat.sub_diag in Hn. cbn in Hn. injection Hn as <-. congruence.
             ++ exists q. split; [lia|auto].
      + cbn. split; [tauto|]. intros (q & Hle & Hn & Ht & Hb).
        destruct (i - k) as [|m] eqn:Em.
        * cbn in Hn. injection Hn as <-. congruence.
        * exfalso. apply (Hb 0 p ltac:(lia) eq_refl e Et).
  Qed.

  (** Enumeration order: the indices are strictly increasing. *)
  Lemma scan_sorted kind exs : forall progs k,
    Sorted.StronglySorted lt (fst (scn kind exs k progs)) /\
    (forall i, In i (fst (scn kind exs k progs)) -> k <= i).
  Proof.
    induction progs as [|p r IH]; intros k; cbn [scan].
    - cbn. split; [constructor|tauto].
    - destruct (tst kind p exs) as [b|e].
      + specialize (IH (S k)). destruct (scn kind exs (S k) r) as [l f]. cbn [fst] in *.
        destruct IH as [Hs Hl]. destruct b; cbn [fst].
        * split.
          -- constructor; [exact Hs|]. apply Forall_forall. intros i Hi. specialize (Hl i Hi). lia.
          -- intros i [<-|Hi]; [lia|]. specialize (Hl i Hi). lia.
        * split; [exact Hs|]. intros i Hi. specialize (Hl i Hi). lia.
      + cbn. split; [constructor|tauto].
  Qed.

  (** How the enumeration ends: an exception escapes at exactly the first
      program whose test raises; otherwise the enumerator is exhausted. *)
  Lemma scan_final kind exs : forall progs k,
    match snd (scn kind exs k progs) with
    | Raise e => exists n p, nth_error progs n = Some p /\ tst kind p exs = Exc e /\ no_exc_before kind exs progs n
    | Stop => no_exc_before kind exs progs (length progs)
    | Yield _ => False
    end.
  Proof.
    induction progs as [|p r IH]; intros k; cbn [scan].
    - cbn. intros j q Hj; lia.
    - destruct (tst kind p exs) as [b|e] eqn:Et.
      + specialize (IH (S k)). destruct (scn kind exs (S k) r) as [l f]. cbn [snd] in *.
        destruct f as [i|  |e]; [exact IH| |].
        * intros j q Hj Hq e He. destruct j as [|j]; cbn in Hq.
          -- injection Hq as <-. congruence.
          -- cbn in Hj. apply (IH j q ltac:(lia) Hq e He).
        * destruct IH as (n & q & Hn & Ht & Hb). exists (S n), q. repeat split; auto.
          intros j x Hj Hx e' He. destruct j as [|j]; cbn in Hx.
          -- injection Hx as <-. congruence.
          -- apply (Hb j x ltac:(lia) Hx e' He).
      + cbn. exists 0, p. repeat split; auto. intros j x Hj; lia.
  Qed.

  (** The number of yields never exceeds the number of passing programs, and
      each yield is the next passing program: protocol facts. *)
  Lemma protocol_stop i more final rs :
    protocol (i :: more) final (true :: rs) = Yield i :: repeat Stop (S (length rs)).
  Proof. reflexivity. Qed.

  Lemma protocol_resume i more final rs :
    protocol (i :: more) final (false :: rs) = Yield i :: protocol more final rs.
  Proof. reflexivity. Qed.

  Lemma protocol_end final rs : protocol [] final rs = final :: repeat Stop (length rs).
  Proof. reflexivity. Qed.

  (** Rejecting everything enumerates all the passing programs in order, then
      the end of the enumeration, then StopIteration for ever. *)
  Lemma protocol_reject_some final : forall passing n, n < length passing ->
    protocol passing final (repeat false n) = map Yield (firstn (S n) passing).
  Proof.
    induction passing as [|i more IH]; intros n Hn; cbn [length] in Hn; [lia|].
    destruct n as [|n]; [reflexivity|].
    cbn [repeat protocol]. rewrite IH by lia. reflexivity.
  Qed.

  Lemma protocol_reject_all final : forall passing n, length passing <= n ->
    protocol passing final (repeat false n) = map Yield passing ++ final :: repeat Stop (n - length passing).
  Proof.
    induction passing as [|i more IH]; intros n Hn; cbn [length] in Hn.
    - cbn. rewrite repeat_length, Nat.sub_0_r; reflexivity.
    - destruct n as [|n]; [lia|].
      cbn [repeat protocol]. rewrite IH by lia. reflexivity.
  Qed.

  (** The passing list in terms of the property: program i is listed iff it
      satisfies every example and no earlier program made the test raise. *)
  Theorem scan_passing kind exs progs i : kind <> NaivePinned ->
    (In i (fst (scn kind exs 0 progs)) <->
     exists p, nth_error progs i = Some p /\ pass p exs = true /\ no_exc_before kind exs progs i).
  Proof.
    intros Hk. rewrite scan_in. rewrite Nat.sub_0_r. split.
    - intros (p & _ & Hn & Ht & Hb). exists p. rewrite <- (test_true_iff kind p exs Hk). auto.
    - intros (p & Hn & Ht & Hb). exists p. rewrite (test_true_iff kind p exs Hk). repeat split; auto. lia.
  Qed.

  (** Which yield was accepted. *)
  Lemma accepted_spec : forall passing replies i,
    accepted passing replies = Some i <->
    exists j, nth_error passing j = Some i /\ nth_error replies j = Some true /\
              forall j', j' < j -> nth_error replies j' = Some false.
  Proof.
    induction passing as [|x more IH]; intros replies i.
    - cbn. split; [discriminate|]. intros (j & H & _). destruct j; discriminate.
    - destruct replies as [|[|] rs]; cbn [accepted].
      + split; [discriminate|]. intros (j & _ & H & _). destruct j; discriminate.
      + split.
        * intros H; injection H as <-. exists 0. repeat split. intros j' Hj; lia.
        * intros (j & Hp & Hr & Hb). destruct j as [|j]; [cbn in Hp; exact Hp|].
          specialize (Hb 0 ltac:(lia)). discriminate.
      + rewrite IH. split.
        * intros (j & Hp & Hr & Hb). exists (S j). repeat split; auto.
          intros [|j'] Hj; [reflexivity|]. cbn. apply Hb; lia.
        * intros (j & Hp & Hr & Hb). destruct j as [|j]; [discriminate|].
          exists j. repeat split; auto. intros j' Hj. apply (Hb (S j')); lia.
  Qed.

  (** Statistics: when the solution of index i is accepted the counter grows by i+1. *)
  Theorem stats_accepted kind exs progs s a0 replies i :
    accepted (fst (scn kind exs 0 progs)) replies = Some i ->
    total (snd (rtask kind exs progs s (a0 :: replies))) = total s + S i.
  Proof.
    intros H. destruct (run_task_spec kind exs progs s a0 replies) as [_ Ht]. rewrite Ht, H; reflexivity.
  Qed.

  Theorem stats_not_accepted kind exs progs s a0 replies :
    accepted (fst (scn kind exs 0 progs)) replies = None ->
    total (snd (rtask kind exs progs s (a0 :: replies))) = total s.
  Proof.
    intros H. destruct (run_task_spec kind exs progs s a0 replies) as [_ Ht]. rewrite Ht, H; cbn; lia.
  Qed.

  (** Naive and cut-off solvers: same runs whenever no evaluation raises. *)
  Lemma scan_ext k1 k2 exs : forall progs k,
    (forall p, In p progs -> tst k1 p exs = tst k2 p exs) -> scn k1 exs k progs = scn k2 exs k progs.
  Proof.
    induction progs as [|p r IH]; intros k H; [reflexivity|].
    cbn [scan]. rewrite (H p (or_introl eq_refl)). destruct (tst k2 p exs) as [b|e]; [|reflexivity].
    rewrite (IH (S k)); [reflexivity|]. intros q Hq; apply H; right; exact Hq.
  Qed.

  Definition never_raises (ts : list task) : Prop :=
    forall exs progs answers, In (exs, progs, answers) ts ->
    forall p ex, In p progs -> In ex exs -> rais p ex = false.

  Theorem naive_cutoff_runs : forall ts s, never_raises ts -> rtasks Naive s ts = rtasks Cutoff s ts.
  Proof.
    intros ts s H. rewrite !run_tasks_spec. generalize (total s). revert H.
    induction ts as [|[[exs progs] answers] r IH]; intros H tot; [reflexivity|].
    cbn [spec_tasks]. unfold spec_events.
    assert (Hs : scn Naive exs 0 progs = scn Cutoff exs 0 progs).
    { apply scan_ext. intros p Hp. apply naive_cutoff_agree. intros ex Hex.
      apply (H exs progs answers (or_introl eq_refl) p ex Hp Hex). }
    rewrite Hs. rewrite IH; [reflexivity|].
    intros exs' progs' answers' Hin. apply (H exs' progs' answers'). right; exact Hin.
  Qed.
End SolverProofs.

(** ---- non-vacuity and sanity on the fixed semantics ---- *)
Section Examples.
  Local Open Scope Z_scope.
  Let tint := TPrim 0%N.
  Let var0 := PLeaf (SVar 0 tint).
  Let one := PLeaf (SPrim 6%N tint).
  Let two := PLeaf (SPrim 7%N tint).
  Let bin n a b := PFun (SPrim n (TArrow tint (TArrow tint tint))) [a; b].
  Let progs := [one; bin 3%N two var0; bin 0%N var0 one; bin 3%N one var0; bin 0%N one var0; bin 2%N var0 two].
  (* target: x + 1 on 2 and 0 *)
  Let exs : list example := [([VInt 2], VInt 3); ([VInt 0], VInt 1)].
  Let never (k : nat) := false.
  Let run kind sk := run_task vapp prim_value sk value_pyeq never kind exs progs {| cnt := 7; total := 10 |}.

  (** The clock hypothesis of the theorems is satisfiable. *)
  Example ex_no_timeout : forall k, never k = false.
  Proof. reflexivity. Qed.

  (** ZeroDivisionError skipped: programs 2 and 4 pass; reject the first, accept the second. *)
  Example ex_run_cutoff :
    run Cutoff [E_ZERODIV] [false; false; true; false] =
    ([Yield 2; Yield 4; Stop; Stop], {| cnt := 5; total := 15 |}).
  Proof. vm_compute. reflexivity. Qed.

  Example ex_run_naive : run Naive [E_ZERODIV] [false; false; true; false] = run Cutoff [E_ZERODIV] [false; false; true; false].
  Proof. vm_compute. reflexivity. Qed.

  (** Rejecting everything: exhaustion, statistics not closed. *)
  Example ex_run_exhausted :
    run Cutoff [E_ZERODIV] [false; false; false; false] = ([Yield 2; Yield 4; Stop; Stop], {| cnt := 6; total := 10 |}).
  Proof. vm_compute. reflexivity. Qed.

  (** Nothing skipped: program 1 = (div two var0) misses the first example and
      raises on the second: the naive solver lets the exception escape, the
      cut-off solver already rejected the program on the first example. *)
  Example ex_run_raise_naive : run Naive [] [false; false] = ([Raise E_ZERODIV; Stop], {| cnt := 2; total := 10 |}).
  Proof. vm_compute. reflexivity. Qed.

  Example ex_run_raise_cutoff : run Cutoff [] [false; false; false] = ([Yield 2; Yield 4; Stop], {| cnt := 6; total := 10 |}).
  Proof. vm_compute. reflexivity. Qed.

  Example ex_accepted : accepted [2%nat; 4%nat] [false; true; false] = Some 4%nat.
  Proof. reflexivity. Qed.
End Examples.
