(** Model of synth/pbe/solvers/pbe_solver.py: the generator returned by
    PBESolver.solve, as a state machine driven by the caller's next()/send(v),
    over the list of programs the enumerator yields.

    The evaluator is the reference semantics of Sem/Eval.v observed through the
    skip set (what DSLEvaluator.eval returns or raises).  Property C11
    (EvalProofs.history_independent) shows that the cached evaluator gives that
    same observation in every reachable cache state, so the cache left by
    earlier programs, examples and tasks is irrelevant here; SolverProofs
    (test_cached_correct) makes this explicit for one solver test.

    Generic in the semantics, the skip set, the equality used to compare a
    result with the expected output (Python ==) and the clock. *)
From Coq Require Import ZArith NArith List Bool Lia.
From PS Require Import Base.ListX Base.Sexp Base.Ty Base.Value Base.Prog Sem.Semantics Sem.Eval.
Import ListNotations.

(** Python == on the value universe of the harness: bool is a subclass of int
    (True == 1), lists compare element-wise, None only equals None, closures
    compare by primitive and captured arguments (harness class Clos). *)
Fixpoint value_pyeq (a b : value) {struct a} : bool :=
  let fix list_pyeq (l : list value) (l' : list value) {struct l} : bool :=
    match l, l' with
    | [], [] => true
    | x :: r, y :: r' => value_pyeq x y && list_pyeq r r'
    | _, _ => false
    end in
  match a, b with
  | VInt x, VInt y => Z.eqb x y
  | VBool x, VBool y => Bool.eqb x y
  | VInt x, VBool y => Z.eqb x (if y then 1 else 0)
  | VBool x, VInt y => Z.eqb (if x then 1 else 0) y
  | VList l, VList l' => list_pyeq l l'
  | VNone, VNone => true
  | VClos n l, VClos m l' => N.eqb n m && list_pyeq l l'
  | _, _ => false
  end.

Section Solver.
  Variable vapp : value -> value -> outcome value.
  Variable prim_value : N -> value.
  Variable skip : list N.
  Variable veq : value -> value -> bool.        (* result == expected output *)
  Variable timed_out : nat -> bool.             (* clock check made before testing the k-th program of a task *)

  Definition example : Type := (list value * value)%type.

  (** [evaluator.eval(program, ex.inputs) != ex.output], negated: [Ok true] the
      example is satisfied, [Ok false] it is not, [Exc e] the evaluation raised
      a non-skipped exception, which escapes. *)
  Definition check_of_observed (o : observed) (expected : value) : outcome bool :=
    match o with
    | Returned v => Ok (veq v expected)
    | Raised e => Exc e
    end.

  Definition check_example (p : prog) (ex : example) : outcome bool :=
    check_of_observed (observe skip (eval_ref vapp prim_value p (fst ex))) (snd ex).

  (** PBESolver._test_ (NaivePBESolver): every example is evaluated, successes
      are counted, the score is successes / number of examples.
      [guarded = false] is the code before the proposed repair C10-1: the
      division raises ZeroDivisionError when there is no example. *)
  Fixpoint naive_loop (p : prog) (exs : list example) (failed : bool) (success : nat) : outcome (bool * nat) :=
    match exs with
    | [] => Ok (failed, success)
    | ex :: r =>
      match check_example p ex with
      | Exc e => Exc e
      | Ok true => naive_loop p r failed (S success)
      | Ok false => naive_loop p r true success
      end
    end.

  Definition test_naive_gen (guarded : bool) (p : prog) (exs : list example) : outcome bool :=
    match naive_loop p exs false 0 with
    | Exc e => Exc e
    | Ok (failed, _) =>
      if negb guarded && Nat.eqb (length exs) 0 then Exc E_ZERODIV else Ok (negb failed)
    end.

  (** CutoffPBESolver._test_: stops at the first example that is not satisfied. *)
  Fixpoint test_cutoff (p : prog) (exs : list example) : outcome bool :=
    match exs with
    | [] => Ok true
    | ex :: r =>
      match check_example p ex with
      | Exc e => Exc e
      | Ok false => Ok false
      | Ok true => test_cutoff p r
      end
    end.

  Inductive solver_kind : Type := Naive | Cutoff | NaivePinned.

  Definition test (k : solver_kind) (p : prog) (exs : list example) : outcome bool :=
    match k with
    | Naive => test_naive_gen true p exs
    | Cutoff => test_cutoff p exs
    | NaivePinned => test_naive_gen false p exs
    end.


  (** ---- the same tests through the cached evaluator (as the code runs them) ---- *)
  Definition check_example_c (uc : bool) (c : cache) (p : prog) (ex : example) : outcome bool * cache :=
    let '(o, c') := eval_cached vapp prim_value skip uc c p (fst ex) in
    (check_of_observed o (snd ex), c').

  Fixpoint naive_loop_c (uc : bool) (c : cache) (p : prog) (exs : list example) (failed : bool) (success : nat)
    : outcome (bool * nat) * cache :=
    match exs with
    | [] => (Ok (failed, success), c)
    | ex :: r =>
      let '(o, c') := check_example_c uc c p ex in
      match o with
      | Exc e => (Exc e, c')
      | Ok true => naive_loop_c uc c' p r failed (S success)
      | Ok false => naive_loop_c uc c' p r true success
      end
    end.

  Definition test_naive_gen_c (guarded : bool) (uc : bool) (c : cache) (p : prog) (exs : list example)
    : outcome bool * cache :=
    let '(o, c') := naive_loop_c uc c p exs false 0 in
    (match o with
     | Exc e => Exc e
     | Ok (failed, _) =>
       if negb guarded && Nat.eqb (length exs) 0 then Exc E_ZERODIV else Ok (negb failed)
     end, c').

  Fixpoint test_cutoff_c (uc : bool) (c : cache) (p : prog) (exs : list example) : outcome bool * cache :=
    match exs with
    | [] => (Ok true, c)
    | ex :: r =>
      let '(o, c') := check_example_c uc c p ex in
      match o with
      | Exc e => (Exc e, c')
      | Ok false => (Ok false, c')
      | Ok true => test_cutoff_c uc c' p r
      end
    end.

  Definition test_cached (k : solver_kind) (uc : bool) (c : cache) (p : prog) (exs : list example)
    : outcome bool * cache :=
    match k with
    | Naive => test_naive_gen_c true uc c p exs
    | Cutoff => test_cutoff_c uc c p exs
    | NaivePinned => test_naive_gen_c false uc c p exs
    end.

  (** ---- the generator ---- *)
  Inductive gstate : Type :=
  | Fresh (progs : list prog)                  (* created, body not started *)
  | Suspended (k : nat) (rest : list prog)     (* stopped at [yield] of the program of index k; [rest] comes after it *)
  | Finished.                                  (* returned or raised *)

  (** What the caller of next()/send() sees. *)
  Inductive event : Type :=
  | Yield (k : nat)        (* the program of index k in the enumeration *)
  | Stop                   (* StopIteration *)
  | Raise (e : N).         (* an exception escaping the generator *)

  (** Solver object: [cnt] is self._programs, [total] is self._stats["programs"]. *)
  Record solver : Type := { cnt : nat; total : nat }.

  (** The for loop from the program of index [k] on.  Exhaustion ends the
      generator without closing the statistics. *)
  Fixpoint search (kind : solver_kind) (exs : list example) (k : nat) (rest : list prog) (s : solver)
    : event * gstate * solver :=
    match rest with
    | [] => (Stop, Finished, s)
    | p :: r =>
      if timed_out k then (Stop, Finished, {| cnt := cnt s; total := total s + cnt s |})
      else
        let s1 := {| cnt := S (cnt s); total := total s |} in
        match test kind p exs with
        | Exc e => (Raise e, Finished, s1)
        | Ok true => (Yield k, Suspended k r, s1)
        | Ok false => search kind exs (S k) r s1
        end
    end.

  (** One next() (answer = false) or send(answer). *)
  Definition step (kind : solver_kind) (exs : list example) (g : gstate) (s : solver) (answer : bool)
    : event * gstate * solver :=
    match g with
    | Fresh progs => search kind exs 0 progs {| cnt := 0; total := total s |}
    | Suspended k rest =>
      if answer then (Stop, Finished, {| cnt := cnt s; total := total s + cnt s |})
      else search kind exs (S k) rest s
    | Finished => (Stop, Finished, s)
    end.

  Fixpoint run_steps (kind : solver_kind) (exs : list example) (g : gstate) (s : solver) (answers : list bool)
    : list event * solver :=
    match answers with
    | [] => ([], s)
    | a :: r =>
      let '(e, g', s') := step kind exs g s a in
      let '(es, s'') := run_steps kind exs g' s' r in
      (e :: es, s'')
    end.

  (** One task: a fresh generator driven by the caller's answers (the first is
      the initial next()). *)
  Definition run_task (kind : solver_kind) (exs : list example) (progs : list prog) (s : solver)
             (answers : list bool) : list event * solver :=
    run_steps kind exs (Fresh progs) s answers.

  (** Several tasks on one solver object (statistics accumulate). *)
  Definition task : Type := (list example * list prog * list bool)%type.

  Fixpoint run_tasks (kind : solver_kind) (s : solver) (ts : list task) : list (list event * nat) :=
    match ts with
    | [] => []
    | (exs, progs, answers) :: r =>
      let '(es, s') := run_task kind exs progs s answers in
      (es, total s') :: run_tasks kind s' r
    end.

  (** ---- specification ---- *)
  (** A program satisfies the task: on every example the evaluation returns a
      value equal to the expected output. *)
  Definition satisfies (p : prog) (ex : example) : bool :=
    match check_example p ex with Ok true => true | _ => false end.
  Definition passes (p : prog) (exs : list example) : bool := forallb (satisfies p) exs.
  (** Evaluating the program on some example raises a non-skipped exception. *)
  Definition raises (p : prog) (ex : example) : bool :=
    match check_example p ex with Exc _ => true | _ => false end.

  (** Indices (from k) of the programs the generator can yield: those whose
      test says true, up to the first program whose test raises; and how the
      enumeration ends. *)
  Fixpoint scan (kind : solver_kind) (exs : list example) (k : nat) (progs : list prog) : list nat * event :=
    match progs with
    | [] => ([], Stop)
    | p :: r =>
      match test kind p exs with
      | Exc e => ([], Raise e)
      | Ok b => let '(l, f) := scan kind exs (S k) r in (if b then k :: l else l, f)
      end
    end.

  (** The protocol: [go passing final replies] is the list of events from a
      step whose search starts with [passing] still to come. *)
  Fixpoint protocol (passing : list nat) (final : event) (replies : list bool) : list event :=
    match passing with
    | [] => final :: repeat Stop (length replies)
    | i :: more =>
      Yield i ::
      match replies with
      | [] => []
      | true :: rs => repeat Stop (S (length rs))
      | false :: rs => protocol more final rs
      end
    end.

  Definition spec_events (kind : solver_kind) (exs : list example) (progs : list prog) (answers : list bool)
    : list event :=
    match answers with
    | [] => []
    | _ :: replies => let '(passing, final) := scan kind exs 0 progs in protocol passing final replies
    end.
End Solver.

Definition sexp_of_event (e : event) : sexp :=
  match e with
  | Yield k => L [A 0%Z; ofNat k]
  | Stop => L [A 1%Z]
  | Raise x => L [A 2%Z; ofN x]
  end.
