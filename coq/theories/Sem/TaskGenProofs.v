(** Proofs about the task-generator model (Sem/TaskGen.v): every returned task
    is self-consistent, the streams are consumed monotonically, and the
    sequence of tasks is a function of the streams. *)
From Coq Require Import ZArith NArith List Bool Arith Lia.
From PS Require Import Base.ListX Base.Sexp Base.Ty Base.Value Base.Prog Sem.Semantics Sem.Eval Sem.TaskGen.
Import ListNotations.

Lemma NoDup_snoc {X} (l : list X) x : NoDup l -> ~ In x l -> NoDup (l ++ [x]).
Proof.
  induction l as [|y r IH]; cbn; intros Hn Hi.
  - constructor; [tauto|constructor].
  - inversion Hn; subst. constructor.
    + rewrite in_app_iff; cbn. intros [H|[H|[]]]; auto.
    + apply IH; auto.
Qed.

Lemma Forall2_impl' {A B} (P Q : A -> B -> Prop) l l' :
  (forall a b, P a b -> Q a b) -> Forall2 P l l' -> Forall2 Q l l'.
Proof. intros H F; induction F; constructor; auto. Qed.

(** ---- "what is left is a suffix of what there was" ---- *)
Definition stream_suffix {X} (l0 l : list X) : Prop := exists pre, l0 = pre ++ l.

Definition assoc_suffix {X} (m0 m : list (ty * list X)) : Prop :=
  forall t, match alookup ty_eqb t m with
            | Some l => exists pre, alookup ty_eqb t m0 = Some (pre ++ l)
            | None => alookup ty_eqb t m0 = None
            end.

Lemma stream_suffix_refl {X} (l : list X) : stream_suffix l l.
Proof. exists []; reflexivity. Qed.

Lemma stream_suffix_trans {X} (a b c : list X) : stream_suffix a b -> stream_suffix b c -> stream_suffix a c.
Proof. intros [p ->] [q ->]. exists (p ++ q). rewrite app_assoc; reflexivity. Qed.

Lemma assoc_suffix_refl {X} (m : list (ty * list X)) : assoc_suffix m m.
Proof. intros t. destruct (alookup ty_eqb t m); [exists []|]; reflexivity. Qed.

Lemma assoc_suffix_trans {X} (a b c : list (ty * list X)) : assoc_suffix a b -> assoc_suffix b c -> assoc_suffix a c.
Proof.
  intros H1 H2 t. specialize (H1 t). specialize (H2 t).
  destruct (alookup ty_eqb t c) as [l|].
  - destruct H2 as [pre E]. rewrite E in H1. destruct H1 as [pre' E'].
    exists (pre' ++ pre). rewrite E', app_assoc; reflexivity.
  - rewrite H2 in H1. exact H1.
Qed.

Lemma assoc_suffix_draw {X} (m : list (ty * list X)) t x r :
  alookup ty_eqb t m = Some (x :: r) -> assoc_suffix m (ainsert ty_eqb t r m).
Proof.
  intros H u. destruct (ty_eqb t u) eqn:E.
  - apply ty_eqb_spec in E; subst u.
    rewrite (alookup_ainsert_same ty_eqb ty_eqb_spec). exists [x]. exact H.
  - assert (t <> u) as Hn by (intros ->; rewrite ty_eqb_refl in E; discriminate).
    rewrite (alookup_ainsert_other ty_eqb ty_eqb_spec _ _ _ _ Hn).
    destruct (alookup ty_eqb u m); [exists []|]; reflexivity.
Qed.

Definition consumes (st0 st : gstate) : Prop :=
  stream_suffix (g_reqs st0) (g_reqs st) /\
  assoc_suffix (g_progs st0) (g_progs st) /\
  stream_suffix (g_counts st0) (g_counts st) /\
  assoc_suffix (g_inputs st0) (g_inputs st).

Lemma consumes_refl st : consumes st st.
Proof.
  repeat split; auto using stream_suffix_refl, assoc_suffix_refl.
Qed.

Lemma consumes_trans a b c : consumes a b -> consumes b c -> consumes a c.
Proof.
  intros (A1 & A2 & A3 & A4) (B1 & B2 & B3 & B4). repeat split.
  - eapply stream_suffix_trans; eauto.
  - eapply assoc_suffix_trans; eauto.
  - eapply stream_suffix_trans; eauto.
  - eapply assoc_suffix_trans; eauto.
Qed.

(** [p] occurs in the program stream of request [tr] / [v] in the input
    stream of type [t]. *)
Definition prog_from (tr : ty) (st : gstate) (p : prog) : Prop :=
  exists l, alookup ty_eqb tr (g_progs st) = Some l /\ In p l.
Definition input_from (st : gstate) (t : ty) (v : value) : Prop :=
  exists l, alookup ty_eqb t (g_inputs st) = Some l /\ In v l.

Lemma prog_from_mono st0 st tr p : consumes st0 st -> prog_from tr st p -> prog_from tr st0 p.
Proof.
  intros (_ & H & _) (l & E & Hi). specialize (H tr). rewrite E in H. destruct H as [pre E'].
  exists (pre ++ l). split; auto. apply in_or_app; auto.
Qed.

Lemma input_from_mono st0 st t v : consumes st0 st -> input_from st t v -> input_from st0 t v.
Proof.
  intros (_ & _ & _ & H) (l & E & Hi). specialize (H t). rewrite E in H. destruct H as [pre E'].
  exists (pre ++ l). split; auto. apply in_or_app; auto.
Qed.

Ltac mono :=
  match goal with
  | C : consumes ?a ?b, P : prog_from ?tr ?b ?p |- prog_from ?tr ?a ?p => exact (prog_from_mono a b tr p C P)
  | C : consumes ?a ?b, P : input_from ?b ?t ?v |- input_from ?a ?t ?v => exact (input_from_mono a b t v C P)
  end.

(** Operations other than draw_count leave the count stream alone; only the
    end of generate_task touches [seen]. *)
Definition frame (st st' : gstate) : Prop :=
  g_counts st' = g_counts st /\ g_seen st' = g_seen st.

Lemma frame_refl st : frame st st.
Proof. split; reflexivity. Qed.
Lemma frame_trans a b c : frame a b -> frame b c -> frame a c.
Proof. intros [A B] [C D]; split; congruence. Qed.

Lemma sym_eqb_py_refl s : sym_eqb_py s s = true.
Proof.
  destruct s as [n t|i t|t v]; cbn [sym_eqb_py].
  - apply (proj2 (sym_eqb_spec (SPrim n t) (SPrim n t)) eq_refl).
  - apply Nat.eqb_refl.
  - apply (proj2 (sym_eqb_spec (SConst t v) (SConst t v)) eq_refl).
Qed.

Lemma prog_eqb_py_refl a : prog_eqb_py a a = true.
Proof.
  induction a as [s|f l IH] using prog_ind'; cbn; [apply sym_eqb_py_refl|].
  rewrite sym_eqb_py_refl. cbn. induction l as [|x r IHr]; cbn; auto.
  inversion IH; subst. rewrite H1. cbn. apply IHr. assumption.
Qed.

Section Proofs.
  Variable vapp : value -> value -> outcome value.
  Variable prim_value : N -> value.
  Variable valid : value -> bool.
  Variable cfg : settings.

  Notation eval_input := (eval_input vapp prim_value cfg).
  Notation ex_loop := (ex_loop vapp prim_value valid cfg).
  Notation task_loop := (task_loop vapp prim_value valid cfg).
  Notation generate_task := (generate_task vapp prim_value valid cfg).
  Notation gen_tasks := (gen_tasks vapp prim_value valid cfg).

  (** eval_input is the reference semantics observed with the union of the two
      skip sets. *)
  Lemma eval_input_spec sol inp :
    eval_input sol inp = observe (s_eskip cfg ++ s_gskip cfg) (eval_ref vapp prim_value sol inp).
  Proof.
    unfold TaskGen.eval_input, observe, is_skipped.
    destruct (eval_ref vapp prim_value sol inp) as [v|e]; auto.
    assert (memb N.eqb e (s_eskip cfg ++ s_gskip cfg) = memb N.eqb e (s_eskip cfg) || memb N.eqb e (s_gskip cfg)) as ->.
    { induction (s_eskip cfg) as [|x r IH]; cbn; auto. rewrite IH, orb_assoc; reflexivity. }
    destruct (memb N.eqb e (s_eskip cfg)); cbn; auto.
  Qed.

  (** ---- draws ---- *)
  Lemma draw_req_ok st t st' : draw_req st = Done (t, st') ->
    consumes st st' /\ frame st st' /\ In t (g_reqs st).
  Proof.
    unfold draw_req. destruct (g_reqs st) as [|x r] eqn:E; [discriminate|].
    intros H; inversion H; subst; clear H. unfold consumes, frame; cbn. rewrite E.
    repeat split; auto using stream_suffix_refl, assoc_suffix_refl.
    - exists [t]; reflexivity.
  Qed.

  Lemma draw_prog_ok tr st p st' : draw_prog tr st = Done (p, st') ->
    consumes st st' /\ frame st st' /\ prog_from tr st p.
  Proof.
    unfold draw_prog. destruct (alookup ty_eqb tr (g_progs st)) as [[|x r]|] eqn:E; try discriminate.
    intros H; inversion H; subst; clear H. unfold consumes, frame, prog_from; cbn.
    repeat split.
    - apply stream_suffix_refl.
    - eapply assoc_suffix_draw; eauto.
    - apply stream_suffix_refl.
    - apply assoc_suffix_refl.
    - exists (p :: r); split; auto. left; reflexivity.
  Qed.

  Lemma draw_count_ok st c st' : draw_count st = Done (c, st') ->
    consumes st st' /\ g_counts st = c :: g_counts st' /\ g_seen st' = g_seen st.
  Proof.
    unfold draw_count. destruct (g_counts st) as [|x r] eqn:E; [discriminate|].
    intros H; inversion H; subst; clear H. unfold consumes; cbn. rewrite E.
    repeat split.
    - apply stream_suffix_refl.
    - apply assoc_suffix_refl.
    - exists [c]; reflexivity.
    - apply assoc_suffix_refl.
  Qed.

  Lemma draw_input_ok t st v st' : draw_input t st = Done (v, st') ->
    consumes st st' /\ frame st st' /\ input_from st t v.
  Proof.
    unfold draw_input. destruct (alookup ty_eqb t (g_inputs st)) as [[|x r]|] eqn:E; try discriminate.
    intros H; inversion H; subst; clear H. unfold consumes, frame, input_from; cbn.
    repeat split.
    - apply stream_suffix_refl.
    - apply assoc_suffix_refl.
    - apply stream_suffix_refl.
    - eapply assoc_suffix_draw; eauto.
    - exists (v :: r); split; auto. left; reflexivity.
  Qed.

  Lemma sample_input_ok args : forall st vs st', sample_input args st = Done (vs, st') ->
    consumes st st' /\ frame st st' /\ Forall2 (input_from st) args vs.
  Proof.
    induction args as [|t r IH]; cbn; intros st vs st' H.
    - inversion H; subst. split; [apply consumes_refl|]. split; [apply frame_refl|constructor].
    - destruct (draw_input t st) as [[v st1]|f] eqn:E1; cbn [rbind] in H; [|discriminate].
      destruct (sample_input r st1) as [[vs' st2]|f] eqn:E2; cbn [rbind] in H; [|discriminate].
      inversion H; subst; clear H.
      apply draw_input_ok in E1. destruct E1 as (C1 & F1 & I1).
      apply IH in E2. destruct E2 as (C2 & F2 & I2).
      split; [eapply consumes_trans; eauto|]. split; [eapply frame_trans; eauto|].
      constructor; auto.
      eapply Forall2_impl'; [|exact I2]. intros a b Hab. mono.
  Qed.

  (** ---- generate_program ---- *)
  Lemma uniq_loop_ok tr : forall urem sol st sol' urem' st',
    uniq_loop tr urem sol st = Done (sol', urem', st') ->
    consumes st st' /\ frame st st' /\ (sol' = sol \/ prog_from tr st sol') /\
    (0 < urem' -> seen_mem sol' st' = false).
  Proof.
    induction urem as [|u IH]; cbn; intros sol st sol' urem' st' H.
    - inversion H; subst. split; [apply consumes_refl|]. split; [apply frame_refl|]. split; auto. lia.
    - destruct (seen_mem sol st) eqn:Es.
      + destruct (draw_prog tr st) as [[p st1]|f] eqn:E1; cbn [rbind] in H; [|discriminate].
        apply draw_prog_ok in E1. destruct E1 as (C1 & F1 & P1).
        apply IH in H. destruct H as (C2 & F2 & P2 & U2).
        split; [eapply consumes_trans; eauto|]. split; [eapply frame_trans; eauto|].
        split; auto. right. destruct P2 as [->|P2]; auto. mono.
      + inversion H; subst. split; [apply consumes_refl|]. split; [apply frame_refl|]. split; auto.
  Qed.

  Lemma seen_mem_frame p st st' : frame st st' -> seen_mem p st' = seen_mem p st.
  Proof. intros [_ E]. unfold seen_mem. rewrite E. reflexivity. Qed.

  Lemma var_loop_ok tr nargs : forall trem best var_used urem st best' urem' st',
    var_loop tr nargs trem best var_used urem st = Done (best', urem', st') ->
    (0 < urem -> seen_mem best st = false) ->
    consumes st st' /\ frame st st' /\ (best' = best \/ prog_from tr st best') /\
    urem' <= urem /\ (0 < urem' -> seen_mem best' st' = false).
  Proof.
    induction trem as [|t IH]; intros best var_used urem st best' urem' st' H Hs; cbn [var_loop] in H.
    - inversion H; subst. split; [apply consumes_refl|]. split; [apply frame_refl|]. auto.
    - destruct (var_used <? nargs).
      + destruct (draw_prog tr st) as [[p st1]|f] eqn:E1; cbn [rbind] in H; [|discriminate].
        destruct (uniq_loop tr urem p st1) as [[[p' u'] st2]|f] eqn:E2; cbn [rbind] in H; [|discriminate].
        apply draw_prog_ok in E1. destruct E1 as (C1 & F1 & P1).
        assert (u' <= urem) as Hle.
        { clear - E2. revert p st1 p' u' st2 E2. induction urem as [|u IHu]; cbn; intros p st1 p' u' st2 E2.
          - inversion E2; lia.
          - destruct (seen_mem p st1).
            + destruct (draw_prog tr st1) as [[q st3]|f]; cbn [rbind] in E2; [|discriminate].
              apply IHu in E2. lia.
            + inversion E2; lia. }
        apply uniq_loop_ok in E2. destruct E2 as (C2 & F2 & P2 & U2).
        assert (consumes st st2) as C12 by (eapply consumes_trans; eauto).
        assert (frame st st2) as F12 by (eapply frame_trans; eauto).
        assert (prog_from tr st p') as Pp.
        { destruct P2 as [->|P2]; auto. mono. }
        destruct (var_used <? nvars p').
        * apply IH in H; auto. destruct H as (C3 & F3 & P3 & L3 & U3).
          split; [eapply consumes_trans; eauto|]. split; [eapply frame_trans; eauto|].
          split; [|split; [lia|auto]].
          right. destruct P3 as [->|P3]; auto. mono.
        * apply IH in H.
          -- destruct H as (C3 & F3 & P3 & L3 & U3).
             split; [eapply consumes_trans; eauto|]. split; [eapply frame_trans; eauto|].
             split; [|split; [lia|auto]].
             destruct P3 as [->|P3]; auto. right. mono.
          -- intros Hu. rewrite (seen_mem_frame _ _ _ F12). apply Hs. lia.
      + inversion H; subst. split; [apply consumes_refl|]. split; [apply frame_refl|]. auto.
  Qed.

  Lemma generate_program_ok tr st sol uniq st' :
    generate_program cfg tr st = Done (sol, uniq, st') ->
    consumes st st' /\ frame st st' /\ prog_from tr st sol /\ (uniq = true -> seen_mem sol st' = false).
  Proof.
    unfold generate_program. intros H.
    destruct (draw_prog tr st) as [[s0 st0]|f] eqn:E0; cbn [rbind] in H; [|discriminate].
    destruct (uniq_loop tr (s_max_tries cfg) s0 st0) as [[[s1 u1] st1]|f] eqn:E1; cbn [rbind] in H; [|discriminate].
    destruct (var_loop tr (length (arguments tr)) (s_max_tries cfg) s1 (nvars s1) u1 st1)
      as [[[b u2] st2]|f] eqn:E2; cbn [rbind] in H; [|discriminate].
    inversion H; subst; clear H.
    apply draw_prog_ok in E0. destruct E0 as (C0 & F0 & P0).
    apply uniq_loop_ok in E1. destruct E1 as (C1 & F1 & P1 & U1).
    apply var_loop_ok in E2; auto. destruct E2 as (C2 & F2 & P2 & L2 & U2).
    assert (consumes st st1) as C01 by (eapply consumes_trans; eauto).
    split; [eapply consumes_trans; eauto|]. split; [eapply frame_trans; [eapply frame_trans|]; eauto|].
    split.
    - destruct P2 as [->|P2].
      + destruct P1 as [->|P1]; auto. mono.
      + mono.
    - intros Hu. apply U2. apply Nat.ltb_lt in Hu. exact Hu.
  Qed.

  (** ---- generate_type_request ---- *)
  Lemma req_loop_ok failed st0 : forall rem tr st tr' st',
    req_loop failed rem tr st = Done (tr', st') -> consumes st0 st -> In tr (g_reqs st0) ->
    consumes st st' /\ frame st st' /\ In tr' (g_reqs st0).
  Proof.
    induction rem as [|r IH]; cbn; intros tr st tr' st' H C0 Hin.
    - inversion H; subst. split; [apply consumes_refl|]. split; [apply frame_refl|auto].
    - destruct (memb ty_eqb tr failed).
      + destruct (draw_req st) as [[t1 st1]|f] eqn:E1; cbn [rbind] in H; [|discriminate].
        apply draw_req_ok in E1. destruct E1 as (C1 & F1 & I1).
        apply IH in H.
        * destruct H as (C2 & F2 & I2). split; [eapply consumes_trans; eauto|]. split; [eapply frame_trans; eauto|auto].
        * eapply consumes_trans; eauto.
        * destruct C0 as ([pre E] & _). rewrite E. apply in_or_app; auto.
      + inversion H; subst. split; [apply consumes_refl|]. split; [apply frame_refl|auto].
  Qed.

  Lemma generate_type_request_ok failed st tr st' :
    generate_type_request cfg failed st = Done (tr, st') ->
    consumes st st' /\ frame st st' /\ In tr (g_reqs st).
  Proof.
    unfold generate_type_request. intros H.
    destruct (draw_req st) as [[t1 st1]|f] eqn:E1; cbn [rbind] in H; [|discriminate].
    apply draw_req_ok in E1. destruct E1 as (C1 & F1 & I1).
    apply (req_loop_ok failed st) in H; auto.
    destruct H as (C2 & F2 & I2). split; [eapply consumes_trans; eauto|]. split; [eapply frame_trans; eauto|auto].
  Qed.

  (** ---- the example loop ---- *)
  Definition ex_ok (st0 : gstate) (args : list ty) (sol : prog) (ex : list value * value) : Prop :=
    eval_input sol (fst ex) = Returned (snd ex) /\ valid (snd ex) = true /\
    Forall2 (input_from st0) args (fst ex).

  Definition exs_ok (st0 : gstate) (args : list ty) (sol : prog) (exs : list (list value * value)) : Prop :=
    Forall (ex_ok st0 args sol) exs /\ NoDup (map snd exs).

  (** What the loop guarantees about the number of examples collected. *)
  Definition count_ok (samples : nat) (exs : list (list value * value)) : Prop :=
    length exs <= samples \/ (s_count_guard cfg = false /\ samples = 0 /\ length exs = 1).

  Lemma ex_loop_ok st0 args sol samples : forall rem acc st exs rem' st',
    ex_loop args sol samples rem acc st = Done (exs, rem', st') ->
    consumes st0 st -> exs_ok st0 args sol acc -> (length acc < samples \/ acc = []) ->
    consumes st st' /\ frame st st' /\ exs_ok st0 args sol exs /\ count_ok samples exs /\ rem' <= rem.
  Proof.
    induction rem as [|r IH]; intros acc st exs rem' st' H C0 Hok Hhead.
    - cbn in H. inversion H; subst. split; [apply consumes_refl|]. split; [apply frame_refl|].
      split; auto. split; [|lia]. left. destruct Hhead as [Hl| ->]; cbn; lia.
    - cbn [TaskGen.ex_loop] in H.
      destruct ((if s_count_guard cfg then length acc <? samples else true) && (samples <=? S r + length acc)) eqn:Econd.
      + destruct (sample_input args st) as [[inp st1]|f] eqn:E1; cbn [rbind] in H; [|discriminate].
        apply sample_input_ok in E1. destruct E1 as (C1 & F1 & I1).
        assert (consumes st0 st1) as C01 by (eapply consumes_trans; eauto).
        destruct (eval_input sol inp) as [out|e] eqn:Eev; [|discriminate].
        destruct (valid out && negb (memb value_eqb out (map snd acc))) eqn:Eacc.
        * apply andb_true_iff in Eacc. destruct Eacc as [Hv Hm]. apply negb_true_iff in Hm.
          assert (exs_ok st0 args sol (acc ++ [(inp, out)])) as Hok'.
          { destruct Hok as [HF HN]. split.
            - apply Forall_app; split; auto. constructor; [|constructor].
              unfold ex_ok; cbn. repeat split; auto.
              eapply Forall2_impl'; [|exact I1]. intros a b Hab. mono.
            - rewrite map_app; cbn. apply NoDup_snoc; auto.
              intros Hin. apply (memb_spec value_eqb value_eqb_spec) in Hin. congruence. }
          destruct (samples <=? length (acc ++ [(inp, out)])) eqn:Ebrk.
          -- inversion H; subst; clear H. split; auto. split; auto. split; auto. split; [|lia].
             unfold count_ok. rewrite app_length in *; cbn [length] in *.
             destruct Hhead as [Hl| ->].
             ++ left. lia.
             ++ cbn in *. apply Nat.leb_le in Ebrk.
                destruct samples as [|s].
                ** right. split; [|split]; auto.
                   apply andb_true_iff in Econd. destruct Econd as [Eg _].
                   destruct (s_count_guard cfg); auto; cbn in Eg; discriminate.
                ** left. lia.
          -- apply IH in H; auto.
             ++ destruct H as (C2 & F2 & O2 & N2 & L2).
                split; [eapply consumes_trans; eauto|]. split; [eapply frame_trans; eauto|]. auto.
             ++ left. apply Nat.leb_gt in Ebrk. exact Ebrk.
        * apply IH in H; auto.
          destruct H as (C2 & F2 & O2 & N2 & L2).
          split; [eapply consumes_trans; eauto|]. split; [eapply frame_trans; eauto|]. auto.
      + inversion H; subst. split; [apply consumes_refl|]. split; [apply frame_refl|].
        split; auto. split; [|lia]. left. destruct Hhead as [Hl| ->]; cbn; lia.
  Qed.

  (** ---- generate_task ---- *)
  (** Self-consistency of a task with respect to the streams [st0] the
      generator started from and the number of examples that was drawn. *)
  Definition task_ok (st0 : gstate) (t : task) (drawn : nat) : Prop :=
    (* (a) evaluating the solution on every example input gives the example output *)
    Forall (fun ex => observe (s_eskip cfg ++ s_gskip cfg) (eval_ref vapp prim_value (t_sol t) (fst ex))
                      = Returned (snd ex)) (t_examples t) /\
    (* (b) outputs pairwise distinct *)
    NoDup (map snd (t_examples t)) /\
    (* (c) every output accepted by the validator *)
    Forall (fun ex => valid (snd ex) = true) (t_examples t) /\
    (* (d) number of examples = number drawn (except for the pinned code asked for 0 examples) *)
    (length (t_examples t) = drawn \/
     (s_count_guard cfg = false /\ drawn = 0 /\ length (t_examples t) = 1)) /\
    (* (e) the solution was yielded by the sampler of the task's type request *)
    prog_from (t_req t) st0 (t_sol t) /\
    (* (f) every input comes from the input sampler asked for the argument type, position by position *)
    Forall (fun ex => Forall2 (input_from st0) (arguments (t_req t)) (fst ex)) (t_examples t) /\
    (* the type request itself was drawn from the request sampler *)
    In (t_req t) (g_reqs st0).

  Definition seen_step (t : task) (st st' : gstate) : Prop :=
    if s_uniques cfg && t_unique t
    then seen_mem (t_sol t) st = false /\ g_seen st' = t_sol t :: g_seen st
    else g_seen st' = g_seen st.

  Lemma task_loop_ok st0 : forall fuel failed st t drawn st',
    task_loop fuel failed st = Done (t, drawn, st') -> consumes st0 st -> g_seen st = g_seen st0 ->
    consumes st st' /\ task_ok st0 t drawn /\
    (exists pre, g_counts st = pre ++ drawn :: g_counts st') /\
    seen_step t st0 st'.
  Proof.
    induction fuel as [|f IH]; intros failed st t drawn st' H C0 Hseen; [discriminate|].
    cbn [TaskGen.task_loop] in H.
    destruct (generate_type_request cfg failed st) as [[tr st1]|e] eqn:E1; cbn [rbind] in H; [|discriminate].
    destruct (generate_program cfg tr st1) as [[[sol uniq] st2]|e] eqn:E2; cbn [rbind] in H; [|discriminate].
    destruct (draw_count st2) as [[samples st3]|e] eqn:E3; cbn [rbind] in H; [|discriminate].
    destruct (ex_loop (arguments tr) sol samples (s_max_tries cfg) [] st3) as [[[exs rem] st4]|e] eqn:E4;
      cbn [rbind] in H; [|discriminate].
    apply generate_type_request_ok in E1. destruct E1 as (C1 & F1 & I1).
    apply generate_program_ok in E2. destruct E2 as (C2 & F2 & P2 & U2).
    apply draw_count_ok in E3. destruct E3 as (C3 & K3 & S3).
    assert (consumes st0 st1) as C01 by (eapply consumes_trans; eauto).
    assert (consumes st0 st2) as C02 by (eapply consumes_trans; eauto).
    assert (consumes st0 st3) as C03 by (eapply consumes_trans; eauto).
    apply (ex_loop_ok st0) in E4; auto.
    2:{ split; constructor. }
    destruct E4 as (C4 & F4 & O4 & N4 & L4).
    assert (consumes st st4) as Cs4.
    { eapply consumes_trans; [exact C1|]. eapply consumes_trans; [exact C2|]. eapply consumes_trans; eauto. }
    assert (g_counts st = samples :: g_counts st4) as K4.
    { destruct F1 as [K1 _], F2 as [K2 _], F4 as [K4 _]. congruence. }
    assert (g_seen st4 = g_seen st0) as S4.
    { destruct F1 as [_ A], F2 as [_ B], F4 as [_ D]. congruence. }
    destruct (length exs <? samples) eqn:Elt.
    - apply IH in H.
      + destruct H as (C5 & T5 & [pre K5] & S5).
        split; [eapply consumes_trans; eauto|]. split; auto. split; auto.
        exists (samples :: pre). rewrite K4, K5. reflexivity.
      + eapply consumes_trans; eauto.
      + exact S4.
    - inversion H; subst; clear H. apply Nat.ltb_ge in Elt.
      split.
      { destruct (s_uniques cfg && uniq); auto. }
      split.
      { destruct O4 as [HF HN]. unfold task_ok; cbn.
        split. { eapply Forall_impl; [|exact HF]. intros ex (Ha & _). rewrite <- eval_input_spec. exact Ha. }
        split; auto.
        split. { eapply Forall_impl; [|exact HF]. intros ex (_ & Hb & _). exact Hb. }
        split. { destruct N4 as [Hle|(Hg & Hz & Hl)]; [left; lia|right; auto]. }
        split. { mono. }
        split. { eapply Forall_impl; [|exact HF]. intros ex (_ & _ & Hc). exact Hc. }
        destruct C0 as ([pre E] & _). rewrite E. apply in_or_app; auto. }
      split.
      { exists []. cbn. rewrite K4. destruct (s_uniques cfg && uniq); reflexivity. }
      unfold seen_step; cbn.
      destruct (s_uniques cfg && uniq) eqn:Eu; [|exact S4].
      apply andb_true_iff in Eu. destruct Eu as [Eu1 Eu2].
      assert (seen_mem sol st2 = false) as Hns by auto.
      assert (seen_mem sol st4 = false) as Hns4.
      { unfold seen_mem in *. destruct F2 as [_ B], F4 as [_ D]. rewrite D, S3. exact Hns. }
      unfold add_seen; cbn. rewrite Hns4. cbn. split.
      + unfold seen_mem in *. rewrite <- S4. exact Hns4.
      + rewrite S4; reflexivity.
  Qed.

  Theorem generate_task_ok fuel st t drawn st' :
    generate_task fuel st = Done (t, drawn, st') ->
    task_ok st t drawn /\ consumes st st' /\
    (exists pre, g_counts st = pre ++ drawn :: g_counts st') /\ seen_step t st st'.
  Proof.
    intros H. apply (task_loop_ok st) in H; auto using consumes_refl.
    destruct H as (A & B & C & D). auto.
  Qed.

  (** With the count guard (the repaired code) the number of examples is
      exactly the number drawn. *)
  Corollary generate_task_count fuel st t drawn st' :
    s_count_guard cfg = true -> generate_task fuel st = Done (t, drawn, st') ->
    length (t_examples t) = drawn.
  Proof.
    intros Hg H. apply generate_task_ok in H. destruct H as ((_ & _ & _ & [E|(Hf & _)] & _) & _); auto.
    congruence.
  Qed.

  (** When the validator rejects None the examples are genuine evaluations:
      no skipped failure hides behind an output. *)
  Corollary generate_task_strict fuel st t drawn st' :
    valid VNone = false -> generate_task fuel st = Done (t, drawn, st') ->
    Forall (fun ex => eval_ref vapp prim_value (t_sol t) (fst ex) = Ok (snd ex)) (t_examples t).
  Proof.
    intros Hn H. apply generate_task_ok in H. destruct H as ((Ha & _ & Hc & _) & _).
    rewrite Forall_forall in *. intros ex Hin. specialize (Ha ex Hin). specialize (Hc ex Hin).
    unfold observe in Ha. destruct (eval_ref vapp prim_value (t_sol t) (fst ex)) as [v|e].
    - inversion Ha; reflexivity.
    - destruct (is_skipped (s_eskip cfg ++ s_gskip cfg) e); [|discriminate].
      inversion Ha as [E]. rewrite <- E in Hc. congruence.
  Qed.

  (** task_ok is stable when the reference streams grow backwards. *)
  Lemma task_ok_mono st0 st t drawn : consumes st0 st -> task_ok st t drawn -> task_ok st0 t drawn.
  Proof.
    intros C (A & B & D & E & F & G & I). unfold task_ok. repeat split; auto.
    - mono.
    - eapply Forall_impl; [|exact G]. intros ex Hex. eapply Forall2_impl'; [|exact Hex].
      intros a b Hab. mono.
    - destruct C as ([pre Ep] & _). rewrite Ep. apply in_or_app; auto.
  Qed.

  (** ---- sequences ---- *)
  Theorem gen_tasks_ok fuel : forall n st l e,
    gen_tasks fuel n st = (l, e) -> Forall (fun td => task_ok st (fst td) (snd td)) l.
  Proof.
    induction n as [|k IH]; cbn; intros st l e H.
    - inversion H; constructor.
    - destruct (generate_task fuel st) as [[[t drawn] st']|f] eqn:E.
      + destruct (gen_tasks fuel k st') as [l' e'] eqn:E'. inversion H; subst; clear H.
        apply generate_task_ok in E. destruct E as (T & C & _).
        constructor; auto. apply IH in E'.
        eapply Forall_impl; [|exact E']. intros td Htd. eapply task_ok_mono; eauto.
      + inversion H; constructor.
  Qed.

  (** The first n tasks do not depend on how many more are asked for. *)
  Theorem gen_tasks_prefix fuel : forall n m st,
    exists rest, fst (gen_tasks fuel (n + m) st) = fst (gen_tasks fuel n st) ++ rest.
  Proof.
    induction n as [|k IH]; cbn; intros m st.
    - eexists; reflexivity.
    - destruct (generate_task fuel st) as [[[t drawn] st']|f].
      + destruct (IH m st') as [rest E].
        destruct (gen_tasks fuel (k + m) st') as [l1 e1], (gen_tasks fuel k st') as [l2 e2]; cbn in *.
        exists rest. rewrite E. reflexivity.
      + exists []; reflexivity.
  Qed.

  (** Solutions flagged unique under [uniques] are pairwise distinct and new. *)
  Theorem gen_tasks_unique fuel : forall n st l e,
    s_uniques cfg = true ->
    gen_tasks fuel n st = (l, e) ->
    NoDup (map (fun td => t_sol (fst td)) (filter (fun td => t_unique (fst td)) l)) /\
    Forall (fun td => t_unique (fst td) = true -> seen_mem (t_sol (fst td)) st = false) l.
  Proof.
    induction n as [|k IH]; cbn; intros st l e Hu H.
    - inversion H; cbn. split; constructor.
    - destruct (generate_task fuel st) as [[[t drawn] st']|f] eqn:E.
      + destruct (gen_tasks fuel k st') as [l' e'] eqn:E'. inversion H; subst; clear H.
        apply generate_task_ok in E. destruct E as (_ & _ & _ & S).
        destruct (IH _ _ _ Hu E') as [N F]. cbn.
        unfold seen_step in S. rewrite Hu in S. cbn in S.
        assert (forall p, seen_mem p st' = false -> seen_mem p st = false) as Hmono.
        { intros p Hp. unfold seen_mem in *. destruct (t_unique t).
          - destruct S as [_ S]. rewrite S in Hp. cbn in Hp. apply orb_false_iff in Hp. tauto.
          - rewrite S in Hp. exact Hp. }
        split.
        * destruct (t_unique t) eqn:Et; cbn; auto.
          destruct S as [_ S]. constructor; auto.
          intros Hin. apply in_map_iff in Hin. destruct Hin as (td & Esol & Hin).
          apply filter_In in Hin. destruct Hin as [Hin Ht].
          rewrite Forall_forall in F. specialize (F td Hin Ht).
          unfold seen_mem in F. rewrite S, Esol in F. cbn in F.
          rewrite prog_eqb_py_refl in F. discriminate.
        * constructor.
          -- cbn. intros Et. rewrite Et in S. tauto.
          -- eapply Forall_impl; [|exact F]. cbn. intros td Htd Ht. auto.
      + inversion H; cbn. split; constructor.
  Qed.
End Proofs.

(** ---- stream locality: a result depends only on the consumed prefixes ---- *)
(** [ext st st2]: the streams of [st2] are those of [st] with something
    appended; same [seen] set. *)
Definition list_ext {X} (l l2 : list X) : Prop := exists e, l2 = l ++ e.
Definition assoc_ext {X} (m m2 : list (ty * list X)) : Prop :=
  forall t l, alookup ty_eqb t m = Some l -> exists e, alookup ty_eqb t m2 = Some (l ++ e).
Definition ext (st st2 : gstate) : Prop :=
  list_ext (g_reqs st) (g_reqs st2) /\ assoc_ext (g_progs st) (g_progs st2) /\
  list_ext (g_counts st) (g_counts st2) /\ assoc_ext (g_inputs st) (g_inputs st2) /\
  g_seen st2 = g_seen st.

Lemma assoc_ext_draw {X} (m m2 : list (ty * list X)) t r e :
  assoc_ext m m2 -> assoc_ext (ainsert ty_eqb t r m) (ainsert ty_eqb t (r ++ e) m2).
Proof.
  intros H u l Hl. destruct (ty_eqb t u) eqn:E.
  - apply ty_eqb_spec in E; subst u.
    rewrite (alookup_ainsert_same ty_eqb ty_eqb_spec) in Hl. inversion Hl; subst.
    rewrite (alookup_ainsert_same ty_eqb ty_eqb_spec). exists e; reflexivity.
  - assert (t <> u) as Hn by (intros ->; rewrite ty_eqb_refl in E; discriminate).
    rewrite (alookup_ainsert_other ty_eqb ty_eqb_spec _ _ _ _ Hn) in Hl.
    rewrite (alookup_ainsert_other ty_eqb ty_eqb_spec _ _ _ _ Hn). auto.
Qed.

Section Locality.
  Variable vapp : value -> value -> outcome value.
  Variable prim_value : N -> value.
  Variable valid : value -> bool.
  Variable cfg : settings.

  Lemma draw_req_ext st t st1 st2 : draw_req st = Done (t, st1) -> ext st st2 ->
    exists st3, draw_req st2 = Done (t, st3) /\ ext st1 st3.
  Proof.
    unfold draw_req. destruct (g_reqs st) as [|x r] eqn:E; [discriminate|].
    intros H ([e E1] & E2 & E3 & E4 & E5); inversion H; subst; clear H.
    rewrite E1, E. cbn. eexists; split; [reflexivity|]. unfold ext; cbn.
    repeat split; auto. exists e; reflexivity.
  Qed.

  Lemma draw_prog_ext tr st p st1 st2 : draw_prog tr st = Done (p, st1) -> ext st st2 ->
    exists st3, draw_prog tr st2 = Done (p, st3) /\ ext st1 st3.
  Proof.
    unfold draw_prog. destruct (alookup ty_eqb tr (g_progs st)) as [[|x r]|] eqn:E; try discriminate.
    intros H (E1 & E2 & E3 & E4 & E5); inversion H; subst; clear H.
    destruct (E2 _ _ E) as [e Ee]. rewrite Ee. cbn. eexists; split; [reflexivity|]. unfold ext; cbn.
    repeat split; auto. apply assoc_ext_draw; auto.
  Qed.

  Lemma draw_count_ext st c st1 st2 : draw_count st = Done (c, st1) -> ext st st2 ->
    exists st3, draw_count st2 = Done (c, st3) /\ ext st1 st3.
  Proof.
    unfold draw_count. destruct (g_counts st) as [|x r] eqn:E; [discriminate|].
    intros H (E1 & E2 & [e E3] & E4 & E5); inversion H; subst; clear H.
    rewrite E3, E. cbn. eexists; split; [reflexivity|]. unfold ext; cbn.
    repeat split; auto. exists e; reflexivity.
  Qed.

  Lemma draw_input_ext t st v st1 st2 : draw_input t st = Done (v, st1) -> ext st st2 ->
    exists st3, draw_input t st2 = Done (v, st3) /\ ext st1 st3.
  Proof.
    unfold draw_input. destruct (alookup ty_eqb t (g_inputs st)) as [[|x r]|] eqn:E; try discriminate.
    intros H (E1 & E2 & E3 & E4 & E5); inversion H; subst; clear H.
    destruct (E4 _ _ E) as [e Ee]. rewrite Ee. cbn. eexists; split; [reflexivity|]. unfold ext; cbn.
    repeat split; auto. apply assoc_ext_draw; auto.
  Qed.

  Lemma sample_input_ext args : forall st vs st1 st2, sample_input args st = Done (vs, st1) -> ext st st2 ->
    exists st3, sample_input args st2 = Done (vs, st3) /\ ext st1 st3.
  Proof.
    induction args as [|t r IH]; cbn; intros st vs st1 st2 H Hx.
    - inversion H; subst. eexists; split; [reflexivity|auto].
    - destruct (draw_input t st) as [[v sta]|f] eqn:E1; cbn [rbind] in H; [|discriminate].
      destruct (sample_input r sta) as [[vs' stb]|f] eqn:E2; cbn [rbind] in H; [|discriminate].
      inversion H; subst; clear H.
      destruct (draw_input_ext _ _ _ _ _ E1 Hx) as (sta2 & Ea & Hxa). rewrite Ea; cbn [rbind].
      destruct (IH _ _ _ _ E2 Hxa) as (stb2 & Eb & Hxb). rewrite Eb; cbn [rbind].
      eexists; split; [reflexivity|auto].
  Qed.

  Lemma seen_mem_ext p st st2 : ext st st2 -> seen_mem p st2 = seen_mem p st.
  Proof. intros (_ & _ & _ & _ & E). unfold seen_mem. rewrite E. reflexivity. Qed.

  Lemma uniq_loop_ext tr : forall urem sol st r st1 st2,
    uniq_loop tr urem sol st = Done (r, st1) -> ext st st2 ->
    exists st3, uniq_loop tr urem sol st2 = Done (r, st3) /\ ext st1 st3.
  Proof.
    induction urem as [|u IH]; cbn; intros sol st r st1 st2 H Hx.
    - inversion H; subst. eexists; split; [reflexivity|auto].
    - rewrite (seen_mem_ext _ _ _ Hx). destruct (seen_mem sol st).
      + destruct (draw_prog tr st) as [[p sta]|f] eqn:E1; cbn [rbind] in H; [|discriminate].
        destruct (draw_prog_ext _ _ _ _ _ E1 Hx) as (sta2 & Ea & Hxa). rewrite Ea; cbn [rbind].
        eapply IH; eauto.
      + inversion H; subst. eexists; split; [reflexivity|auto].
  Qed.

  Lemma var_loop_ext tr nargs : forall trem best var_used urem st r st1 st2,
    var_loop tr nargs trem best var_used urem st = Done (r, st1) -> ext st st2 ->
    exists st3, var_loop tr nargs trem best var_used urem st2 = Done (r, st3) /\ ext st1 st3.
  Proof.
    induction trem as [|t IH]; intros best var_used urem st r st1 st2 H Hx; cbn [var_loop] in *.
    - inversion H; subst. eexists; split; [reflexivity|auto].
    - destruct (var_used <? nargs).
      + destruct (draw_prog tr st) as [[p sta]|f] eqn:E1; cbn [rbind] in H; [|discriminate].
        destruct (uniq_loop tr urem p sta) as [[[p' u'] stb]|f] eqn:E2; cbn [rbind] in H; [|discriminate].
        destruct (draw_prog_ext _ _ _ _ _ E1 Hx) as (sta2 & Ea & Hxa). rewrite Ea; cbn [rbind].
        destruct (uniq_loop_ext _ _ _ _ _ _ _ E2 Hxa) as (stb2 & Eb & Hxb). rewrite Eb; cbn [rbind].
        destruct (var_used <? nvars p'); eapply IH; eauto.
      + inversion H; subst. eexists; split; [reflexivity|auto].
  Qed.

  Lemma generate_program_ext tr st r st1 st2 :
    generate_program cfg tr st = Done (r, st1) -> ext st st2 ->
    exists st3, generate_program cfg tr st2 = Done (r, st3) /\ ext st1 st3.
  Proof.
    unfold generate_program. intros H Hx.
    destruct (draw_prog tr st) as [[s0 sta]|f] eqn:E0; cbn [rbind] in H; [|discriminate].
    destruct (uniq_loop tr (s_max_tries cfg) s0 sta) as [[[s1 u1] stb]|f] eqn:E1; cbn [rbind] in H; [|discriminate].
    destruct (var_loop tr (length (arguments tr)) (s_max_tries cfg) s1 (nvars s1) u1 stb)
      as [[[b u2] stc]|f] eqn:E2; cbn [rbind] in H; [|discriminate].
    inversion H; subst; clear H.
    destruct (draw_prog_ext _ _ _ _ _ E0 Hx) as (sta2 & Ea & Hxa). rewrite Ea; cbn [rbind].
    destruct (uniq_loop_ext _ _ _ _ _ _ _ E1 Hxa) as (stb2 & Eb & Hxb). rewrite Eb; cbn [rbind].
    destruct (var_loop_ext _ _ _ _ _ _ _ _ _ _ E2 Hxb) as (stc2 & Ec & Hxc). rewrite Ec; cbn [rbind].
    eexists; split; [reflexivity|auto].
  Qed.

  Lemma req_loop_ext failed : forall rem tr st r st1 st2,
    req_loop failed rem tr st = Done (r, st1) -> ext st st2 ->
    exists st3, req_loop failed rem tr st2 = Done (r, st3) /\ ext st1 st3.
  Proof.
    induction rem as [|k IH]; cbn; intros tr st r st1 st2 H Hx.
    - inversion H; subst. eexists; split; [reflexivity|auto].
    - destruct (memb ty_eqb tr failed).
      + destruct (draw_req st) as [[t1 sta]|f] eqn:E1; cbn [rbind] in H; [|discriminate].
        destruct (draw_req_ext _ _ _ _ E1 Hx) as (sta2 & Ea & Hxa). rewrite Ea; cbn [rbind].
        eapply IH; eauto.
      + inversion H; subst. eexists; split; [reflexivity|auto].
  Qed.

  Lemma generate_type_request_ext failed st r st1 st2 :
    generate_type_request cfg failed st = Done (r, st1) -> ext st st2 ->
    exists st3, generate_type_request cfg failed st2 = Done (r, st3) /\ ext st1 st3.
  Proof.
    unfold generate_type_request. intros H Hx.
    destruct (draw_req st) as [[t1 sta]|f] eqn:E1; cbn [rbind] in H; [|discriminate].
    destruct (draw_req_ext _ _ _ _ E1 Hx) as (sta2 & Ea & Hxa). rewrite Ea; cbn [rbind].
    eapply req_loop_ext; eauto.
  Qed.

  Lemma ex_loop_ext args sol samples : forall rem acc st r st1 st2,
    ex_loop vapp prim_value valid cfg args sol samples rem acc st = Done (r, st1) -> ext st st2 ->
    exists st3, ex_loop vapp prim_value valid cfg args sol samples rem acc st2 = Done (r, st3) /\ ext st1 st3.
  Proof.
    induction rem as [|k IH]; intros acc st r st1 st2 H Hx; cbn [ex_loop] in *.
    - inversion H; subst. eexists; split; [reflexivity|auto].
    - destruct ((if s_count_guard cfg then length acc <? samples else true) && (samples <=? S k + length acc)).
      + destruct (sample_input args st) as [[inp sta]|f] eqn:E1; cbn [rbind] in H; [|discriminate].
        destruct (sample_input_ext _ _ _ _ _ E1 Hx) as (sta2 & Ea & Hxa). rewrite Ea; cbn [rbind].
        destruct (eval_input vapp prim_value cfg sol inp) as [out|e]; [|discriminate].
        destruct (valid out && negb (memb value_eqb out (map snd acc))).
        * destruct (samples <=? length (acc ++ [(inp, out)])).
          -- inversion H; subst. eexists; split; [reflexivity|auto].
          -- eapply IH; eauto.
        * eapply IH; eauto.
      + inversion H; subst. eexists; split; [reflexivity|auto].
  Qed.

  Lemma add_seen_ext p st st2 : ext st st2 -> ext (add_seen p st) (add_seen p st2).
  Proof.
    intros Hx. pose proof (seen_mem_ext p _ _ Hx) as Hs. destruct Hx as (E1 & E2 & E3 & E4 & E5).
    unfold ext, add_seen; cbn. rewrite Hs, E5. repeat split; auto.
  Qed.

  Lemma task_loop_ext : forall fuel failed st r st1 st2,
    task_loop vapp prim_value valid cfg fuel failed st = Done (r, st1) -> ext st st2 ->
    exists st3, task_loop vapp prim_value valid cfg fuel failed st2 = Done (r, st3) /\ ext st1 st3.
  Proof.
    induction fuel as [|f IH]; intros failed st r st1 st2 H Hx; [discriminate|].
    cbn [task_loop] in *.
    destruct (generate_type_request cfg failed st) as [[tr sta]|e] eqn:E1; cbn [rbind] in H; [|discriminate].
    destruct (generate_program cfg tr sta) as [[[sol uniq] stb]|e] eqn:E2; cbn [rbind] in H; [|discriminate].
    destruct (draw_count stb) as [[samples stc]|e] eqn:E3; cbn [rbind] in H; [|discriminate].
    destruct (ex_loop vapp prim_value valid cfg (arguments tr) sol samples (s_max_tries cfg) [] stc)
      as [[[exs rem] std]|e] eqn:E4; cbn [rbind] in H; [|discriminate].
    destruct (generate_type_request_ext _ _ _ _ _ E1 Hx) as (sta2 & Ea & Hxa). rewrite Ea; cbn [rbind].
    destruct (generate_program_ext _ _ _ _ _ E2 Hxa) as (stb2 & Eb & Hxb). rewrite Eb; cbn [rbind].
    destruct (draw_count_ext _ _ _ _ E3 Hxb) as (stc2 & Ec & Hxc). rewrite Ec; cbn [rbind].
    destruct (ex_loop_ext _ _ _ _ _ _ _ _ _ E4 Hxc) as (std2 & Ed & Hxd). rewrite Ed; cbn [rbind].
    destruct (length exs <? samples).
    - eapply IH; eauto.
    - inversion H; subst; clear H. eexists; split; [reflexivity|].
      destruct (s_uniques cfg && uniq); auto using add_seen_ext.
  Qed.

  (** Appending anything to the streams does not change a returned task. *)
  Theorem generate_task_local fuel st t drawn st1 st2 :
    generate_task vapp prim_value valid cfg fuel st = Done (t, drawn, st1) -> ext st st2 ->
    exists st3, generate_task vapp prim_value valid cfg fuel st2 = Done (t, drawn, st3) /\ ext st1 st3.
  Proof. apply task_loop_ext. Qed.

  Theorem gen_tasks_local fuel : forall n st l st2,
    gen_tasks vapp prim_value valid cfg fuel n st = (l, None) -> ext st st2 ->
    gen_tasks vapp prim_value valid cfg fuel n st2 = (l, None).
  Proof.
    induction n as [|k IH]; cbn; intros st l st2 H Hx; auto.
    destruct (generate_task vapp prim_value valid cfg fuel st) as [[[t drawn] st1]|f] eqn:E.
    - destruct (gen_tasks vapp prim_value valid cfg fuel k st1) as [l' e'] eqn:E'.
      inversion H; subst; clear H.
      destruct (generate_task_local _ _ _ _ _ _ E Hx) as (st3 & E3 & Hx3). rewrite E3.
      rewrite (IH _ _ _ E' Hx3). reflexivity.
    - inversion H.
  Qed.
End Locality.

(** ---- concrete instances (non-vacuity, sanity of extraction) ---- *)
Module Examples.
  Definition tint : ty := TPrim 0.
  Definition req : ty := TArrow tint tint.
  Definition p_one : prog := PLeaf (SPrim 6 tint).
  Definition p_div : prog :=
    PFun (SPrim 3 (TArrow tint (TArrow tint tint))) [PLeaf (SPrim 6 tint); PLeaf (SVar 0 tint)].
  Definition validator := basic_validator (-5) 20 3 false true.
  Definition cfg (guard : bool) : settings := mk_settings 5 true [0%N; 1%N] [2%N] guard.
  Definition st (counts : list nat) : gstate :=
    mk_state [req; req] [(req, [p_one; p_div; p_div])] counts
             [(tint, [VInt 0; VInt 1; VInt 1; VInt 2; VInt 3])] [].

  (** The first program uses no variable and is replaced; 1/0 fails with a
      skipped exception and is rejected by the validator; the repeated output
      1 is rejected; two examples are collected in four tries. *)
  Example generate_task_example :
    match generate_task vapp prim_value validator (cfg true) 3 (st [2; 7]) with
    | Done (t, drawn, st') =>
      t = mk_task req p_div [([VInt 1], VInt 1); ([VInt 2], VInt 0)] 4 true /\ drawn = 2 /\
      g_seen st' = [p_div] /\ g_counts st' = [7]
    | Fail _ => False
    end.
  Proof. vm_compute. repeat split; reflexivity. Qed.

  (** Streams that end too early give the explicit failure. *)
  Example generate_task_out_of_stream :
    generate_task vapp prim_value validator (cfg true) 3 (st [4]) = Fail (FOutOfStream SReq).
  Proof. vm_compute. reflexivity. Qed.
  (** A sequence of two tasks under [uniques]: the second draw repeats the
      first solution and is replaced. *)
  Definition p_neg : prog := PFun (SPrim 4 (TArrow tint tint)) [PLeaf (SVar 0 tint)].
  Definition st_seq : gstate :=
    mk_state [req; req] [(req, [p_one; p_div; p_div; p_neg])] [1; 1]
             [(tint, [VInt 0; VInt 1; VInt 1; VInt 2; VInt 3])] [].
  Example gen_tasks_example :
    gen_tasks vapp prim_value validator (cfg true) 3 2 st_seq =
    ([(mk_task req p_div [([VInt 1], VInt 1)] 2 true, 1); (mk_task req p_neg [([VInt 1], VInt (-1))] 1 true, 1)],
     None).
  Proof. vm_compute. reflexivity. Qed.
End Examples.

(** The pinned code (no count guard): asked for 0 examples it returns a task
    with one example. *)
Theorem count_pinned_refuted :
  exists cfg st t st',
    s_count_guard cfg = false /\
    generate_task vapp prim_value Examples.validator cfg 3 st = Done (t, 0, st') /\
    length (t_examples t) = 1.
Proof.
  exists (Examples.cfg false), (Examples.st [0]). eexists. eexists.
  split; [reflexivity|]. split; [vm_compute; reflexivity|reflexivity].
Qed.
