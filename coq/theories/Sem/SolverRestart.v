(** Model of synth/pbe/solvers/restart_pbe_solver.py: the generator returned by
    RestartPBESolver.solve (a MetaPBESolver around a naive or cut-off
    sub-solver), as a state machine driven by the caller's next()/send(v).

    The enumerators are scripted: [streams] is a list of finite program lists,
    stream 0 is what the generator of the enumerator given to solve() produces,
    stream i+1 what the generator of the enumerator returned by the i-th call of
    clone() produces (the re-weighted grammar handed to clone() is outside the
    model: whatever it is, the solver must test what the new enumerator
    produces).  A clone() past the end of the script gives an empty
    enumeration.

    The restart criterion is a function of the solver object ([crit]); the
    loop is: draw, clock, count, test with the sub-solver's test, yield when
    the test says true (True stops and closes the statistics), record
    (program, score) when the sub-solver's score is positive, restart when the
    criterion holds, draw again.

    [fixed = true] is the loop after the proposed repair C10b-1 (an exhausted
    enumeration ends the generator, as for the plain solvers); [fixed = false]
    is the code before it: next(gen) on an exhausted enumeration raises
    StopIteration inside the generator, which Python turns into RuntimeError. *)
From Coq Require Import ZArith NArith List Bool Lia.
From PS Require Import Base.ListX Base.Sexp Base.Ty Base.Value Base.Prog Sem.Semantics Sem.Eval Sem.Solver.
Import ListNotations.

(** RuntimeError("generator raised StopIteration") *)
Definition E_RUNTIME : N := 100%N.

(** A score num/den as the pair (num, den); den > 0. *)
Definition score : Type := (nat * nat)%type.
Definition positive (sc : score) : bool := Nat.ltb 0 (fst sc).

(** The solver object.  [rdrawn], [rtested] and [rcuts] are ghost logs (what
    the harness observes by wrapping the enumerators and _test_). *)
Record rsolver : Type := {
  rcnt : nat;                      (* self._programs *)
  rrestarts : nat;                 (* self._restarts *)
  rdata : list (nat * score);      (* self._data: (index of the program among the drawn ones, score) *)
  rlast : nat;                     (* self._last_size *)
  rdrawn : list prog;              (* programs drawn from the generators, in order *)
  rtested : list prog;             (* programs handed to the sub-solver's test, in order *)
  rcuts : list nat;                (* number of programs tested when each restart happened *)
  rtotal : nat;                    (* self._stats["programs"] *)
  rtotal_restarts : nat            (* self._stats["restarts"] *)
}.

Definition r_draw (s : rsolver) (p : prog) : rsolver :=
  {| rcnt := rcnt s; rrestarts := rrestarts s; rdata := rdata s; rlast := rlast s;
     rdrawn := rdrawn s ++ [p]; rtested := rtested s; rcuts := rcuts s;
     rtotal := rtotal s; rtotal_restarts := rtotal_restarts s |}.

Definition r_test (s : rsolver) (p : prog) : rsolver :=
  {| rcnt := S (rcnt s); rrestarts := rrestarts s; rdata := rdata s; rlast := rlast s;
     rdrawn := rdrawn s; rtested := rtested s ++ [p]; rcuts := rcuts s;
     rtotal := rtotal s; rtotal_restarts := rtotal_restarts s |}.

(** if self._score > 0: self._data.append((program, self._score)) *)
Definition r_record (s : rsolver) (k : nat) (sc : score) : rsolver :=
  if positive sc then
    {| rcnt := rcnt s; rrestarts := rrestarts s; rdata := rdata s ++ [(k, sc)]; rlast := rlast s;
       rdrawn := rdrawn s; rtested := rtested s; rcuts := rcuts s;
       rtotal := rtotal s; rtotal_restarts := rtotal_restarts s |}
  else s.

(** self._restarts += 1; _restart_ sets self._last_size = len(self._data) *)
Definition r_bump (s : rsolver) : rsolver :=
  {| rcnt := rcnt s; rrestarts := S (rrestarts s); rdata := rdata s; rlast := length (rdata s);
     rdrawn := rdrawn s; rtested := rtested s; rcuts := rcuts s ++ [rcnt s];
     rtotal := rtotal s; rtotal_restarts := rtotal_restarts s |}.

(** MetaPBESolver._close_task_solving_: the sub-solver's statistics (its
    'programs' is always 0: the sub-solver never counts) overwrite the meta
    solver's, then the meta solver adds its own counter; 'restarts' is not a
    statistic of the sub-solver and accumulates. *)
Definition r_close (s : rsolver) : rsolver :=
  {| rcnt := rcnt s; rrestarts := rrestarts s; rdata := rdata s; rlast := rlast s;
     rdrawn := rdrawn s; rtested := rtested s; rcuts := rcuts s;
     rtotal := rcnt s; rtotal_restarts := rtotal_restarts s + rrestarts s |}.

(** _init_task_solving_ *)
Definition r_init (s : rsolver) : rsolver :=
  {| rcnt := 0; rrestarts := 0; rdata := []; rlast := 0; rdrawn := []; rtested := []; rcuts := [];
     rtotal := rtotal s; rtotal_restarts := rtotal_restarts s |}.

Definition r_new : rsolver :=
  {| rcnt := 0; rrestarts := 0; rdata := []; rlast := 0; rdrawn := []; rtested := []; rcuts := [];
     rtotal := 0; rtotal_restarts := 0 |}.

Section Restart.
  Variable vapp : value -> value -> outcome value.
  Variable prim_value : N -> value.
  Variable skip : list N.
  Variable veq : value -> value -> bool.
  Variable timed_out : nat -> bool.             (* clock check made before testing the k-th drawn program *)
  Variable crit : rsolver -> bool.              (* restart_criterion(self) *)
  Variable fixed : bool.                        (* repair C10b-1 applied *)

  Notation check := (check_example vapp prim_value skip veq).

  (** ---- the sub-solver's test with its score ---- *)
  (** PBESolver._test_: verdict and score = successes / number of examples
      (1 when there is no example). *)
  Definition naive_scored (guarded : bool) (p : prog) (exs : list example) : outcome (bool * score) :=
    match naive_loop vapp prim_value skip veq p exs false 0 with
    | Exc e => Exc e
    | Ok (failed, success) =>
      if Nat.eqb (length exs) 0 then (if guarded then Ok (negb failed, (1, 1)) else Exc E_ZERODIV)
      else Ok (negb failed, (success, length exs))
    end.

  (** CutoffPBESolver._test_: at the first example that is not satisfied the
      score is (number of examples satisfied before it) / (number of
      examples); 1 when all are satisfied. *)
  Fixpoint cutoff_scored (total n : nat) (p : prog) (exs : list example) : outcome (bool * score) :=
    match exs with
    | [] => Ok (true, (1, 1))
    | ex :: r =>
      match check p ex with
      | Exc e => Exc e
      | Ok false => Ok (false, (n, total))
      | Ok true => cutoff_scored total (S n) p r
      end
    end.

  Definition test_scored (k : solver_kind) (p : prog) (exs : list example) : outcome (bool * score) :=
    match k with
    | Naive => naive_scored true p exs
    | Cutoff => cutoff_scored (length exs) 0 p exs
    | NaivePinned => naive_scored false p exs
    end.

  (** ---- the generator ---- *)
  Inductive rgstate : Type :=
  | RFresh (streams : list (list prog))               (* created, body not started *)
  | RSuspended (k : nat) (sc : score) (rest : list prog) (more : list (list prog))
      (* stopped at [yield] of the k-th drawn program, whose score is [sc];
         [rest] is what the current generator still has, [more] the enumerations of the future clones *)
  | RFinished.

  (** [program = next(gen)] on an exhausted generator. *)
  Definition exhausted_event : event := if fixed then Stop else Raise E_RUNTIME.

  (** The while loop with [cur] the rest of the current enumeration; [k]
      programs have been drawn so far. *)
  Fixpoint rsearch (kind : solver_kind) (exs : list example) (more : list (list prog)) {struct more}
    : list prog -> nat -> rsolver -> event * rgstate * rsolver :=
    fix on_cur (cur : list prog) (k : nat) (s : rsolver) {struct cur} : event * rgstate * rsolver :=
      match cur with
      | [] => (exhausted_event, RFinished, s)
      | p :: r =>
        let s0 := r_draw s p in
        if timed_out k then (Stop, RFinished, r_close s0)
        else
          let s1 := r_test s0 p in
          match test_scored kind p exs with
          | Exc e => (Raise e, RFinished, s1)
          | Ok (true, sc) => (Yield k, RSuspended k sc r more, s1)
          | Ok (false, sc) =>
            let s2 := r_record s1 k sc in
            if crit s2 then
              match more with
              | [] => (exhausted_event, RFinished, r_bump s2)
              | nxt :: m => rsearch kind exs m nxt (S k) (r_bump s2)
              end
            else on_cur r (S k) s2
          end
      end.

  (** What follows the test of the k-th program (after a False answer when it
      had been yielded): record, restart if the criterion holds, draw again. *)
  Definition rafter (kind : solver_kind) (exs : list example) (more : list (list prog)) (r : list prog)
             (k : nat) (sc : score) (s1 : rsolver) : event * rgstate * rsolver :=
    let s2 := r_record s1 k sc in
    if crit s2 then
      match more with
      | [] => (exhausted_event, RFinished, r_bump s2)
      | nxt :: m => rsearch kind exs m nxt (S k) (r_bump s2)
      end
    else rsearch kind exs more r (S k) s2.

  (** One next() (answer = false) or send(answer). *)
  Definition rstep (kind : solver_kind) (exs : list example) (g : rgstate) (s : rsolver) (answer : bool)
    : event * rgstate * rsolver :=
    match g with
    | RFresh streams => rsearch kind exs (tl streams) (hd [] streams) 0 (r_init s)
    | RSuspended k sc rest more =>
      if answer then (Stop, RFinished, r_close s) else rafter kind exs more rest k sc s
    | RFinished => (Stop, RFinished, s)
    end.

  Fixpoint rsteps (kind : solver_kind) (exs : list example) (g : rgstate) (s : rsolver) (answers : list bool)
    : list event * rsolver :=
    match answers with
    | [] => ([], s)
    | a :: r =>
      let '(e, g', s') := rstep kind exs g s a in
      let '(es, s'') := rsteps kind exs g' s' r in
      (e :: es, s'')
    end.

  (** One task: a fresh generator driven by the caller's answers (the first
      is the initial next()). *)
  Definition rrun (kind : solver_kind) (exs : list example) (streams : list (list prog)) (s : rsolver)
             (answers : list bool) : list event * rsolver :=
    rsteps kind exs (RFresh streams) s answers.

  (** Several tasks on one solver object. *)
  Definition rtask : Type := (list example * list (list prog) * list bool)%type.

  Fixpoint rrun_tasks (kind : solver_kind) (s : rsolver) (ts : list rtask) : list (list event * rsolver) :=
    match ts with
    | [] => []
    | (exs, streams, answers) :: r =>
      let '(es, s') := rrun kind exs streams s answers in
      (es, s') :: rrun_tasks kind s' r
    end.

  (** ---- specification ---- *)
  (** What happens at the k-th drawn program [p] in solver state [s]. *)
  Inductive at_kind : Type := AQuiet | AFires | ARaises.

  Definition what_at (kind : solver_kind) (exs : list example) (s : rsolver) (k : nat) (p : prog) : at_kind :=
    match test_scored kind p exs with
    | Exc _ => ARaises
    | Ok (_, sc) => if crit (r_record (r_test (r_draw s p) p) k sc) then AFires else AQuiet
    end.

  (** The solver object once the k-th drawn program [p] has been dealt with
      (not accepted): drawn, tested, recorded, restart performed if due. *)
  Definition r_after (kind : solver_kind) (exs : list example) (s : rsolver) (k : nat) (p : prog) : rsolver :=
    match test_scored kind p exs with
    | Exc _ => r_test (r_draw s p) p
    | Ok (_, sc) =>
      let s2 := r_record (r_test (r_draw s p) p) k sc in
      if crit s2 then r_bump s2 else s2
    end.

  Fixpoint r_after_all (kind : solver_kind) (exs : list example) (ps : list prog) (k : nat) (s : rsolver) : rsolver :=
    match ps with
    | [] => s
    | p :: r => r_after_all kind exs r (S k) (r_after kind exs s k p)
    end.

  (** The numbers of programs tested when the criterion fired. *)
  Fixpoint fired_positions (kind : solver_kind) (exs : list example) (ps : list prog) (k : nat) (s : rsolver) : list nat :=
    match ps with
    | [] => []
    | p :: r =>
      (match what_at kind exs s k p with AFires => [S k] | _ => [] end)
        ++ fired_positions kind exs r (S k) (r_after kind exs s k p)
    end.

  (** The effective stream: all the programs the solver draws when every
      proposal is rejected: the current enumeration up to the program after
      which the criterion fires, then the next enumeration in the same way,
      ... up to exhaustion or to the first program whose test raises.  It does
      not depend on the answers. *)
  Fixpoint effective (kind : solver_kind) (exs : list example) (more : list (list prog)) {struct more}
    : list prog -> nat -> rsolver -> list prog :=
    fix on_cur (cur : list prog) (k : nat) (s : rsolver) {struct cur} : list prog :=
      match cur with
      | [] => []
      | p :: r =>
        match what_at kind exs s k p with
        | ARaises => [p]
        | AFires =>
          p :: match more with
               | [] => []
               | nxt :: m => effective kind exs m nxt (S k) (r_after kind exs s k p)
               end
        | AQuiet => p :: on_cur r (S k) (r_after kind exs s k p)
        end
      end.

  (** The same, cut into the pieces drawn from the successive enumerations
      (never empty: the last piece is the one being drawn when the search
      ends, possibly []). *)
  Fixpoint segments (kind : solver_kind) (exs : list example) (more : list (list prog)) {struct more}
    : list prog -> nat -> rsolver -> list (list prog) :=
    fix on_cur (cur : list prog) (k : nat) (s : rsolver) {struct cur} : list (list prog) :=
      match cur with
      | [] => [[]]
      | p :: r =>
        match what_at kind exs s k p with
        | ARaises => [[p]]
        | AFires =>
          [p] :: match more with
                 | [] => [[]]
                 | nxt :: m => segments kind exs m nxt (S k) (r_after kind exs s k p)
                 end
        | AQuiet =>
          match on_cur r (S k) (r_after kind exs s k p) with
          | a :: b => (p :: a) :: b
          | [] => [[p]]
          end
        end
      end.

  Definition effective_of (kind : solver_kind) (exs : list example) (streams : list (list prog)) (s : rsolver) : list prog :=
    effective kind exs (tl streams) (hd [] streams) 0 (r_init s).

  Definition segments_of (kind : solver_kind) (exs : list example) (streams : list (list prog)) (s : rsolver)
    : list (list prog) :=
    segments kind exs (tl streams) (hd [] streams) 0 (r_init s).
End Restart.

(** The criteria used by the correspondence check:
    0 k: len(self._data) - self._last_size > k      (the shape of the default criterion)
    1 m: self._programs % m == 0                    (m >= 1)
    2 m: len(self._data) >= m *)
Definition crit_of (c : nat) (n : nat) (s : rsolver) : bool :=
  match c with
  | 0 => Nat.ltb n (length (rdata s) - rlast s)
  | 1 => Nat.eqb (Nat.modulo (rcnt s) (S (pred n))) 0
  | _ => Nat.leb n (length (rdata s))
  end.
