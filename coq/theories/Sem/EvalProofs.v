(** Proofs about the evaluator model (Sem/Eval.v): the cached evaluator is
    observationally the reference semantics, under every history of
    evaluations and cache clearings, cache on or off.  Everything is generic in
    the application function, the primitive table and the set of skippable
    exception classes. *)
From Coq Require Import ZArith NArith List Bool Lia.
From PS Require Import Base.ListX Base.Sexp Base.Ty Base.Value Base.Prog Sem.Semantics Sem.Eval.
Import ListNotations.

Section EvalProofs.
  Variable vapp : value -> value -> outcome value.
  Variable prim_value : N -> value.

  Notation esym := (eval_sym prim_value).
  Notation eref := (eval_ref vapp prim_value).
  Notation appl := (apply_all vapp).

  (** ---- the reference semantics is compositional ---- *)

  (** Arguments left to right; the first failure wins. *)
  Definition eval_list (inp : list value) : list prog -> outcome (list value) :=
    fix go (l : list prog) : outcome (list value) :=
      match l with
      | [] => Ok []
      | a :: r => obindO (eref a inp) (fun v => obindO (go r) (fun vs => Ok (v :: vs)))
      end.

  Lemma eval_ref_leaf s inp : eref (PLeaf s) inp = esym s inp.
  Proof. reflexivity. Qed.

  Lemma eval_ref_fun f args inp :
    eref (PFun f args) inp =
    obindO (esym f inp) (fun fv => obindO (eval_list inp args) (fun vs => appl fv vs)).
  Proof. reflexivity. Qed.

  Lemma eval_list_nil inp : eval_list inp [] = Ok [].
  Proof. reflexivity. Qed.

  Lemma eval_list_cons inp a r :
    eval_list inp (a :: r) = obindO (eref a inp) (fun v => obindO (eval_list inp r) (fun vs => Ok (v :: vs))).
  Proof. reflexivity. Qed.

  Lemma apply_all_nil f : appl f [] = Ok f.
  Proof. reflexivity. Qed.

  Lemma apply_all_cons f a r : appl f (a :: r) = obindO (vapp f a) (fun g => appl g r).
  Proof. reflexivity. Qed.

  (** Curried application: applying to [l ++ [a]] is applying to [l] and then to [a]. *)
  Lemma apply_all_snoc l : forall f a, appl f (l ++ [a]) = obindO (appl f l) (fun g => vapp g a).
  Proof.
    induction l as [|x r IH]; intros f a; cbn.
    - destruct (vapp f a); reflexivity.
    - destruct (vapp f x) as [g|e]; cbn; [apply IH|reflexivity].
  Qed.

  Definition compositional_statement : Prop :=
    (forall s inp, eref (PLeaf s) inp = esym s inp) /\
    (forall f args inp,
        eref (PFun f args) inp =
        obindO (esym f inp) (fun fv => obindO (eval_list inp args) (fun vs => appl fv vs))) /\
    (forall inp, eval_list inp [] = Ok []) /\
    (forall inp a r,
        eval_list inp (a :: r) =
        obindO (eref a inp) (fun v => obindO (eval_list inp r) (fun vs => Ok (v :: vs)))) /\
    (forall f, appl f [] = Ok f) /\
    (forall f a r, appl f (a :: r) = obindO (vapp f a) (fun g => appl g r)).

  Lemma compositional : compositional_statement.
  Proof.
    repeat split.
  Qed.

  Lemma eval_list_values inp : forall args vs,
    Forall2 (fun a v => eref a inp = Ok v) args vs -> eval_list inp args = Ok vs.
  Proof.
    induction 1 as [|a v r vs Ha _ IH]; [reflexivity|].
    rewrite eval_list_cons, Ha; cbn. rewrite IH; reflexivity.
  Qed.

  (** When head and arguments have values the result is the curried application. *)
  Lemma eval_ref_values f args inp fv vs :
    esym f inp = Ok fv -> Forall2 (fun a v => eref a inp = Ok v) args vs ->
    eref (PFun f args) inp = appl fv vs.
  Proof.
    intros Hf Ha. rewrite eval_ref_fun, Hf; cbn. rewrite (eval_list_values inp args vs Ha); reflexivity.
  Qed.

  (** A failing argument whose left neighbours have values decides the outcome. *)
  Lemma eval_list_first_failure inp : forall l1 vs a e l2,
    Forall2 (fun a v => eref a inp = Ok v) l1 vs -> eref a inp = Exc e ->
    eval_list inp (l1 ++ a :: l2) = Exc e.
  Proof.
    induction l1 as [|x r IH]; intros vs a e l2 H Ha; cbn.
    - rewrite Ha; reflexivity.
    - inversion H as [|? v ? vs' Hx Hr]; subst. rewrite Hx; cbn.
      rewrite (IH vs' a e l2 Hr Ha); reflexivity.
  Qed.

  Lemma eval_ref_first_failure f l1 a l2 inp fv vs e :
    esym f inp = Ok fv -> Forall2 (fun a v => eref a inp = Ok v) l1 vs -> eref a inp = Exc e ->
    eref (PFun f (l1 ++ a :: l2)) inp = Exc e.
  Proof.
    intros Hf H Ha. rewrite eval_ref_fun, Hf; cbn.
    rewrite (eval_list_first_failure inp l1 vs a e l2 H Ha); reflexivity.
  Qed.

  Lemma eval_ref_head_failure f args inp e : esym f inp = Exc e -> eref (PFun f args) inp = Exc e.
  Proof. intros Hf. rewrite eval_ref_fun, Hf; reflexivity. Qed.

  (** ---- the cached evaluator ---- *)
  Variable skip : list N.
  Notation skipped := (is_skipped skip).
  Notation obs := (observe skip).

  Lemma is_skipped_spec e : skipped e = true <-> In e skip.
  Proof. unfold is_skipped. apply (memb_spec N.eqb N.eqb_eq). Qed.

  Definition lookup_args (t : table) : list prog -> outcome (list value) :=
    fix go (l : list prog) : outcome (list value) :=
      match l with
      | [] => Ok []
      | a :: r => obindO (entry_value t a) (fun v => obindO (go r) (fun vs => Ok (v :: vs)))
      end.

  Lemma step_sub_leaf inp t s :
    step_sub vapp prim_value inp t (PLeaf s) =
    match tlookup (PLeaf s) t with
    | Some (EVal _) => Continue t
    | Some EFailed => StopFailed t
    | None => match esym s inp with
              | Ok v => Continue (tinsert (PLeaf s) (EVal v) t)
              | Exc e => StopExc t e
              end
    end.
  Proof. reflexivity. Qed.

  Lemma step_sub_fun inp t f args :
    step_sub vapp prim_value inp t (PFun f args) =
    match tlookup (PFun f args) t with
    | Some (EVal _) => Continue t
    | Some EFailed => StopFailed t
    | None =>
      match obindO (entry_value t (PLeaf f))
                   (fun fv => obindO (lookup_args t args) (fun vs => appl fv vs)) with
      | Ok v => Continue (tinsert (PFun f args) (EVal v) t)
      | Exc e => StopExc t e
      end
    end.
  Proof. reflexivity. Qed.

  (** Table facts. *)
  Lemma tlookup_tinsert_same p e t : tlookup p (tinsert p e t) = Some e.
  Proof. apply (alookup_ainsert_same prog_eqb prog_eqb_spec). Qed.

  Lemma tlookup_tinsert_other p q e t : p <> q -> tlookup q (tinsert p e t) = tlookup q t.
  Proof. apply (alookup_ainsert_other prog_eqb prog_eqb_spec). Qed.

  Lemma prog_eq_dec (p q : prog) : p = q \/ p <> q.
  Proof.
    destruct (prog_eqb p q) eqn:E.
    - left; apply prog_eqb_spec; exact E.
    - right; intros H; apply prog_eqb_spec in H; congruence.
  Qed.

  (** Invariant of the table of input [inp]: values are the reference values,
      a failure mark sits only on programs whose reference evaluation raises a
      skipped exception. *)
  Definition entry_ok (inp : list value) (q : prog) (e : entry) : Prop :=
    match e with
    | EVal v => eref q inp = Ok v
    | EFailed => exists x, eref q inp = Exc x /\ skipped x = true
    end.

  Definition cache_ok (inp : list value) (t : table) : Prop :=
    forall q e, tlookup q t = Some e -> entry_ok inp q e.

  Lemma cache_ok_nil inp : cache_ok inp [].
  Proof. intros q e H; discriminate H. Qed.

  Lemma cache_ok_insert inp t q e : cache_ok inp t -> entry_ok inp q e -> cache_ok inp (tinsert q e t).
  Proof.
    intros Ht He q' e' H. destruct (prog_eq_dec q q') as [->|Hn].
    - rewrite tlookup_tinsert_same in H. injection H as <-. exact He.
    - rewrite (tlookup_tinsert_other q q' e t Hn) in H. exact (Ht q' e' H).
  Qed.

  (** [ext t t']: every value present in t is still there in t'. *)
  Definition ext (t t' : table) : Prop :=
    forall q v, tlookup q t = Some (EVal v) -> tlookup q t' = Some (EVal v).

  Lemma ext_refl t : ext t t.
  Proof. intros q v H; exact H. Qed.

  Lemma ext_trans t1 t2 t3 : ext t1 t2 -> ext t2 t3 -> ext t1 t3.
  Proof. intros H1 H2 q v H; auto. Qed.

  Lemma ext_insert t q e : tlookup q t = None -> ext t (tinsert q e t).
  Proof.
    intros Hn q' v H. destruct (prog_eq_dec q q') as [->|Hd].
    - congruence.
    - rewrite (tlookup_tinsert_other q q' e t Hd). exact H.
  Qed.

  Lemma entry_value_present t a v : tlookup a t = Some (EVal v) -> entry_value t a = Ok v.
  Proof. intros H; unfold entry_value; rewrite H; reflexivity. Qed.

  Lemma lookup_args_present t : forall args vs,
    Forall2 (fun a v => tlookup a t = Some (EVal v)) args vs -> lookup_args t args = Ok vs.
  Proof.
    induction 1 as [|a v r vs Ha _ IH]; [reflexivity|].
    cbn. rewrite (entry_value_present t a v Ha); cbn.
    change (obindO (lookup_args t r) (fun vs0 => Ok (v :: vs0)) = Ok (v :: vs)).
    rewrite IH; reflexivity.
  Qed.

  Lemma Forall2_ext_table t t' : ext t t' -> forall args vs,
    Forall2 (fun a v => tlookup a t = Some (EVal v)) args vs ->
    Forall2 (fun a v => tlookup a t' = Some (EVal v)) args vs.
  Proof. intros He args vs H; induction H; constructor; auto. Qed.

  (** What running the loop over the post-order of one program does, the
      reference outcome of that program being the yardstick:
      - value: the loop goes on with a larger correct table holding that value;
      - exception e: the loop stops, either with e escaping, or on a failure
        mark (then e is a skipped class). *)
  Definition loop_post (inp : list value) (t : table) (o : outcome value) (p : prog)
             (rest : list prog) (r : loop_result) : Prop :=
    match o with
    | Ok v => exists t', cache_ok inp t' /\ ext t t' /\ tlookup p t' = Some (EVal v) /\
                         r = run_loop vapp prim_value inp t' rest
    | Exc e => exists t', cache_ok inp t' /\ ext t t' /\
                          (r = StopExc t' e \/ (skipped e = true /\ r = StopFailed t'))
    end.

  Definition loop_sub_statement (inp : list value) (p : prog) : Prop :=
    forall t rest, cache_ok inp t ->
      loop_post inp t (eref p inp) p rest (run_loop vapp prim_value inp t (subprograms p ++ rest)).

  (** Same for a list of arguments. *)
  Definition loop_args_post (inp : list value) (t : table) (o : outcome (list value)) (args : list prog)
             (rest : list prog) (r : loop_result) : Prop :=
    match o with
    | Ok vs => exists t', cache_ok inp t' /\ ext t t' /\
                          Forall2 (fun a v => tlookup a t' = Some (EVal v)) args vs /\
                          r = run_loop vapp prim_value inp t' rest
    | Exc e => exists t', cache_ok inp t' /\ ext t t' /\
                          (r = StopExc t' e \/ (skipped e = true /\ r = StopFailed t'))
    end.

  Lemma loop_args inp args : Forall (loop_sub_statement inp) args ->
    forall t rest, cache_ok inp t ->
      loop_args_post inp t (eval_list inp args) args rest
                     (run_loop vapp prim_value inp t (flat_map subprograms args ++ rest)).
  Proof.
    induction 1 as [|a r Ha _ IH]; intros t rest Ht.
    - cbn. exists t; repeat split; auto using ext_refl.
    - cbn [flat_map]. rewrite <- app_assoc.
      specialize (Ha t (flat_map subprograms r ++ rest) Ht).
      rewrite eval_list_cons. unfold loop_post in Ha.
      destruct (eref a inp) as [v|e]; cbn.
      + destruct Ha as (t1 & Ht1 & He1 & Hl1 & ->).
        specialize (IH t1 rest Ht1). unfold loop_args_post in IH |- *.
        destruct (eval_list inp r) as [vs|e]; cbn.
        * destruct IH as (t2 & Ht2 & He2 & Hl2 & ->).
          exists t2; repeat split; eauto using ext_trans.
        * destruct IH as (t2 & Ht2 & He2 & Hr).
          exists t2; repeat split; eauto using ext_trans.
      + destruct Ha as (t1 & Ht1 & He1 & Hr). exists t1; auto.
  Qed.

  Lemma run_loop_cons inp t q r :
    run_loop vapp prim_value inp t (q :: r) =
    match step_sub vapp prim_value inp t q with
    | Continue t' => run_loop vapp prim_value inp t' r
    | other => other
    end.
  Proof. reflexivity. Qed.

  Lemma loop_sub inp : forall p, loop_sub_statement inp p.
  Proof.
    induction p as [s|f args IH] using prog_ind'; intros t rest Ht.
    - (* a leaf *)
      cbn [subprograms app]. rewrite run_loop_cons, step_sub_leaf, eval_ref_leaf.
      destruct (tlookup (PLeaf s) t) as [[v|]|] eqn:El.
      + pose proof (Ht _ _ El) as Hv. change (esym s inp = Ok v) in Hv. rewrite Hv.
        exists t; repeat split; auto using ext_refl.
      + pose proof (Ht _ _ El) as (x & Hx & Hs). change (esym s inp = Exc x) in Hx. rewrite Hx.
        exists t; repeat split; auto using ext_refl.
      + destruct (esym s inp) as [v|e] eqn:Es.
        * exists (tinsert (PLeaf s) (EVal v) t); repeat split.
          -- apply cache_ok_insert; auto.
          -- apply ext_insert; auto.
          -- apply tlookup_tinsert_same.
        * exists t; repeat split; auto using ext_refl.
    - (* an application: head leaf, arguments, then the node itself *)
      cbn [subprograms]. rewrite <- app_comm_cons, <- app_assoc.
      rewrite run_loop_cons, step_sub_leaf, eval_ref_fun.
      (* the head *)
      assert (Hhead : match esym f inp with
                      | Ok fv => exists t1, cache_ok inp t1 /\ ext t t1 /\ tlookup (PLeaf f) t1 = Some (EVal fv) /\
                          match tlookup (PLeaf f) t with
                          | Some (EVal _) => Continue t
                          | Some EFailed => StopFailed t
                          | None => match esym f inp with
                                    | Ok v => Continue (tinsert (PLeaf f) (EVal v) t)
                                    | Exc e => StopExc t e
                                    end
                          end = Continue t1
                      | Exc e => match tlookup (PLeaf f) t with
                          | Some (EVal _) => Continue t
                          | Some EFailed => StopFailed t
                          | None => match esym f inp with
                                    | Ok v => Continue (tinsert (PLeaf f) (EVal v) t)
                                    | Exc e => StopExc t e
                                    end
                          end = StopExc t e \/
                          (skipped e = true /\
                           match tlookup (PLeaf f) t with
                          | Some (EVal _) => Continue t
                          | Some EFailed => StopFailed t
                          | None => match esym f inp with
                                    | Ok v => Continue (tinsert (PLeaf f) (EVal v) t)
                                    | Exc e => StopExc t e
                                    end
                          end = StopFailed t)
                      end).
      { destruct (tlookup (PLeaf f) t) as [[v|]|] eqn:El.
        - pose proof (Ht _ _ El) as Hv. change (esym f inp = Ok v) in Hv. rewrite Hv.
          exists t; repeat split; auto using ext_refl.
        - pose proof (Ht _ _ El) as (x & Hx & Hs). change (esym f inp = Exc x) in Hx. rewrite Hx.
          right; auto.
        - destruct (esym f inp) as [v|e] eqn:Es.
          + exists (tinsert (PLeaf f) (EVal v) t); repeat split.
            * apply cache_ok_insert; auto.
            * apply ext_insert; auto.
            * apply tlookup_tinsert_same.
          + left; reflexivity. }
      destruct (esym f inp) as [fv|e] eqn:Ef; cbn [obindO].
      2:{ exists t; split; [exact Ht|split; [apply ext_refl|]].
          destruct Hhead as [-> | [Hs ->]]; auto. }
      destruct Hhead as (t1 & Ht1 & He1 & Hl1 & ->).
      (* the arguments *)
      change ([PFun f args] ++ rest) with (PFun f args :: rest).
      pose proof (loop_args inp args IH t1 (PFun f args :: rest) Ht1) as Hargs.
      unfold loop_args_post in Hargs.
      destruct (eval_list inp args) as [vs|e] eqn:Eargs; cbn [obindO].
      2:{ destruct Hargs as (t2 & Ht2 & He2 & Hr). unfold loop_post.
          exists t2; repeat split; eauto using ext_trans. }
      destruct Hargs as (t2 & Ht2 & He2 & Hl2 & ->).
      (* the node itself *)
      assert (Hp : eref (PFun f args) inp = appl fv vs).
      { rewrite eval_ref_fun, Ef; cbn. rewrite Eargs; reflexivity. }
      rewrite run_loop_cons, step_sub_fun.
      destruct (tlookup (PFun f args) t2) as [[v|]|] eqn:El.
      + pose proof (Ht2 _ _ El) as Hv. unfold entry_ok in Hv. rewrite Hp in Hv. rewrite Hv.
        exists t2; repeat split; eauto using ext_trans.
      + pose proof (Ht2 _ _ El) as (x & Hx & Hs). rewrite Hp in Hx. rewrite Hx.
        exists t2; repeat split; eauto using ext_trans.
      + rewrite (entry_value_present t2 (PLeaf f) fv (He2 _ _ Hl1)); cbn [obindO].
        rewrite (lookup_args_present t2 args vs Hl2); cbn [obindO].
        destruct (appl fv vs) as [v|e] eqn:Ea.
        * exists (tinsert (PFun f args) (EVal v) t2); repeat split.
          -- apply cache_ok_insert; [exact Ht2|]. unfold entry_ok. rewrite Hp; reflexivity.
          -- eapply ext_trans; [eapply ext_trans; eauto|]. apply ext_insert; auto.
          -- apply tlookup_tinsert_same.
        * exists t2; repeat split; eauto using ext_trans.
  Qed.

  (** DSLEvaluator.eval on one table: the observation is the reference one and
      the table stays correct. *)
  Theorem eval_table_correct inp t p :
    cache_ok inp t ->
    fst (eval_table vapp prim_value skip t p inp) = obs (eref p inp) /\
    cache_ok inp (snd (eval_table vapp prim_value skip t p inp)).
  Proof.
    intros Ht. unfold eval_table.
    destruct (tlookup p t) as [[v|]|] eqn:El.
    - pose proof (Ht _ _ El) as Hv. unfold entry_ok in Hv. rewrite Hv; cbn; auto.
    - pose proof (Ht _ _ El) as (x & Hx & Hs). rewrite Hx; cbn. rewrite Hs; auto.
    - pose proof (loop_sub inp p t [] Ht) as H. rewrite app_nil_r in H.
      unfold loop_post in H.
      destruct (eref p inp) as [v|e] eqn:Ep.
      + destruct H as (t' & Ht' & He & Hl & ->). cbn [run_loop]. rewrite Hl; cbn; auto.
      + destruct H as (t' & Ht' & He & [-> | [Hs ->]]).
        * cbn [observe]. destruct (skipped e) eqn:Es; cbn; split; auto.
          apply cache_ok_insert; auto. exists e; auto.
        * cbn [observe]. rewrite Hs; cbn; split; auto.
          apply cache_ok_insert; auto. exists e; auto.
  Qed.

  (** The whole cache: one correct table per input. *)
  Definition cache_inv (c : cache) : Prop :=
    forall inp t, alookup inputs_eqb inp c = Some t -> cache_ok inp t.

  Lemma inputs_eqb_spec a b : inputs_eqb a b = true <-> a = b.
  Proof. apply (list_eqb_spec value_eqb value_eqb_spec). Qed.

  Lemma cache_inv_nil : cache_inv [].
  Proof. intros inp t H; discriminate H. Qed.

  Theorem eval_cached_correct use_cache c p inp :
    cache_inv c ->
    fst (eval_cached vapp prim_value skip use_cache c p inp) = obs (eref p inp) /\
    cache_inv (snd (eval_cached vapp prim_value skip use_cache c p inp)).
  Proof.
    intros Hc. unfold eval_cached. destruct use_cache.
    - set (t := match alookup inputs_eqb inp c with Some t => t | None => [] end).
      assert (Ht : cache_ok inp t).
      { subst t. destruct (alookup inputs_eqb inp c) eqn:E; [exact (Hc _ _ E)|apply cache_ok_nil]. }
      destruct (eval_table_correct inp t p Ht) as [H1 H2].
      destruct (eval_table vapp prim_value skip t p inp) as [o t']; cbn in *. split; [exact H1|].
      intros inp' t'' H.
      destruct (inputs_eqb inp inp') eqn:E.
      + apply inputs_eqb_spec in E; subst inp'.
        rewrite (alookup_ainsert_same inputs_eqb inputs_eqb_spec) in H. injection H as <-. exact H2.
      + rewrite (alookup_ainsert_other inputs_eqb inputs_eqb_spec) in H.
        * exact (Hc _ _ H).
        * intros ->. rewrite (proj2 (inputs_eqb_spec inp' inp') eq_refl) in E; discriminate.
    - cbn. split; [|exact Hc]. apply (eval_table_correct inp [] p (cache_ok_nil inp)).
  Qed.

  (** Histories: evaluations and cache clearings in any order. *)
  Theorem history_correct use_cache : forall h c, cache_inv c ->
    run_history vapp prim_value skip use_cache c h = spec_history vapp prim_value skip h.
  Proof.
    induction h as [|o r IH]; intros c Hc; [reflexivity|].
    cbn [run_history spec_history map]. destruct o as [p inp|]; cbn [run_op].
    - destruct (eval_cached_correct use_cache c p inp Hc) as [H1 H2].
      destruct (eval_cached vapp prim_value skip use_cache c p inp) as [x c']; cbn in *.
      rewrite H1, (IH c' H2); reflexivity.
    - rewrite (IH [] cache_inv_nil); reflexivity.
  Qed.

  Theorem history_independent use_cache h :
    run_history vapp prim_value skip use_cache [] h = spec_history vapp prim_value skip h.
  Proof. apply history_correct, cache_inv_nil. Qed.

  Lemma spec_history_app h1 h2 :
    spec_history vapp prim_value skip (h1 ++ h2) =
    spec_history vapp prim_value skip h1 ++ spec_history vapp prim_value skip h2.
  Proof. unfold spec_history; apply map_app. Qed.

  (** What an evaluation returns after any history whatsoever. *)
  Theorem after_history use_cache h p inp :
    run_history vapp prim_value skip use_cache [] (h ++ [OEval p inp]) =
    spec_history vapp prim_value skip h ++ [Some (obs (eref p inp))].
  Proof. rewrite history_independent, spec_history_app; reflexivity. Qed.

  Theorem after_history_value use_cache h p inp v :
    eref p inp = Ok v ->
    run_history vapp prim_value skip use_cache [] (h ++ [OEval p inp]) =
    spec_history vapp prim_value skip h ++ [Some (Returned v)].
  Proof. intros H. rewrite after_history, H; reflexivity. Qed.

  Theorem after_history_skip use_cache h p inp e :
    eref p inp = Exc e -> In e skip ->
    run_history vapp prim_value skip use_cache [] (h ++ [OEval p inp]) =
    spec_history vapp prim_value skip h ++ [Some (Returned VNone)].
  Proof.
    intros H Hs. rewrite after_history, H; cbn. rewrite (proj2 (is_skipped_spec e) Hs); reflexivity.
  Qed.

  Theorem after_history_raise use_cache h p inp e :
    eref p inp = Exc e -> ~ In e skip ->
    run_history vapp prim_value skip use_cache [] (h ++ [OEval p inp]) =
    spec_history vapp prim_value skip h ++ [Some (Raised e)].
  Proof.
    intros H Hs. rewrite after_history, H; cbn.
    destruct (skipped e) eqn:E; [apply is_skipped_spec in E; contradiction|reflexivity].
  Qed.

  (** Cache on and cache off are indistinguishable. *)
  Theorem cache_irrelevant h :
    run_history vapp prim_value skip true [] h = run_history vapp prim_value skip false [] h.
  Proof. rewrite !history_independent; reflexivity. Qed.
End EvalProofs.

(** ---- non-vacuity and sanity of the model on the fixed semantics ---- *)
Section Examples.
  Local Open Scope Z_scope.
  Let tint := TPrim 0%N.
  Let tbool := TPrim 1%N.
  Let topt := TPrim 3%N.
  Let var0 := PLeaf (SVar 0 tint).
  Let one := PLeaf (SPrim 6%N tint).
  Let pdiv := SPrim 3%N (TArrow tint (TArrow tint tint)).
  Let pisnone := SPrim 23%N (TArrow topt tbool).
  Let div_1_var0 := PFun pdiv [one; var0].
  Let isnone_div := PFun pisnone [div_1_var0].

  (** The failing sub-program first, then the larger program containing it:
      both give None when ZeroDivisionError is skipped (hypotheses of
      after_history_skip hold) ... *)
  Example ex_skip_hyp : eval_ref vapp prim_value isnone_div [VInt 0] = Exc E_ZERODIV /\ In E_ZERODIV [E_ZERODIV; E_INDEX].
  Proof. vm_compute. auto. Qed.

  Example ex_history_skip :
    run_history vapp prim_value [E_ZERODIV; E_INDEX] true []
                [OEval div_1_var0 [VInt 0]; OEval isnone_div [VInt 0]; OClear; OEval isnone_div [VInt 2]]
    = [Some (Returned VNone); Some (Returned VNone); None; Some (Returned (VBool false))].
  Proof. vm_compute. reflexivity. Qed.

  (** ... and the exception escapes when it is not skipped (hypotheses of
      after_history_raise hold). *)
  Example ex_raise_hyp : eval_ref vapp prim_value isnone_div [VInt 0] = Exc E_ZERODIV /\ ~ In E_ZERODIV [E_INDEX].
  Proof. vm_compute. split; [reflexivity|intros [H|[]]; discriminate H]. Qed.

  Example ex_history_raise :
    run_history vapp prim_value [E_INDEX] true [] [OEval div_1_var0 [VInt 0]; OEval isnone_div [VInt 0]]
    = [Some (Raised E_ZERODIV); Some (Raised E_ZERODIV)].
  Proof. vm_compute. reflexivity. Qed.

  Example ex_value_hyp : eval_ref vapp prim_value div_1_var0 [VInt 1] = Ok (VInt 1).
  Proof. vm_compute. reflexivity. Qed.

  (** The behaviour before the repair (failure stored as the value None in the
      same table): the larger program consumed the None. *)
  Definition eval_table_pinned (skip : list N) (t : table) (p : prog) (inp : list value) : observed * table :=
    match tlookup p t with
    | Some (EVal v) => (Returned v, t)
    | Some EFailed => (Returned VNone, t)
    | None =>
      match run_loop vapp prim_value inp t (subprograms p) with
      | Continue t' =>
        match tlookup p t' with
        | Some (EVal v) => (Returned v, t')
        | _ => (Raised E_FUEL, t')
        end
      | StopFailed t' => (Returned VNone, t')
      | StopExc t' e =>
        if is_skipped skip e then (Returned VNone, tinsert p (EVal VNone) t') else (Raised e, t')
      end
    end.

  Example pinned_cached_failure_refuted :
    let sk := [E_ZERODIV] in
    let '(_, t1) := eval_table_pinned sk [] div_1_var0 [VInt 0] in
    fst (eval_table_pinned sk t1 isnone_div [VInt 0]) = Returned (VBool true) /\
    observe sk (eval_ref vapp prim_value isnone_div [VInt 0]) = Returned VNone.
  Proof. vm_compute. auto. Qed.
End Examples.
