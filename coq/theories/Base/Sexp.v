(** Universal interchange type between the Python harness and the extracted
    models, plus small decoding combinators.  Glue only: nothing here is the
    subject of a property. *)
From Coq Require Import ZArith List Bool.
Import ListNotations.
Local Open Scope Z_scope.

Inductive sexp : Type :=
| A (z : Z)
| L (l : list sexp).

Definition obind {X Y} (o : option X) (f : X -> option Y) : option Y :=
  match o with Some x => f x | None => None end.
Notation "'do' x <- o ; k" := (obind o (fun x => k))
  (at level 200, x pattern, o at level 100, k at level 200).

Fixpoint omap {X Y} (f : X -> option Y) (l : list X) : option (list Y) :=
  match l with
  | [] => Some []
  | x :: r => do y <- f x; do ys <- omap f r; Some (y :: ys)
  end.

Definition asZ (s : sexp) : option Z := match s with A z => Some z | _ => None end.
Definition asN (s : sexp) : option N :=
  match s with A z => if z <? 0 then None else Some (Z.to_N z) | _ => None end.
Definition asNat (s : sexp) : option nat :=
  match s with A z => if z <? 0 then None else Some (Z.to_nat z) | _ => None end.
Definition asBool (s : sexp) : option bool :=
  match s with A 0 => Some false | A 1 => Some true | _ => None end.
Definition asList (s : sexp) : option (list sexp) :=
  match s with L l => Some l | _ => None end.
Definition asListOf {X} (f : sexp -> option X) (s : sexp) : option (list X) :=
  match s with L l => omap f l | _ => None end.

Definition ofBool (b : bool) : sexp := A (if b then 1 else 0).
Definition ofN (n : N) : sexp := A (Z.of_N n).
Definition ofNat (n : nat) : sexp := A (Z.of_nat n).
Definition ofOption {X} (f : X -> sexp) (o : option X) : sexp :=
  match o with Some x => L [f x] | None => L [] end.
Definition ofList {X} (f : X -> sexp) (l : list X) : sexp := L (map f l).

(** Result of a malformed case: the harness treats it as a harness error. *)
Definition bad_case : sexp := L [A (-1)].

(** Structural equality on sexp (states of grammars/automata are opaque sexps). *)
Fixpoint sexp_eqb (a b : sexp) : bool :=
  match a, b with
  | A x, A y => Z.eqb x y
  | L l, L l' =>
    (fix go (l l' : list sexp) : bool :=
       match l, l' with
       | [], [] => true
       | x :: r, y :: r' => sexp_eqb x y && go r r'
       | _, _ => false
       end) l l'
  | _, _ => false
  end.

Section SexpInd.
  Variable P : sexp -> Prop.
  Hypothesis HA : forall z, P (A z).
  Hypothesis HL : forall l, Forall P l -> P (L l).
  Fixpoint sexp_ind' (s : sexp) : P s :=
    match s with
    | A z => HA z
    | L l => HL l ((fix go (l : list sexp) : Forall P l :=
                      match l with [] => Forall_nil _ | x :: r => Forall_cons _ (sexp_ind' x) (go r) end) l)
    end.
End SexpInd.

Lemma sexp_eqb_spec : forall a b, sexp_eqb a b = true <-> a = b.
Proof.
  induction a as [x|l IH] using sexp_ind'; intros [y|l']; cbn; try (split; congruence).
  - rewrite Z.eqb_eq; split; congruence.
  - revert l'. induction IH as [|x r Hx _ IHr]; intros [|y r']; try (split; congruence).
    rewrite Bool.andb_true_iff, Hx, (IHr r'). split.
    + intros [-> E]; inversion E; reflexivity.
    + intros E; inversion E; auto.
Qed.
