(** Types of ProgSynth (synth/syntax/type_system.py): syntax, structural
    equality, the accessor functions the grammars use. *)
From Coq Require Import ZArith NArith List Bool Lia Setoid.
From PS Require Import Base.ListX Base.Sexp.
Import ListNotations.

Inductive ty : Type :=
| TPrim (n : N)
| TArrow (a b : ty)
| TGeneric (n : N) (args : list ty)
| TPoly (n : N)
| TFixedPoly (n : N) (allowed : list ty)
| TSum (alts : list ty)
| TUnknown.

Section TyInd.
  Variable P : ty -> Prop.
  Hypothesis HPrim : forall n, P (TPrim n).
  Hypothesis HArrow : forall a b, P a -> P b -> P (TArrow a b).
  Hypothesis HGen : forall n l, Forall P l -> P (TGeneric n l).
  Hypothesis HPoly : forall n, P (TPoly n).
  Hypothesis HFixed : forall n l, Forall P l -> P (TFixedPoly n l).
  Hypothesis HSum : forall l, Forall P l -> P (TSum l).
  Hypothesis HUnk : P TUnknown.
  Fixpoint ty_ind' (t : ty) : P t :=
    let fix go (l : list ty) : Forall P l :=
      match l with
      | [] => Forall_nil _
      | x :: r => Forall_cons _ (ty_ind' x) (go r)
      end in
    match t with
    | TPrim n => HPrim n
    | TArrow a b => HArrow a b (ty_ind' a) (ty_ind' b)
    | TGeneric n l => HGen n l (go l)
    | TPoly n => HPoly n
    | TFixedPoly n l => HFixed n l (go l)
    | TSum l => HSum l (go l)
    | TUnknown => HUnk
    end.
End TyInd.

(** Structural equality. *)
Fixpoint ty_eqb (a b : ty) : bool :=
  match a, b with
  | TPrim n, TPrim m => N.eqb n m
  | TArrow a1 a2, TArrow b1 b2 => ty_eqb a1 b1 && ty_eqb a2 b2
  | TGeneric n l, TGeneric m l' => N.eqb n m && list_eqb ty_eqb l l'
  | TPoly n, TPoly m => N.eqb n m
  | TFixedPoly n l, TFixedPoly m l' => N.eqb n m && list_eqb ty_eqb l l'
  | TSum l, TSum l' => list_eqb ty_eqb l l'
  | TUnknown, TUnknown => true
  | _, _ => false
  end.

Lemma ty_eqb_spec : forall a b, ty_eqb a b = true <-> a = b.
Proof.
  induction a as [n|a1 a2 IH1 IH2|n l IH|n|n l IH|l IH|] using ty_ind';
    intros [m|b1 b2|m l'|m|m l'|l'|]; cbn; try (split; congruence).
  - rewrite N.eqb_eq; split; congruence.
  - rewrite andb_true_iff, IH1, IH2; split; [intros [-> ->]; auto|intros E; inversion E; auto].
  - rewrite andb_true_iff, N.eqb_eq, (list_eqb_spec_in ty_eqb l).
    + split; [intros [-> ->]; auto|intros E; inversion E; auto].
    + rewrite Forall_forall in IH; auto.
  - rewrite N.eqb_eq; split; congruence.
  - rewrite andb_true_iff, N.eqb_eq, (list_eqb_spec_in ty_eqb l).
    + split; [intros [-> ->]; auto|intros E; inversion E; auto].
    + rewrite Forall_forall in IH; auto.
  - rewrite (list_eqb_spec_in ty_eqb l).
    + split; congruence.
    + rewrite Forall_forall in IH; auto.
Qed.

Lemma ty_eqb_refl a : ty_eqb a a = true.
Proof. apply ty_eqb_spec; reflexivity. Qed.

(** Accessors (type_system.py: returns, arguments, ends_with; type_helper.FunctionType). *)
Fixpoint arguments (t : ty) : list ty :=
  match t with TArrow a b => a :: arguments b | _ => [] end.
Fixpoint returns (t : ty) : ty :=
  match t with TArrow a b => returns b | _ => t end.
Fixpoint function_type (args : list ty) (r : ty) : ty :=
  match args with [] => r | a :: rest => TArrow a (function_type rest r) end.

(** [ends_with self other]: the accumulator version of the code. *)
Fixpoint ends_with_rec (self other : ty) (acc : list ty) : option (list ty) :=
  if ty_eqb self other then Some acc
  else match self with
       | TArrow a b => ends_with_rec b other (acc ++ [a])
       | _ => None
       end.
Definition ends_with (self other : ty) : option (list ty) := ends_with_rec self other [].

Fixpoint ty_size (t : ty) : nat :=
  match t with
  | TArrow a b => 1 + ty_size a + ty_size b
  | TGeneric _ l => 1 + fold_right (fun x acc => ty_size x + acc) 0 l
  | TSum l => fold_right (fun x acc => Nat.max (ty_size x) acc) 0 l
  | _ => 1
  end.

(** sexp codec (DESIGN appendix C). *)
Fixpoint ty_of_sexp_fuel (fuel : nat) (s : sexp) : option ty :=
  match fuel with
  | O => None
  | S f =>
    match s with
    | L [A 0%Z; A n] => if (n <? 0)%Z then None else Some (TPrim (Z.to_N n))
    | L [A 1%Z; a; b] =>
      do a' <- ty_of_sexp_fuel f a; do b' <- ty_of_sexp_fuel f b; Some (TArrow a' b')
    | L (A 2%Z :: A n :: args) =>
      do l <- omap (ty_of_sexp_fuel f) args; Some (TGeneric (Z.to_N n) l)
    | L [A 3%Z; A n] => Some (TPoly (Z.to_N n))
    | L (A 4%Z :: A n :: args) =>
      do l <- omap (ty_of_sexp_fuel f) args; Some (TFixedPoly (Z.to_N n) l)
    | L (A 5%Z :: args) =>
      do l <- omap (ty_of_sexp_fuel f) args; Some (TSum l)
    | L [A 6%Z] => Some TUnknown
    | _ => None
    end
  end.
Definition ty_of_sexp : sexp -> option ty := ty_of_sexp_fuel 200.

Fixpoint sexp_of_ty (t : ty) : sexp :=
  match t with
  | TPrim n => L [A 0%Z; ofN n]
  | TArrow a b => L [A 1%Z; sexp_of_ty a; sexp_of_ty b]
  | TGeneric n l => L (A 2%Z :: ofN n :: map sexp_of_ty l)
  | TPoly n => L [A 3%Z; ofN n]
  | TFixedPoly n l => L (A 4%Z :: ofN n :: map sexp_of_ty l)
  | TSum l => L (A 5%Z :: map sexp_of_ty l)
  | TUnknown => L [A 6%Z]
  end.
