(** Run-time values of the fixed semantic universe used by the correspondence
    checks (the theorems are generic in the semantics; this file only fixes the
    instance the harness mirrors in harness/lib/semantics.py). *)
From Coq Require Import ZArith NArith List Bool Lia Setoid.
From PS Require Import Base.ListX Base.Sexp.
Import ListNotations.

Inductive value : Type :=
| VInt (z : Z)
| VBool (b : bool)
| VList (l : list value)
| VNone
| VClos (n : N) (args : list value).   (* primitive [n] applied to [args], still waiting for more *)

Section ValueInd.
  Variable P : value -> Prop.
  Hypothesis HInt : forall z, P (VInt z).
  Hypothesis HBool : forall b, P (VBool b).
  Hypothesis HList : forall l, Forall P l -> P (VList l).
  Hypothesis HNone : P VNone.
  Hypothesis HClos : forall n l, Forall P l -> P (VClos n l).
  Fixpoint value_ind' (v : value) : P v :=
    let fix go (l : list value) : Forall P l :=
      match l with
      | [] => Forall_nil _
      | x :: r => Forall_cons _ (value_ind' x) (go r)
      end in
    match v with
    | VInt z => HInt z
    | VBool b => HBool b
    | VList l => HList l (go l)
    | VNone => HNone
    | VClos n l => HClos n l (go l)
    end.
End ValueInd.

Fixpoint value_eqb (a b : value) : bool :=
  match a, b with
  | VInt x, VInt y => Z.eqb x y
  | VBool x, VBool y => Bool.eqb x y
  | VList l, VList l' => list_eqb value_eqb l l'
  | VNone, VNone => true
  | VClos n l, VClos m l' => N.eqb n m && list_eqb value_eqb l l'
  | _, _ => false
  end.

Lemma value_eqb_spec : forall a b, value_eqb a b = true <-> a = b.
Proof.
  induction a as [x|x|l IH| |n l IH] using value_ind';
    intros [y|y|l'| |m l']; cbn; try (split; congruence).
  - rewrite Z.eqb_eq; split; congruence.
  - rewrite Bool.eqb_true_iff; split; congruence.
  - rewrite (list_eqb_spec_in value_eqb l).
    + split; congruence.
    + rewrite Forall_forall in IH; auto.
  - rewrite andb_true_iff, N.eqb_eq, (list_eqb_spec_in value_eqb l).
    + split; [intros [-> ->]; auto|intros E; inversion E; auto].
    + rewrite Forall_forall in IH; auto.
Qed.

Fixpoint value_of_sexp_fuel (fuel : nat) (s : sexp) : option value :=
  match fuel with
  | O => None
  | S f =>
    match s with
    | L [A 0%Z; A z] => Some (VInt z)
    | L [A 1%Z; A 0%Z] => Some (VBool false)
    | L [A 1%Z; A 1%Z] => Some (VBool true)
    | L (A 2%Z :: vs) => do l <- omap (value_of_sexp_fuel f) vs; Some (VList l)
    | L [A 3%Z] => Some VNone
    | L (A 5%Z :: A n :: vs) => do l <- omap (value_of_sexp_fuel f) vs; Some (VClos (Z.to_N n) l)
    | _ => None
    end
  end.
Definition value_of_sexp : sexp -> option value := value_of_sexp_fuel 100.

Fixpoint sexp_of_value (v : value) : sexp :=
  match v with
  | VInt z => L [A 0%Z; A z]
  | VBool b => L [A 1%Z; ofBool b]
  | VList l => L (A 2%Z :: map sexp_of_value l)
  | VNone => L [A 3%Z]
  | VClos n l => L (A 5%Z :: ofN n :: map sexp_of_value l)
  end.
