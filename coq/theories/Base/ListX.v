(** List helpers shared by the models. *)
From Coq Require Import List Bool Arith Lia.
Import ListNotations.

Section ListEqb.
  Context {X : Type} (eqb : X -> X -> bool).
  Fixpoint list_eqb (l l' : list X) : bool :=
    match l, l' with
    | [], [] => true
    | x :: r, y :: r' => eqb x y && list_eqb r r'
    | _, _ => false
    end.
End ListEqb.

Lemma list_eqb_spec_in {X} (eqb : X -> X -> bool) (l : list X) :
  (forall x, In x l -> forall y, eqb x y = true <-> x = y) ->
  forall l', list_eqb eqb l l' = true <-> l = l'.
Proof.
  induction l as [|x r IH]; intros H [|y r']; cbn; try (split; congruence).
  rewrite andb_true_iff, (H x (or_introl eq_refl) y), (IH (fun z Hz => H z (or_intror Hz)) r').
  split; [intros [-> ->]; reflexivity | intros E; inversion E; auto].
Qed.

Lemma list_eqb_spec {X} (eqb : X -> X -> bool) :
  (forall x y, eqb x y = true <-> x = y) ->
  forall l l', list_eqb eqb l l' = true <-> l = l'.
Proof. intros H l; apply list_eqb_spec_in; intros x _; apply H. Qed.

Definition option_eqb {X} (eqb : X -> X -> bool) (a b : option X) : bool :=
  match a, b with
  | Some x, Some y => eqb x y
  | None, None => true
  | _, _ => false
  end.

Lemma option_eqb_spec {X} (eqb : X -> X -> bool) :
  (forall x y, eqb x y = true <-> x = y) ->
  forall a b, option_eqb eqb a b = true <-> a = b.
Proof.
  intros H [x|] [y|]; cbn; try (split; congruence).
  rewrite H; split; congruence.
Qed.

Fixpoint memb {X} (eqb : X -> X -> bool) (x : X) (l : list X) : bool :=
  match l with [] => false | y :: r => eqb x y || memb eqb x r end.

Lemma memb_spec {X} (eqb : X -> X -> bool) :
  (forall x y, eqb x y = true <-> x = y) ->
  forall x l, memb eqb x l = true <-> In x l.
Proof.
  intros H x l; induction l as [|y r IH]; cbn; [split; [discriminate|tauto]|].
  rewrite orb_true_iff, H, IH; split; intros [E|E]; auto.
Qed.

Fixpoint nodupb {X} (eqb : X -> X -> bool) (l : list X) : bool :=
  match l with [] => true | x :: r => negb (memb eqb x r) && nodupb eqb r end.

Lemma nodupb_spec {X} (eqb : X -> X -> bool) :
  (forall x y, eqb x y = true <-> x = y) ->
  forall l, nodupb eqb l = true <-> NoDup l.
Proof.
  intros H l; induction l as [|x r IH]; cbn; [split; [constructor|auto]|].
  rewrite andb_true_iff, negb_true_iff, IH; split.
  - intros [Hm Hn]; constructor; auto. rewrite <- (memb_spec eqb H); congruence.
  - intros Hn; inversion Hn as [|? ? Hm Hr]; subst; split; auto.
    destruct (memb eqb x r) eqn:E; auto. apply (memb_spec eqb H) in E; tauto.
Qed.

(** association lists with replace-on-insert (Python dict semantics; insertion
    order of first insertion is kept, as in CPython). *)
Section Assoc.
  Context {K V : Type} (keqb : K -> K -> bool).
  Fixpoint alookup (k : K) (l : list (K * V)) : option V :=
    match l with
    | [] => None
    | (k', v) :: r => if keqb k k' then Some v else alookup k r
    end.
  Fixpoint ainsert (k : K) (v : V) (l : list (K * V)) : list (K * V) :=
    match l with
    | [] => [(k, v)]
    | (k', v') :: r => if keqb k k' then (k', v) :: r else (k', v') :: ainsert k v r
    end.
  Fixpoint aremove (k : K) (l : list (K * V)) : list (K * V) :=
    match l with
    | [] => []
    | (k', v') :: r => if keqb k k' then r else (k', v') :: aremove k r
    end.
End Assoc.

Fixpoint sumnat (l : list nat) : nat :=
  match l with [] => 0 | x :: r => x + sumnat r end.
Fixpoint maxnat (l : list nat) : nat :=
  match l with [] => 0 | x :: r => Nat.max x (maxnat r) end.

Section AssocLemmas.
  Context {K V : Type} (keqb : K -> K -> bool).
  Hypothesis keqb_spec : forall a b, keqb a b = true <-> a = b.

  Lemma keqb_refl k : keqb k k = true.
  Proof. apply keqb_spec; reflexivity. Qed.

  Lemma keqb_neq a b : a <> b -> keqb a b = false.
  Proof. intros H; destruct (keqb a b) eqn:E; auto. apply keqb_spec in E; contradiction. Qed.

  Lemma alookup_ainsert_same k (v : V) l : alookup keqb k (ainsert keqb k v l) = Some v.
  Proof.
    induction l as [|[k' v'] r IH]; cbn.
    - rewrite keqb_refl; reflexivity.
    - destruct (keqb k k') eqn:E; cbn; rewrite E; auto.
  Qed.

  Lemma alookup_ainsert_other k k' (v : V) l : k <> k' -> alookup keqb k' (ainsert keqb k v l) = alookup keqb k' l.
  Proof.
    intros Hn; induction l as [|[k2 v2] r IH]; cbn.
    - rewrite (keqb_neq k' k); auto.
    - destruct (keqb k k2) eqn:E; cbn.
      + apply keqb_spec in E; subst k2. rewrite (keqb_neq k' k); auto.
      + destruct (keqb k' k2); auto.
  Qed.
End AssocLemmas.
