(** Programs of ProgSynth (synth/syntax/program.py): applicative terms over
    primitives, variables and constants. *)
From Coq Require Import ZArith NArith List Bool Lia Setoid Arith.
From PS Require Import Base.ListX Base.Sexp Base.Ty Base.Value.
Import ListNotations.

Inductive sym : Type :=
| SPrim (n : N) (t : ty)
| SVar (i : nat) (t : ty)
| SConst (t : ty) (v : option value).     (* None: a constant slot without value *)

Definition sym_eqb (a b : sym) : bool :=
  match a, b with
  | SPrim n t, SPrim m u => N.eqb n m && ty_eqb t u
  | SVar i t, SVar j u => Nat.eqb i j && ty_eqb t u
  | SConst t v, SConst u w => ty_eqb t u && option_eqb value_eqb v w
  | _, _ => false
  end.

Lemma sym_eqb_spec a b : sym_eqb a b = true <-> a = b.
Proof.
  destruct a as [n t|i t|t v], b as [m u|j u|u w]; cbn; try (split; congruence).
  - rewrite andb_true_iff, N.eqb_eq, ty_eqb_spec; split; [intros [-> ->]; auto|intros E; inversion E; auto].
  - rewrite andb_true_iff, Nat.eqb_eq, ty_eqb_spec; split; [intros [-> ->]; auto|intros E; inversion E; auto].
  - rewrite andb_true_iff, ty_eqb_spec, (option_eqb_spec value_eqb value_eqb_spec);
      split; [intros [-> ->]; auto|intros E; inversion E; auto].
Qed.

Definition sym_type (s : sym) : ty :=
  match s with SPrim _ t => t | SVar _ t => t | SConst t _ => t end.

(** [PLeaf s] is the bare object, [PFun f args] is Function(f, args) whose head
    is a leaf object (the only shape grammars build). *)
Inductive prog : Type :=
| PLeaf (s : sym)
| PFun (f : sym) (args : list prog).

Section ProgInd.
  Variable P : prog -> Prop.
  Hypothesis HLeaf : forall s, P (PLeaf s).
  Hypothesis HFun : forall f l, Forall P l -> P (PFun f l).
  Fixpoint prog_ind' (p : prog) : P p :=
    let fix go (l : list prog) : Forall P l :=
      match l with
      | [] => Forall_nil _
      | x :: r => Forall_cons _ (prog_ind' x) (go r)
      end in
    match p with
    | PLeaf s => HLeaf s
    | PFun f l => HFun f l (go l)
    end.
End ProgInd.

Fixpoint prog_eqb (a b : prog) : bool :=
  match a, b with
  | PLeaf s, PLeaf s' => sym_eqb s s'
  | PFun f l, PFun g l' => sym_eqb f g && list_eqb prog_eqb l l'
  | _, _ => false
  end.

Lemma prog_eqb_spec : forall a b, prog_eqb a b = true <-> a = b.
Proof.
  induction a as [s|f l IH] using prog_ind'; intros [s'|g l']; cbn; try (split; congruence).
  - rewrite sym_eqb_spec; split; congruence.
  - rewrite andb_true_iff, sym_eqb_spec, (list_eqb_spec_in prog_eqb l).
    + split; [intros [-> ->]; auto|intros E; inversion E; auto].
    + rewrite Forall_forall in IH; auto.
Qed.

Lemma prog_eqb_refl a : prog_eqb a a = true.
Proof. apply prog_eqb_spec; reflexivity. Qed.

Definition head (p : prog) : sym := match p with PLeaf s => s | PFun f _ => f end.
Definition pargs (p : prog) : list prog := match p with PLeaf _ => [] | PFun _ l => l end.

(** Program.depth / Program.size (the head of a Function counts as a node of
    depth 1 / size 1). *)
Fixpoint pdepth (p : prog) : nat :=
  match p with
  | PLeaf _ => 1
  | PFun _ l => 1 + fold_right (fun a acc => Nat.max (pdepth a) acc) 1 l
  end.
Fixpoint psize (p : prog) : nat :=
  match p with
  | PLeaf _ => 1
  | PFun _ l => 1 + fold_right (fun a acc => psize a + acc) 0 l
  end.

(** Program.depth_first_iter: head, then each argument's iteration, then self. *)
Fixpoint subprograms (p : prog) : list prog :=
  match p with
  | PLeaf s => [p]
  | PFun f l => PLeaf f :: flat_map subprograms l ++ [p]
  end.

(** Type of a (partial) application: Function.__init__. *)
Definition ptype (p : prog) : ty :=
  match p with
  | PLeaf s => sym_type s
  | PFun f l => function_type (skipn (length l) (arguments (sym_type f))) (returns (sym_type f))
  end.

(** sexp codec. *)
Definition sym_of_sexp (s : sexp) : option sym :=
  match s with
  | L [A 0%Z; A n; t] => do t' <- ty_of_sexp t; Some (SPrim (Z.to_N n) t')
  | L [A 1%Z; A i; t] => do t' <- ty_of_sexp t; Some (SVar (Z.to_nat i) t')
  | L [A 2%Z; t] => do t' <- ty_of_sexp t; Some (SConst t' None)
  | L [A 3%Z; t; v] => do t' <- ty_of_sexp t; do v' <- value_of_sexp v; Some (SConst t' (Some v'))
  | _ => None
  end.
Definition sexp_of_sym (s : sym) : sexp :=
  match s with
  | SPrim n t => L [A 0%Z; ofN n; sexp_of_ty t]
  | SVar i t => L [A 1%Z; ofNat i; sexp_of_ty t]
  | SConst t None => L [A 2%Z; sexp_of_ty t]
  | SConst t (Some v) => L [A 3%Z; sexp_of_ty t; sexp_of_value v]
  end.

Fixpoint prog_of_sexp_fuel (fuel : nat) (s : sexp) : option prog :=
  match fuel with
  | O => None
  | S f =>
    match s with
    | L [A 0%Z; sy] => do sy' <- sym_of_sexp sy; Some (PLeaf sy')
    | L (A 1%Z :: sy :: args) =>
      do sy' <- sym_of_sexp sy; do l <- omap (prog_of_sexp_fuel f) args; Some (PFun sy' l)
    | _ => None
    end
  end.
Definition prog_of_sexp : sexp -> option prog := prog_of_sexp_fuel 200.

Fixpoint sexp_of_prog (p : prog) : sexp :=
  match p with
  | PLeaf s => L [A 0%Z; sexp_of_sym s]
  | PFun f l => L (A 1%Z :: sexp_of_sym f :: map sexp_of_prog l)
  end.
