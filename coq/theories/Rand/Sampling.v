(** Sampling of programs (ProbDetGrammar.sample_program, tagged_det_grammar.py
    192-210; ProbUGrammar.sample_program, tagged_u_grammar.py 234-254) as a
    function of the indices returned by the alias samplers, and the exact
    distribution this induces when every index is drawn with the weights of
    the visited non-terminal (which is what the alias tables do for ideal
    uniform numbers: Rand/AliasProofs.v, alias_exact).

    The model has no input besides the table, the weights and the list of
    chosen indices, consumed one per call of VoseSampler.sample() in the
    order the code makes these calls: the sampled sequence is a function of
    that list (and, in the implementation, the list is a function of the
    seed). *)
From Coq Require Import ZArith NArith QArith List Bool Lia.
From PS Require Import Base.ListX Base.Sexp Base.Ty Base.Value Base.Prog Gram.Det.
Import ListNotations.

Inductive sres (X : Type) : Type :=
| SOk (x : X)
| SErr (code : nat).
Arguments SOk {X} x.
Arguments SErr {X} code.
(** error codes: 0 out of fuel; 1 no sampler for the non-terminal (KeyError);
    2 the choice list is exhausted; 3 index out of range (IndexError);
    4 no rule for the chosen symbol (KeyError); 5 derive_all failed;
    6 the traversal ended before all arguments were sampled. *)

(** DetGrammar.derive_all, reduced to what sample_program uses of it (the new
    information and the last context): the traversal of __contains_rec__
    without the arity tests. *)
Fixpoint derive_all (tbl : table) (p : prog) (here : pos) (info : list argnt) : option (list argnt * pos) :=
  match here with
  | End => None
  | At x =>
    match p with
    | PLeaf s => match rule_of tbl x s with Some r => Some (derive info r) | None => None end
    | PFun f args =>
      match rule_of tbl x f with
      | Some r =>
        (fix go (args : list prog) (st : list argnt * pos) {struct args} : option (list argnt * pos) :=
           match args with
           | [] => Some st
           | a :: ar => match derive_all tbl a (snd st) (fst st) with Some st' => go ar st' | None => None end
           end) args (derive info r)
      | None => None
      end
    end
  end.

Section Args.
  Variable tbl : table.
  (** the recursive call sample_program(current, information) *)
  Variable rec : nt -> list argnt -> list nat -> sres (prog * list nat).

  (** for _ in range(nargs): arg = sample_program(current, information);
      information, lst = derive_all(information, current, arg); current = lst[-1] *)
  Fixpoint sample_args (k : nat) (info : list argnt) (here : pos) (cs : list nat)
    : sres (list prog * list nat) :=
    match k with
    | O => SOk ([], cs)
    | S k' =>
      match here with
      | End => SErr 6
      | At cur =>
        match rec cur info cs with
        | SErr e => SErr e
        | SOk (a, cs1) =>
          match derive_all tbl a (At cur) info with
          | None => SErr 5
          | Some (info', here') =>
            match sample_args k' info' here' cs1 with
            | SOk (l, cs2) => SOk (a :: l, cs2)
            | SErr e => SErr e
            end
          end
        end
      end
    end.
End Args.

(** sample_program(S, information): i = vose_samplers[S].sample();
    P = sampling_map[S][i] (the i-th key of tags[S]); leaves are returned as
    they are, otherwise the arguments are sampled from left to right. *)
Fixpoint sample_rec (fuel : nat) (tbl : table) (w : wtable) (x : nt) (info : list argnt) (cs : list nat)
  : sres (prog * list nat) :=
  match fuel with
  | O => SErr 0
  | S f =>
    match alookup nt_eqb x w with
    | None => SErr 1
    | Some ws =>
      match cs with
      | [] => SErr 2
      | i :: cs' =>
        match nth_error ws i with
        | None => SErr 3
        | Some (s, _) =>
          match rule_of tbl x s with
          | None => SErr 4
          | Some r =>
            match fst r with
            | [] => SOk (PLeaf s, cs')
            | _ :: _ =>
              match sample_args tbl (sample_rec f tbl w) (length (fst r)) (fst (derive info r)) (snd (derive info r)) cs' with
              | SOk (l, cs2) => SOk (PFun s l, cs2)
              | SErr e => SErr e
              end
            end
          end
        end
      end
    end
  end.

Definition sample_program (fuel : nat) (tbl : table) (w : wtable) (start : nt) (cs : list nat)
  : sres (prog * list nat) :=
  sample_rec fuel tbl w start [] cs.

(** Consecutive calls of sample_program on one stream of choices. *)
Fixpoint sample_many (fuel : nat) (tbl : table) (w : wtable) (start : nt) (k : nat) (cs : list nat)
  : list (sres prog) :=
  match k with
  | O => []
  | S k' =>
    match sample_program fuel tbl w start cs with
    | SOk (p, cs') => SOk p :: sample_many fuel tbl w start k' cs'
    | SErr e => [SErr e]
    end
  end.

(** ---- the induced distribution ----
    An entry is a complete list of choices, the program it produces, the T
    state after it, and the product of the weights of the choices made.  The
    enumeration has the shape of Det.lang_at. *)
Definition entry : Type := list nat * prog * state * Q.
Definition e_script (e : entry) : list nat := fst (fst (fst e)).
Definition e_prog (e : entry) : prog := snd (fst (fst e)).
Definition e_state (e : entry) : state := snd (fst e).
Definition e_prob (e : entry) : Q := snd e.

Definition sentry : Type := list nat * list prog * state * Q.

Section Seqs.
  Variable rec : nt -> list entry.
  Fixpoint dseqs (args : list argnt) (y : state) : list sentry :=
    match args with
    | [] => [([], [], y, 1)]
    | (t, sa) :: ar =>
      flat_map (fun e1 : entry =>
                  map (fun e2 : sentry =>
                         (e_script e1 ++ fst (fst (fst e2)), e_prog e1 :: snd (fst (fst e2)), snd (fst e2),
                          e_prob e1 * snd e2))
                      (dseqs ar (e_state e1)))
               (rec (t, sa, y))
    end.
End Seqs.

Fixpoint enum_from {X} (k : nat) (l : list X) : list (nat * X) :=
  match l with [] => [] | x :: r => (k, x) :: enum_from (S k) r end.

Fixpoint sdist (fuel : nat) (tbl : table) (w : wtable) (x : nt) : list entry :=
  match fuel with
  | O => []
  | S f =>
    match alookup nt_eqb x w with
    | None => []
    | Some ws =>
      flat_map (fun iq : nat * (sym * Q) =>
                  match rule_of tbl x (fst (snd iq)) with
                  | None => []
                  | Some r =>
                    match fst r with
                    | [] => [([fst iq], PLeaf (fst (snd iq)), snd r, snd (snd iq))]
                    | _ :: _ =>
                      map (fun e : sentry =>
                             (fst iq :: fst (fst (fst e)), PFun (fst (snd iq)) (snd (fst (fst e))), snd (fst e),
                              snd (snd iq) * snd e))
                          (dseqs (sdist f tbl w) (fst r) (snd r))
                    end
                  end)
               (enum_from 0 ws)
    end
  end.

Definition sample_dist (fuel : nat) (tbl : table) (w : wtable) (start : nt) : list entry :=
  sdist fuel tbl w start.

(** Probability that the sampler returns p: the total weight of the entries
    whose program is p. *)
Definition dist_mass (d : list entry) (p : prog) : Q :=
  qsum (map (fun e => if prog_eqb (e_prog e) p then e_prob e else 0) d).

(** Keys of the weight table: one sampler per non-terminal, its choices are
    the rules of that non-terminal in the same order (ProbDetGrammar.uniform,
    random, normalise and pcfg_from_samples build tags[S] by iterating
    rules[S]); Python dict keys are distinct. *)
Definition keys_ok (tbl : table) (w : wtable) : bool :=
  forallb (fun xw : nt * list (sym * Q) =>
             match rules_of tbl (fst xw) with
             | Some rs => list_eqb sym_eqb (map fst (snd xw)) (map fst rs)
             | None => false
             end) w
  && nodupb nt_eqb (map fst w) && nodupb nt_eqb (map fst tbl).

(** Programs without empty applications: Function(P, []) is accepted by
    membership and has the probability of P, but sample_program returns P
    itself for a rule without arguments. *)
Fixpoint normal (p : prog) : bool :=
  match p with
  | PLeaf _ => true
  | PFun _ l => negb (Nat.eqb (length l) 0) && forallb normal l
  end.

(** ---- value samplers (synth/generation/sampler.py) as index -> value maps ----
    LexiconSampler: weights default to 1/len(lexicon); sample() = lexicon[index]. *)
Definition lexicon_weights (m : nat) (probs : option (list Q)) : list Q :=
  match probs with
  | Some (p :: r) => p :: r
  | _ => repeat (1 / inject_Z (Z.of_nat m)) m
  end.
Definition lexicon_sample {X} (lexicon : list X) (d : X) (i : nat) : X := nth i lexicon d.

(** ListSampler: a list of probabilities means lengths 1..k; a list of
    (length, probability) pairs gives the lengths explicitly. *)
Definition list_lengths (probs : list Q) (pairs : option (list (nat * Q))) : list nat * list Q :=
  match pairs with
  | Some l => (map fst l, map snd l)
  | None => (map S (seq 0 (length probs)), probs)
  end.

(** sample_for(type) for a type nested [depth] times in List: the length is
    drawn first, then the elements from left to right (inner lists by the same
    sampler, base elements by the element sampler).  Two streams: indices of
    the length sampler and values of the element sampler. *)
Inductive ltree (X : Type) : Type := LLeaf (x : X) | LNode (l : list (ltree X)).
Arguments LLeaf {X} x.
Arguments LNode {X} l.

Section ListSampler.
  Context {X : Type}.
  Variable lengths : list nat.
  Section Elems.
    Variable rec : list nat -> list X -> option (ltree X * list nat * list X).
    Fixpoint list_elems (k : nat) (ls : list nat) (es : list X) : option (list (ltree X) * list nat * list X) :=
      match k with
      | O => Some ([], ls, es)
      | S k' =>
        match rec ls es with
        | Some (t, ls1, es1) =>
          match list_elems k' ls1 es1 with
          | Some (l, ls2, es2) => Some (t :: l, ls2, es2)
          | None => None
          end
        | None => None
        end
      end.
  End Elems.
  Fixpoint list_sample (depth : nat) (ls : list nat) (es : list X) : option (ltree X * list nat * list X) :=
    match depth with
    | O => match es with e :: es' => Some (LLeaf e, ls, es') | [] => None end
    | S d =>
      match ls with
      | [] => None
      | i :: ls' =>
        match nth_error lengths i with
        | None => None
        | Some len =>
          match list_elems (list_sample d) len ls' es with
          | Some (l, ls2, es2) => Some (LNode l, ls2, es2)
          | None => None
          end
        end
      end
    end.
End ListSampler.

(** UnionSampler: the sampler registered for the type, else the fallback. *)
Definition union_pick {S} (samplers : list (ty * S)) (fallback : option S) (t : ty) : option S :=
  match alookup ty_eqb t samplers with Some s => Some s | None => fallback end.

(** ---- unambiguous grammars (ProbUGrammar over a UCFG) ----
    Non-terminals are (type, U); a rule S -> P has a list of alternatives,
    each a list of argument non-terminals (UCFG.rules[S][P]).  tags[S] lists
    the symbols in the order of sampling_map[S] with, per symbol, the
    probabilities of its alternatives in the order of tags[S][P].values().

    sample_program(S, information): first sampler picks the symbol (weights:
    sum over the alternatives), the second one (only when the symbol takes
    arguments) the alternative, derive(information, S, P)[j] pushes the
    remaining argument non-terminals; after every sampled argument
    derive_all(information, current, arg)[0] pops the next non-terminal: for a
    UCFG every complete derivation of arg from current leaves
    (information[1:], information[0]), which is what the model uses. *)
Definition unt : Type := ty * state.
Definition unt_eqb (a b : unt) : bool := ty_eqb (fst a) (fst b) && sexp_eqb (snd a) (snd b).
Definition ualt : Type := list unt.
Definition urules : Type := list (unt * list (sym * list ualt)).
Definition utags : Type := list (unt * list (sym * list Q)).

Definition urule_of (rules : urules) (x : unt) (s : sym) : option (list ualt) :=
  match alookup unt_eqb x rules with Some rs => alookup sym_eqb s rs | None => None end.

Section UArgs.
  Variable rec : unt -> list unt -> list nat -> sres (prog * list nat).
  Fixpoint usample_args (k : nat) (info : list unt) (cur : option unt) (cs : list nat)
    : sres (list prog * list nat) :=
    match k with
    | O => SOk ([], cs)
    | S k' =>
      match cur with
      | None => SErr 6
      | Some c =>
        match rec c info cs with
        | SErr e => SErr e
        | SOk (a, cs1) =>
          match usample_args k' (tl info) (hd_error info) cs1 with
          | SOk (l, cs2) => SOk (a :: l, cs2)
          | SErr e => SErr e
          end
        end
      end
    end.
End UArgs.

Fixpoint usample_rec (fuel : nat) (rules : urules) (tags : utags) (x : unt) (info : list unt) (cs : list nat)
  : sres (prog * list nat) :=
  match fuel with
  | O => SErr 0
  | S f =>
    match alookup unt_eqb x tags with
    | None => SErr 1
    | Some ps =>
      match cs with
      | [] => SErr 2
      | i :: cs1 =>
        match nth_error ps i with
        | None => SErr 3
        | Some (s, _) =>
          match urule_of rules x s with
          | None => SErr 4
          | Some alts =>
            match length (hd [] alts) with
            | O => SOk (PLeaf s, cs1)
            | S _ as nargs =>
              match cs1 with
              | [] => SErr 2
              | j :: cs2 =>
                match nth_error alts j with
                | None => SErr 3
                | Some args =>
                  let info1 := tl (args ++ info) in
                  let cur1 := hd_error (args ++ info) in
                  match usample_args (usample_rec f rules tags) nargs info1 cur1 cs2 with
                  | SOk (l, cs3) => SOk (PFun s l, cs3)
                  | SErr e => SErr e
                  end
                end
              end
            end
          end
        end
      end
    end
  end.

(** sample_program(): S = _int2start[_start_sampler.sample()].  [starts] is
    _int2start: the keys of start_tags in the repaired code (the order of the
    weights handed to the start sampler), list(self.starts) - an arbitrary
    order of the set - in the pinned code. *)
Definition usample_program (fuel : nat) (rules : urules) (tags : utags) (starts : list unt) (cs : list nat)
  : sres (prog * list nat) :=
  match cs with
  | [] => SErr 2
  | i :: cs1 =>
    match nth_error starts i with
    | None => SErr 3
    | Some x => usample_rec fuel rules tags x [] cs1
    end
  end.

Fixpoint usample_many (fuel : nat) (rules : urules) (tags : utags) (starts : list unt) (k : nat) (cs : list nat)
  : list (sres prog) :=
  match k with
  | O => []
  | S k' =>
    match usample_program fuel rules tags starts cs with
    | SOk (p, cs') => SOk p :: usample_many fuel rules tags starts k' cs'
    | SErr e => [SErr e]
    end
  end.

(** Weight vectors handed to the samplers by init_sampling. *)
Definition u_symbol_weights (ps : list (sym * list Q)) : list Q := map (fun sq => qsum (snd sq)) ps.
Definition u_alt_weights (qs : list Q) : list Q := map (fun q => q / qsum qs) qs.

(** Exact distribution of usample_program when every index is drawn with the
    (normalised) weights of its sampler: start sampler, symbol sampler of the
    visited non-terminal, alternative sampler of the chosen symbol. *)
Definition uentry : Type := list nat * prog * Q.

Section USeqs.
  Variable rec : unt -> list uentry.
  Fixpoint useqs (args : list unt) : list (list nat * list prog * Q) :=
    match args with
    | [] => [([], [], 1)]
    | a :: ar =>
      flat_map (fun e1 : uentry =>
                  map (fun e2 : list nat * list prog * Q =>
                         (fst (fst e1) ++ fst (fst e2), snd (fst e1) :: snd (fst e2), snd e1 * snd e2))
                      (useqs ar))
               (rec a)
    end.
End USeqs.

Definition qnorm (l : list Q) : list Q := map (fun q => q / qsum l) l.

Fixpoint udist (fuel : nat) (rules : urules) (tags : utags) (x : unt) : list uentry :=
  match fuel with
  | O => []
  | S f =>
    match alookup unt_eqb x tags with
    | None => []
    | Some ps =>
      flat_map (fun iw : nat * ((sym * list Q) * Q) =>
                  let i := fst iw in
                  let s := fst (fst (snd iw)) in
                  let qs := snd (fst (snd iw)) in
                  let wsym := snd (snd iw) in
                  match urule_of rules x s with
                  | None => []
                  | Some alts =>
                    match length (hd [] alts) with
                    | O => [([i], PLeaf s, wsym)]
                    | S _ =>
                      flat_map (fun ja : nat * (ualt * Q) =>
                                  map (fun e : list nat * list prog * Q =>
                                         (i :: fst ja :: fst (fst e), PFun s (snd (fst e)), wsym * snd (snd ja) * snd e))
                                      (useqs (udist f rules tags) (fst (snd ja))))
                               (enum_from 0 (combine alts (qnorm qs)))
                    end
                  end)
               (enum_from 0 (combine ps (qnorm (u_symbol_weights ps))))
    end
  end.

Definition ustart_dist (fuel : nat) (rules : urules) (tags : utags) (stags : list (unt * Q)) : list uentry :=
  flat_map (fun ix : nat * ((unt * Q) * Q) =>
              map (fun e : uentry => (fst ix :: fst (fst e), snd (fst e), snd (snd ix) * snd e))
                  (udist fuel rules tags (fst (fst (snd ix)))))
           (enum_from 0 (combine stags (qnorm (map snd stags)))).

(** Well-formedness of a weighted unambiguous table along everything
    reachable from x: a sampler exists, every symbol has a rule whose
    alternatives all have the same number of arguments (arguments_length_for
    looks at the first one only), one non-negative weight per alternative with
    a positive sum, and every argument non-terminal is again well formed. *)
Definition uwf_sym (alts : list ualt) (qs : list Q) : bool :=
  negb (Nat.eqb (length alts) 0) && Nat.eqb (length alts) (length qs)
  && forallb (fun a : ualt => Nat.eqb (length a) (length (hd [] alts))) alts
  && forallb (fun q => Qle_bool 0 q) qs && negb (Qle_bool (qsum qs) 0).

Fixpoint uwf_at (fuel : nat) (rules : urules) (tags : utags) (x : unt) : bool :=
  match fuel with
  | O => false
  | S f =>
    match alookup unt_eqb x tags with
    | None => false
    | Some ps =>
      negb (Nat.eqb (length ps) 0) &&
      forallb (fun sq : sym * list Q =>
                 match urule_of rules x (fst sq) with
                 | None => false
                 | Some alts => uwf_sym alts (snd sq) && forallb (forallb (uwf_at f rules tags)) alts
                 end) ps
    end
  end.

Definition uwf_start (fuel : nat) (rules : urules) (tags : utags) (stags : list (unt * Q)) : bool :=
  negb (Nat.eqb (length stags) 0)
  && forallb (fun xq : unt * Q => Qle_bool 0 (snd xq) && uwf_at fuel rules tags (fst xq)) stags
  && negb (Qle_bool (qsum (map snd stags)) 0).
