(** Alias-table sampler of synth/utils/vose_polyfill.py (class PythonSampler,
    used as VoseSampler when the native vose package is absent), over exact
    rationals.

    Construction, line by line: avg = 1/n; indices 0..n-1 are distributed in
    index order over the two FIFO work lists small (w_i < avg) and large
    (w_i >= avg); while both are non-empty the FRONT of each is popped
    (less, more), proba[less] = w[less] * n, alias[less] = more, the weight
    array is MUTATED (w[more] += w[less] - avg) and more is appended at the
    BACK of the list it now belongs to; the two leftover loops set proba = 1,
    small first, then large.

    Repaired behaviour (proposed_fixes/C09-1, C09-2): the constructor first
    works on a normalised copy of the weights (as vose.Sampler does), and the
    draw compares the second uniform number with the column's probability.
    The behaviour of the pinned code is kept as build_pinned / sample_1_pinned. *)
From Coq Require Import ZArith NArith QArith Qround List Bool Lia.
From PS Require Import Base.ListX.
Import ListNotations.

Definition qnth (l : list Q) (k : nat) : Q := nth k l 0.
Definition sumq (l : list Q) : Q := fold_right Qplus 0 l.
Definition qlt_bool (a b : Q) : bool := negb (Qle_bool b a).
Definition qofnat (n : nat) : Q := inject_Z (Z.of_nat n).

(** l[k] = v (no effect when k is out of range). *)
Fixpoint upd {X} (l : list X) (k : nat) (v : X) : list X :=
  match l, k with
  | [], _ => []
  | _ :: r, O => v :: r
  | x :: r, S k' => x :: upd r k' v
  end.

Record state : Type := mkState {
  wts : list Q;          (* the (mutated) weight array *)
  small : list nat;
  large : list nat;
  proba : list Q;
  alias : list nat
}.

Definition init (w : list Q) : state :=
  let n := length w in
  let avg := 1 / qofnat n in
  {| wts := w;
     small := filter (fun i => negb (Qle_bool avg (qnth w i))) (seq 0 n);
     large := filter (fun i => Qle_bool avg (qnth w i)) (seq 0 n);
     proba := repeat 0 n;
     alias := repeat O n |}.

(** One iteration of the pairing loop; None when the loop condition fails. *)
Definition step (n : nat) (st : state) : option state :=
  match small st, large st with
  | less :: sm, more :: lg =>
    let nq := qofnat n in
    let avg := 1 / nq in
    let wl := qnth (wts st) less in
    let wm := Qred (qnth (wts st) more + wl - avg) in
    let p' := upd (proba st) less (Qred (wl * nq)) in
    let a' := upd (alias st) less more in
    let w' := upd (wts st) more wm in
    if Qle_bool avg wm
    then Some {| wts := w'; small := sm; large := lg ++ [more]; proba := p'; alias := a' |}
    else Some {| wts := w'; small := sm ++ [more]; large := lg; proba := p'; alias := a' |}
  | _, _ => None
  end.

(** The while loop.  Outer None = out of fuel (excluded by loop_fuel_ok in
    AliasProofs.v: every iteration removes one index for good). *)
Fixpoint loop (fuel n : nat) (st : state) : option state :=
  match step n st with
  | None => Some st
  | Some st' =>
    match fuel with
    | O => None
    | S f => loop f n st'
    end
  end.

Record table : Type := mkTable { t_proba : list Q; t_alias : list nat }.
Definition t_size (t : table) : nat := length (t_proba t).

(** The two leftover loops. *)
Definition finish (st : state) : table :=
  {| t_proba := fold_left (fun p c => upd p c 1) (small st ++ large st) (proba st);
     t_alias := alias st |}.

(** Construction on weights that are used as they are (the pinned
    constructor; also the core of the repaired one).  Returns the table and
    the final contents of the mutated weight array. *)
Definition build_raw (w : list Q) : option (table * list Q) :=
  match loop (length w) (length w) (init w) with
  | Some st => Some (finish st, wts st)
  | None => None
  end.

Definition normalised (w : list Q) : list Q := map (fun x => Qred (x / sumq w)) w.

(** Repaired constructor: normalised private copy. *)
Definition build (w : list Q) : option table :=
  match build_raw (normalised w) with Some (t, _) => Some t | None => None end.
Definition build_pinned (w : list Q) : option table :=
  match build_raw w with Some (t, _) => Some t | None => None end.

(** ---- the draw, as a function of the two uniform numbers it consumes ----
    col = int(rng.uniform(0, n)) = floor(u1 * n);  heads = u2 < proba[col]. *)
Definition column (n : nat) (u1 : Q) : nat := Z.to_nat (Qfloor (u1 * qofnat n)).

Definition sample_1 (t : table) (u1 u2 : Q) : nat :=
  let col := column (t_size t) u1 in
  if qlt_bool u2 (qnth (t_proba t) col) then col else nth col (t_alias t) O.

(** Pinned draw: a fair coin. *)
Definition sample_1_pinned (t : table) (u1 u2 : Q) : nat :=
  let col := column (t_size t) u1 in
  if qlt_bool u2 (1 # 2) then col else nth col (t_alias t) O.

(** ---- the induced distribution ----
    For (u1, u2) independent and uniform on [0,1): the column is c with
    probability 1/n, and within column c heads has probability
    clamp(proba c) = the length of [0, proba c) intersected with [0,1).
    draw_dist t i = sum over the columns c of
       1/n * ( [c = i] * clamp(proba c) + [alias c = i] * (1 - clamp(proba c)) ).
    C09_draw_measure (AliasProofs.v) justifies this definition: the set of
    points mapped to i is the disjoint union of the rectangles rects t i,
    whose areas add up to draw_dist t i. *)
Definition clamp (p : Q) : Q := if Qle_bool p 0 then 0 else if Qle_bool 1 p then 1 else p.
Definition ind (b : bool) : Q := if b then 1 else 0.

Definition col_mass (n : nat) (p : Q) (a : nat) (c i : nat) : Q :=
  (1 / qofnat n) * (ind (Nat.eqb c i) * p + ind (Nat.eqb a i) * (1 - p)).

Definition draw_dist (t : table) (i : nat) : Q :=
  sumq (map (fun c => col_mass (t_size t) (clamp (qnth (t_proba t) c)) (nth c (t_alias t) O) c i)
            (seq 0 (t_size t))).

Definition draw_dist_pinned (t : table) (i : nat) : Q :=
  sumq (map (fun c => col_mass (t_size t) (1 # 2) (nth c (t_alias t) O) c i) (seq 0 (t_size t))).

(** Rectangles [u1lo, u1hi) x [u2lo, u2hi) of the unit square mapped to i. *)
Definition rect : Type := (Q * Q) * (Q * Q).
Definition in_rect (r : rect) (u1 u2 : Q) : Prop :=
  fst (fst r) <= u1 /\ u1 < snd (fst r) /\ fst (snd r) <= u2 /\ u2 < snd (snd r).
Definition area (r : rect) : Q := (snd (fst r) - fst (fst r)) * (snd (snd r) - fst (snd r)).

Definition col_rects (n : nat) (p : Q) (a : nat) (c i : nat) : list rect :=
  let lo := qofnat c / qofnat n in
  let hi := qofnat (S c) / qofnat n in
  (if Nat.eqb c i then [((lo, hi), (0, p))] else []) ++
  (if Nat.eqb a i then [((lo, hi), (p, 1))] else []).

Definition rects (t : table) (i : nat) : list rect :=
  flat_map (fun c => col_rects (t_size t) (clamp (qnth (t_proba t) c)) (nth c (t_alias t) O) c i)
           (seq 0 (t_size t)).
