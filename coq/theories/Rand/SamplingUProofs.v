(** Proofs about the unambiguous-grammar part of Rand/Sampling.v
    (usample_rec / usample_program versus udist / ustart_dist):
    - u_prefix: a successful run reads a prefix of the choices and does not
      depend on what follows;
    - u_replay: every script of the exact distribution replays to its program;
    - u_mass_one: the exact distribution has total mass 1.
    Reuses the list / qsum helpers of Rand/SamplingProofs.v. *)
From Coq Require Import ZArith NArith QArith List Bool Lia Lqa Setoid Morphisms.
From PS Require Import Base.ListX Base.Sexp Base.Ty Base.Value Base.Prog Gram.Det Rand.Sampling Rand.SamplingProofs.
Import ListNotations.
Local Open Scope Q_scope.

(** ---- unfolding equations ---- *)
Lemma usample_args_S (srec : unt -> list unt -> list nat -> sres (prog * list nat)) k info cur cs :
  usample_args srec (S k) info cur cs =
  match cur with
  | None => SErr 6
  | Some c =>
    match srec c info cs with
    | SErr e => SErr e
    | SOk (a, cs1) =>
      match usample_args srec k (tl info) (hd_error info) cs1 with
      | SOk (l, cs2) => SOk (a :: l, cs2)
      | SErr e => SErr e
      end
    end
  end.
Proof. reflexivity. Qed.

Lemma usample_rec_S f rules tags x info cs :
  usample_rec (S f) rules tags x info cs =
  match alookup unt_eqb x tags with
  | None => SErr 1
  | Some ps =>
    match cs with
    | [] => SErr 2
    | i :: cs1 =>
      match nth_error ps i with
      | None => SErr 3
      | Some (s, _) =>
        match urule_of rules x s with
        | None => SErr 4
        | Some alts =>
          match length (hd [] alts) with
          | O => SOk (PLeaf s, cs1)
          | S n =>
            match cs1 with
            | [] => SErr 2
            | j :: cs2 =>
              match nth_error alts j with
              | None => SErr 3
              | Some args =>
                match usample_args (usample_rec f rules tags) (S n) (tl (args ++ info)) (hd_error (args ++ info)) cs2 with
                | SOk (l, cs3) => SOk (PFun s l, cs3)
                | SErr e => SErr e
                end
              end
            end
          end
        end
      end
    end
  end.
Proof. reflexivity. Qed.

Lemma udist_S f rules tags x :
  udist (S f) rules tags x =
  match alookup unt_eqb x tags with
  | None => []
  | Some ps =>
    flat_map (fun iw : nat * ((sym * list Q) * Q) =>
                match urule_of rules x (fst (fst (snd iw))) with
                | None => []
                | Some alts =>
                  match length (hd [] alts) with
                  | O => [([fst iw], PLeaf (fst (fst (snd iw))), snd (snd iw))]
                  | S _ =>
                    flat_map (fun ja : nat * (ualt * Q) =>
                                map (fun e : list nat * list prog * Q =>
                                       (fst iw :: fst ja :: fst (fst e), PFun (fst (fst (snd iw))) (snd (fst e)),
                                        snd (snd iw) * snd (snd ja) * snd e))
                                    (useqs (udist f rules tags) (fst (snd ja))))
                             (enum_from 0 (combine alts (qnorm (snd (fst (snd iw))))))
                  end
                end)
             (enum_from 0 (combine ps (qnorm (u_symbol_weights ps))))
  end.
Proof. reflexivity. Qed.

(** ---- TARGET: u_prefix ---- *)
Lemma usample_args_prefix (srec : unt -> list unt -> list nat -> sres (prog * list nat)) :
  (forall x info cs p rest, srec x info cs = SOk (p, rest) ->
     exists used, cs = used ++ rest /\ forall rest', srec x info (used ++ rest') = SOk (p, rest')) ->
  forall k info cur cs l rest, usample_args srec k info cur cs = SOk (l, rest) ->
    exists used, cs = used ++ rest /\
      forall rest', usample_args srec k info cur (used ++ rest') = SOk (l, rest').
Proof.
  intros Hrec; induction k as [|k IHk]; intros info cur cs l rest H.
  - cbn in H. inversion H; subst. exists []. split; reflexivity.
  - rewrite usample_args_S in H. destruct cur as [c|]; [|discriminate].
    destruct (srec c info cs) as [[a cs1]|e] eqn:E; [|discriminate].
    destruct (usample_args srec k (tl info) (hd_error info) cs1) as [[l' cs2]|e] eqn:Es; [|discriminate].
    inversion H; subst.
    destruct (Hrec _ _ _ _ _ E) as [u1 [E1 H1]].
    destruct (IHk _ _ _ _ _ Es) as [u2 [E2 H2]].
    exists (u1 ++ u2). split; [rewrite <- app_assoc; congruence|].
    intros rest'. rewrite usample_args_S, <- app_assoc, H1, H2. reflexivity.
Qed.

Theorem u_prefix : forall fuel rules tags x info cs p rest,
  usample_rec fuel rules tags x info cs = SOk (p, rest) ->
  exists used, cs = used ++ rest /\
    forall rest', usample_rec fuel rules tags x info (used ++ rest') = SOk (p, rest').
Proof.
  induction fuel as [|f IHf]; intros rules tags x info cs p rest H; [discriminate|].
  rewrite usample_rec_S in H.
  destruct (alookup unt_eqb x tags) as [ps|] eqn:Ep; [|discriminate].
  destruct cs as [|i cs1]; [discriminate|].
  destruct (nth_error ps i) as [[s qs]|] eqn:En; [|discriminate].
  destruct (urule_of rules x s) as [alts|] eqn:Er; [|discriminate].
  destruct (length (hd [] alts)) as [|n] eqn:El.
  - inversion H; subst. exists [i]. split; [reflexivity|].
    intros rest'. cbn [app]. rewrite usample_rec_S, Ep, En, Er, El. reflexivity.
  - destruct cs1 as [|j cs2]; [discriminate|].
    destruct (nth_error alts j) as [args|] eqn:Ea; [|discriminate].
    destruct (usample_args (usample_rec f rules tags) (S n) (tl (args ++ info)) (hd_error (args ++ info)) cs2)
      as [[l cs3]|e] eqn:Es; [|discriminate].
    inversion H; subst.
    destruct (usample_args_prefix (usample_rec f rules tags)
                (fun x info cs p rest => IHf rules tags x info cs p rest) _ _ _ _ _ _ Es) as [u [Eu Hu]].
    exists (i :: j :: u). split; [cbn; congruence|].
    intros rest'. cbn [app]. rewrite usample_rec_S, Ep, En, Er, El, Ea, Hu. reflexivity.
Qed.

(** ---- list helpers ---- *)
Lemma nth_error_combine {X Y} (l : list X) : forall (l' : list Y) i a b,
  nth_error (combine l l') i = Some (a, b) -> nth_error l i = Some a /\ nth_error l' i = Some b.
Proof.
  induction l as [|x r IH]; intros [|y r'] [|i] a b H; cbn in *; try discriminate.
  - inversion H; subst; split; reflexivity.
  - apply IH, H.
Qed.

Lemma map_snd_combine {X Y} (l : list X) : forall (l' : list Y),
  length l = length l' -> map snd (combine l l') = l'.
Proof.
  induction l as [|x r IH]; intros [|y r'] H; cbn in *; try discriminate; [reflexivity|].
  f_equal. apply IH. lia.
Qed.

Lemma qnorm_length l : length (qnorm l) = length l.
Proof. unfold qnorm; apply map_length. Qed.

Lemma snd_snd_enum_combine {X} (l : list X) (ws : list Q) :
  length l = length ws ->
  map (fun iw : nat * (X * Q) => snd (snd iw)) (enum_from 0 (combine l ws)) = ws.
Proof.
  intros H. rewrite <- (map_map snd snd), map_snd_enum. apply map_snd_combine, H.
Qed.

(** ---- what uwf_sym / uwf_at give ---- *)
Lemma uwf_sym_inv alts qs : uwf_sym alts qs = true ->
  length alts = length qs /\
  (forall a, In a alts -> length a = length (hd [] alts)) /\
  (forall q, In q qs -> 0 <= q) /\ 0 < qsum qs.
Proof.
  unfold uwf_sym. rewrite !andb_true_iff, !negb_true_iff, !forallb_forall.
  intros [[[[_ H1] H2] H3] H4]. apply Nat.eqb_eq in H1. repeat split.
  - exact H1.
  - intros a Ha. apply Nat.eqb_eq, H2, Ha.
  - intros q Hq. apply Qle_bool_iff, H3, Hq.
  - apply Qnot_le_lt. intros Hle. apply Qle_bool_iff in Hle. congruence.
Qed.

Lemma uwf_at_inv f rules tags x : uwf_at (S f) rules tags x = true ->
  exists ps, alookup unt_eqb x tags = Some ps /\ ps <> [] /\
    forall s qs, In (s, qs) ps ->
      exists alts, urule_of rules x s = Some alts /\ uwf_sym alts qs = true /\
        forall args a, In args alts -> In a args -> uwf_at f rules tags a = true.
Proof.
  cbn [uwf_at]. destruct (alookup unt_eqb x tags) as [ps|]; [|discriminate].
  rewrite andb_true_iff, negb_true_iff, forallb_forall. intros [H0 H].
  exists ps. split; [reflexivity|]. split; [intros ->; discriminate|].
  intros s qs Hin. specialize (H _ Hin). cbn [fst snd] in H.
  destruct (urule_of rules x s) as [alts|]; [|discriminate].
  apply andb_true_iff in H. destruct H as [H1 H2].
  exists alts. repeat split; auto.
  intros args a Ha Hb. rewrite forallb_forall in H2. specialize (H2 _ Ha).
  rewrite forallb_forall in H2. exact (H2 _ Hb).
Qed.

(** ---- inversion of the enumeration ---- *)
Lemma in_useqs_cons (rec : unt -> list uentry) a ar (e : list nat * list prog * Q) :
  In e (useqs rec (a :: ar)) <->
  exists (e1 : uentry) e2, In e1 (rec a) /\ In e2 (useqs rec ar) /\
    e = (fst (fst e1) ++ fst (fst e2), snd (fst e1) :: snd (fst e2), snd e1 * snd e2).
Proof.
  cbn [useqs]. rewrite in_flat_map. split.
  - intros [e1 [H1 H2]]. apply in_map_iff in H2. destruct H2 as [e2 [<- H2]]. exists e1, e2. auto.
  - intros [e1 [e2 [H1 [H2 ->]]]]. exists e1. split; [exact H1|]. apply in_map_iff. exists e2. auto.
Qed.

Lemma in_udist_S f rules tags x (e : uentry) :
  In e (udist (S f) rules tags x) ->
  exists ps i s qs wsym alts,
    alookup unt_eqb x tags = Some ps /\
    nth_error ps i = Some (s, qs) /\
    urule_of rules x s = Some alts /\
    ((length (hd [] alts) = 0%nat /\ e = ([i], PLeaf s, wsym)) \/
     (length (hd [] alts) <> 0%nat /\
      exists j args qa e', nth_error alts j = Some args /\
        In e' (useqs (udist f rules tags) args) /\
        e = (i :: j :: fst (fst e'), PFun s (snd (fst e')), wsym * qa * snd e'))).
Proof.
  rewrite udist_S. destruct (alookup unt_eqb x tags) as [ps|]; [|intros []].
  rewrite in_flat_map. intros [[i [[s qs] wsym]] [Hin He]]. cbn [fst snd] in He.
  apply in_enum0, nth_error_combine in Hin. destruct Hin as [Hn _].
  destruct (urule_of rules x s) as [alts|] eqn:Er; [|destruct He].
  exists ps, i, s, qs, wsym, alts. repeat split; auto.
  destruct (length (hd [] alts)) as [|n] eqn:El.
  - left. destruct He as [<-|[]]. split; reflexivity.
  - right. split; [discriminate|].
    apply in_flat_map in He. destruct He as [[j [args qa]] [Hj He]]. cbn [fst snd] in He.
    apply in_enum0, nth_error_combine in Hj. destruct Hj as [Hj _].
    apply in_map_iff in He. destruct He as [e' [<- He']].
    exists j, args, qa, e'. repeat split; auto.
Qed.

(** ---- TARGET: u_replay ---- *)
Lemma useqs_replay (rec : unt -> list uentry) (srec : unt -> list unt -> list nat -> sres (prog * list nat)) :
  forall args,
  (forall a, In a args -> forall e1 : uentry, In e1 (rec a) -> forall info rest,
     srec a info (fst (fst e1) ++ rest) = SOk (snd (fst e1), rest)) ->
  forall e, In e (useqs rec args) -> forall info rest,
    usample_args srec (length args) (tl (args ++ info)) (hd_error (args ++ info)) (fst (fst e) ++ rest)
    = SOk (snd (fst e), rest).
Proof.
  induction args as [|a ar IH]; intros Hrec e He info rest.
  - destruct He as [<-|[]]. reflexivity.
  - apply in_useqs_cons in He. destruct He as [e1 [e2 [H1 [H2 ->]]]].
    cbn [fst snd length app tl hd_error]. rewrite usample_args_S, <- app_assoc.
    rewrite (Hrec a (or_introl eq_refl) e1 H1).
    rewrite (IH (fun a' Ha' => Hrec a' (or_intror Ha')) e2 H2 info rest). reflexivity.
Qed.

Lemma udist_replay rules tags : forall f x, uwf_at f rules tags x = true ->
  forall e : uentry, In e (udist f rules tags x) -> forall info rest,
    usample_rec f rules tags x info (fst (fst e) ++ rest) = SOk (snd (fst e), rest).
Proof.
  induction f as [|f IHf]; intros x Hwf e He info rest; [discriminate|].
  destruct (uwf_at_inv _ _ _ _ Hwf) as [ps [Hps [_ Hsym]]].
  apply in_udist_S in He. destruct He as [ps' [i [s [qs [wsym [alts [Hps' [Hn [Hr H]]]]]]]]].
  rewrite Hps in Hps'. inversion Hps'; subst ps'. clear Hps'.
  destruct (Hsym _ _ (nth_error_In _ _ Hn)) as [alts' [Hr' [Hws Hargs]]].
  rewrite Hr in Hr'. inversion Hr'; subst alts'. clear Hr'.
  apply uwf_sym_inv in Hws. destruct Hws as [_ [Hlen _]].
  destruct H as [[El ->]|[El [j [args [qa [e' [Hj [He' ->]]]]]]]]; cbn [fst snd app];
    rewrite usample_rec_S, Hps, Hn, Hr.
  - rewrite El. reflexivity.
  - pose proof (nth_error_In _ _ Hj) as Hin.
    destruct (length (hd [] alts)) as [|n] eqn:El'; [congruence|].
    rewrite Hj, <- (Hlen _ Hin).
    rewrite (useqs_replay (udist f rules tags) (usample_rec f rules tags) args
               (fun a Ha e1 H1 => IHf a (Hargs _ _ Hin Ha) e1 H1) e' He' info rest).
    reflexivity.
Qed.

Lemma uwf_start_inv fuel rules tags stags : uwf_start fuel rules tags stags = true ->
  stags <> [] /\
  (forall x q, In (x, q) stags -> 0 <= q /\ uwf_at fuel rules tags x = true) /\
  0 < qsum (map snd stags).
Proof.
  unfold uwf_start. rewrite !andb_true_iff, !negb_true_iff, forallb_forall.
  intros [[H0 H1] H2]. repeat split.
  - intros ->; discriminate.
  - specialize (H1 _ H). cbn [fst snd] in H1. apply andb_true_iff in H1. apply Qle_bool_iff, H1.
  - specialize (H1 _ H). cbn [fst snd] in H1. apply andb_true_iff in H1. apply H1.
  - apply Qnot_le_lt. intros Hle. apply Qle_bool_iff in Hle. congruence.
Qed.

Theorem u_replay : forall fuel rules tags stags,
  uwf_start fuel rules tags stags = true ->
  forall e, In e (ustart_dist fuel rules tags stags) -> forall rest,
    usample_program fuel rules tags (map fst stags) (fst (fst e) ++ rest) = SOk (snd (fst e), rest).
Proof.
  intros fuel rules tags stags Hwf e He rest.
  apply uwf_start_inv in Hwf. destruct Hwf as [_ [Hst _]].
  unfold ustart_dist in He. apply in_flat_map in He.
  destruct He as [[i [[x qx] wq]] [Hin He]]. cbn [fst snd] in He.
  apply in_map_iff in He. destruct He as [e' [<- He']]. cbn [fst snd app].
  apply in_enum0, nth_error_combine in Hin. destruct Hin as [Hi _].
  unfold usample_program. rewrite (map_nth_error fst _ _ Hi). cbn [fst].
  apply udist_replay; [|exact He']. apply (Hst _ _ (nth_error_In _ _ Hi)).
Qed.

(** ---- TARGET: u_mass_one ---- *)
Lemma qsum_map_div (s : Q) l : qsum (map (fun q => q / s) l) == qsum l / s.
Proof.
  unfold Qdiv. induction l as [|x r IH]; cbn [map]; rewrite ?qsum_nil, ?qsum_cons; [ring | rewrite IH; ring].
Qed.

Lemma qnorm_sum l : 0 < qsum l -> qsum (qnorm l) == 1.
Proof.
  intros H. unfold qnorm. rewrite qsum_map_div. unfold Qdiv. apply Qmult_inv_r.
  intros E. rewrite E in H. exact (Qlt_irrefl _ H).
Qed.

Lemma qsum_pos l : l <> [] -> (forall x, In x l -> 0 < x) -> 0 < qsum l.
Proof.
  induction l as [|x r IH]; intros Hne H; [congruence|].
  rewrite qsum_cons. assert (0 < x) by (apply H; left; reflexivity).
  destruct r as [|y r'].
  - rewrite qsum_nil. lra.
  - assert (0 < qsum (y :: r')) by (apply IH; [discriminate | intros z Hz; apply H; right; exact Hz]). lra.
Qed.

Lemma useqs_sum (rec : unt -> list uentry) : forall args,
  (forall a, In a args -> qsum (map (fun e : uentry => snd e) (rec a)) == 1) ->
  qsum (map (fun e : list nat * list prog * Q => snd e) (useqs rec args)) == 1.
Proof.
  induction args as [|a ar IH]; intros H.
  - cbn [useqs map snd]. rewrite qsum_cons, qsum_nil. ring.
  - cbn [useqs]. rewrite qsum_map_flat_map.
    rewrite <- (H a (or_introl eq_refl)).
    apply qsum_map_ext_in. intros e1 H1. rewrite map_map. cbn [snd].
    rewrite (qsum_map_scal (snd e1) (fun e2 : list nat * list prog * Q => snd e2)).
    rewrite (IH (fun a' Ha' => H a' (or_intror Ha'))). ring.
Qed.

Lemma udist_sum rules tags : forall f x, uwf_at f rules tags x = true ->
  qsum (map (fun e : uentry => snd e) (udist f rules tags x)) == 1.
Proof.
  induction f as [|f IHf]; intros x Hwf; [discriminate|].
  destruct (uwf_at_inv _ _ _ _ Hwf) as [ps [Hps [Hne Hsym]]].
  rewrite udist_S, Hps, qsum_map_flat_map.
  assert (Hpos : 0 < qsum (u_symbol_weights ps)).
  { apply qsum_pos.
    - unfold u_symbol_weights. destruct ps; [congruence|discriminate].
    - intros q Hq. unfold u_symbol_weights in Hq. apply in_map_iff in Hq.
      destruct Hq as [[s qs] [<- Hin]]. cbn [snd].
      destruct (Hsym _ _ Hin) as [alts [_ [Hws _]]]. apply uwf_sym_inv in Hws. apply Hws. }
  transitivity (qsum (map (fun iw : nat * ((sym * list Q) * Q) => snd (snd iw))
                          (enum_from 0 (combine ps (qnorm (u_symbol_weights ps))))));
    [|rewrite snd_snd_enum_combine;
      [apply qnorm_sum, Hpos | rewrite qnorm_length; unfold u_symbol_weights; rewrite map_length; reflexivity]].
  apply qsum_map_ext_in. intros [i [[s qs] wsym]] Hin. cbn [fst snd].
  apply in_enum_snd in Hin. cbn [snd] in Hin. apply in_combine_l in Hin.
  destruct (Hsym _ _ Hin) as [alts [Hr [Hws Hargs]]]. rewrite Hr.
  apply uwf_sym_inv in Hws. destruct Hws as [Hlen [_ [_ Hqs]]].
  destruct (length (hd [] alts)) as [|n].
  - cbn [map snd]. rewrite qsum_cons, qsum_nil. ring.
  - rewrite qsum_map_flat_map.
    transitivity (qsum (map (fun ja : nat * (ualt * Q) => wsym * snd (snd ja))
                            (enum_from 0 (combine alts (qnorm qs))))).
    + apply qsum_map_ext_in. intros [j [args qa]] Hj. cbn [fst snd].
      apply in_enum_snd in Hj. cbn [snd] in Hj. apply in_combine_l in Hj.
      rewrite map_map. cbn [snd].
      rewrite (qsum_map_scal (wsym * qa) (fun e : list nat * list prog * Q => snd e)).
      rewrite (useqs_sum (udist f rules tags) args (fun a Ha => IHf a (Hargs _ _ Hj Ha))). ring.
    + rewrite (qsum_map_scal wsym (fun ja : nat * (ualt * Q) => snd (snd ja))).
      rewrite (snd_snd_enum_combine alts (qnorm qs)); [|rewrite qnorm_length; exact Hlen].
      rewrite (qnorm_sum _ Hqs). ring.
Qed.

Theorem u_mass_one : forall fuel rules tags stags,
  uwf_start fuel rules tags stags = true ->
  qsum (map (fun e : uentry => snd e) (ustart_dist fuel rules tags stags)) == 1.
Proof.
  intros fuel rules tags stags Hwf.
  apply uwf_start_inv in Hwf. destruct Hwf as [_ [Hst Hpos]].
  unfold ustart_dist. rewrite qsum_map_flat_map.
  transitivity (qsum (map (fun ix : nat * ((unt * Q) * Q) => snd (snd ix))
                          (enum_from 0 (combine stags (qnorm (map snd stags))))));
    [|rewrite snd_snd_enum_combine;
      [apply qnorm_sum, Hpos | rewrite qnorm_length, map_length; reflexivity]].
  apply qsum_map_ext_in. intros [i [[x qx] wq]] Hin. cbn [fst snd].
  apply in_enum_snd in Hin. cbn [snd] in Hin. apply in_combine_l in Hin.
  rewrite map_map. cbn [snd].
  rewrite (qsum_map_scal wq (fun e : uentry => snd e)).
  rewrite (udist_sum rules tags fuel x (proj2 (Hst _ _ Hin))). ring.
Qed.

(** ---- a concrete well-formed table: two start symbols, a binary symbol
    with two alternatives, leaves ----
      X0 -> f(X1, X1) [1/4] | f(X1, X2) [1/4] | a [1/2]
      X1 -> a [1/3] | b [2/3]          X2 -> b [1]
      starts: X0 [1/2], X1 [1/2] *)
Definition uex_t : ty := TPrim 0%N.
Definition uex_X0 : unt := (uex_t, A 0%Z).
Definition uex_X1 : unt := (uex_t, A 1%Z).
Definition uex_X2 : unt := (uex_t, A 2%Z).
Definition uex_f : sym := SPrim 0%N (TArrow uex_t (TArrow uex_t uex_t)).
Definition uex_a : sym := SPrim 1%N uex_t.
Definition uex_b : sym := SPrim 2%N uex_t.
Definition uex_rules : urules :=
  [ (uex_X0, [ (uex_f, [[uex_X1; uex_X1]; [uex_X1; uex_X2]]); (uex_a, [[]]) ]);
    (uex_X1, [ (uex_a, [[]]); (uex_b, [[]]) ]);
    (uex_X2, [ (uex_b, [[]]) ]) ].
Definition uex_tags : utags :=
  [ (uex_X0, [ (uex_f, [1 # 4; 1 # 4]); (uex_a, [1 # 2]) ]);
    (uex_X1, [ (uex_a, [1 # 3]); (uex_b, [2 # 3]) ]);
    (uex_X2, [ (uex_b, [1]) ]) ].
Definition uex_stags : list (unt * Q) := [ (uex_X0, 1 # 2); (uex_X1, 1 # 2) ].

Example uex_wf : uwf_start 2 uex_rules uex_tags uex_stags = true.
Proof. vm_compute. reflexivity. Qed.

Example uex_scripts :
  map (fun e : uentry => (fst (fst e), snd (fst e))) (ustart_dist 2 uex_rules uex_tags uex_stags) =
  [ ([0; 0; 0; 0; 0]%nat, PFun uex_f [PLeaf uex_a; PLeaf uex_a]);
    ([0; 0; 0; 0; 1]%nat, PFun uex_f [PLeaf uex_a; PLeaf uex_b]);
    ([0; 0; 0; 1; 0]%nat, PFun uex_f [PLeaf uex_b; PLeaf uex_a]);
    ([0; 0; 0; 1; 1]%nat, PFun uex_f [PLeaf uex_b; PLeaf uex_b]);
    ([0; 0; 1; 0; 0]%nat, PFun uex_f [PLeaf uex_a; PLeaf uex_b]);
    ([0; 0; 1; 1; 0]%nat, PFun uex_f [PLeaf uex_b; PLeaf uex_b]);
    ([0; 1]%nat, PLeaf uex_a);
    ([1; 0]%nat, PLeaf uex_a);
    ([1; 1]%nat, PLeaf uex_b) ].
Proof. vm_compute. reflexivity. Qed.

Example uex_mass_one :
  qsum (map (fun e : uentry => snd e) (ustart_dist 2 uex_rules uex_tags uex_stags)) == 1.
Proof. exact (u_mass_one 2 uex_rules uex_tags uex_stags uex_wf). Qed.
