(** Proofs about Rand/Sampling.v (deterministic table grammars).  TARGETS, to be
    proved without any axiom (statements may be strengthened, not weakened
    without saying so):

Lemma derive_all_contains tbl : forall p here info st,
  contains_rec tbl p here info = Some st -> derive_all tbl p here info = Some st.

Theorem members_only : forall fuel tbl w x info cs p rest,
  sample_rec fuel tbl w x info cs = SOk (p, rest) ->
  (exists st, contains_rec tbl p (At x) info = Some st) /\ normal p = true.

Corollary members_only_start : forall fuel tbl w start cs p rest,
  sample_program fuel tbl w start cs = SOk (p, rest) -> contains tbl start p = true.

Theorem sample_prefix : forall fuel tbl w x info cs p rest,
  sample_rec fuel tbl w x info cs = SOk (p, rest) ->
  exists used, cs = used ++ rest /\
    forall rest', sample_rec fuel tbl w x info (used ++ rest') = SOk (p, rest').

Theorem program_distribution fuel tbl w start :
  wf_at_lang fuel tbl w start = true -> keys_ok tbl w = true ->
  let D := sample_dist fuel tbl w start in
  (forall e, In e D -> forall rest,
       sample_program fuel tbl w start (e_script e ++ rest) = SOk (e_prog e, rest)) /\
  (forall p, normal p = true -> dist_mass D p == probability tbl w start p) /\
  qsum (map e_prob D) == 1 /\
  NoDup (map e_prog D).
*)
From Coq Require Import ZArith NArith QArith List Bool Lia Lqa Permutation Setoid Morphisms.
From PS Require Import Base.ListX Base.Sexp Base.Ty Base.Value Base.Prog Gram.Det Rand.Sampling.
Import ListNotations.
Local Open Scope Q_scope.

(** ---- basic helpers ---- *)
Lemma nt_eqb_spec (a b : nt) : nt_eqb a b = true <-> a = b.
Proof.
  destruct a as [[t s] y], b as [[t' s'] y']; unfold nt_eqb; cbn [fst snd].
  rewrite !andb_true_iff, ty_eqb_spec, !sexp_eqb_spec.
  split; [intros [[-> ->] ->]; reflexivity | intros E; inversion E; auto].
Qed.

Section AL.
  Context {K V : Type} (keqb : K -> K -> bool).
  Hypothesis Hs : forall a b, keqb a b = true <-> a = b.

  Lemma alookup_In k (v : V) l : alookup keqb k l = Some v -> In (k, v) l.
  Proof.
    induction l as [|[k' v'] r IH]; cbn; [discriminate|].
    destruct (keqb k k') eqn:E.
    - apply Hs in E; subst k'. intros [= ->]; left; reflexivity.
    - intros H; right; apply IH, H.
  Qed.

  Lemma alookup_nodup k (v : V) l : NoDup (map fst l) -> In (k, v) l -> alookup keqb k l = Some v.
  Proof.
    induction l as [|[k' v'] r IH]; cbn; intros Hn H; [destruct H|]. destruct H as [H|H].
    - inversion H; subst. rewrite (keqb_refl keqb Hs); reflexivity.
    - inversion Hn as [|? ? Hx Hr]; subst.
      destruct (keqb k k') eqn:E.
      + apply Hs in E; subst k'. exfalso; apply Hx. apply (in_map fst) in H; exact H.
      + apply IH; assumption.
  Qed.

  Lemma alookup_some_of_in k (l : list (K * V)) : In k (map fst l) -> exists v, alookup keqb k l = Some v.
  Proof.
    induction l as [|[k' v'] r IH]; cbn; [tauto|].
    intros H. destruct (keqb k k') eqn:E; [eexists; reflexivity|].
    destruct H as [H|H]; [subst k'; rewrite (keqb_refl keqb Hs) in E; discriminate | apply IH, H].
  Qed.
End AL.

Lemma in_enum_from {X} (l : list X) : forall k i x,
  In (i, x) (enum_from k l) <-> (k <= i)%nat /\ nth_error l (i - k) = Some x.
Proof.
  induction l as [|x0 r IH]; intros k i x; cbn [enum_from In].
  - split; [tauto|]. intros [_ H]; destruct (i - k)%nat; discriminate.
  - split.
    + intros [E|H].
      * inversion E; subst. split; [lia|]. rewrite Nat.sub_diag; reflexivity.
      * apply IH in H. destruct H as [H1 H2]. split; [lia|].
        replace (i - k)%nat with (S (i - S k)) by lia. exact H2.
    + intros [H1 H2]. destruct (Nat.eq_dec i k) as [->|Hn].
      * rewrite Nat.sub_diag in H2; cbn in H2. left; congruence.
      * right; apply IH. split; [lia|].
        replace (i - k)%nat with (S (i - S k)) in H2 by lia. exact H2.
Qed.

Lemma in_enum0 {X} (l : list X) i x : In (i, x) (enum_from 0 l) <-> nth_error l i = Some x.
Proof. rewrite in_enum_from, Nat.sub_0_r. split; [tauto | intros H; split; [lia|exact H]]. Qed.

Lemma in_enum_snd {X} (l : list X) : forall k iq, In iq (enum_from k l) -> In (snd iq) l.
Proof.
  induction l as [|x r IH]; intros k iq; cbn; [tauto|].
  intros [<-|H]; [left; reflexivity | right; eapply IH, H].
Qed.

Lemma map_snd_enum {X} (l : list X) : forall k, map snd (enum_from k l) = l.
Proof. induction l as [|x r IH]; intros k; cbn; [reflexivity | rewrite IH; reflexivity]. Qed.

Lemma NoDup_app_intro {X} (l l' : list X) :
  NoDup l -> NoDup l' -> (forall x, In x l -> ~ In x l') -> NoDup (l ++ l').
Proof.
  induction l as [|x r IH]; cbn; intros H1 H2 H3; [exact H2|].
  inversion H1 as [|? ? Hx Hr]; subst. constructor.
  - rewrite in_app_iff. intros [H|H]; [exact (Hx H) | exact (H3 x (or_introl eq_refl) H)].
  - apply IH; [exact Hr | exact H2 |]. intros y Hy; apply H3; right; exact Hy.
Qed.

Lemma NoDup_map_inj' {X Y Z} (f : X -> Y) (g : X -> Z) (l : list X) :
  (forall x y, f x = f y -> g x = g y) -> NoDup (map g l) -> NoDup (map f l).
Proof.
  intros H; induction l as [|x r IH]; cbn; intros Hn; [constructor|].
  inversion Hn as [|? ? Hx Hr]; subst. constructor; [|apply IH, Hr].
  intros Hin. apply in_map_iff in Hin. destruct Hin as [z [Hz Hin]].
  apply H in Hz. apply Hx. rewrite <- Hz. apply in_map, Hin.
Qed.

(** ---- named copies of the inner loops of Det.v / Sampling.v ---- *)
Definition cgo (tbl : table) :=
  fix go (args : list prog) (st : list argnt * pos) {struct args} : option (list argnt * pos) :=
    match args with
    | [] => Some st
    | a :: ar =>
      match contains_rec tbl a (snd st) (fst st) with
      | Some st' => go ar st'
      | None => None
      end
    end.

Definition dgo (tbl : table) :=
  fix go (args : list prog) (st : list argnt * pos) {struct args} : option (list argnt * pos) :=
    match args with
    | [] => Some st
    | a :: ar => match derive_all tbl a (snd st) (fst st) with Some st' => go ar st' | None => None end
    end.

Definition pgo (tbl : table) (w : wtable) :=
  fix go (args : list prog) (acc : Q * (list argnt * pos)) {struct args} : option (Q * (list argnt * pos)) :=
    match args with
    | [] => Some acc
    | a :: ar =>
      match prob_rec tbl w a (snd (snd acc)) (fst (snd acc)) with
      | Some (qa, st') => go ar (fst acc * qa, st')
      | None => None
      end
    end.

Lemma contains_rec_fun tbl f args x info :
  contains_rec tbl (PFun f args) (At x) info =
  match rule_of tbl x f with
  | Some r => if Nat.eqb (length (fst r)) (length args) then cgo tbl args (derive info r) else None
  | None => None
  end.
Proof. reflexivity. Qed.

Lemma contains_rec_leaf tbl s x info :
  contains_rec tbl (PLeaf s) (At x) info =
  match rule_of tbl x s with
  | Some r => if Nat.eqb (length (fst r)) 0 then Some (derive info r) else None
  | None => None
  end.
Proof. reflexivity. Qed.

Lemma derive_all_fun tbl f args x info :
  derive_all tbl (PFun f args) (At x) info =
  match rule_of tbl x f with
  | Some r => dgo tbl args (derive info r)
  | None => None
  end.
Proof. reflexivity. Qed.

Lemma prob_rec_fun tbl w f args x info :
  prob_rec tbl w (PFun f args) (At x) info =
  match rule_of tbl x f, weight_of w x f with
  | Some r, Some q => pgo tbl w args (q, derive info r)
  | _, _ => None
  end.
Proof. reflexivity. Qed.

Lemma prob_rec_leaf tbl w s x info :
  prob_rec tbl w (PLeaf s) (At x) info =
  match rule_of tbl x s, weight_of w x s with
  | Some r, Some q => Some (q, derive info r)
  | _, _ => None
  end.
Proof. reflexivity. Qed.

Lemma cgo_cons tbl a ar st :
  cgo tbl (a :: ar) st =
  match contains_rec tbl a (snd st) (fst st) with Some st' => cgo tbl ar st' | None => None end.
Proof. reflexivity. Qed.

Lemma dgo_cons tbl a ar st :
  dgo tbl (a :: ar) st =
  match derive_all tbl a (snd st) (fst st) with Some st' => dgo tbl ar st' | None => None end.
Proof. reflexivity. Qed.

Lemma pgo_cons tbl w a ar acc :
  pgo tbl w (a :: ar) acc =
  match prob_rec tbl w a (snd (snd acc)) (fst (snd acc)) with
  | Some (qa, st') => pgo tbl w ar (fst acc * qa, st')
  | None => None
  end.
Proof. reflexivity. Qed.

Lemma derive_cons (info : list argnt) t sa (ar : list argnt) y :
  derive info ((t, sa) :: ar, y) = (@app argnt ar info, At (t, sa, y)).
Proof. reflexivity. Qed.

Lemma derive_pop (info ar : list argnt) y : derive (@app argnt ar info) ([], y) = derive info (ar, y).
Proof. reflexivity. Qed.

Lemma derive_eta info (r : rhs) : fst r = [] -> derive info r = derive info ([], snd r).
Proof. destruct r as [a y]; cbn [fst snd]; intros ->; reflexivity. Qed.

(** ---- TARGET 1 ---- *)
Lemma derive_all_contains tbl : forall p here info st,
  contains_rec tbl p here info = Some st -> derive_all tbl p here info = Some st.
Proof.
  induction p as [s|f l IH] using prog_ind'; intros here info st; destruct here as [x|]; try discriminate.
  - rewrite contains_rec_leaf. cbn [derive_all]. destruct (rule_of tbl x s); [|discriminate].
    destruct (Nat.eqb _ _); [auto|discriminate].
  - rewrite contains_rec_fun, derive_all_fun. destruct (rule_of tbl x f); [|discriminate].
    destruct (Nat.eqb _ _); [|discriminate].
    generalize (derive info r). induction IH as [|a ar Ha Har IHl]; intros st0.
    + cbn; auto.
    + rewrite cgo_cons, dgo_cons. destruct (contains_rec tbl a (snd st0) (fst st0)) eqn:E; [|discriminate].
      rewrite (Ha _ _ _ E). apply IHl.
Qed.

(** ---- TARGET 2: members_only ---- *)
Lemma sample_rec_S f tbl w x info cs :
  sample_rec (S f) tbl w x info cs =
  match alookup nt_eqb x w with
  | None => SErr 1
  | Some ws =>
    match cs with
    | [] => SErr 2
    | i :: cs' =>
      match nth_error ws i with
      | None => SErr 3
      | Some (s, _) =>
        match rule_of tbl x s with
        | None => SErr 4
        | Some r =>
          match fst r with
          | [] => SOk (PLeaf s, cs')
          | _ :: _ =>
            match sample_args tbl (sample_rec f tbl w) (length (fst r)) (fst (derive info r)) (snd (derive info r)) cs' with
            | SOk (l, cs2) => SOk (PFun s l, cs2)
            | SErr e => SErr e
            end
          end
        end
      end
    end
  end.
Proof. reflexivity. Qed.

Lemma sample_args_S tbl srec k info here cs :
  sample_args tbl srec (S k) info here cs =
  match here with
  | End => SErr 6
  | At cur =>
    match srec cur info cs with
    | SErr e => SErr e
    | SOk (a, cs1) =>
      match derive_all tbl a (At cur) info with
      | None => SErr 5
      | Some (info', here') =>
        match sample_args tbl srec k info' here' cs1 with
        | SOk (l, cs2) => SOk (a :: l, cs2)
        | SErr e => SErr e
        end
      end
    end
  end.
Proof. reflexivity. Qed.

Lemma sample_args_members tbl (srec : nt -> list argnt -> list nat -> sres (prog * list nat)) :
  (forall x info cs p rest, srec x info cs = SOk (p, rest) ->
     (exists st, contains_rec tbl p (At x) info = Some st) /\ normal p = true) ->
  forall k info here cs l rest, sample_args tbl srec k info here cs = SOk (l, rest) ->
    length l = k /\ forallb normal l = true /\ exists st, cgo tbl l (info, here) = Some st.
Proof.
  intros Hrec; induction k as [|k IHk]; intros info here cs l rest H.
  - cbn in H. inversion H; subst. cbn. eauto.
  - rewrite sample_args_S in H. destruct here as [cur|]; [|discriminate].
    destruct (srec cur info cs) as [[a cs1]|e] eqn:E; [|discriminate].
    destruct (derive_all tbl a (At cur) info) as [[info' here']|] eqn:Ed; [|discriminate].
    destruct (sample_args tbl srec k info' here' cs1) as [[l' cs2]|e] eqn:Es; [|discriminate].
    inversion H; subst. destruct (Hrec _ _ _ _ _ E) as [[st Hst] Hn].
    pose proof (derive_all_contains _ _ _ _ _ Hst) as Hd. rewrite Ed in Hd. inversion Hd; subst st.
    destruct (IHk _ _ _ _ _ Es) as [Hl [Hnl [st' Hst']]].
    cbn [length forallb]. rewrite Hl, Hn, Hnl. repeat split.
    exists st'. rewrite cgo_cons. cbn [fst snd]. rewrite Hst. exact Hst'.
Qed.

Theorem members_only : forall fuel tbl w x info cs p rest,
  sample_rec fuel tbl w x info cs = SOk (p, rest) ->
  (exists st, contains_rec tbl p (At x) info = Some st) /\ normal p = true.
Proof.
  induction fuel as [|f IHf]; intros tbl w x info cs p rest H; [discriminate|].
  rewrite sample_rec_S in H.
  destruct (alookup nt_eqb x w) as [ws|]; [|discriminate].
  destruct cs as [|i cs']; [discriminate|].
  destruct (nth_error ws i) as [[s q]|]; [|discriminate].
  destruct (rule_of tbl x s) as [r|] eqn:Er; [|discriminate].
  destruct (fst r) as [|a0 ar0] eqn:Ef.
  - inversion H; subst. split; [|reflexivity].
    rewrite contains_rec_leaf, Er, Ef. cbn. eauto.
  - destruct (derive info r) as [i0 h0] eqn:Ed. cbn [fst snd] in H.
    destruct (sample_args tbl (sample_rec f tbl w) (length (a0 :: ar0)) i0 h0 cs') as [[l cs2]|e] eqn:Es; [|discriminate].
    inversion H; subst.
    destruct (sample_args_members tbl (sample_rec f tbl w) (fun x info cs p rest => IHf tbl w x info cs p rest) _ _ _ _ _ _ Es)
      as [Hl [Hn [st Hst]]].
    split.
    + exists st. rewrite contains_rec_fun, Er, Ef, Ed, Hl, Nat.eqb_refl. exact Hst.
    + cbn [normal]. rewrite Hl, Hn. reflexivity.
Qed.

Corollary members_only_start : forall fuel tbl w start cs p rest,
  sample_program fuel tbl w start cs = SOk (p, rest) -> contains tbl start p = true.
Proof.
  intros fuel tbl w start cs p rest H. apply members_only in H. destruct H as [[st H] _].
  unfold contains. rewrite H. reflexivity.
Qed.

(** ---- TARGET 3: sample_prefix ---- *)
Lemma sample_args_prefix tbl (srec : nt -> list argnt -> list nat -> sres (prog * list nat)) :
  (forall x info cs p rest, srec x info cs = SOk (p, rest) ->
     exists used, cs = used ++ rest /\ forall rest', srec x info (used ++ rest') = SOk (p, rest')) ->
  forall k info here cs l rest, sample_args tbl srec k info here cs = SOk (l, rest) ->
    exists used, cs = used ++ rest /\
      forall rest', sample_args tbl srec k info here (used ++ rest') = SOk (l, rest').
Proof.
  intros Hrec; induction k as [|k IHk]; intros info here cs l rest H.
  - cbn in H. inversion H; subst. exists []. split; reflexivity.
  - rewrite sample_args_S in H. destruct here as [cur|]; [|discriminate].
    destruct (srec cur info cs) as [[a cs1]|e] eqn:E; [|discriminate].
    destruct (derive_all tbl a (At cur) info) as [[info' here']|] eqn:Ed; [|discriminate].
    destruct (sample_args tbl srec k info' here' cs1) as [[l' cs2]|e] eqn:Es; [|discriminate].
    inversion H; subst.
    destruct (Hrec _ _ _ _ _ E) as [u1 [E1 H1]].
    destruct (IHk _ _ _ _ _ Es) as [u2 [E2 H2]].
    exists (u1 ++ u2). split; [rewrite <- app_assoc; congruence|].
    intros rest'. rewrite sample_args_S, <- app_assoc, H1, Ed, H2. reflexivity.
Qed.

Theorem sample_prefix : forall fuel tbl w x info cs p rest,
  sample_rec fuel tbl w x info cs = SOk (p, rest) ->
  exists used, cs = used ++ rest /\
    forall rest', sample_rec fuel tbl w x info (used ++ rest') = SOk (p, rest').
Proof.
  induction fuel as [|f IHf]; intros tbl w x info cs p rest H; [discriminate|].
  rewrite sample_rec_S in H.
  destruct (alookup nt_eqb x w) as [ws|] eqn:Ew; [|discriminate].
  destruct cs as [|i cs']; [discriminate|].
  destruct (nth_error ws i) as [[s q]|] eqn:En; [|discriminate].
  destruct (rule_of tbl x s) as [r|] eqn:Er; [|discriminate].
  destruct (fst r) as [|a0 ar0] eqn:Ef.
  - inversion H; subst. exists [i]. split; [reflexivity|].
    intros rest'. cbn [app]. rewrite sample_rec_S, Ew, En, Er, Ef. reflexivity.
  - destruct (sample_args tbl (sample_rec f tbl w) (length (a0 :: ar0)) (fst (derive info r)) (snd (derive info r)) cs')
      as [[l cs2]|e] eqn:Es; [|discriminate].
    inversion H; subst.
    destruct (sample_args_prefix tbl (sample_rec f tbl w) (fun x info cs p rest => IHf tbl w x info cs p rest) _ _ _ _ _ _ Es)
      as [u [Eu Hu]].
    exists (i :: u). split; [cbn; congruence|].
    intros rest'. cbn [app]. rewrite sample_rec_S, Ew, En, Er, Ef, Hu. reflexivity.
Qed.

(** ---- the enumeration: inversion lemmas ---- *)
Definition s_script (e : sentry) : list nat := fst (fst (fst e)).
Definition s_progs (e : sentry) : list prog := snd (fst (fst e)).
Definition s_state (e : sentry) : state := snd (fst e).
Definition s_prob (e : sentry) : Q := snd e.

Lemma sdist_S f tbl w x :
  sdist (S f) tbl w x =
  match alookup nt_eqb x w with
  | None => []
  | Some ws =>
    flat_map (fun iq : nat * (sym * Q) =>
                match rule_of tbl x (fst (snd iq)) with
                | None => []
                | Some r =>
                  match fst r with
                  | [] => [([fst iq], PLeaf (fst (snd iq)), snd r, snd (snd iq))]
                  | _ :: _ =>
                    map (fun e : sentry =>
                           (fst iq :: s_script e, PFun (fst (snd iq)) (s_progs e), s_state e,
                            snd (snd iq) * s_prob e))
                        (dseqs (sdist f tbl w) (fst r) (snd r))
                  end
                end)
             (enum_from 0 ws)
  end.
Proof. reflexivity. Qed.

Lemma in_sdist_S f tbl w x (e : entry) :
  In e (sdist (S f) tbl w x) <->
  exists ws i s q r,
    alookup nt_eqb x w = Some ws /\ nth_error ws i = Some (s, q) /\ rule_of tbl x s = Some r /\
    ((fst r = [] /\ e = ([i], PLeaf s, snd r, q)) \/
     (fst r <> [] /\ exists e', In e' (dseqs (sdist f tbl w) (fst r) (snd r)) /\
                      e = (i :: s_script e', PFun s (s_progs e'), s_state e', q * s_prob e'))).
Proof.
  rewrite sdist_S. split.
  - destruct (alookup nt_eqb x w) as [ws|]; [|intros []].
    rewrite in_flat_map. intros [[i [s q]] [Hin He]]. apply in_enum0 in Hin. cbn [fst snd] in He.
    destruct (rule_of tbl x s) as [r|] eqn:Er; [|destruct He].
    exists ws, i, s, q, r. repeat split; auto.
    destruct (fst r) as [|a0 ar0] eqn:Ef.
    + left. destruct He as [<-|[]]. split; reflexivity.
    + right. split; [discriminate|]. apply in_map_iff in He. destruct He as [e' [<- Hin']].
      exists e'. split; [exact Hin' | reflexivity].
  - intros [ws [i [s [q [r [Hw [Hn [Hr H]]]]]]]]. rewrite Hw. apply in_flat_map.
    exists (i, (s, q)). split; [apply in_enum0, Hn|]. cbn [fst snd]. rewrite Hr.
    destruct H as [[Hf ->]|[Hf [e' [Hin ->]]]].
    + rewrite Hf. left; reflexivity.
    + destruct (fst r) as [|a0 ar0] eqn:Ef; [congruence|]. apply in_map_iff. exists e'. split; [reflexivity|exact Hin].
Qed.

Lemma in_dseqs_cons (rec : nt -> list entry) t sa ar y (e : sentry) :
  In e (dseqs rec ((t, sa) :: ar) y) <->
  exists e1 e2, In e1 (rec (t, sa, y)) /\ In e2 (dseqs rec ar (e_state e1)) /\
    e = (e_script e1 ++ s_script e2, e_prog e1 :: s_progs e2, s_state e2, e_prob e1 * s_prob e2).
Proof.
  cbn [dseqs]. rewrite in_flat_map. split.
  - intros [e1 [H1 H2]]. apply in_map_iff in H2. destruct H2 as [e2 [<- H2]]. exists e1, e2. auto.
  - intros [e1 [e2 [H1 [H2 ->]]]]. exists e1. split; [exact H1|]. apply in_map_iff. exists e2. auto.
Qed.

Lemma in_dseqs_nil (rec : nt -> list entry) y (e : sentry) :
  In e (dseqs rec [] y) <-> e = ([], [], y, 1).
Proof. cbn. split; [intros [<-|[]]; reflexivity | intros ->; left; reflexivity]. Qed.

Lemma dseqs_length (rec : nt -> list entry) : forall args y e,
  In e (dseqs rec args y) -> length (s_progs e) = length args.
Proof.
  induction args as [|[t sa] ar IH]; intros y e He.
  - apply in_dseqs_nil in He; subst; reflexivity.
  - apply in_dseqs_cons in He. destruct He as [e1 [e2 [H1 [H2 ->]]]].
    unfold s_progs; cbn [fst snd length]. f_equal. apply (IH _ _ H2).
Qed.

(** ---- threading: the entries are derivations ---- *)
Definition thread_ok (tbl : table) (rec : nt -> list entry) : Prop :=
  forall x e, In e (rec x) -> forall info,
    contains_rec tbl (e_prog e) (At x) info = Some (derive info ([], e_state e)).

Lemma dseqs_thread tbl rec : thread_ok tbl rec ->
  forall args y e, In e (dseqs rec args y) -> forall info,
    cgo tbl (s_progs e) (derive info (args, y)) = Some (derive info ([], s_state e)).
Proof.
  intros Hrec; induction args as [|[t sa] ar IH]; intros y e He info.
  - apply in_dseqs_nil in He; subst; reflexivity.
  - apply in_dseqs_cons in He. destruct He as [e1 [e2 [H1 [H2 ->]]]].
    unfold s_progs, s_state; cbn [fst snd].
    rewrite derive_cons, cgo_cons. cbn [fst snd]. rewrite (Hrec _ _ H1), derive_pop.
    apply (IH _ _ H2).
Qed.

Lemma sdist_thread tbl w : forall f, thread_ok tbl (sdist f tbl w).
Proof.
  induction f as [|f IHf]; intros x e He info; [destruct He|].
  apply in_sdist_S in He. destruct He as [ws [i [s [q [r [Hw [Hn [Hr H]]]]]]]].
  destruct H as [[Hf ->]|[Hf [e' [Hin ->]]]]; unfold e_prog, e_state; cbn [fst snd].
  - rewrite contains_rec_leaf, Hr, Hf. cbn [length Nat.eqb]. rewrite (derive_eta _ _ Hf). reflexivity.
  - rewrite contains_rec_fun, Hr, (dseqs_length _ _ _ _ Hin), Nat.eqb_refl.
    destruct r as [args y]. apply (dseqs_thread tbl _ IHf _ _ _ Hin).
Qed.

Lemma dseqs_normal (rec : nt -> list entry) :
  (forall x e, In e (rec x) -> normal (e_prog e) = true) ->
  forall args y e, In e (dseqs rec args y) -> forallb normal (s_progs e) = true.
Proof.
  intros Hrec; induction args as [|[t sa] ar IH]; intros y e He.
  - apply in_dseqs_nil in He; subst; reflexivity.
  - apply in_dseqs_cons in He. destruct He as [e1 [e2 [H1 [H2 ->]]]].
    unfold s_progs; cbn [fst snd forallb]. rewrite (Hrec _ _ H1). apply (IH _ _ H2).
Qed.

Lemma sdist_normal tbl w : forall f x e, In e (sdist f tbl w x) -> normal (e_prog e) = true.
Proof.
  induction f as [|f IHf]; intros x e He; [destruct He|].
  apply in_sdist_S in He. destruct He as [ws [i [s [q [r [Hw [Hn [Hr H]]]]]]]].
  destruct H as [[Hf ->]|[Hf [e' [Hin ->]]]]; unfold e_prog; cbn [fst snd]; [reflexivity|].
  cbn [normal]. rewrite (dseqs_length _ _ _ _ Hin), (dseqs_normal _ IHf _ _ _ Hin).
  destruct (fst r); [congruence|reflexivity].
Qed.

(** ---- the scripts replay ---- *)
Lemma dseqs_sample tbl rec (srec : nt -> list argnt -> list nat -> sres (prog * list nat)) :
  thread_ok tbl rec ->
  (forall x e, In e (rec x) -> forall info rest, srec x info (e_script e ++ rest) = SOk (e_prog e, rest)) ->
  forall args y e, In e (dseqs rec args y) -> forall info rest,
    sample_args tbl srec (length args) (fst (derive info (args, y))) (snd (derive info (args, y)))
                (s_script e ++ rest) = SOk (s_progs e, rest).
Proof.
  intros Ht Hs; induction args as [|[t sa] ar IH]; intros y e He info rest.
  - apply in_dseqs_nil in He; subst; reflexivity.
  - apply in_dseqs_cons in He. destruct He as [e1 [e2 [H1 [H2 ->]]]].
    unfold s_progs, s_script; cbn [fst snd length].
    rewrite derive_cons, sample_args_S. cbn [fst snd].
    rewrite <- app_assoc, (Hs _ _ H1), (derive_all_contains _ _ _ _ _ (Ht _ _ H1 _)), derive_pop.
    specialize (IH _ _ H2 info rest).
    destruct (derive info (ar, e_state e1)) as [i' h']. cbn [fst snd] in IH.
    unfold s_script, s_progs in IH. rewrite IH. reflexivity.
Qed.

Lemma sdist_sample tbl w : forall f x e, In e (sdist f tbl w x) -> forall info rest,
  sample_rec f tbl w x info (e_script e ++ rest) = SOk (e_prog e, rest).
Proof.
  induction f as [|f IHf]; intros x e He info rest; [destruct He|].
  apply in_sdist_S in He. destruct He as [ws [i [s [q [r [Hw [Hn [Hr H]]]]]]]].
  destruct H as [[Hf ->]|[Hf [e' [Hin ->]]]]; unfold e_prog, e_script; cbn [fst snd app];
    rewrite sample_rec_S, Hw, Hn, Hr.
  - rewrite Hf. reflexivity.
  - pose proof (dseqs_sample tbl _ _ (sdist_thread tbl w f) (IHf) _ _ _ Hin info rest) as Hs.
    destruct r as [args y]. cbn [fst snd] in *. rewrite Hs.
    destruct args; [congruence|reflexivity].
Qed.

(** ---- named copies of the loops of lang_at / wf_at_lang ---- *)
Section LSeqs.
  Variable rec : nt -> list (prog * state).
  Fixpoint lseqs (args : list argnt) (y : state) : list (list prog * state) :=
    match args with
    | [] => [([], y)]
    | (t, sa) :: ar =>
      flat_map (fun py => map (fun ly => (fst py :: fst ly, snd ly)) (lseqs ar (snd py)))
               (rec (t, sa, y))
    end.
End LSeqs.

Section WfSeq.
  Variable wfa : nt -> bool.
  Variable la : nt -> list (prog * state).
  Fixpoint wfseq (args : list argnt) (y : state) : bool :=
    match args with
    | [] => true
    | (t, sa) :: ar =>
      wfa (t, sa, y) && forallb (fun py => wfseq ar (snd py)) (la (t, sa, y))
    end.
End WfSeq.

Lemma lang_at_S f tbl x :
  lang_at (S f) tbl x =
  match rules_of tbl x with
  | None => []
  | Some rs =>
    flat_map (fun r : drule =>
      let '(s, (args, y)) := r in
      match args with
      | [] => [(PLeaf s, y)]
      | _ => map (fun ay => (PFun s (fst ay), snd ay)) (lseqs (lang_at f tbl) args y)
      end) rs
  end.
Proof. reflexivity. Qed.

Lemma wf_at_S f tbl w x :
  wf_at_lang (S f) tbl w x =
  match rules_of tbl x with
  | None => false
  | Some rs =>
    weights_ok tbl w x rs &&
    forallb (fun r : drule =>
      let '(s, (args, y)) := r in wfseq (wf_at_lang f tbl w) (lang_at f tbl) args y) rs
  end.
Proof. reflexivity. Qed.

Definition lang_ok (rec : nt -> list entry) (la : nt -> list (prog * state)) : Prop :=
  forall x e, In e (rec x) -> In (e_prog e, e_state e) (la x).

Lemma dseqs_lang rec la : lang_ok rec la ->
  forall args y e, In e (dseqs rec args y) -> In (s_progs e, s_state e) (lseqs la args y).
Proof.
  intros Hl; induction args as [|[t sa] ar IH]; intros y e He.
  - apply in_dseqs_nil in He; subst; left; reflexivity.
  - apply in_dseqs_cons in He. destruct He as [e1 [e2 [H1 [H2 ->]]]].
    unfold s_progs, s_state; cbn [fst snd lseqs].
    apply in_flat_map. exists (e_prog e1, e_state e1). split; [apply Hl, H1|].
    apply in_map_iff. exists (s_progs e2, s_state e2). split; [reflexivity|]. apply (IH _ _ H2).
Qed.

Lemma rule_of_In tbl x s r rs : rules_of tbl x = Some rs -> rule_of tbl x s = Some r -> In (s, r) rs.
Proof. unfold rule_of. intros ->. apply (alookup_In sym_eqb sym_eqb_spec). Qed.

Lemma sdist_lang tbl w : forall f, lang_ok (sdist f tbl w) (lang_at f tbl).
Proof.
  induction f as [|f IHf]; intros x e He; [destruct He|].
  apply in_sdist_S in He. destruct He as [ws [i [s [q [r [Hw [Hn [Hr H]]]]]]]].
  rewrite lang_at_S. destruct (rules_of tbl x) as [rs|] eqn:Ers; [|unfold rule_of in Hr; rewrite Ers in Hr; discriminate].
  apply in_flat_map. exists (s, r). split; [apply (rule_of_In _ _ _ _ _ Ers Hr)|].
  destruct r as [args y]. cbn [fst snd] in *.
  destruct H as [[Hf ->]|[Hf [e' [Hin ->]]]]; unfold e_prog, e_state; cbn [fst snd].
  - rewrite Hf. left; reflexivity.
  - destruct args as [|a0 ar0]; [congruence|]. apply in_map_iff.
    exists (s_progs e', s_state e'). split; [reflexivity|]. apply (dseqs_lang _ _ IHf _ _ _ Hin).
Qed.

(** ---- sums over Q ---- *)
Lemma qsum_nil : qsum [] = 0.
Proof. reflexivity. Qed.
Lemma qsum_cons x r : qsum (x :: r) = x + qsum r.
Proof. reflexivity. Qed.

Lemma qsum_app l l' : qsum (l ++ l') == qsum l + qsum l'.
Proof.
  induction l as [|x r IH]; cbn [app]; rewrite ?qsum_nil, ?qsum_cons; [ring | rewrite IH; ring].
Qed.

Lemma qsum_map_ext_in {X} (f g : X -> Q) l :
  (forall x, In x l -> f x == g x) -> qsum (map f l) == qsum (map g l).
Proof.
  induction l as [|x r IH]; intros H; cbn [map]; [reflexivity|].
  rewrite !qsum_cons, (H x (or_introl eq_refl)), IH; [reflexivity|].
  intros z Hz; apply H; right; exact Hz.
Qed.

Lemma qsum_map_scal {X} (k : Q) (f : X -> Q) l :
  qsum (map (fun x => k * f x) l) == k * qsum (map f l).
Proof. induction l as [|x r IH]; cbn [map]; rewrite ?qsum_nil, ?qsum_cons; [ring | rewrite IH; ring]. Qed.

Lemma qsum_map_flat_map {X Y} (g : Y -> Q) (h : X -> list Y) l :
  qsum (map g (flat_map h l)) == qsum (map (fun x => qsum (map g (h x))) l).
Proof.
  induction l as [|x r IH]; cbn [flat_map map]; [reflexivity|].
  rewrite map_app, qsum_app, qsum_cons, IH. reflexivity.
Qed.

(** ---- what wf_at_lang and keys_ok give at one non-terminal ---- *)
Lemma alookup_map_fst_nodup (ws : list (sym * Q)) : NoDup (map fst ws) ->
  map (fun s => match alookup sym_eqb s ws with Some q => q | None => 0 end) (map fst ws) = map snd ws.
Proof.
  induction ws as [|[s q] r IH]; intros Hn; [reflexivity|].
  inversion Hn as [|? ? Hx Hr]; subst. cbn [map fst snd]. f_equal.
  - cbn. rewrite (keqb_refl sym_eqb sym_eqb_spec). reflexivity.
  - rewrite <- (IH Hr). apply map_ext_in. intros s' Hs'. cbn [alookup].
    rewrite (keqb_neq sym_eqb sym_eqb_spec); [reflexivity|]. intros ->. exact (Hx Hs').
Qed.

Lemma keys_ok_at tbl w x ws rs :
  keys_ok tbl w = true -> alookup nt_eqb x w = Some ws -> rules_of tbl x = Some rs ->
  map fst ws = map fst rs.
Proof.
  unfold keys_ok. rewrite !andb_true_iff. intros [[H _] _] Hw Hr.
  apply (alookup_In nt_eqb nt_eqb_spec) in Hw. rewrite forallb_forall in H.
  specialize (H _ Hw). cbn [fst snd] in H. rewrite Hr in H.
  apply (list_eqb_spec sym_eqb sym_eqb_spec) in H. exact H.
Qed.

Definition wf_next (f : nat) (tbl : table) (w : wtable) (rs : list drule) : Prop :=
  forall s r, In (s, r) rs -> wfseq (wf_at_lang f tbl w) (lang_at f tbl) (fst r) (snd r) = true.

Lemma wf_inv f tbl w x :
  wf_at_lang (S f) tbl w x = true -> keys_ok tbl w = true ->
  exists rs ws, rules_of tbl x = Some rs /\ alookup nt_eqb x w = Some ws /\
    map fst ws = map fst rs /\ NoDup (map fst ws) /\ qsum (map snd ws) == 1 /\ wf_next f tbl w rs.
Proof.
  rewrite wf_at_S. intros H Hk.
  destruct (rules_of tbl x) as [rs|] eqn:Ers; [|discriminate].
  apply andb_true_iff in H. destruct H as [Hw Hn].
  unfold weights_ok in Hw. rewrite !andb_true_iff in Hw. destruct Hw as [[Hpos Hsum] Hnd].
  apply (nodupb_spec sym_eqb sym_eqb_spec) in Hnd. apply Qeq_bool_iff in Hsum.
  assert (Hws : exists ws, alookup nt_eqb x w = Some ws).
  { destruct rs as [|r0 rs'].
    - cbn in Hsum. discriminate.
    - cbn [forallb] in Hpos. apply andb_true_iff in Hpos. destruct Hpos as [Hp _].
      unfold weight_of in Hp. destruct (alookup nt_eqb x w) as [ws|]; [eauto|discriminate]. }
  destruct Hws as [ws Hws].
  pose proof (keys_ok_at _ _ _ _ _ Hk Hws Ers) as Hkeys.
  exists rs, ws. repeat split; auto.
  - rewrite Hkeys; exact Hnd.
  - assert (E : map (fun r : drule => match weight_of w x (fst r) with Some q => q | None => 0 end) rs = map snd ws).
    { unfold weight_of. rewrite Hws.
      rewrite <- (alookup_map_fst_nodup ws); [|rewrite Hkeys; exact Hnd].
      rewrite Hkeys, map_map. reflexivity. }
    rewrite <- E. exact Hsum.
  - intros s [args y] Hin. rewrite forallb_forall in Hn. exact (Hn _ Hin).
Qed.

Lemma wfseq_cons wfa la t sa ar y :
  wfseq wfa la ((t, sa) :: ar) y = true ->
  wfa (t, sa, y) = true /\ forall p y', In (p, y') (la (t, sa, y)) -> wfseq wfa la ar y' = true.
Proof.
  cbn [wfseq]. rewrite andb_true_iff, forallb_forall. intros [H1 H2]. split; [exact H1|].
  intros p y' Hin. exact (H2 _ Hin).
Qed.

(** ---- total mass 1 ---- *)
Lemma dseqs_sum rec la wfa :
  (forall x, wfa x = true -> qsum (map e_prob (rec x)) == 1) -> lang_ok rec la ->
  forall args y, wfseq wfa la args y = true -> qsum (map s_prob (dseqs rec args y)) == 1.
Proof.
  intros Hs Hl; induction args as [|[t sa] ar IH]; intros y Hw.
  - cbn [dseqs map]. rewrite qsum_cons, qsum_nil. unfold s_prob; cbn [snd]. ring.
  - apply wfseq_cons in Hw. destruct Hw as [Hw1 Hw2]. cbn [dseqs].
    rewrite qsum_map_flat_map. rewrite <- (Hs _ Hw1).
    apply qsum_map_ext_in. intros e1 H1. rewrite map_map. unfold s_prob at 1; cbn [snd].
    rewrite (qsum_map_scal (e_prob e1) (fun e2 : sentry => snd e2)).
    change (map (fun e2 : sentry => snd e2)) with (map s_prob).
    rewrite (IH _ (Hw2 _ _ (Hl _ _ H1))). ring.
Qed.

Lemma sdist_sum tbl w : keys_ok tbl w = true ->
  forall f x, wf_at_lang f tbl w x = true -> qsum (map e_prob (sdist f tbl w x)) == 1.
Proof.
  intros Hk; induction f as [|f IHf]; intros x Hwf; [discriminate|].
  destruct (wf_inv _ _ _ _ Hwf Hk) as [rs [ws [Hrs [Hws [Hkeys [Hnd [Hsum Hnext]]]]]]].
  rewrite sdist_S, Hws, qsum_map_flat_map, <- Hsum.
  rewrite <- (map_snd_enum ws 0) at 2. rewrite map_map.
  apply qsum_map_ext_in. intros [i [s q]] Hin. cbn [fst snd].
  apply in_enum_snd in Hin. cbn [snd] in Hin.
  assert (Hs : In s (map fst rs)) by (rewrite <- Hkeys; apply (in_map fst) in Hin; exact Hin).
  destruct (alookup_some_of_in sym_eqb sym_eqb_spec _ _ Hs) as [r Hr].
  assert (Hr' : rule_of tbl x s = Some r) by (unfold rule_of; rewrite Hrs; exact Hr).
  rewrite Hr'. pose proof (Hnext _ _ (rule_of_In _ _ _ _ _ Hrs Hr')) as Hw.
  destruct (fst r) as [|a0 ar0] eqn:Ef.
  - cbn [map]. rewrite qsum_cons, qsum_nil. unfold e_prob; cbn [snd]. ring.
  - rewrite map_map. unfold e_prob; cbn [snd].
    rewrite (qsum_map_scal q s_prob).
    rewrite (dseqs_sum _ _ _ IHf (sdist_lang tbl w f) _ _ Hw). ring.
Qed.

(** ---- no program is listed twice ---- *)
Lemma nodup_flat_cons (L : list entry) (G : entry -> list sentry) :
  NoDup (map e_prog L) -> (forall e1, In e1 L -> NoDup (map s_progs (G e1))) ->
  NoDup (map s_progs
    (flat_map (fun e1 : entry =>
       map (fun e2 : sentry =>
              (e_script e1 ++ fst (fst (fst e2)), e_prog e1 :: snd (fst (fst e2)), snd (fst e2),
               e_prob e1 * snd e2)) (G e1)) L)).
Proof.
  induction L as [|a L IH]; intros Hn HG; [constructor|].
  cbn [flat_map map] in *. inversion Hn as [|? ? Hx Hr]; subst.
  rewrite map_app. apply NoDup_app_intro.
  - rewrite map_map. apply (NoDup_map_inj' _ s_progs); [|apply HG; left; reflexivity].
    unfold s_progs; cbn [fst snd]. intros u v E. inversion E; reflexivity.
  - apply IH; [exact Hr|]. intros e1 H1; apply HG; right; exact H1.
  - intros l Hl1 Hl2. apply Hx.
    rewrite map_map in Hl1. apply in_map_iff in Hl1. destruct Hl1 as [e2 [<- _]].
    apply in_map_iff in Hl2. destruct Hl2 as [e3 [E Hl2]].
    apply in_flat_map in Hl2. destruct Hl2 as [e1 [H1 H2]].
    apply in_map_iff in H2. destruct H2 as [e4 [<- _]].
    unfold s_progs in E; cbn [fst snd] in E.
    assert (E1 : e_prog a = e_prog e1) by congruence.
    rewrite E1. apply in_map, H1.
Qed.

Lemma dseqs_nodup rec la wfa :
  (forall x, wfa x = true -> NoDup (map e_prog (rec x))) -> lang_ok rec la ->
  forall args y, wfseq wfa la args y = true -> NoDup (map s_progs (dseqs rec args y)).
Proof.
  intros Hs Hl; induction args as [|[t sa] ar IH]; intros y Hw.
  - cbn. constructor; [intros []|constructor].
  - apply wfseq_cons in Hw. destruct Hw as [Hw1 Hw2]. cbn [dseqs].
    apply (nodup_flat_cons (rec (t, sa, y)) (fun e1 => dseqs rec ar (e_state e1))); [apply Hs, Hw1|].
    intros e1 H1. apply IH. exact (Hw2 _ _ (Hl _ _ H1)).
Qed.

Lemma nodup_flat_heads (F : nat * (sym * Q) -> list entry) (ws : list (sym * Q)) : forall k,
  NoDup (map fst ws) ->
  (forall iq, In iq (enum_from k ws) ->
     NoDup (map e_prog (F iq)) /\ forall e, In e (F iq) -> head (e_prog e) = fst (snd iq)) ->
  NoDup (map e_prog (flat_map F (enum_from k ws))).
Proof.
  induction ws as [|[s q] ws IH]; intros k Hn HF; [constructor|].
  cbn [enum_from flat_map map fst] in *. inversion Hn as [|? ? Hx Hr]; subst.
  rewrite map_app. apply NoDup_app_intro.
  - apply (HF (k, (s, q))). left; reflexivity.
  - apply IH; [exact Hr|]. intros iq Hiq. apply HF. right; exact Hiq.
  - intros p Hp1 Hp2. apply Hx.
    apply in_map_iff in Hp1. destruct Hp1 as [e1 [E1 H1]].
    apply (HF (k, (s, q)) (or_introl eq_refl)) in H1. cbn [fst snd] in H1.
    apply in_map_iff in Hp2. destruct Hp2 as [e2 [E2 H2]].
    apply in_flat_map in H2. destruct H2 as [iq [Hiq H2]].
    pose proof (proj2 (HF iq (or_intror Hiq)) _ H2) as H3.
    apply in_enum_snd in Hiq. apply (in_map fst) in Hiq.
    rewrite <- H3, E2, <- E1, H1 in Hiq. exact Hiq.
Qed.

Lemma sdist_nodup tbl w : keys_ok tbl w = true ->
  forall f x, wf_at_lang f tbl w x = true -> NoDup (map e_prog (sdist f tbl w x)).
Proof.
  intros Hk; induction f as [|f IHf]; intros x Hwf; [discriminate|].
  destruct (wf_inv _ _ _ _ Hwf Hk) as [rs [ws [Hrs [Hws [Hkeys [Hnd [Hsum Hnext]]]]]]].
  rewrite sdist_S, Hws. apply nodup_flat_heads; [exact Hnd|].
  intros [i [s q]] _. cbn [fst snd].
  destruct (rule_of tbl x s) as [r|] eqn:Hr; [|split; [constructor|intros e []]].
  pose proof (Hnext _ _ (rule_of_In _ _ _ _ _ Hrs Hr)) as Hw.
  destruct (fst r) as [|a0 ar0] eqn:Ef.
  - split; [cbn; constructor; [intros []|constructor]|]. intros e [<-|[]]. reflexivity.
  - split.
    + rewrite map_map. apply (NoDup_map_inj' _ s_progs).
      * unfold e_prog; cbn [fst snd]. intros u v E. inversion E; reflexivity.
      * apply (dseqs_nodup _ _ _ IHf (sdist_lang tbl w f) _ _ Hw).
    + intros e He. apply in_map_iff in He. destruct He as [e' [<- _]]. reflexivity.
Qed.

(** ---- the weight of an entry is the probability of its program ---- *)
Definition prob_ok (tbl : table) (w : wtable) (wfa : nt -> bool) (rec : nt -> list entry) : Prop :=
  forall x, wfa x = true -> forall e, In e (rec x) -> forall info,
    exists q', prob_rec tbl w (e_prog e) (At x) info = Some (q', derive info ([], e_state e)) /\ q' == e_prob e.

Lemma dseqs_prob tbl w rec la wfa : prob_ok tbl w wfa rec -> lang_ok rec la ->
  forall args y, wfseq wfa la args y = true -> forall e, In e (dseqs rec args y) -> forall q0 info,
    exists q', pgo tbl w (s_progs e) (q0, derive info (args, y)) = Some (q', derive info ([], s_state e))
               /\ q' == q0 * s_prob e.
Proof.
  intros Hp Hl; induction args as [|[t sa] ar IH]; intros y Hw e He q0 info.
  - apply in_dseqs_nil in He; subst. exists q0. split; [reflexivity|]. unfold s_prob; cbn. ring.
  - apply wfseq_cons in Hw. destruct Hw as [Hw1 Hw2].
    apply in_dseqs_cons in He. destruct He as [e1 [e2 [H1 [H2 ->]]]].
    destruct (Hp _ Hw1 _ H1 (ar ++ info)) as [qa [Hqa Eqa]].
    destruct (IH _ (Hw2 _ _ (Hl _ _ H1)) _ H2 (q0 * qa) info) as [q' [Hq' Eq']].
    exists q'. unfold s_progs, s_state, s_prob; cbn [fst snd]. split.
    + rewrite derive_cons, pgo_cons. cbn [fst snd]. rewrite Hqa, derive_pop. exact Hq'.
    + rewrite Eq', Eqa. unfold s_prob. ring.
Qed.

Lemma sdist_prob tbl w : keys_ok tbl w = true ->
  forall f, prob_ok tbl w (wf_at_lang f tbl w) (sdist f tbl w).
Proof.
  intros Hk; induction f as [|f IHf]; intros x Hwf e He info; [discriminate|].
  destruct (wf_inv _ _ _ _ Hwf Hk) as [rs [ws [Hrs [Hws [Hkeys [Hnd [Hsum Hnext]]]]]]].
  apply in_sdist_S in He. destruct He as [ws' [i [s [q [r [Hw [Hn [Hr H]]]]]]]].
  rewrite Hws in Hw. inversion Hw; subst ws'. clear Hw.
  assert (Hq : weight_of w x s = Some q).
  { unfold weight_of. rewrite Hws. apply (alookup_nodup sym_eqb sym_eqb_spec); [exact Hnd|].
    eapply nth_error_In, Hn. }
  pose proof (Hnext _ _ (rule_of_In _ _ _ _ _ Hrs Hr)) as Hwr.
  destruct H as [[Hf ->]|[Hf [e' [Hin ->]]]]; unfold e_prog, e_state, e_prob; cbn [fst snd].
  - rewrite prob_rec_leaf, Hr, Hq. exists q. split; [|reflexivity].
    rewrite (derive_eta _ _ Hf). reflexivity.
  - rewrite prob_rec_fun, Hr, Hq. destruct r as [args y]. cbn [fst snd] in *.
    apply (dseqs_prob tbl w _ _ _ IHf (sdist_lang tbl w f) _ _ Hwr _ Hin).
Qed.

(** ---- every normal member is listed ---- *)
Definition complete_ok (tbl : table) (wfa : nt -> bool) (rec : nt -> list entry) : Prop :=
  forall x, wfa x = true -> forall p info st, normal p = true ->
    contains_rec tbl p (At x) info = Some st -> exists e, In e (rec x) /\ e_prog e = p.

Lemma dseqs_complete tbl rec la wfa :
  complete_ok tbl wfa rec -> thread_ok tbl rec -> lang_ok rec la ->
  forall args y, wfseq wfa la args y = true -> forall l info st,
    forallb normal l = true -> length args = length l ->
    cgo tbl l (derive info (args, y)) = Some st ->
    exists e, In e (dseqs rec args y) /\ s_progs e = l.
Proof.
  intros Hc Ht Hl; induction args as [|[t sa] ar IH]; intros y Hw l info st Hn Hlen Hgo.
  - destruct l; [|discriminate]. exists ([], [], y, 1). split; [left; reflexivity|reflexivity].
  - destruct l as [|a l]; [discriminate|]. cbn [forallb length] in *.
    apply andb_true_iff in Hn. destruct Hn as [Hna Hnl].
    apply wfseq_cons in Hw. destruct Hw as [Hw1 Hw2].
    rewrite derive_cons, cgo_cons in Hgo. cbn [fst snd] in Hgo.
    destruct (contains_rec tbl a (At (t, sa, y)) (ar ++ info)) as [st'|] eqn:Ea; [|discriminate].
    destruct (Hc _ Hw1 _ _ _ Hna Ea) as [e1 [H1 E1]].
    pose proof (Ht _ _ H1 (ar ++ info)) as Ht1. rewrite E1, Ea, derive_pop in Ht1. inversion Ht1; subst st'.
    destruct (IH _ (Hw2 _ _ (Hl _ _ H1)) l info st Hnl ltac:(lia) Hgo) as [e2 [H2 E2]].
    exists (e_script e1 ++ s_script e2, e_prog e1 :: s_progs e2, s_state e2, e_prob e1 * s_prob e2).
    split; [apply in_dseqs_cons; exists e1, e2; auto|]. unfold s_progs at 1; cbn [fst snd]. congruence.
Qed.

Lemma sdist_complete tbl w : keys_ok tbl w = true ->
  forall f, complete_ok tbl (wf_at_lang f tbl w) (sdist f tbl w).
Proof.
  intros Hk; induction f as [|f IHf]; intros x Hwf p info st Hn Hc; [discriminate|].
  destruct (wf_inv _ _ _ _ Hwf Hk) as [rs [ws [Hrs [Hws [Hkeys [Hnd [Hsum Hnext]]]]]]].
  assert (Hkey : forall s r, rule_of tbl x s = Some r -> exists i q, nth_error ws i = Some (s, q)).
  { intros s r Hr. pose proof (rule_of_In _ _ _ _ _ Hrs Hr) as Hin.
    apply (in_map fst) in Hin. cbn [fst] in Hin. rewrite <- Hkeys in Hin.
    apply in_map_iff in Hin. destruct Hin as [[s' q] [E Hin]]. cbn [fst] in E; subst s'.
    apply In_nth_error in Hin. destruct Hin as [i Hi]. eauto. }
  destruct p as [s|s l].
  - rewrite contains_rec_leaf in Hc. destruct (rule_of tbl x s) as [r|] eqn:Hr; [|discriminate].
    destruct (fst r) as [|a0 ar0] eqn:Ef; [|discriminate].
    destruct (Hkey _ _ Hr) as [i [q Hi]].
    exists ([i], PLeaf s, snd r, q). split; [|reflexivity].
    apply in_sdist_S. exists ws, i, s, q, r. repeat split; auto.
  - rewrite contains_rec_fun in Hc. destruct (rule_of tbl x s) as [r|] eqn:Hr; [|discriminate].
    destruct (Nat.eqb (length (fst r)) (length l)) eqn:El; [|discriminate]. apply Nat.eqb_eq in El.
    cbn [normal] in Hn. apply andb_true_iff in Hn. destruct Hn as [Hn0 Hnl].
    destruct (Hkey _ _ Hr) as [i [q Hi]].
    pose proof (Hnext _ _ (rule_of_In _ _ _ _ _ Hrs Hr)) as Hwr.
    destruct r as [args y]. cbn [fst snd] in *.
    destruct (dseqs_complete tbl _ _ _ IHf (sdist_thread tbl w f) (sdist_lang tbl w f) _ _ Hwr _ _ _ Hnl El Hc)
      as [e' [Hin E']].
    exists (i :: s_script e', PFun s (s_progs e'), s_state e', q * s_prob e'). split; [|unfold e_prog; cbn; congruence].
    apply in_sdist_S. exists ws, i, s, q, (args, y). repeat split; auto. right. cbn [fst snd]. split.
    + intros ->. rewrite <- El in Hn0. discriminate.
    + exists e'. auto.
Qed.

(** ---- dist_mass ---- *)
Lemma prog_eq_dec (a b : prog) : {a = b} + {a <> b}.
Proof.
  destruct (prog_eqb a b) eqn:E.
  - left. apply prog_eqb_spec, E.
  - right. intros H. apply prog_eqb_spec in H. congruence.
Qed.

Lemma dist_mass_cons e D p :
  dist_mass (e :: D) p = (if prog_eqb (e_prog e) p then e_prob e else 0) + dist_mass D p.
Proof. reflexivity. Qed.

Lemma dist_mass_notin D p : ~ In p (map e_prog D) -> dist_mass D p == 0.
Proof.
  induction D as [|e D IH]; intros H; [reflexivity|].
  rewrite dist_mass_cons, IH; [|intros Hin; apply H; right; exact Hin].
  destruct (prog_eqb (e_prog e) p) eqn:E; [|ring].
  apply prog_eqb_spec in E. exfalso; apply H; left; exact E.
Qed.

Lemma dist_mass_in D e : NoDup (map e_prog D) -> In e D -> dist_mass D (e_prog e) == e_prob e.
Proof.
  induction D as [|e0 D IH]; intros Hn Hin; [destruct Hin|].
  cbn [map] in Hn. inversion Hn as [|? ? Hx Hr]; subst. rewrite dist_mass_cons.
  destruct Hin as [->|Hin].
  - rewrite prog_eqb_refl, (dist_mass_notin _ _ Hx). ring.
  - rewrite (IH Hr Hin). destruct (prog_eqb (e_prog e0) (e_prog e)) eqn:E; [|ring].
    apply prog_eqb_spec in E. exfalso; apply Hx. rewrite E. apply in_map, Hin.
Qed.

(** ---- TARGET 4 ---- *)
Theorem program_distribution fuel tbl w start :
  wf_at_lang fuel tbl w start = true -> keys_ok tbl w = true ->
  let D := sample_dist fuel tbl w start in
  (forall e, In e D -> forall rest,
       sample_program fuel tbl w start (e_script e ++ rest) = SOk (e_prog e, rest)) /\
  (forall p, normal p = true -> dist_mass D p == probability tbl w start p) /\
  qsum (map e_prob D) == 1 /\
  NoDup (map e_prog D).
Proof.
  intros Hwf Hk D. unfold sample_dist in D. subst D.
  pose proof (sdist_nodup tbl w Hk _ _ Hwf) as Hnd.
  split; [|split; [|split]].
  - intros e He rest. apply (sdist_sample tbl w _ _ _ He).
  - intros p Hn. unfold probability, contains.
    destruct (in_dec prog_eq_dec p (map e_prog (sdist fuel tbl w start))) as [Hin|Hout].
    + apply in_map_iff in Hin. destruct Hin as [e [<- He]].
      rewrite (dist_mass_in _ _ Hnd He).
      rewrite (sdist_thread tbl w fuel _ _ He []).
      destruct (sdist_prob tbl w Hk fuel _ Hwf _ He []) as [q' [Hq' Eq']]. rewrite Hq'.
      symmetry; exact Eq'.
    + rewrite (dist_mass_notin _ _ Hout).
      destruct (contains_rec tbl p (At start) []) as [st|] eqn:Ec; [|reflexivity].
      destruct (sdist_complete tbl w Hk fuel _ Hwf _ _ _ Hn Ec) as [e [He <-]].
      exfalso; apply Hout. apply in_map, He.
  - apply (sdist_sum tbl w Hk _ _ Hwf).
  - exact Hnd.
Qed.

(** The hypotheses of program_distribution hold for a small table with a
    binary rule and two non-terminals:
      S0 -> f(S1, S1) [3/4] | a [1/4]        S1 -> a [1/3] | b [2/3] *)
Definition ex_t : ty := TPrim 0%N.
Definition ex_S0 : nt := (ex_t, A 0%Z, L []).
Definition ex_S1 : nt := (ex_t, A 1%Z, L []).
Definition ex_f : sym := SPrim 0%N (TArrow ex_t (TArrow ex_t ex_t)).
Definition ex_a : sym := SPrim 1%N ex_t.
Definition ex_b : sym := SPrim 2%N ex_t.
Definition ex_tbl : table :=
  [ (ex_S0, [ (ex_f, ([(ex_t, A 1%Z); (ex_t, A 1%Z)], L [])); (ex_a, ([], L [])) ]);
    (ex_S1, [ (ex_a, ([], L [])); (ex_b, ([], L [])) ]) ].
Definition ex_w : wtable :=
  [ (ex_S0, [ (ex_f, 3 # 4); (ex_a, 1 # 4) ]);
    (ex_S1, [ (ex_a, 1 # 3); (ex_b, 2 # 3) ]) ].

Example ex_hyps : wf_at_lang 2 ex_tbl ex_w ex_S0 = true /\ keys_ok ex_tbl ex_w = true.
Proof. vm_compute. split; reflexivity. Qed.

Example ex_dist :
  map (fun e => (e_script e, e_prog e, e_prob e)) (sample_dist 2 ex_tbl ex_w ex_S0) =
  [ ([0; 0; 0]%nat, PFun ex_f [PLeaf ex_a; PLeaf ex_a], (3 # 4) * ((1 # 3) * ((1 # 3) * 1)));
    ([0; 0; 1]%nat, PFun ex_f [PLeaf ex_a; PLeaf ex_b], (3 # 4) * ((1 # 3) * ((2 # 3) * 1)));
    ([0; 1; 0]%nat, PFun ex_f [PLeaf ex_b; PLeaf ex_a], (3 # 4) * ((2 # 3) * ((1 # 3) * 1)));
    ([0; 1; 1]%nat, PFun ex_f [PLeaf ex_b; PLeaf ex_b], (3 # 4) * ((2 # 3) * ((2 # 3) * 1)));
    ([1]%nat, PLeaf ex_a, 1 # 4) ].
Proof. reflexivity. Qed.

Example ex_distribution :
  let D := sample_dist 2 ex_tbl ex_w ex_S0 in
  (forall e, In e D -> forall rest,
       sample_program 2 ex_tbl ex_w ex_S0 (e_script e ++ rest) = SOk (e_prog e, rest)) /\
  (forall p, normal p = true -> dist_mass D p == probability ex_tbl ex_w ex_S0 p) /\
  qsum (map e_prob D) == 1 /\
  NoDup (map e_prog D).
Proof. exact (program_distribution 2 ex_tbl ex_w ex_S0 (proj1 ex_hyps) (proj2 ex_hyps)). Qed.
