(** Proofs about the alias sampler model (Rand/Alias.v):
    - alias_exact: the table built from non-negative weights of positive sum
      induces exactly the normalised weights (C09_alias_exact);
    - draw_measure: draw_dist is the area of the set of (u1,u2) mapped to i
      (C09_draw_measure);
    - fair_coin_refuted: the pinned draw does not (C09_fair_coin_refuted). *)
From Coq Require Import ZArith NArith QArith Qround List Bool Lia Lqa Permutation Setoid Morphisms.
From PS Require Import Base.ListX Rand.Alias.
Import ListNotations.

(** ---- sums ---- *)
Lemma sumq_nil : sumq [] = 0.
Proof. reflexivity. Qed.
Lemma sumq_cons x r : sumq (x :: r) = x + sumq r.
Proof. reflexivity. Qed.
Global Opaque sumq.

Lemma sumq_app l l' : sumq (l ++ l') == sumq l + sumq l'.
Proof.
  induction l as [|x r IH]; [rewrite sumq_nil; cbn [app]; ring|].
  cbn [app]. rewrite !sumq_cons, IH; ring.
Qed.

Lemma sumq_ext {X} (f g : X -> Q) l :
  (forall x, In x l -> f x == g x) -> sumq (map f l) == sumq (map g l).
Proof.
  induction l as [|x r IH]; intros H; cbn [map]; [reflexivity|].
  rewrite !sumq_cons, (H x (or_introl eq_refl)), IH; [reflexivity|]. intros y Hy; apply H; right; exact Hy.
Qed.

Lemma sumq_perm l l' : Permutation l l' -> sumq l == sumq l'.
Proof.
  induction 1; rewrite ?sumq_cons; try reflexivity.
  - rewrite IHPermutation; reflexivity.
  - ring.
  - rewrite IHPermutation1; exact IHPermutation2.
Qed.

Lemma sumq_map_perm {X} (f : X -> Q) l l' : Permutation l l' -> sumq (map f l) == sumq (map f l').
Proof. intros H; apply sumq_perm, Permutation_map, H. Qed.

Lemma sumq_map_plus {X} (f g : X -> Q) l :
  sumq (map (fun x => f x + g x) l) == sumq (map f l) + sumq (map g l).
Proof. induction l as [|x r IH]; cbn [map]; rewrite ?sumq_nil, ?sumq_cons; [ring | rewrite IH; ring]. Qed.

Lemma sumq_map_scal {X} (k : Q) (f : X -> Q) l :
  sumq (map (fun x => k * f x) l) == k * sumq (map f l).
Proof. induction l as [|x r IH]; cbn [map]; rewrite ?sumq_nil, ?sumq_cons; [ring | rewrite IH; ring]. Qed.

Lemma qofnat_S n : qofnat (S n) == qofnat n + 1.
Proof. unfold qofnat. rewrite Nat2Z.inj_succ. unfold Z.succ. rewrite inject_Z_plus. reflexivity. Qed.

Lemma sumq_const {X} (k : Q) (l : list X) : sumq (map (fun _ => k) l) == qofnat (length l) * k.
Proof.
  induction l as [|x r IH]; cbn [map length]; rewrite ?sumq_nil, ?sumq_cons.
  - unfold qofnat; cbn; ring.
  - rewrite IH, qofnat_S. ring.
Qed.

Lemma sumq_nonneg l : (forall x, In x l -> 0 <= x) -> 0 <= sumq l.
Proof.
  induction l as [|x r IH]; intros H; rewrite ?sumq_nil, ?sumq_cons; [lra|].
  assert (0 <= x) by (apply H; left; reflexivity).
  assert (0 <= sumq r) by (apply IH; intros y Hy; apply H; right; exact Hy). lra.
Qed.

Lemma map_qnth_seq (w : list Q) : map (qnth w) (seq 0 (length w)) = w.
Proof.
  unfold qnth. induction w as [|x r IH]; [reflexivity|].
  cbn [length seq map nth]. f_equal. rewrite <- seq_shift, map_map. exact IH.
Qed.

(** Sum of an indicator over a duplicate-free list. *)
Lemma sumq_ind (k : Q) (i : nat) l : NoDup l ->
  sumq (map (fun c => ind (Nat.eqb c i) * k) l) == if in_dec Nat.eq_dec i l then k else 0.
Proof.
  induction 1 as [|x r Hx Hr IH]; [reflexivity|].
  cbn [map]. rewrite sumq_cons, IH.
  destruct (Nat.eqb x i) eqn:E.
  - apply Nat.eqb_eq in E; subst x.
    destruct (in_dec Nat.eq_dec i r) as [Hi|Hi]; [contradiction|].
    destruct (in_dec Nat.eq_dec i (i :: r)) as [_|Hn]; [cbn; ring | exfalso; apply Hn; left; reflexivity].
  - apply Nat.eqb_neq in E.
    destruct (in_dec Nat.eq_dec i r) as [Hi|Hi]; destruct (in_dec Nat.eq_dec i (x :: r)) as [Hj|Hj]; cbn; try ring.
    + exfalso; apply Hj; right; exact Hi.
    + destruct Hj as [Hj|Hj]; [congruence | contradiction].
Qed.

(** ---- upd ---- *)
Lemma upd_length {X} (l : list X) k v : length (upd l k v) = length l.
Proof. revert k; induction l as [|x r IH]; intros [|k]; cbn; auto. Qed.

Lemma nth_upd_same {X} (l : list X) k v d : (k < length l)%nat -> nth k (upd l k v) d = v.
Proof. revert k; induction l as [|x r IH]; intros [|k] H; cbn in *; try lia; auto. apply IH; lia. Qed.

Lemma nth_upd_other {X} (l : list X) k j v d : j <> k -> nth j (upd l k v) d = nth j l d.
Proof.
  revert k j; induction l as [|x r IH]; intros [|k] [|j] H; cbn; auto; try congruence.
Qed.

Lemma nth_fold_upd (l : list nat) : forall (p : list Q) c,
  qnth (fold_left (fun p c => upd p c 1) l p) c =
  if in_dec Nat.eq_dec c l then (if Nat.ltb c (length p) then 1 else qnth p c) else qnth p c.
Proof.
  induction l as [|x r IH]; intros p c; [reflexivity|].
  cbn [fold_left]. rewrite IH, upd_length.
  destruct (in_dec Nat.eq_dec c r) as [Hr|Hr]; destruct (in_dec Nat.eq_dec c (x :: r)) as [Hx|Hx].
  - destruct (Nat.ltb c (length p)) eqn:E; auto.
    apply Nat.ltb_ge in E. unfold qnth. rewrite !nth_overflow; auto. rewrite upd_length; lia.
  - exfalso; apply Hx; right; auto.
  - destruct Hx as [Hx|Hx]; [subst x|contradiction].
    destruct (Nat.ltb c (length p)) eqn:E.
    + apply Nat.ltb_lt in E. unfold qnth. apply nth_upd_same; auto.
    + apply Nat.ltb_ge in E. unfold qnth. rewrite !nth_overflow; auto. rewrite upd_length; lia.
  - unfold qnth. apply nth_upd_other. intros ->; apply Hx; left; reflexivity.
Qed.

Lemma length_fold_upd (l : list nat) : forall (p : list Q),
  length (fold_left (fun p c => upd p c 1) l p) = length p.
Proof. induction l as [|x r IH]; intros p; cbn; [reflexivity | rewrite IH; apply upd_length]. Qed.

(** ---- the partition of the indices ---- *)
Lemma filter_partition_perm {X} (f : X -> bool) l :
  Permutation l (filter (fun x => negb (f x)) l ++ filter f l).
Proof.
  induction l as [|x r IH]; [constructor|].
  cbn. destruct (f x); cbn.
  - apply Permutation_cons_app; exact IH.
  - constructor; exact IH.
Qed.

Lemma qofnat_pos n : (0 < n)%nat -> 0 < qofnat n.
Proof. intros H. unfold qofnat. replace 0 with (inject_Z 0) by reflexivity. rewrite <- Zlt_Qlt. lia. Qed.

Lemma qle_bool_false a b : Qle_bool a b = false -> b < a.
Proof.
  intros H. apply Qnot_le_lt. intros Hle. apply Qle_bool_iff in Hle. congruence.
Qed.

(** ---- the pairing loop ---- *)
Section Core.
  Variable n : nat.
  Hypothesis npos : (0 < n)%nat.
  Let nq := qofnat n.
  Let avg := 1 / nq.

  Lemma nq_pos : 0 < nq.
  Proof. apply qofnat_pos, npos. Qed.
  Lemma avg_pos : 0 < avg.
  Proof. unfold avg. apply Qlt_shift_div_l; [apply nq_pos | pose proof nq_pos; lra]. Qed.
  Lemma avg_nq : avg * nq == 1.
  Proof. unfold avg. field. pose proof nq_pos; lra. Qed.

  Definition unplaced (st : state) : list nat := small st ++ large st.

  Record Inv (st : state) : Prop := {
    inv_lw : length (wts st) = n;
    inv_lp : length (proba st) = n;
    inv_la : length (alias st) = n;
    inv_nodup : NoDup (unplaced st);
    inv_lt : forall c, In c (unplaced st) -> (c < n)%nat;
    inv_small : forall c, In c (small st) -> 0 <= qnth (wts st) c /\ qnth (wts st) c < avg;
    inv_large : forall c, In c (large st) -> avg <= qnth (wts st) c;
    inv_sum : sumq (map (fun c => qnth (wts st) c - avg) (unplaced st)) == 0
  }.

  Lemma step_spec st st' : step n st = Some st' ->
    exists less more sm lg,
      small st = less :: sm /\ large st = more :: lg /\
      wts st' = upd (wts st) more (Qred (qnth (wts st) more + qnth (wts st) less - avg)) /\
      proba st' = upd (proba st) less (Qred (qnth (wts st) less * nq)) /\
      alias st' = upd (alias st) less more /\
      ((avg <= qnth (wts st) more + qnth (wts st) less - avg /\ small st' = sm /\ large st' = lg ++ [more]) \/
       (qnth (wts st) more + qnth (wts st) less - avg < avg /\ small st' = sm ++ [more] /\ large st' = lg)).
  Proof.
    unfold step. destruct (small st) as [|less sm] eqn:Es; [discriminate|].
    destruct (large st) as [|more lg] eqn:El; [discriminate|].
    fold nq. fold avg.
    destruct (Qle_bool avg (Qred (qnth (wts st) more + qnth (wts st) less - avg))) eqn:E; intros H; inversion H; subst st'; cbn;
      exists less, more, sm, lg; repeat split; auto.
    - left. apply Qle_bool_iff in E. rewrite Qred_correct in E. auto.
    - right. apply qle_bool_false in E. rewrite Qred_correct in E. auto.
  Qed.

  Lemma step_perm st st' less more sm lg :
    small st = less :: sm -> large st = more :: lg ->
    ((small st' = sm /\ large st' = lg ++ [more]) \/ (small st' = sm ++ [more] /\ large st' = lg)) ->
    Permutation (unplaced st') (sm ++ lg ++ [more]) /\ Permutation (unplaced st) (less :: unplaced st').
  Proof.
    intros Es El H. unfold unplaced. rewrite Es, El.
    assert (P1 : Permutation (small st' ++ large st') (sm ++ lg ++ [more])).
    { destruct H as [[-> ->]|[-> ->]]; [reflexivity|].
      rewrite <- app_assoc. apply Permutation_app_head, Permutation_app_comm. }
    split; [exact P1|].
    cbn [app]. constructor. rewrite P1. apply Permutation_app_head.
    change (more :: lg) with ([more] ++ lg). apply Permutation_app_comm.
  Qed.

  Lemma sum_neg {X} (f : X -> Q) l : l <> [] -> (forall c, In c l -> f c < 0) -> sumq (map f l) < 0.
  Proof.
    induction l as [|x r IH]; intros Hne H; [congruence|].
    cbn [map]. rewrite sumq_cons.
    assert (f x < 0) by (apply H; left; reflexivity).
    destruct r as [|y r'].
    - cbn [map]. rewrite sumq_nil. lra.
    - assert (sumq (map f (y :: r')) < 0) by (apply IH; [discriminate | intros c Hc; apply H; right; exact Hc]). lra.
  Qed.

  Lemma sum_zero_nonneg {X} (f : X -> Q) l :
    (forall c, In c l -> 0 <= f c) -> sumq (map f l) == 0 -> forall c, In c l -> f c == 0.
  Proof.
    induction l as [|x r IH]; intros H Hs c Hc; [destruct Hc|].
    cbn [map] in Hs. rewrite sumq_cons in Hs.
    assert (0 <= f x) by (apply H; left; reflexivity).
    assert (0 <= sumq (map f r)).
    { apply sumq_nonneg. intros y Hy. apply in_map_iff in Hy. destruct Hy as [z [<- Hz]]. apply H; right; exact Hz. }
    destruct Hc as [<-|Hc]; [lra|].
    apply IH; auto; [intros z Hz; apply H; right; exact Hz | lra].
  Qed.

  (** Facts about the two popped indices. *)
  Lemma popped_facts st less more sm lg : Inv st -> small st = less :: sm -> large st = more :: lg ->
    less <> more /\ ~ In less sm /\ ~ In less lg /\ ~ In more sm /\ ~ In more lg /\ NoDup (sm ++ lg) /\
    (less < n)%nat /\ (more < n)%nat.
  Proof.
    intros I Es El. pose proof (inv_nodup st I) as Hn. pose proof (inv_lt st I) as Hlt.
    unfold unplaced in *. rewrite Es, El in *.
    assert (P : Permutation ((less :: sm) ++ more :: lg) (less :: more :: sm ++ lg)).
    { cbn [app]. constructor. symmetry. apply Permutation_middle. }
    apply (Permutation_NoDup P) in Hn. inversion Hn as [|? ? H1 H2]; subst. inversion H2 as [|? ? H3 H4]; subst.
    repeat split; auto.
    - intros ->; apply H1; left; reflexivity.
    - intros H; apply H1; right; apply in_or_app; left; exact H.
    - intros H; apply H1; right; apply in_or_app; right; exact H.
    - intros H; apply H3; apply in_or_app; left; exact H.
    - intros H; apply H3; apply in_or_app; right; exact H.
    - apply Hlt. left; reflexivity.
    - apply Hlt. apply in_or_app; right; left; reflexivity.
  Qed.

  Lemma step_inv st st' : Inv st -> step n st = Some st' -> Inv st'.
  Proof.
    intros I Hs. destruct (step_spec st st' Hs) as (less & more & sm & lg & Es & El & Hw & Hp & Ha & Hbr).
    destruct (popped_facts st less more sm lg I Es El) as (Hlm & Hl_sm & Hl_lg & Hm_sm & Hm_lg & Hnd & Hl & Hm).
    set (wm := qnth (wts st) more + qnth (wts st) less - avg) in *.
    assert (Hbr' : (small st' = sm /\ large st' = lg ++ [more]) \/ (small st' = sm ++ [more] /\ large st' = lg))
      by (destruct Hbr as [(_ & A & B)|(_ & A & B)]; auto).
    destruct (step_perm st st' less more sm lg Es El Hbr') as [P1 P2].
    assert (Hw_other : forall c, c <> more -> qnth (wts st') c = qnth (wts st) c).
    { intros c Hc. rewrite Hw. unfold qnth. apply nth_upd_other; exact Hc. }
    assert (Hw_more : qnth (wts st') more == wm).
    { rewrite Hw. unfold qnth. rewrite nth_upd_same by (rewrite (inv_lw st I); exact Hm). apply Qred_correct. }
    assert (Hless : 0 <= qnth (wts st) less /\ qnth (wts st) less < avg)
      by (apply (inv_small st I); rewrite Es; left; reflexivity).
    assert (Hmore : avg <= qnth (wts st) more)
      by (apply (inv_large st I); rewrite El; left; reflexivity).
    constructor.
    - rewrite Hw, upd_length. apply (inv_lw st I).
    - rewrite Hp, upd_length. apply (inv_lp st I).
    - rewrite Ha, upd_length. apply (inv_la st I).
    - pose proof (Permutation_NoDup P2 (inv_nodup st I)) as H. inversion H; auto.
    - intros c Hc. apply (inv_lt st I). apply (Permutation_in _ (Permutation_sym P2)). right; exact Hc.
    - intros c Hc.
      assert (Hsm : In c sm -> 0 <= qnth (wts st') c /\ qnth (wts st') c < avg).
      { intros Hin. rewrite Hw_other by (intros ->; contradiction).
        apply (inv_small st I). rewrite Es. right; exact Hin. }
      destruct Hbr as [(Hge & A & B)|(Hlt & A & B)]; rewrite A in Hc; auto.
      apply in_app_or in Hc. destruct Hc as [Hc|[<-|[]]]; auto.
      rewrite Hw_more. unfold wm in *. lra.
    - intros c Hc.
      assert (Hlg : In c lg -> avg <= qnth (wts st') c).
      { intros Hin. rewrite Hw_other by (intros ->; contradiction).
        apply (inv_large st I). rewrite El. right; exact Hin. }
      destruct Hbr as [(Hge & A & B)|(Hlt & A & B)]; rewrite B in Hc; auto.
      apply in_app_or in Hc. destruct Hc as [Hc|[<-|[]]]; auto.
      rewrite Hw_more. exact Hge.
    - rewrite (sumq_map_perm _ _ _ P1).
      pose proof (inv_sum st I) as S0. unfold unplaced in S0. rewrite Es, El in S0.
      rewrite map_app, sumq_app in S0. cbn [map] in S0. rewrite !sumq_cons in S0.
      rewrite !map_app, !sumq_app. cbn [map]. rewrite sumq_cons, sumq_nil.
      rewrite (sumq_ext (fun c => qnth (wts st') c - avg) (fun c => qnth (wts st) c - avg) sm)
        by (intros c Hc; rewrite Hw_other by (intros ->; contradiction); reflexivity).
      rewrite (sumq_ext (fun c => qnth (wts st') c - avg) (fun c => qnth (wts st) c - avg) lg)
        by (intros c Hc; rewrite Hw_other by (intros ->; contradiction); reflexivity).
      rewrite Hw_more. unfold wm. lra.
  Qed.

  Definition colm (t : table) (c i : nat) : Q :=
    col_mass n (qnth (t_proba t) c) (nth c (t_alias t) O) c i.

  Lemma step_none st : step n st = None -> small st = [] \/ large st = [].
  Proof.
    unfold step. destruct (small st); [auto|]. destruct (large st); [auto|].
    destruct (Qle_bool _ _); discriminate.
  Qed.

  Lemma all_avg st : Inv st -> step n st = None -> forall c, In c (unplaced st) -> qnth (wts st) c == avg.
  Proof.
    intros I Hn c Hc. pose proof (inv_sum st I) as S0.
    destruct (step_none st Hn) as [E|E].
    - (* small empty: everything is in large *)
      unfold unplaced in *. rewrite E in *. cbn [app] in *.
      assert (qnth (wts st) c - avg == 0); [|lra].
      apply (sum_zero_nonneg (fun c => qnth (wts st) c - avg) (large st)); auto.
      intros d Hd. pose proof (inv_large st I d Hd). lra.
    - unfold unplaced in *. rewrite E in *. rewrite app_nil_r in *.
      exfalso. assert (sumq (map (fun c => qnth (wts st) c - avg) (small st)) < 0); [|lra].
      apply sum_neg; [intros E'; rewrite E' in Hc; destruct Hc|].
      intros d Hd. pose proof (inv_small st I d Hd). lra.
  Qed.

  Lemma col_mass_placed p a c i :
    col_mass n (Qred (p * nq)) a c i == ind (Nat.eqb c i) * p + ind (Nat.eqb a i) * (avg - p).
  Proof.
    unfold col_mass. fold nq. rewrite Qred_correct. unfold avg. field. pose proof nq_pos; lra.
  Qed.

  Lemma loop_post : forall fuel st stf, Inv st -> loop fuel n st = Some stf ->
    let T := finish stf in
    length (t_proba T) = n /\
    (forall c, ~ In c (unplaced st) ->
       qnth (t_proba T) c = qnth (proba st) c /\ nth c (t_alias T) O = nth c (alias st) O) /\
    (forall c, In c (unplaced st) -> 0 <= qnth (t_proba T) c /\ qnth (t_proba T) c <= 1) /\
    (forall i, sumq (map (fun c => colm T c i) (unplaced st)) ==
               if in_dec Nat.eq_dec i (unplaced st) then qnth (wts st) i else 0).
  Proof.
    induction fuel as [|f IH]; intros st stf I Hl; cbn [loop] in Hl.
    all: destruct (step n st) as [st'|] eqn:Hs; [|].
    1: discriminate.
    2: { (* inductive case *)
      pose proof (step_inv st st' I Hs) as I'.
      destruct (IH st' stf I' Hl) as (Hlen & Ha & Hb & Hc).
      destruct (step_spec st st' Hs) as (less & more & sm & lg & Es & El & Hw & Hp & Hal & Hbr).
      destruct (popped_facts st less more sm lg I Es El) as (Hlm & Hl_sm & Hl_lg & Hm_sm & Hm_lg & Hnd & Hlt & Hmt).
      assert (Hbr' : (small st' = sm /\ large st' = lg ++ [more]) \/ (small st' = sm ++ [more] /\ large st' = lg))
        by (destruct Hbr as [(_ & A & B)|(_ & A & B)]; auto).
      destruct (step_perm st st' less more sm lg Es El Hbr') as [P1 P2].
      assert (Hless : 0 <= qnth (wts st) less /\ qnth (wts st) less < avg)
        by (apply (inv_small st I); rewrite Es; left; reflexivity).
      assert (Hnl : ~ In less (unplaced st')).
      { pose proof (Permutation_NoDup P2 (inv_nodup st I)) as H. inversion H; auto. }
      assert (Hsub : forall c, In c (unplaced st') -> In c (unplaced st)).
      { intros c H. apply (Permutation_in _ (Permutation_sym P2)). right; exact H. }
      assert (Hmore_in : In more (unplaced st')).
      { apply (Permutation_in _ (Permutation_sym P1)). apply in_or_app; right. apply in_or_app; right; left; reflexivity. }
      destruct (Ha less Hnl) as [Hpl Hall].
      assert (Hpl' : qnth (t_proba (finish stf)) less = Qred (qnth (wts st) less * nq)).
      { rewrite Hpl, Hp. unfold qnth. apply nth_upd_same. rewrite (inv_lp st I); exact Hlt. }
      assert (Hall' : nth less (t_alias (finish stf)) O = more).
      { rewrite Hall, Hal. apply nth_upd_same. rewrite (inv_la st I); exact Hlt. }
      cbn zeta. split; [exact Hlen|]. split; [|split].
      - intros c Hcu.
        assert (Hc' : ~ In c (unplaced st')) by (intros H; apply Hcu, Hsub, H).
        destruct (Ha c Hc') as [A B]. rewrite A, B, Hp, Hal.
        assert (c <> less).
        { intros ->. apply Hcu. unfold unplaced. rewrite Es. left; reflexivity. }
        unfold qnth. rewrite !nth_upd_other by auto. auto.
      - intros c Hcu. apply (Permutation_in _ P2) in Hcu. destruct Hcu as [<-|Hcu]; [|apply Hb; exact Hcu].
        rewrite Hpl', Qred_correct. pose proof nq_pos. pose proof avg_nq. split; [nra|].
        assert (qnth (wts st) less * nq < avg * nq) by (apply Qmult_lt_compat_r; lra). lra.
      - intros i.
        rewrite (sumq_map_perm _ _ _ P2). cbn [map]. rewrite sumq_cons, Hc.
        unfold colm at 1. rewrite Hpl', Hall', col_mass_placed.
        assert (Hw_other : forall c, c <> more -> qnth (wts st') c = qnth (wts st) c).
        { intros c Hc0. rewrite Hw. unfold qnth. apply nth_upd_other; exact Hc0. }
        assert (Hw_more : qnth (wts st') more == qnth (wts st) more + qnth (wts st) less - avg).
        { rewrite Hw. unfold qnth. rewrite nth_upd_same by (rewrite (inv_lw st I); exact Hmt). apply Qred_correct. }
        destruct (Nat.eq_dec less i) as [<-|Hli].
        + rewrite Nat.eqb_refl. replace (Nat.eqb more less) with false by (symmetry; apply Nat.eqb_neq; auto).
          destruct (in_dec Nat.eq_dec less (unplaced st')) as [H|_]; [contradiction|].
          destruct (in_dec Nat.eq_dec less (unplaced st)) as [_|H]; [cbn [ind]; ring|].
          exfalso; apply H. unfold unplaced; rewrite Es; left; reflexivity.
        + replace (Nat.eqb less i) with false by (symmetry; apply Nat.eqb_neq; auto).
          destruct (Nat.eq_dec more i) as [<-|Hmi].
          * rewrite Nat.eqb_refl.
            destruct (in_dec Nat.eq_dec more (unplaced st')) as [_|H]; [|contradiction].
            destruct (in_dec Nat.eq_dec more (unplaced st)) as [_|H]; [|exfalso; apply H, Hsub, Hmore_in].
            rewrite Hw_more. cbn [ind]. ring.
          * replace (Nat.eqb more i) with false by (symmetry; apply Nat.eqb_neq; auto).
            destruct (in_dec Nat.eq_dec i (unplaced st')) as [H1|H1];
              destruct (in_dec Nat.eq_dec i (unplaced st)) as [H2|H2]; cbn [ind].
            -- rewrite Hw_other by auto. ring.
            -- exfalso; apply H2, Hsub, H1.
            -- exfalso. apply (Permutation_in _ P2) in H2. destruct H2 as [H2|H2]; [auto | contradiction].
            -- ring. }
    all: (* base cases: the loop condition fails at once *)
      inversion Hl; subst stf; clear Hl;
      pose proof (all_avg st I Hs) as Havg;
      assert (Hp : forall c, qnth (t_proba (finish st)) c =
                  if in_dec Nat.eq_dec c (unplaced st) then 1 else qnth (proba st) c)
        by (intros c; unfold finish; cbn [t_proba]; fold (unplaced st); rewrite nth_fold_upd;
            destruct (in_dec Nat.eq_dec c (unplaced st)) as [Hc|Hc]; auto;
            rewrite (inv_lp st I); pose proof (inv_lt st I c Hc) as Hc';
            apply Nat.ltb_lt in Hc'; rewrite Hc'; reflexivity);
      cbn zeta; (split; [unfold finish; cbn [t_proba]; rewrite length_fold_upd; apply (inv_lp st I)|]);
      (split; [|split]).
    1,4: intros c Hc; rewrite Hp; destruct (in_dec Nat.eq_dec c (unplaced st)); [contradiction|split; reflexivity].
    1,3: intros c Hc; rewrite Hp; destruct (in_dec Nat.eq_dec c (unplaced st)); [lra|contradiction].
    all: intros i;
      rewrite (sumq_ext (fun c => colm (finish st) c i) (fun c => ind (Nat.eqb c i) * avg))
        by (intros c Hc; unfold colm, col_mass; rewrite Hp;
            destruct (in_dec Nat.eq_dec c (unplaced st)); [|contradiction];
            fold nq; unfold avg; field; pose proof nq_pos; lra);
      rewrite (sumq_ind avg i _ (inv_nodup st I));
      destruct (in_dec Nat.eq_dec i (unplaced st)) as [Hi|Hi]; [rewrite (Havg i Hi)|]; reflexivity.
  Qed.
End Core.

(** ---- fuel: every iteration removes one index for good ---- *)
Lemma loop_fuel_ok n : forall fuel st,
  (length (small st) + length (large st) <= fuel)%nat -> loop fuel n st <> None.
Proof.
  induction fuel as [|f IH]; intros st H; cbn [loop]; destruct (step n st) as [st'|] eqn:Hs; try discriminate.
  - exfalso. destruct (step_spec n st st' Hs) as (less & more & sm & lg & Es & El & _). rewrite Es, El in H. cbn in H. lia.
  - apply IH. destruct (step_spec n st st' Hs) as (less & more & sm & lg & Es & El & _ & _ & _ & Hbr).
    rewrite Es, El in H. cbn [length] in H.
    destruct Hbr as [(_ & -> & ->)|(_ & -> & ->)]; rewrite app_length; cbn [length]; lia.
Qed.

(** ---- the initial state ---- *)
Lemma init_perm w : Permutation (seq 0 (length w)) (unplaced (init w)).
Proof. unfold unplaced, init; cbn [small large]. apply filter_partition_perm. Qed.

Lemma init_inv w : (0 < length w)%nat -> (forall x, In x w -> 0 <= x) -> sumq w == 1 ->
  Inv (length w) (init w).
Proof.
  intros Hn Hpos Hsum. set (n := length w).
  pose proof (init_perm w) as P. fold n in P.
  constructor.
  - reflexivity.
  - apply repeat_length.
  - apply repeat_length.
  - apply (Permutation_NoDup P), seq_NoDup.
  - intros c Hc. apply (Permutation_in _ (Permutation_sym P)) in Hc. apply in_seq in Hc. lia.
  - intros c Hc. cbn [init small wts] in *. apply filter_In in Hc. destruct Hc as [Hc Hb].
    apply in_seq in Hc. split.
    + apply Hpos. unfold qnth. apply nth_In. fold n. lia.
    + apply negb_true_iff in Hb. apply qle_bool_false in Hb. exact Hb.
  - intros c Hc. cbn [init large wts] in *. apply filter_In in Hc. destruct Hc as [_ Hb].
    apply Qle_bool_iff in Hb. exact Hb.
  - rewrite <- (sumq_map_perm _ _ _ P). cbn [init wts].
    rewrite (sumq_ext (fun c => qnth w c - 1 / qofnat n) (fun c => qnth w c + - (1 / qofnat n)))
      by (intros; ring).
    rewrite sumq_map_plus, sumq_const, seq_length. unfold n at 1. rewrite map_qnth_seq, Hsum.
    field. pose proof (qofnat_pos n Hn). lra.
Qed.

Lemma clamp_id p : 0 <= p -> p <= 1 -> clamp p == p.
Proof.
  intros H0 H1. unfold clamp. destruct (Qle_bool p 0) eqn:E0.
  - apply Qle_bool_iff in E0. lra.
  - destruct (Qle_bool 1 p) eqn:E1; [|reflexivity]. apply Qle_bool_iff in E1. lra.
Qed.

Lemma clamp_range p : 0 <= clamp p /\ clamp p <= 1.
Proof.
  unfold clamp. destruct (Qle_bool p 0) eqn:E0; [lra|].
  destruct (Qle_bool 1 p) eqn:E1; [lra|]. apply qle_bool_false in E0, E1. lra.
Qed.

Lemma col_mass_ext n p p' a c i : p == p' -> col_mass n p a c i == col_mass n p' a c i.
Proof. intros H. unfold col_mass. rewrite H. reflexivity. Qed.

(** Exactness for weights used as they are (sum 1). *)
Theorem alias_exact_raw w : (0 < length w)%nat -> (forall x, In x w -> 0 <= x) -> sumq w == 1 ->
  exists T wf, build_raw w = Some (T, wf) /\ t_size T = length w /\
    (forall c, 0 <= qnth (t_proba T) c /\ qnth (t_proba T) c <= 1 \/ (length w <= c)%nat) /\
    forall i, draw_dist T i == qnth w i.
Proof.
  intros Hn Hpos Hsum. pose proof (init_inv w Hn Hpos Hsum) as I.
  unfold build_raw.
  destruct (loop (length w) (length w) (init w)) as [stf|] eqn:Hl.
  2: { exfalso. revert Hl. apply loop_fuel_ok. pose proof (Permutation_length (init_perm w)) as H.
       rewrite seq_length in H. unfold unplaced in H. rewrite app_length in H. lia. }
  destruct (loop_post (length w) Hn (length w) (init w) stf I Hl) as (Hlen & _ & Hb & Hc).
  exists (finish stf), (wts stf). split; [reflexivity|]. split; [exact Hlen|]. split.
  - intros c. destruct (Nat.lt_ge_cases c (length w)) as [H|H]; [left|right; exact H].
    apply Hb. apply (Permutation_in _ (init_perm w)). apply in_seq. lia.
  - intros i. unfold draw_dist. unfold t_size. rewrite Hlen.
    rewrite (sumq_map_perm _ _ _ (init_perm w)).
    rewrite (sumq_ext _ (fun c => colm (length w) (finish stf) c i)).
    + rewrite Hc. cbn [init wts]. destruct (in_dec Nat.eq_dec i (unplaced (init w))) as [H|H]; [reflexivity|].
      unfold qnth. rewrite nth_overflow; [reflexivity|].
      destruct (Nat.lt_ge_cases i (length w)) as [Hi|Hi]; [|exact Hi].
      exfalso. apply H. apply (Permutation_in _ (init_perm w)). apply in_seq. lia.
    + intros c Hcin. unfold colm. apply col_mass_ext. destruct (Hb c Hcin). apply clamp_id; auto.
Qed.

(** ---- normalisation ---- *)
Lemma sumq_normalised w : 0 < sumq w -> sumq (normalised w) == 1.
Proof.
  intros Hs. unfold normalised.
  rewrite (sumq_ext _ (fun x => (1 / sumq w) * x)) by (intros x _; rewrite Qred_correct; field; lra).
  rewrite sumq_map_scal, map_id. field. lra.
Qed.

Lemma qnth_normalised w i : 0 < sumq w -> qnth (normalised w) i == qnth w i / sumq w.
Proof.
  intros Hs. unfold qnth, normalised.
  destruct (Nat.lt_ge_cases i (length w)) as [H|H].
  - rewrite (nth_indep _ 0 (Qred (0 / sumq w))) by (rewrite map_length; exact H).
    rewrite (map_nth (fun x => Qred (x / sumq w))). apply Qred_correct.
  - rewrite !nth_overflow by (rewrite ?map_length; exact H). field. lra.
Qed.

(** C09_alias_exact: non-negative weights of positive sum; the induced
    distribution is the normalised weight vector. *)
Theorem alias_exact w : (0 < length w)%nat -> (forall x, In x w -> 0 <= x) -> 0 < sumq w ->
  exists T, build w = Some T /\ t_size T = length w /\ forall i, draw_dist T i == qnth w i / sumq w.
Proof.
  intros Hn Hpos Hs.
  destruct (alias_exact_raw (normalised w)) as (T & wf & Hb & Hsz & _ & Hd).
  - unfold normalised. rewrite map_length. exact Hn.
  - intros x Hx. unfold normalised in Hx. apply in_map_iff in Hx. destruct Hx as [y [<- Hy]].
    rewrite Qred_correct. apply Qle_shift_div_l; [exact Hs|]. pose proof (Hpos y Hy). lra.
  - apply sumq_normalised, Hs.
  - exists T. unfold build. rewrite Hb. split; [reflexivity|]. split.
    + rewrite Hsz. unfold normalised. apply map_length.
    + intros i. rewrite Hd. apply qnth_normalised, Hs.
Qed.

Corollary alias_exact_sum1 w : (0 < length w)%nat -> (forall x, In x w -> 0 <= x) -> sumq w == 1 ->
  exists T, build w = Some T /\ forall i, draw_dist T i == qnth w i.
Proof.
  intros Hn Hpos Hs. destruct (alias_exact w Hn Hpos) as (T & Hb & _ & Hd); [lra|].
  exists T. split; [exact Hb|]. intros i. rewrite Hd, Hs. field.
Qed.

(** Non-vacuity: a concrete instance with ties, a zero and a dominant weight. *)
Example alias_exact_instance :
  let w := [1 # 8; 0; 1 # 2; 1 # 8; 1 # 4] in
  (forall x, In x w -> 0 <= x) /\ sumq w == 1 /\
  match build w with
  | Some T => map (fun i => Qred (draw_dist T i)) (seq 0 5) = map Qred w /\
              T = {| t_proba := [5 # 8; 0; 1; 5 # 8; 1 # 4]; t_alias := [2; 4; 0; 2; 2]%nat |}
  | None => False
  end.
Proof.
  split; [|split].
  - intros x Hx. cbn in Hx. repeat (destruct Hx as [<-|Hx]; [unfold Qle; cbn; lia|]). destruct Hx.
  - vm_compute. reflexivity.
  - vm_compute. split; reflexivity.
Qed.

(** ---- the pinned behaviour is refuted ---- *)
Theorem fair_coin_refuted :
  exists w T i, (forall x, In x w -> 0 <= x) /\ sumq w == 1 /\ build_pinned w = Some T /\ build w = Some T /\
                ~ draw_dist_pinned T i == qnth w i.
Proof.
  exists [7 # 10; 2 # 10; 1 # 10], {| t_proba := [1; 3 # 5; 3 # 10]; t_alias := [0; 0; 0]%nat |}, O.
  split; [|split; [|split; [|split]]].
  - intros x Hx. cbn in Hx. repeat (destruct Hx as [<-|Hx]; [unfold Qle; cbn; lia|]). destruct Hx.
  - vm_compute. reflexivity.
  - vm_compute. reflexivity.
  - vm_compute. reflexivity.
  - vm_compute. discriminate.
Qed.

(** The pinned constructor uses the weights as they are: (7, 2, 1) gives the
    uniform distribution. *)
Theorem unnormalised_refuted :
  exists w T, (forall x, In x w -> 0 <= x) /\ 0 < sumq w /\ build_pinned w = Some T /\
              ~ draw_dist T 0 == qnth w 0 / sumq w.
Proof.
  exists [7 # 1; 2 # 1; 1 # 1], {| t_proba := [1; 1; 1]; t_alias := [0; 0; 0]%nat |}.
  split; [|split; [|split]].
  - intros x Hx. cbn in Hx. repeat (destruct Hx as [<-|Hx]; [unfold Qle; cbn; lia|]). destruct Hx.
  - vm_compute. reflexivity.
  - vm_compute. reflexivity.
  - vm_compute. discriminate.
Qed.

(** ---- draw_dist is the area of the preimage ---- *)
Definition in_rectb (r : rect) (u1 u2 : Q) : bool :=
  Qle_bool (fst (fst r)) u1 && qlt_bool u1 (snd (fst r)) && (Qle_bool (fst (snd r)) u2 && qlt_bool u2 (snd (snd r))).

Lemma qlt_bool_iff a b : qlt_bool a b = true <-> a < b.
Proof.
  unfold qlt_bool. rewrite negb_true_iff. split.
  - apply qle_bool_false.
  - intros H. destruct (Qle_bool b a) eqn:E; [|reflexivity]. apply Qle_bool_iff in E. lra.
Qed.

Lemma in_rectb_spec r u1 u2 : in_rectb r u1 u2 = true <-> in_rect r u1 u2.
Proof.
  unfold in_rectb, in_rect. rewrite !andb_true_iff, !Qle_bool_iff, !qlt_bool_iff. tauto.
Qed.

Lemma column_spec n u1 c : (0 < n)%nat -> 0 <= u1 ->
  (qofnat c / qofnat n <= u1 /\ u1 < qofnat (S c) / qofnat n) <-> column n u1 = c.
Proof.
  intros Hn Hu. pose proof (qofnat_pos n Hn) as Hq. unfold column. split.
  - intros [H1 H2].
    assert (A : qofnat c <= u1 * qofnat n).
    { setoid_replace (qofnat c) with ((qofnat c / qofnat n) * qofnat n) by (field; lra).
      apply Qmult_le_compat_r; lra. }
    assert (B : u1 * qofnat n < qofnat (S c)).
    { setoid_replace (qofnat (S c)) with ((qofnat (S c) / qofnat n) * qofnat n) by (field; lra).
      apply Qmult_lt_compat_r; lra. }
    assert (Qfloor (u1 * qofnat n) = Z.of_nat c); [|rewrite H; apply Nat2Z.id].
    apply Z.le_antisymm.
    + assert (Qfloor (u1 * qofnat n) < Z.of_nat c + 1)%Z; [|lia].
      rewrite Zlt_Qlt. eapply Qle_lt_trans; [apply Qfloor_le|].
      rewrite qofnat_S in B. unfold qofnat in B. rewrite inject_Z_plus. exact B.
    + rewrite <- (Qfloor_Z (Z.of_nat c)). apply Qfloor_resp_le. exact A.
  - intros <-.
    set (x := u1 * qofnat n). assert (0 <= x) by (unfold x; apply Qmult_le_0_compat; lra).
    assert (Hz : (0 <= Qfloor x)%Z).
    { rewrite <- (Qfloor_Z 0). apply Qfloor_resp_le. exact H. }
    rewrite qofnat_S. unfold qofnat at 1 3. rewrite Z2Nat.id by exact Hz.
    pose proof (Qfloor_le x). pose proof (Qlt_floor x) as L. rewrite inject_Z_plus in L.
    split.
    + apply Qle_shift_div_r; auto.
    + apply Qlt_shift_div_l; auto.
Qed.

Lemma sumq_flat_map {X Y} (g : X -> list Y) (h : Y -> Q) l :
  sumq (map h (flat_map g l)) == sumq (map (fun c => sumq (map h (g c))) l).
Proof.
  induction l as [|x r IH]; [reflexivity|].
  cbn [flat_map map]. rewrite map_app, sumq_app, sumq_cons, IH. reflexivity.
Qed.

Lemma col_rects_area n p a c i : (0 < n)%nat ->
  sumq (map area (col_rects n p a c i)) == col_mass n p a c i.
Proof.
  intros Hn. pose proof (qofnat_pos n Hn) as Hq.
  unfold col_rects, col_mass.
  destruct (Nat.eqb c i); destruct (Nat.eqb a i); cbn [app map ind]; rewrite ?sumq_cons, ?sumq_nil;
    unfold area; cbn [fst snd]; rewrite ?qofnat_S; field; lra.
Qed.

Lemma count_flat_one {X} (f : X -> bool) (g : nat -> list X) (c0 : nat) l : NoDup l ->
  (forall c, In c l -> c <> c0 -> filter f (g c) = []) ->
  length (filter f (flat_map g l)) = if in_dec Nat.eq_dec c0 l then length (filter f (g c0)) else O.
Proof.
  induction 1 as [|x r Hx Hr IH]; intros H; [reflexivity|].
  cbn [flat_map]. rewrite filter_app, app_length, IH by (intros c Hc; apply H; right; exact Hc).
  destruct (Nat.eq_dec x c0) as [->|Hne].
  - destruct (in_dec Nat.eq_dec c0 r) as [Hi|_]; [contradiction|].
    destruct (in_dec Nat.eq_dec c0 (c0 :: r)) as [_|Hn]; [lia | exfalso; apply Hn; left; reflexivity].
  - rewrite (H x (or_introl eq_refl) Hne). cbn [length].
    destruct (in_dec Nat.eq_dec c0 r) as [Hi|Hi]; destruct (in_dec Nat.eq_dec c0 (x :: r)) as [Hj|Hj]; auto.
    + exfalso; apply Hj; right; exact Hi.
    + destruct Hj as [Hj|Hj]; [congruence|contradiction].
Qed.

Lemma lt_clamp u p : 0 <= u -> u < 1 -> qlt_bool u (clamp p) = qlt_bool u p.
Proof.
  intros H0 H1. unfold clamp.
  destruct (Qle_bool p 0) eqn:E0.
  - apply Qle_bool_iff in E0.
    destruct (qlt_bool u 0) eqn:A; [apply qlt_bool_iff in A; lra|].
    destruct (qlt_bool u p) eqn:B; [apply qlt_bool_iff in B; lra|reflexivity].
  - destruct (Qle_bool 1 p) eqn:E1; [|reflexivity]. apply Qle_bool_iff in E1.
    destruct (qlt_bool u 1) eqn:A; destruct (qlt_bool u p) eqn:B; auto.
    + exfalso. apply not_true_iff_false in B. apply B, qlt_bool_iff. lra.
    + exfalso. apply not_true_iff_false in A. apply A, qlt_bool_iff. lra.
Qed.

(** C09_draw_measure.  For every point of the unit square the number of
    rectangles of rects t i containing it is 1 when the draw returns i and 0
    otherwise (so the rectangles are pairwise disjoint and their union is the
    preimage of i), and their areas add up to draw_dist t i. *)
Theorem draw_measure t i : (0 < t_size t)%nat ->
  (forall u1 u2, 0 <= u1 -> u1 < 1 -> 0 <= u2 -> u2 < 1 ->
     length (filter (fun r => in_rectb r u1 u2) (rects t i)) = if Nat.eqb (sample_1 t u1 u2) i then 1%nat else 0%nat) /\
  sumq (map area (rects t i)) == draw_dist t i.
Proof.
  intros Hn. set (n := t_size t) in *. pose proof (qofnat_pos n Hn) as Hq. split.
  - intros u1 u2 Hu1 Hu1' Hu2 Hu2'.
    set (c0 := column n u1).
    assert (Hc0 : (c0 < n)%nat).
    { unfold c0, column. assert (Qfloor (u1 * qofnat n) < Z.of_nat n)%Z.
      { rewrite Zlt_Qlt. eapply Qle_lt_trans; [apply Qfloor_le|]. change (inject_Z (Z.of_nat n)) with (qofnat n).
        assert (u1 * qofnat n < 1 * qofnat n) by (apply Qmult_lt_compat_r; lra). lra. }
      assert (0 <= Qfloor (u1 * qofnat n))%Z.
      { rewrite <- (Qfloor_Z 0). apply Qfloor_resp_le. change (inject_Z 0) with 0. apply Qmult_le_0_compat; lra. }
      lia. }
    unfold rects. fold n.
    rewrite (count_flat_one _ _ c0) by
      (try apply seq_NoDup; intros c _ Hc;
       assert (Hno : ~ (qofnat c / qofnat n <= u1 /\ u1 < qofnat (S c) / qofnat n))
         by (intros H; apply (column_spec n u1 c Hn Hu1) in H; fold c0 in H; congruence);
       unfold col_rects;
       destruct (Nat.eqb c i); destruct (Nat.eqb _ i); cbn [app filter];
       repeat match goal with
       | |- context [in_rectb ?r u1 u2] =>
           let E := fresh in destruct (in_rectb r u1 u2) eqn:E;
           [exfalso; apply in_rectb_spec in E; unfold in_rect in E; cbn [fst snd] in E; apply Hno; tauto|]
       end; reflexivity).
    destruct (in_dec Nat.eq_dec c0 (seq 0 n)) as [_|Hno]; [|exfalso; apply Hno, in_seq; lia].
    assert (Hin : qofnat c0 / qofnat n <= u1 /\ u1 < qofnat (S c0) / qofnat n)
      by (apply (column_spec n u1 c0 Hn Hu1); reflexivity).
    unfold sample_1. fold n. fold c0.
    rewrite <- (lt_clamp u2 (qnth (t_proba t) c0) Hu2 Hu2').
    set (p := clamp (qnth (t_proba t) c0)). set (a := nth c0 (t_alias t) O).
    pose proof (clamp_range (qnth (t_proba t) c0)) as [Hp0 Hp1]. fold p in Hp0, Hp1.
    assert (R1 : in_rectb ((qofnat c0 / qofnat n, qofnat (S c0) / qofnat n), (0, p)) u1 u2 = qlt_bool u2 p).
    { unfold in_rectb; cbn [fst snd].
      replace (Qle_bool (qofnat c0 / qofnat n) u1) with true by (symmetry; apply Qle_bool_iff; tauto).
      replace (qlt_bool u1 (qofnat (S c0) / qofnat n)) with true by (symmetry; apply qlt_bool_iff; tauto).
      replace (Qle_bool 0 u2) with true by (symmetry; apply Qle_bool_iff; auto). reflexivity. }
    assert (R2 : in_rectb ((qofnat c0 / qofnat n, qofnat (S c0) / qofnat n), (p, 1)) u1 u2 = negb (qlt_bool u2 p)).
    { unfold in_rectb; cbn [fst snd].
      replace (Qle_bool (qofnat c0 / qofnat n) u1) with true by (symmetry; apply Qle_bool_iff; tauto).
      replace (qlt_bool u1 (qofnat (S c0) / qofnat n)) with true by (symmetry; apply qlt_bool_iff; tauto).
      replace (qlt_bool u2 1) with true by (symmetry; apply qlt_bool_iff; auto).
      unfold qlt_bool. rewrite negb_involutive. cbn [andb]. apply andb_true_r. }
    unfold col_rects.
    destruct (Nat.eqb c0 i) eqn:E1; destruct (Nat.eqb a i) eqn:E2; cbn [app filter]; rewrite ?R1, ?R2;
      destruct (qlt_bool u2 p); cbn [negb length]; rewrite ?E1, ?E2; reflexivity.
  - unfold rects, draw_dist. fold n. rewrite sumq_flat_map. apply sumq_ext.
    intros c _. apply col_rects_area, Hn.
Qed.
