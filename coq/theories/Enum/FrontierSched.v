(** Schedule independence of the frontier expansion (Frontier.v).

    bee search, beap search and constant-delay search keep the pushed index
    combinations in a priority queue and pop them in an order that depends on
    the rule weights.  This file abstracts the queue to "any order": a state is
    (frontier, popped); a step removes ANY element of the frontier (the frontier
    is taken up to permutation), records it as popped and pushes its children.
    For every such schedule, of any length:
      - no combination is ever pushed twice or popped twice,
      - every combination has the arity of the rule,
      - nothing is lost: every tuple of that arity is already in the frontier
        or popped, or one of its ancestors is still waiting in the frontier;
        hence when the frontier empties every tuple has been popped exactly once. *)
From Coq Require Import List Arith Lia Bool Permutation Wf_nat.
From PS Require Import Enum.Frontier Enum.FrontierProofs.
Import ListNotations.

Definition wstate := (list tuple * list tuple)%type.  (* frontier, popped *)

Inductive wstep : wstate -> wstate -> Prop :=
| wstep_pop F P c R : Permutation F (c :: R) -> wstep (F, P) (R ++ children c, c :: P).

Inductive wreach (k : nat) : wstate -> Prop :=
| wreach_init : wreach k ([zeros k], [])
| wreach_step s s' : wreach k s -> wstep s s' -> wreach k s'.

Inductive anc : tuple -> tuple -> Prop :=
| anc_parent a c : parent c = Some a -> anc a c
| anc_step a m c : anc a m -> parent c = Some m -> anc a c.

Definition WInv (k : nat) (s : wstate) : Prop :=
  NoDup (fst s ++ snd s)
  /\ (forall c, In c (fst s ++ snd s) -> length c = k)
  /\ (forall c, In c (fst s ++ snd s) -> parent c = None \/ exists p, parent c = Some p /\ In p (snd s))
  /\ (forall p c, In p (snd s) -> parent c = Some p -> In c (fst s ++ snd s))
  /\ In (zeros k) (fst s ++ snd s).

Lemma zeros_length k : length (zeros k) = k.
Proof. apply repeat_length. Qed.

Lemma WInv_init k : WInv k ([zeros k], []).
Proof.
  unfold WInv; cbn. repeat split.
  - constructor; [intros []|constructor].
  - intros c [<-|[]]. apply zeros_length.
  - intros c [<-|[]]. left. apply parent_none. now rewrite zeros_length.
  - intros p c [].
  - now left.
Qed.

Lemma step_in F P c R x : Permutation F (c :: R) ->
  In x ((R ++ children c) ++ c :: P) <-> In x (children c) \/ In x (F ++ P).
Proof.
  intros HP. rewrite !in_app_iff. cbn.
  assert (HF : In x F <-> c = x \/ In x R).
  { split; intros H.
    - apply (Permutation_in _ HP) in H. exact H.
    - apply (Permutation_in _ (Permutation_sym HP)). exact H. }
  rewrite HF. tauto.
Qed.

Lemma WInv_step k s s' : WInv k s -> wstep s s' -> WInv k s'.
Proof.
  intros (Hnd & Hlen & Hpar & Hcl & Hz) Hs. destruct Hs as [F P c R HP]. cbn [fst snd] in *.
  assert (HcF : In c F) by (apply (Permutation_in _ (Permutation_sym HP)); now left).
  assert (Hperm : Permutation (F ++ P) (c :: R ++ P))
    by (change (c :: R ++ P) with ((c :: R) ++ P); apply Permutation_app_tail; exact HP).
  assert (Hnd' : NoDup (c :: R ++ P)) by (eapply Permutation_NoDup; eauto).
  assert (HcP : ~ In c P).
  { inversion Hnd' as [|? ? Hn _]; subst. rewrite in_app_iff in Hn. tauto. }
  assert (Hfresh : forall x, In x (children c) -> In x (F ++ P) -> False).
  { intros x Hx Hold. apply children_parent in Hx.
    destruct (Hpar x Hold) as [E|(p & E & Hp)]; rewrite Hx in E; [discriminate|].
    inversion E; subst. contradiction. }
  unfold WInv; cbn [fst snd]. repeat split.
  - apply (Permutation_NoDup (l := children c ++ (c :: R ++ P))).
    + apply (Permutation_trans (l' := (children c ++ R) ++ c :: P)).
      * rewrite <- app_assoc. apply Permutation_app_head. apply Permutation_middle.
      * apply Permutation_app_tail. apply Permutation_app_comm.
    + apply NoDup_app_intro; [apply children_nodup|exact Hnd'|].
      intros x Hx Hin. apply (Hfresh x Hx).
      apply (Permutation_in _ (Permutation_sym Hperm)). exact Hin.
  - intros x Hx. apply (step_in F P c R x HP) in Hx. destruct Hx as [Hx|Hx]; [|auto].
    apply children_parent, parent_length in Hx. rewrite <- Hx. apply Hlen.
    rewrite in_app_iff; auto.
  - intros x Hx. apply (step_in F P c R x HP) in Hx. destruct Hx as [Hx|Hx].
    + right. exists c. split; [apply children_parent; exact Hx|now left].
    + destruct (Hpar x Hx) as [E|(p & E & Hp)]; [now left|].
      right. exists p. split; [exact E|now right].
  - intros p x [<-|Hp] E; apply (step_in F P _ R x HP).
    + left. apply parent_children. exact E.
    + right. eapply Hcl; eauto.
  - apply (step_in F P c R _ HP). now right.
Qed.

Theorem wreach_inv k s : wreach k s -> WInv k s.
Proof. induction 1; [apply WInv_init|eapply WInv_step; eauto]. Qed.

(** nothing is pushed or popped twice, under any pop order *)
Theorem sched_no_duplicates k F P : wreach k (F, P) -> NoDup (F ++ P).
Proof. intros H. apply (wreach_inv k _ H). Qed.

Theorem sched_arity k F P c : wreach k (F, P) -> In c (F ++ P) -> length c = k.
Proof. intros H. apply (wreach_inv k _ H). Qed.

(** nothing is lost, under any pop order *)
Theorem sched_nothing_lost k F P : wreach k (F, P) ->
  forall c, length c = k -> In c (F ++ P) \/ exists a, anc a c /\ In a F.
Proof.
  intros H. destruct (wreach_inv k _ H) as (Hnd & Hlen & Hpar & Hcl & Hz). cbn [fst snd] in *.
  intros c. remember (tsum c) as n eqn:En. revert c En.
  induction n as [n IH] using lt_wf_ind. intros c En Hc.
  destruct (parent c) as [p|] eqn:E.
  - assert (Hp : length p = k) by (rewrite (parent_length _ _ E); exact Hc).
    assert (Hs : tsum p < n) by (rewrite En, (parent_sum _ _ E); lia).
    destruct (IH (tsum p) Hs p eq_refl Hp) as [Hin|(a & Ha & HaF)].
    + apply in_app_iff in Hin. destruct Hin as [HF|HP].
      * right. exists p. split; [constructor; exact E|exact HF].
      * left. eapply Hcl; eauto.
    + right. exists a. split; [econstructor 2; eauto|exact HaF].
  - left. apply parent_none in E. rewrite Hc in E. rewrite E. exact Hz.
Qed.

(** when the queue empties, every tuple of the arity has been popped, exactly once *)
Theorem sched_exhaustive k P : wreach k ([], P) ->
  NoDup P /\ forall c, In c P <-> length c = k.
Proof.
  intros H. split; [exact (sched_no_duplicates k [] P H)|].
  intros c; split; intros Hc.
  - apply (sched_arity k [] P c H). exact Hc.
  - destruct (sched_nothing_lost k [] P H c Hc) as [Hin|(a & _ & [])]. exact Hin.
Qed.

(** non-vacuity: a concrete out-of-order schedule for arity 2 (pop (0,0), then
    (0,1) before (1,0)) is reachable *)
Example sched_reachable :
  wreach 2 ([[1;0]] ++ children [0;1], [[0;1]; [0;0]]).
Proof.
  eapply wreach_step.
  - eapply wreach_step; [apply wreach_init|].
    apply (wstep_pop [zeros 2] [] (zeros 2) []). reflexivity.
  - cbn. apply (wstep_pop [[1;0];[0;1]] [[0;0]] [0;1] [[1;0]]). apply perm_swap.
Qed.
