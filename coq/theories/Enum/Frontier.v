(** The index-tuple expansion shared by bee search, beap search and
    constant-delay search (bee_search.py:195-211, beap_search.py:170-185,
    constant_delay.py:300-315): from a popped combination [c] push, for
    i = 0, 1, ..., the combination with c_i incremented, and stop after the
    first i whose incremented index exceeds 1.  This file models that scheme
    on tuples of naturals and the breadth-first generation it induces. *)
From Coq Require Import List Arith Lia Bool.
Import ListNotations.

Definition tuple := list nat.

(** successors pushed for combination [c]; [pre] is the (all-zero) prefix already passed *)
Fixpoint children_from (pre : tuple) (c : tuple) : list tuple :=
  match c with
  | [] => []
  | x :: r =>
    (pre ++ S x :: r) :: (if Nat.ltb 1 (S x) then [] else children_from (pre ++ [x]) r)
  end.
Definition children (c : tuple) : list tuple := children_from [] c.

(** decrement the first non-zero coordinate *)
Fixpoint parent (c : tuple) : option tuple :=
  match c with
  | [] => None
  | 0 :: r => match parent r with Some r' => Some (0 :: r') | None => None end
  | S x :: r => Some (x :: r)
  end.

Definition zeros (k : nat) : tuple := repeat 0 k.
Fixpoint tsum (c : tuple) : nat := match c with [] => 0 | x :: r => x + tsum r end.

(** breadth-first levels from the all-zero tuple *)
Fixpoint level (k n : nat) : list tuple :=
  match n with
  | O => [zeros k]
  | S m => flat_map children (level k m)
  end.
