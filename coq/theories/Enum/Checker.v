(** Result checkers for the enumerator properties C02, C03, C12: decision
    procedures run on the implementation's actual output sequence.  Their
    soundness and completeness w.r.t. the declarative specifications is proved
    in Enum/CheckerProofs.v. *)
From Coq Require Import ZArith NArith QArith List Bool Lia.
From PS Require Import Base.ListX Base.Sexp Base.Ty Base.Value Base.Prog Gram.Det.
Import ListNotations.

(** ---- "every program exactly once" ---- *)
Definition check_enum (member : prog -> bool) (n_lang : nat) (out : list prog) : bool :=
  nodupb prog_eqb out && forallb member out && Nat.eqb (length out) n_lang.

(** ---- generic fold of rule tags along the derivation (reduce_derivations) ---- *)
Section Fold.
  Context {A : Type} (op : A -> A -> A).
  Definition atable : Type := list (nt * list (sym * A)).
  Definition tag_of (w : atable) (x : nt) (s : sym) : option A :=
    match alookup nt_eqb x w with Some ws => alookup sym_eqb s ws | None => None end.

  Fixpoint fold_rec (tbl : table) (w : atable) (p : prog) (here : pos) (info : list argnt)
    : option (A * (list argnt * pos)) :=
    match here with
    | End => None
    | At x =>
      match p with
      | PLeaf s =>
        match rule_of tbl x s, tag_of w x s with
        | Some r, Some q => Some (q, derive info r)
        | _, _ => None
        end
      | PFun f args =>
        match rule_of tbl x f, tag_of w x f with
        | Some r, Some q =>
          (fix go (args : list prog) (acc : A * (list argnt * pos)) {struct args} : option (A * (list argnt * pos)) :=
             match args with
             | [] => Some acc
             | a :: ar =>
               match fold_rec tbl w a (snd (snd acc)) (fst (snd acc)) with
               | Some (qa, st') => go ar (op (fst acc) qa, st')
               | None => None
               end
             end) args (q, derive info r)
        | _, _ => None
        end
      end
    end.

  Definition fold_prog (tbl : table) (w : atable) (start : nt) (p : prog) : option A :=
    match fold_rec tbl w p (At start) [] with Some (q, _) => Some q | None => None end.
End Fold.

(** ---- order checks ---- *)
(** consecutive elements related by [r] *)
Fixpoint chain {K} (r : K -> K -> bool) (l : list K) : bool :=
  match l with
  | [] => true
  | a :: t => match t with [] => true | b :: _ => r a b && chain r t end
  end.

(** every element is at least the running maximum minus [slack] *)
Fixpoint slack_sorted (slack : Z) (cur_max : option Z) (l : list Z) : bool :=
  match l with
  | [] => true
  | c :: t =>
    match cur_max with
    | None => slack_sorted slack (Some c) t
    | Some m => Z.leb m (c + slack) && slack_sorted slack (Some (Z.max m c)) t
    end
  end.

(** probability non-increasing up to a relative tolerance eps: b <= a * (1 + eps) *)
Definition q_ge_tol (eps : Q) (a b : Q) : bool := Qle_bool b (a * (1 + eps)).

(** lexicographic order on vectors of the same length *)
Fixpoint lex_le (a b : list Z) : bool :=
  match a, b with
  | [], _ => true
  | _, [] => true
  | x :: ar, y :: br => if Z.ltb x y then true else if Z.ltb y x then false else lex_le ar br
  end.

Fixpoint vec_add (a b : list Z) : list Z :=
  match a, b with
  | x :: ar, y :: br => (x + y)%Z :: vec_add ar br
  | [], _ => b
  | _, [] => a
  end.

(** ---- filters and merges (C12) ---- *)
(** complete sub-terms of a program (the objects the enumerators hand to the filter) *)
Fixpoint subterms (p : prog) : list prog :=
  match p with
  | PLeaf _ => [p]
  | PFun _ args => p :: flat_map subterms args
  end.

Definition accepted (rejected : list prog) (p : prog) : bool := negb (memb prog_eqb p rejected).
Definition hereditarily (rejected : list prog) (p : prog) : bool := forallb (accepted rejected) (subterms p).

(** sandwich specification of a filtered enumeration against the language list L *)
Definition check_filtered (member : prog -> bool) (L : list prog) (rejected : list prog) (out : list prog) : bool :=
  nodupb prog_eqb out
  && forallb (fun p => member p && accepted rejected p) out
  && forallb (fun p => negb (hereditarily rejected p) || memb prog_eqb p out) L.

Definition contains_sub (p o : prog) : bool := memb prog_eqb o (subterms p).

(** Merge histories: [out] with, for each merge, the number of programs yielded
    before it was declared and the merged program. *)
Fixpoint check_merged_prefix (merges : list (nat * prog)) (k : nat) (out : list prog) : bool :=
  match out with
  | [] => true
  | p :: t =>
    forallb (fun m : nat * prog => negb (Nat.leb (fst m) k) || negb (contains_sub p (snd m))) merges
    && check_merged_prefix merges (S k) t
  end.

Definition check_merged (member : prog -> bool) (L : list prog) (merges : list (nat * prog)) (out : list prog) : bool :=
  nodupb prog_eqb out
  && forallb member out
  && check_merged_prefix merges 0 out
  && forallb (fun p => memb prog_eqb p out || existsb (fun m : nat * prog => contains_sub p (snd m)) merges) L.

(** Membership test handed to the checkers by the glue: a member of the
    grammar, built without empty application nodes, of depth within the fuel
    used to enumerate the language list. *)
Definition member_of (fuel : nat) (tbl : table) (x : nt) (p : prog) : bool :=
  contains tbl x p && normal p && Nat.leb (pdepth p) fuel.

(** The same sandwich check for an arbitrary deterministic filter [acc]. *)
Definition check_filtered_gen (member : prog -> bool) (L : list prog) (acc : prog -> bool) (out : list prog) : bool :=
  nodupb prog_eqb out
  && forallb (fun p => member p && acc p) out
  && forallb (fun p => negb (forallb acc (subterms p)) || memb prog_eqb p out) L.
