(** Soundness and completeness of the result checkers of Enum/Checker.v. *)
From Coq Require Import ZArith NArith QArith List Bool Lia Permutation Sorted Setoid Relations.
From PS Require Import Base.ListX Base.Sexp Base.Ty Base.Value Base.Prog Gram.Det Enum.Checker.
Import ListNotations.

(** ---- every program exactly once ---- *)
Section Enum.
  Variable member : prog -> bool.
  Variable L : list prog.
  Hypothesis L_nodup : NoDup L.
  Hypothesis L_members : forall p, In p L <-> member p = true.

  Lemma check_enum_spec out : check_enum member (length L) out = true <-> Permutation out L.
  Proof.
    unfold check_enum. rewrite !andb_true_iff, (nodupb_spec prog_eqb prog_eqb_spec), forallb_forall, Nat.eqb_eq.
    split.
    - intros [[Hnd Hall] Hlen].
      apply NoDup_Permutation_bis; auto.
      + lia.
      + intros p Hp. apply L_members, Hall, Hp.
    - intros HP. repeat split.
      + eapply Permutation_NoDup; [apply Permutation_sym; exact HP|exact L_nodup].
      + intros p Hp. apply L_members. eapply Permutation_in; eauto.
      + apply Permutation_length; auto.
  Qed.

  (** nothing outside the language, nothing twice, nothing missing *)
  Corollary check_enum_exactly_once out :
    check_enum member (length L) out = true <->
    NoDup out /\ (forall p, In p out <-> member p = true).
  Proof.
    rewrite check_enum_spec. split.
    - intros HP. split.
      + eapply Permutation_NoDup; [apply Permutation_sym; exact HP|exact L_nodup].
      + intros p. rewrite <- L_members. split; intros H.
        * eapply Permutation_in; [exact HP|exact H].
        * eapply Permutation_in; [apply Permutation_sym; exact HP|exact H].
    - intros [Hnd Hiff]. apply NoDup_Permutation; auto. intros p. rewrite Hiff, L_members. tauto.
  Qed.
End Enum.

(** ---- order ---- *)
Lemma chain_Sorted {K} (r : K -> K -> bool) l : chain r l = true <-> Sorted (fun a b => r a b = true) l.
Proof.
  induction l as [|a t IH]; cbn [chain].
  - split; auto.
  - destruct t as [|b t'].
    + split; auto.
    + rewrite andb_true_iff, IH. split.
      * intros [Hab Hs]. constructor; auto.
      * intros Hs. inversion Hs as [|? ? Hs' Hhd]; subst. inversion Hhd; subst. auto.
Qed.

Lemma chain_StronglySorted {K} (r : K -> K -> bool) l :
  (forall a b c, In a l -> In b l -> In c l -> r a b = true -> r b c = true -> r a c = true) ->
  chain r l = true <-> StronglySorted (fun a b => r a b = true) l.
Proof.
  intros Htr. split.
  - induction l as [|a t IH]; intros Hc; [constructor|].
    assert (Ht : chain r t = true).
    { cbn [chain] in Hc. destruct t; auto. apply andb_true_iff in Hc; tauto. }
    assert (IH' := IH (fun x y z Hx Hy Hz => Htr x y z (or_intror Hx) (or_intror Hy) (or_intror Hz)) Ht).
    constructor; auto.
    destruct t as [|b t']; [constructor|].
    cbn [chain] in Hc. apply andb_true_iff in Hc. destruct Hc as [Hab _].
    constructor; auto.
    inversion IH' as [|? ? _ Hall]; subst.
    rewrite Forall_forall in *. intros c Hc. apply (Htr a b c); cbn; auto.
  - intros Hs. apply chain_Sorted. apply StronglySorted_Sorted; auto.
Qed.

(** non-increasing exact probabilities *)
Definition q_ge (a b : Q) : bool := Qle_bool b a.
Lemma q_ge_trans a b c : q_ge a b = true -> q_ge b c = true -> q_ge a c = true.
Proof. unfold q_ge; rewrite !Qle_bool_iff. intros H1 H2. eapply Qle_trans; eauto. Qed.

Lemma sorted_probabilities (l : list Q) :
  chain q_ge l = true <-> StronglySorted (fun a b => (b <= a)%Q) l.
Proof.
  rewrite chain_StronglySorted by (intros a b c _ _ _; apply q_ge_trans).
  split; intros H; induction H; constructor; auto;
    rewrite Forall_forall in *; intros x Hx; specialize (H0 x Hx); unfold q_ge in *;
    rewrite Qle_bool_iff in *; auto.
Qed.

Lemma q_ge_tol_zero a b : q_ge_tol 0 a b = q_ge a b.
Proof.
  unfold q_ge_tol, q_ge.
  destruct (Qle_bool b a) eqn:E.
  - rewrite Qle_bool_iff in *. setoid_replace (a * (1 + 0))%Q with a by ring. auto.
  - destruct (Qle_bool b (a * (1 + 0))) eqn:E2; auto.
    rewrite Qle_bool_iff in E2. setoid_replace (a * (1 + 0))%Q with a in E2 by ring.
    rewrite <- Qle_bool_iff in E2. congruence.
Qed.

(** integer costs: every element within [slack] of everything before it *)
Lemma slack_sorted_spec_gen slack l : forall m,
  slack_sorted slack (Some m) l = true <->
  Forall (fun b => (m <= b + slack)%Z) l /\ ForallOrdPairs (fun a b => (a <= b + slack)%Z) l.
Proof.
  induction l as [|c t IH]; intros m; cbn [slack_sorted].
  - split; [intros _; split; constructor|auto].
  - rewrite andb_true_iff, Z.leb_le, IH. split.
    + intros [Hmc [Hall Hpairs]]. split.
      * constructor; auto. rewrite Forall_forall in *. intros b Hb. specialize (Hall b Hb). lia.
      * constructor; auto. rewrite Forall_forall in *. intros b Hb. specialize (Hall b Hb). lia.
    + intros [Hall Hpairs]. inversion Hall as [|? ? Hmc Hall']; subst.
      inversion Hpairs as [|? ? Hc Hp']; subst. repeat split; auto.
      rewrite Forall_forall in *. intros b Hb. specialize (Hall' b Hb). specialize (Hc b Hb). lia.
Qed.

Lemma slack_sorted_spec slack l :
  slack_sorted slack None l = true <-> ForallOrdPairs (fun a b => (a <= b + slack)%Z) l.
Proof.
  destruct l as [|c t]; cbn [slack_sorted].
  - split; [constructor|auto].
  - rewrite slack_sorted_spec_gen. split.
    + intros [H1 H2]; constructor; auto.
    + intros H; inversion H; subst; auto.
Qed.

(** lexicographic order on bucket tuples of one length *)
Lemma lex_le_refl a : lex_le a a = true.
Proof. induction a as [|x r IH]; cbn; auto. rewrite Z.ltb_irrefl; auto. Qed.

Lemma lex_le_trans : forall a b c, length a = length b -> length b = length c ->
  lex_le a b = true -> lex_le b c = true -> lex_le a c = true.
Proof.
  induction a as [|x ar IH]; intros [|y br] [|z cr] Hl1 Hl2 H1 H2; cbn in *; try discriminate; auto.
  destruct (Z.ltb_spec x y), (Z.ltb_spec y x), (Z.ltb_spec y z), (Z.ltb_spec z y), (Z.ltb_spec x z), (Z.ltb_spec z x);
    try lia; try discriminate; auto.
  all: apply (IH br cr); auto; lia.
Qed.

Lemma lex_le_total : forall a b, lex_le a b = true \/ lex_le b a = true.
Proof.
  induction a as [|x ar IH]; intros [|y br]; cbn; auto.
  destruct (Z.ltb_spec x y), (Z.ltb_spec y x); try lia; auto.
Qed.

Lemma sorted_buckets n (l : list (list Z)) :
  Forall (fun v => length v = n) l ->
  chain lex_le l = true <-> StronglySorted (fun a b => lex_le a b = true) l.
Proof.
  intros Hlen. apply chain_StronglySorted. rewrite Forall_forall in Hlen.
  intros a b c Ha Hb Hc. apply lex_le_trans; rewrite ?(Hlen _ Ha), ?(Hlen _ Hb), ?(Hlen _ Hc); auto.
Qed.

(** ---- prefix completeness (the "consequently" clause of C03) ---- *)
Lemma StronglySorted_app_inv {K} (R : K -> K -> Prop) l1 l2 :
  StronglySorted R (l1 ++ l2) -> forall a b, In a l1 -> In b l2 -> R a b.
Proof.
  induction l1 as [|x r IH]; intros Hs a b Ha Hb; [destruct Ha|].
  cbn in Hs. inversion Hs as [|? ? Hs' Hall]; subst. destruct Ha as [<-|Ha].
  - rewrite Forall_forall in Hall. apply Hall, in_or_app; auto.
  - eapply IH; eauto.
Qed.

Lemma prefix_complete {X} (key : X -> Q) (out : list X) :
  StronglySorted (fun a b => (key b <= key a)%Q) out ->
  forall n p q, In p (firstn n out) -> In q out -> (key p < key q)%Q -> In q (firstn n out).
Proof.
  intros Hs n p q Hp Hq Hlt.
  rewrite <- (firstn_skipn n out) in Hq, Hs. apply in_app_or in Hq. destruct Hq as [Hq|Hq]; auto.
  exfalso. pose proof (StronglySorted_app_inv _ _ _ Hs p q Hp Hq) as Hle. cbn in Hle.
  apply (Qlt_irrefl (key p)). eapply Qlt_le_trans; eauto.
Qed.

(** ---- filters ---- *)
Lemma check_filtered_spec member L rejected out :
  check_filtered member L rejected out = true <->
  NoDup out
  /\ (forall p, In p out -> member p = true /\ accepted rejected p = true)
  /\ (forall p, In p L -> hereditarily rejected p = true -> In p out).
Proof.
  unfold check_filtered.
  rewrite !andb_true_iff, (nodupb_spec prog_eqb prog_eqb_spec), !forallb_forall.
  split.
  - intros [[Hnd Hacc] Hcomp]. repeat split; auto.
    + apply Hacc in H. apply andb_true_iff in H; tauto.
    + apply Hacc in H. apply andb_true_iff in H; tauto.
    + intros p Hp Hh. specialize (Hcomp p Hp). rewrite Hh in Hcomp. cbn in Hcomp.
      apply (memb_spec prog_eqb prog_eqb_spec); auto.
  - intros [Hnd [Hacc Hcomp]]. repeat split; auto.
    + intros p Hp. destruct (Hacc p Hp) as [-> ->]; auto.
    + intros p Hp. destruct (hereditarily rejected p) eqn:Hh; auto. cbn.
      apply (memb_spec prog_eqb prog_eqb_spec); auto.
Qed.

(** For a filter closed under sub-programs on the language, the sandwich is
    exactly the accepted part of the language. *)
Lemma check_filtered_closed member L rejected out :
  NoDup L -> (forall p, In p L <-> member p = true) ->
  (forall p, In p L -> accepted rejected p = true -> hereditarily rejected p = true) ->
  check_filtered member L rejected out = true <-> Permutation out (filter (accepted rejected) L).
Proof.
  intros HndL HL Hclosed. rewrite check_filtered_spec. split.
  - intros [Hnd [Hacc Hcomp]]. apply NoDup_Permutation; auto using NoDup_filter.
    intros p. rewrite filter_In. split.
    + intros Hp. destruct (Hacc p Hp) as [Hm Ha]. split; auto. apply HL; auto.
    + intros [Hp Ha]. apply Hcomp; auto.
  - intros HP. split; [|split].
    + eapply Permutation_NoDup; [apply Permutation_sym; exact HP|apply NoDup_filter; auto].
    + intros p Hp. pose proof (Permutation_in p HP Hp) as Hf. apply filter_In in Hf.
      destruct Hf as [HpL Ha]. split; auto. apply HL; auto.
    + intros p Hp Hh. eapply Permutation_in; [apply Permutation_sym; exact HP|].
      apply filter_In; split; auto. unfold hereditarily in Hh. rewrite forallb_forall in Hh.
      apply Hh. destruct p; cbn; auto.
Qed.

(** ---- merges ---- *)
Lemma check_merged_prefix_spec merges out : forall k,
  check_merged_prefix merges k out = true <->
  forall i p, nth_error out i = Some p ->
    forall t o, In (t, o) merges -> (t <= k + i)%nat -> contains_sub p o = false.
Proof.
  induction out as [|q r IH]; intros k; cbn [check_merged_prefix].
  - split; auto. intros _ [|i] p H; discriminate.
  - rewrite andb_true_iff, forallb_forall, IH. split.
    + intros [Hq Hr] [|i] p Hn t o Hm Hle; cbn in Hn.
      * inversion Hn; subst p. specialize (Hq (t, o) Hm). cbn in Hq.
        apply orb_true_iff in Hq. destruct Hq as [Hq|Hq].
        -- apply negb_true_iff, Nat.leb_gt in Hq. lia.
        -- apply negb_true_iff in Hq; auto.
      * apply (Hr i p Hn t o Hm). lia.
    + intros H. split.
      * intros [t o] Hm. cbn. destruct (Nat.leb_spec t k); cbn; auto.
        rewrite (H 0%nat q eq_refl t o Hm); auto. lia.
      * intros i p Hn t o Hm Hle. apply (H (S i) p Hn t o Hm). lia.
Qed.

Lemma check_merged_spec member L merges out :
  check_merged member L merges out = true <->
  NoDup out
  /\ (forall p, In p out -> member p = true)
  /\ (forall i p, nth_error out i = Some p -> forall t o, In (t, o) merges -> (t <= i)%nat -> contains_sub p o = false)
  /\ (forall p, In p L -> In p out \/ exists t o, In (t, o) merges /\ contains_sub p o = true).
Proof.
  unfold check_merged.
  rewrite !andb_true_iff, (nodupb_spec prog_eqb prog_eqb_spec), !forallb_forall, check_merged_prefix_spec.
  split.
  - intros [[[Hnd Hm] Hp] Hc]. repeat split; auto.
    intros p Hp'. specialize (Hc p Hp'). apply orb_true_iff in Hc. destruct Hc as [Hc|Hc].
    + left. apply (memb_spec prog_eqb prog_eqb_spec); auto.
    + right. apply existsb_exists in Hc. destruct Hc as [[t o] [Hin Hs]]. exists t, o; auto.
  - intros [Hnd [Hm [Hp Hc]]]. repeat split; auto.
    intros p Hp'. apply orb_true_iff. destruct (Hc p Hp') as [Hin|[t [o [Hin Hs]]]].
    + left. apply (memb_spec prog_eqb prog_eqb_spec); auto.
    + right. apply existsb_exists. exists (t, o); auto.
Qed.

(** ---- the language list the glue hands to the checkers ---- *)
From PS Require Import Gram.DetProofs.

Lemma language_list_ok tbl f x : table_ok tbl = true ->
  NoDup (language f tbl x) /\ forall p, In p (language f tbl x) <-> member_of f tbl x p = true.
Proof.
  intros Hok. split; [apply language_NoDup; auto|].
  intros p. rewrite (language_spec tbl f x p Hok). unfold member_of.
  rewrite !andb_true_iff, Nat.leb_le. tauto.
Qed.

Theorem enumeration_decided tbl f x out : table_ok tbl = true ->
  check_enum (member_of f tbl x) (length (language f tbl x)) out = true <-> Permutation out (language f tbl x).
Proof.
  intros Hok. destruct (language_list_ok tbl f x Hok) as [Hnd Hm].
  apply check_enum_spec; auto.
Qed.

(** ---- arbitrary deterministic filters ---- *)
Lemma check_filtered_is_gen member L rejected out :
  check_filtered member L rejected out = check_filtered_gen member L (accepted rejected) out.
Proof. reflexivity. Qed.

Lemma check_filtered_gen_spec member L acc out :
  check_filtered_gen member L acc out = true <->
  NoDup out
  /\ (forall p, In p out -> member p = true /\ acc p = true)
  /\ (forall p, In p L -> forallb acc (subterms p) = true -> In p out).
Proof.
  unfold check_filtered_gen.
  rewrite !andb_true_iff, (nodupb_spec prog_eqb prog_eqb_spec), !forallb_forall.
  split.
  - intros [[Hnd Hacc] Hcomp]. repeat split; auto.
    + apply Hacc in H. apply andb_true_iff in H; tauto.
    + apply Hacc in H. apply andb_true_iff in H; tauto.
    + intros p Hp Hh. specialize (Hcomp p Hp). rewrite Hh in Hcomp. cbn in Hcomp.
      apply (memb_spec prog_eqb prog_eqb_spec); auto.
  - intros [Hnd [Hacc Hcomp]]. repeat split; auto.
    + intros p Hp. destruct (Hacc p Hp) as [-> ->]; auto.
    + intros p Hp. destruct (forallb acc (subterms p)) eqn:Hh; auto. cbn.
      apply (memb_spec prog_eqb prog_eqb_spec); auto.
Qed.
