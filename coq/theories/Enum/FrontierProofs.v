(** The frontier expansion generates every index tuple exactly once. *)
From Coq Require Import List Arith Lia Bool.
From PS Require Import Enum.Frontier.
Import ListNotations.

Lemma NoDup_app_intro {X} (l1 l2 : list X) :
  NoDup l1 -> NoDup l2 -> (forall x, In x l1 -> In x l2 -> False) -> NoDup (l1 ++ l2).
Proof.
  induction l1 as [|a r IH]; intros H1 H2 Hd; cbn; auto.
  inversion H1; subst. constructor.
  - rewrite in_app_iff. intros [H|H]; [contradiction|]. apply (Hd a); cbn; auto.
  - apply IH; auto. intros x Hx1 Hx2. apply (Hd x); cbn; auto.
Qed.

Lemma parent_zeros_app k x r : parent (zeros k ++ S x :: r) = Some (zeros k ++ x :: r).
Proof. induction k as [|k IH]; cbn; auto. fold (zeros k). rewrite IH; auto. Qed.

Lemma zeros_snoc k : zeros k ++ [0] = zeros (S k).
Proof. induction k as [|k IH]; cbn; auto. fold (zeros k). unfold zeros in *. cbn. rewrite IH; auto. Qed.

(** every pushed successor has the popped combination as its parent *)
Lemma children_from_parent k c c' :
  In c' (children_from (zeros k) c) -> parent c' = Some (zeros k ++ c).
Proof.
  revert k. induction c as [|x r IH]; intros k H; cbn in H; [tauto|].
  destruct H as [<-|H].
  - apply parent_zeros_app.
  - destruct x as [|x]; cbn in H; [|tauto].
    rewrite zeros_snoc in H. apply IH in H. rewrite H.
    rewrite <- zeros_snoc, <- app_assoc. reflexivity.
Qed.

Theorem children_parent c c' : In c' (children c) -> parent c' = Some c.
Proof. intros H. apply (children_from_parent 0) in H. exact H. Qed.

(** conversely the parent pushes it *)
Lemma parent_children_from k c c' :
  parent c' = Some c -> In (zeros k ++ c') (children_from (zeros k) c).
Proof.
  revert k c. induction c' as [|x r IH]; intros k c H; cbn in H; [discriminate|].
  destruct x as [|x].
  - destruct (parent r) as [r'|] eqn:E; [|discriminate]. inversion H; subst c. clear H.
    cbn. right. rewrite zeros_snoc.
    specialize (IH (S k) r' eq_refl).
    assert (E2 : zeros (S k) ++ r = zeros k ++ 0 :: r) by (rewrite <- zeros_snoc, <- app_assoc; reflexivity).
    rewrite E2 in IH. exact IH.
  - inversion H; subst c. cbn. left. reflexivity.
Qed.

Theorem parent_children c c' : parent c' = Some c -> In c' (children c).
Proof. intros H. apply (parent_children_from 0) in H. exact H. Qed.

Lemma parent_length c c' : parent c' = Some c -> length c = length c'.
Proof.
  revert c. induction c' as [|x r IH]; intros c H; cbn in H; [discriminate|].
  destruct x.
  - destruct (parent r) eqn:E; [|discriminate]. inversion H; subst. cbn. f_equal. auto.
  - inversion H; subst; reflexivity.
Qed.

Lemma parent_sum c c' : parent c' = Some c -> tsum c' = S (tsum c).
Proof.
  revert c. induction c' as [|x r IH]; intros c H; cbn in H; [discriminate|].
  destruct x.
  - destruct (parent r) eqn:E; [|discriminate]. inversion H; subst. cbn. auto.
  - inversion H; subst; reflexivity.
Qed.

Lemma parent_none c : parent c = None <-> c = zeros (length c).
Proof.
  induction c as [|x r IH]; cbn; [split; auto|]. destruct x.
  - destruct (parent r) eqn:E.
    + split; [discriminate|]. intros H. inversion H as [H1]. apply IH in H1. discriminate.
    + split; auto. intros _. f_equal. apply IH; auto.
  - split; discriminate.
Qed.

Lemma tsum_zero c : tsum c = 0 -> c = zeros (length c).
Proof. induction c as [|x r IH]; cbn; auto. intros H. assert (x = 0) by lia. subst. f_equal. apply IH; lia. Qed.

(** no successor is pushed twice by one combination *)
Lemma children_from_nodup pre c : NoDup (children_from pre c).
Proof.
  revert pre. induction c as [|x r IH]; intros pre; cbn; [constructor|].
  constructor.
  - destruct x; cbn; [|tauto]. intros H.
    assert (Hx : forall q l, In l (children_from (pre ++ 0 :: q) r) -> nth (length pre) l 1 = 0).
    { clear. revert pre. induction r as [|y r IH]; intros pre q l H; [destruct H|].
      cbn [children_from] in H. destruct H as [<-|H].
      - rewrite <- app_assoc. cbn. rewrite app_nth2 by lia. rewrite Nat.sub_diag. reflexivity.
      - destruct y as [|y]; [|destruct H]. cbn [Nat.ltb Nat.leb] in H.
        rewrite <- app_assoc in H. cbn [app] in H. eapply IH; eauto. }
    specialize (Hx [] _ H). rewrite app_nth2 in Hx by lia. rewrite Nat.sub_diag in Hx. cbn in Hx. discriminate.
  - destruct x; [apply IH|constructor].
Qed.

Theorem children_nodup c : NoDup (children c).
Proof. apply children_from_nodup. Qed.

(** the breadth-first levels: level n is exactly the set of k-tuples of sum n, without repetition *)
Theorem level_complete k n c : In c (level k n) <-> length c = k /\ tsum c = n.
Proof.
  revert c. induction n as [|n IH]; intros c; cbn [level].
  - split.
    + intros [<-|[]]. unfold zeros. rewrite repeat_length. split; auto. induction k; cbn; auto.
    + intros [Hl Hs]. left. rewrite (tsum_zero c Hs), Hl. reflexivity.
  - rewrite in_flat_map. split.
    + intros [p [Hp Hc]]. apply children_parent in Hc. apply IH in Hp. destruct Hp as [Hl Hs].
      rewrite <- (parent_length _ _ Hc), (parent_sum _ _ Hc). split; lia.
    + intros [Hl Hs]. destruct (parent c) as [p|] eqn:E.
      * exists p. split; [|apply parent_children; auto]. apply IH.
        rewrite (parent_length _ _ E). pose proof (parent_sum _ _ E). split; lia.
      * apply parent_none in E. rewrite E in Hs. exfalso. clear -Hs. unfold zeros in Hs.
        induction (length c); cbn in Hs; lia.
Qed.

Theorem level_nodup k n : NoDup (level k n).
Proof.
  induction n as [|n IH]; cbn [level]; [repeat constructor; tauto|].
  (* flat_map of duplicate-free child lists over a duplicate-free level, children of different parents differ *)
  induction (level k n) as [|p ps IHps]; cbn; [constructor|].
  inversion IH as [|? ? Hnotin Hnd]; subst.
  apply NoDup_app_intro.
  - apply children_nodup.
  - apply IHps; auto.
  - intros c Hc1 Hc2. apply in_flat_map in Hc2. destruct Hc2 as [q [Hq Hc2]].
    apply children_parent in Hc1. apply children_parent in Hc2. rewrite Hc1 in Hc2. inversion Hc2; subst. contradiction.
Qed.
